(* C04 — Derivatives are exact on low-degree polynomials, linear, and blind across gaps.
   Statements only; K is an arbitrary field (FLaws K), so every statement holds in particular
   for all real field values (instance ROps) and is executed at Qc by the correspondence. *)
From Coq Require Import Qcanon Reals.
From DF Require Import Prelude FieldK NDArray Diff C04_proofs C04_linear C04_ring C04_uniform C04_witness C04_shift Check_C04 CheckSound C04_sound.

(* --- runs: each maximal run of valid cells is differentiated on its own --- *)
Theorem C04_whole_valid_line_is_one_run : forall (K : FOps) order h (r : list K),
  sdc K order h r (repeat true (length r)) = d_run K order r h.
Proof. exact sdc_all_valid. Qed.
Print Assumptions C04_whole_valid_line_is_one_run.

Theorem C04_invalid_cell_zero_and_separates : forall (K : FOps) order h pv pm x vs bs,
  length pv = length pm ->
  sdc K order h (pv ++ x :: vs) (pm ++ false :: bs)
  = sdc K order h pv pm ++ f0 K :: sdc K order h vs bs.
Proof. exact sdc_false_split. Qed.
Print Assumptions C04_invalid_cell_zero_and_separates.

(* run locality: the block of a maximal run is d_run of that run, whatever lies outside it *)
Theorem C04_run_locality : forall (K : FOps) order h pv pm x r y qv qm,
  length pv = length pm ->
  sdc K order h (pv ++ x :: r ++ y :: qv) (pm ++ false :: repeat true (length r) ++ false :: qm)
  = sdc K order h pv pm ++ f0 K :: d_run K order r h ++ f0 K :: sdc K order h qv qm.
Proof. exact sdc_run_block. Qed.
Print Assumptions C04_run_locality.

Theorem C04_run_at_start : forall (K : FOps) order h r y qv qm,
  sdc K order h (r ++ y :: qv) (repeat true (length r) ++ false :: qm)
  = d_run K order r h ++ f0 K :: sdc K order h qv qm.
Proof. exact sdc_run_at_start. Qed.
Print Assumptions C04_run_at_start.

Theorem C04_run_at_end : forall (K : FOps) order h pv pm x r,
  length pv = length pm ->
  sdc K order h (pv ++ x :: r) (pm ++ false :: repeat true (length r))
  = sdc K order h pv pm ++ f0 K :: d_run K order r h.
Proof. exact sdc_run_at_end. Qed.
Print Assumptions C04_run_at_end.

Theorem C04_short_run_zero : forall (K : FOps) order (r : list K) h,
  (length r <= order)%nat -> d_run K order r h = map (fun _ => f0 K) r.
Proof. exact d_run_short. Qed.
Print Assumptions C04_short_run_zero.

Theorem C04_unrestricted_is_one_run : forall (K : FOps) order h (vals : list K) valid,
  length vals = length valid ->
  diff_line K order h false false vals valid = d_run K order vals h.
Proof. exact diff_line_unrestricted. Qed.
Print Assumptions C04_unrestricted_is_one_run.

Theorem C04_result_length : forall (K : FOps) order h (vals : list K) valid,
  length vals = length valid -> length (sdc K order h vals valid) = length vals.
Proof. exact sdc_length. Qed.
Print Assumptions C04_result_length.

(* --- exactness, for EVERY run length and position --- *)
Theorem C04_exact_first_derivative_quadratic : forall (K : FOps), FLaws K -> f2 K <> f0 K ->
  forall c0 c1 c2 x0 h (a : list K),
  h <> f0 K -> (3 <= length a)%nat ->
  (forall j, (j < length a)%nat ->
     nth j a (f0 K) = quad K c0 c1 c2 (fadd x0 (fmul (fnat K j) h))) ->
  forall j, (j < length a)%nat ->
    d1_at K a h j = fadd c1 (fmul (fmul (f2 K) c2) (fadd x0 (fmul (fnat K j) h))).
Proof. exact d1_exact_quadratic. Qed.
Print Assumptions C04_exact_first_derivative_quadratic.

Theorem C04_exact_first_derivative_two_cells : forall (K : FOps), FLaws K ->
  forall c0 c1 x0 h (a : list K),
  h <> f0 K -> length a = 2%nat ->
  (forall j, (j < 2)%nat -> nth j a (f0 K) = fadd c0 (fmul c1 (fadd x0 (fmul (fnat K j) h)))) ->
  forall j, (j < 2)%nat -> d1_at K a h j = c1.
Proof. exact d1_exact_linear_two. Qed.
Print Assumptions C04_exact_first_derivative_two_cells.

Theorem C04_exact_second_derivative_cubic : forall (K : FOps), FLaws K ->
  forall c0 c1 c2 c3 x0 h (a : list K),
  h <> f0 K -> (4 <= length a)%nat ->
  (forall j, (j < length a)%nat ->
     nth j a (f0 K) = cubic K c0 c1 c2 c3 (fadd x0 (fmul (fnat K j) h))) ->
  forall j, (j < length a)%nat ->
    d2_at K a h j = fadd (fmul (f2 K) c2)
                         (fmul (fmul (fadd (fadd (f2 K) (f2 K)) (f2 K)) c3) (fadd x0 (fmul (fnat K j) h))).
Proof. exact d2_exact_cubic. Qed.
Print Assumptions C04_exact_second_derivative_cubic.

Theorem C04_exact_second_derivative_three_cells : forall (K : FOps), FLaws K ->
  forall c0 c1 c2 x0 h (a : list K),
  h <> f0 K -> length a = 3%nat ->
  (forall j, (j < 3)%nat -> nth j a (f0 K) = quad K c0 c1 c2 (fadd x0 (fmul (fnat K j) h))) ->
  forall j, (j < 3)%nat -> d2_at K a h j = fmul (f2 K) c2.
Proof. exact d2_exact_quadratic_three. Qed.
Print Assumptions C04_exact_second_derivative_three_cells.

(* what d_run stores in a run longer than the order is that stencil value *)
Theorem C04_run_values_order1 : forall (K : FOps) (a : list K) h j,
  (2 <= length a)%nat -> (j < length a)%nat -> nth j (d_run K 1 a h) (f0 K) = d1_at K a h j.
Proof. exact d_run_nth1. Qed.
Print Assumptions C04_run_values_order1.
Theorem C04_run_values_order2 : forall (K : FOps) (a : list K) h j,
  (3 <= length a)%nat -> (j < length a)%nat -> nth j (d_run K 2 a h) (f0 K) = d2_at K a h j.
Proof. exact d_run_nth2. Qed.
Print Assumptions C04_run_values_order2.

(* --- linearity in the field values (validity fixed) --- *)
Theorem C04_linear : forall (K : FOps), FLaws K -> forall order h a b (u w : list K) valid,
  length u = length w -> length u = length valid ->
  sdc K order h (lin K a b u w) valid = lin K a b (sdc K order h u valid) (sdc K order h w valid).
Proof. exact sdc_lin. Qed.
Print Assumptions C04_linear.

(* --- a uniform line has zero derivative in every cell, whatever the validity pattern and run lengths
   (the coefficient sums of the source-derived stencil tuples vanish) --- *)
Theorem C04_uniform_zero : forall (K : FOps), FLaws K -> forall order c h (vals : list K) valid,
  (order = 1 \/ order = 2)%nat -> all_eq K c vals -> length vals = length valid ->
  sdc K order h vals valid = map (fun _ => f0 K) vals.
Proof. exact sdc_const. Qed.
Print Assumptions C04_uniform_zero.

(* --- each grid line and component on its own (n-d lift) --- *)
Theorem C04_per_line_per_component : forall (K : FOps) sh nvdim ax order h periodic restrict f valid i,
  diff_nd K sh nvdim ax order h periodic restrict f valid i
  = nth (nth ax i 0%nat)
        (diff_line K order h periodic restrict (line (sh ++ [nvdim]) f ax i) (line sh valid ax (removelast i)))
        (f0 K).
Proof. reflexivity. Qed.
Print Assumptions C04_per_line_per_component.

(* --- periodic direction, fully valid: centred difference with wrap-around, any length >= 1 --- *)
Theorem C04_ring_first_derivative : forall (K : FOps) h (u : list K) j,
  (j < length u)%nat ->
  nth j (diff_line K 1 h true true u (repeat true (length u))) (f0 K)
  = fdiv (fsub (nth ((j + 1) mod length u) u (f0 K)) (nth ((j + length u - 1) mod length u) u (f0 K)))
         (fmul (f2 K) h).
Proof. exact ring_first_derivative. Qed.
Print Assumptions C04_ring_first_derivative.

Theorem C04_ring_second_derivative : forall (K : FOps), FLaws K -> forall h (u : list K) j,
  (j < length u)%nat ->
  nth j (diff_line K 2 h true true u (repeat true (length u))) (f0 K)
  = fdiv (fadd (fsub (nth ((j + length u - 1) mod length u) u (f0 K)) (fmul (f2 K) (nth j u (f0 K))))
               (nth ((j + 1) mod length u) u (f0 K)))
         (fmul h h).
Proof. exact ring_second_derivative. Qed.
Print Assumptions C04_ring_second_derivative.

(* ... hence the derivative of a fully valid periodic line commutes with every cyclic shift
   (roll k = numpy.roll), for every length, both orders *)
Theorem C04_ring_shift_commutes : forall (K : FOps), FLaws K -> forall order h (u : list K) k,
  (order = 1 \/ order = 2)%nat ->
  diff_line K order h true true (roll k u) (repeat true (length (roll k u)))
  = roll k (diff_line K order h true true u (repeat true (length u))).
Proof. exact ring_shift_commutes. Qed.
Print Assumptions C04_ring_shift_commutes.

(* the full ring statement (shift invariance for EVERY validity pattern) is false of the faithful model:
   known finding C04-periodic-masked-seam; the witness is replayed on the implementation by the harness *)
Theorem C04_ring_masked_refuted :
  exists (u : list Qc) (v : list bool) (k : nat),
    length u = length v /\
    qclist_eqb (diff_line QcOps 1 (qc 1) true true (roll k u) (roll k v))
               (roll k (diff_line QcOps 1 (qc 1) true true u v)) = false.
Proof. exact masked_ring_not_shift_invariant. Qed.
Print Assumptions C04_ring_masked_refuted.

(* --- the reals are an instance ("for all real field values") --- *)
Theorem C04_exact_first_derivative_reals : forall (c0 c1 c2 x0 h : R) (a : list R),
  h <> R0 -> (3 <= length a)%nat ->
  (forall j, (j < length a)%nat -> nth j a R0 = quad ROps c0 c1 c2 (x0 + fnat ROps j * h)%R) ->
  forall j, (j < length a)%nat ->
    d1_at ROps a h j = (c1 + (R1 + R1) * c2 * (x0 + fnat ROps j * h))%R.
Proof. exact d1_exact_quadratic_R. Qed.
Print Assumptions C04_exact_first_derivative_reals.

Example C04_exactness_nonvacuous :
  let a := qcl [1; 3; 9; 19; 33]%Q in
  qclist_eqb (map (d1_at QcOps a (qc 1)) [0; 1; 2; 3; 4]%nat) (qcl [0; 4; 8; 12; 16]%Q) = true.
Proof. exact exactness_nonvacuous. Qed.
Print Assumptions C04_exactness_nonvacuous.

(* ---- the tie, proved: soundness of the correspondence checker.  A shard case that evaluates to
   true certifies that the OBSERVED Field.diff array is diff_nd on the observed values and validity *)
Theorem C04_check_sound : forall sh nvdim ax order h periodic restrict vals valid obs,
  check_C04 (CDiff sh nvdim ax order h periodic restrict vals valid obs) = true ->
  length vals = nprod (sh ++ [nvdim]) /\ length valid = nprod sh /\
  qcl obs = to_list (sh ++ [nvdim])
              (diff_nd QcOps sh nvdim ax order (qc h) periodic restrict
                 (of_list (f0 QcOps) (sh ++ [nvdim]) (qcl vals)) (of_list true sh valid)).
Proof. exact check_diff_sound. Qed.
Print Assumptions C04_check_sound.
(* transfer: every observed entry is the model's line derivative of its own grid line and component *)
Theorem C04_accepted_diff_cell : forall sh nvdim ax order h periodic restrict vals valid obs i,
  check_C04 (CDiff sh nvdim ax order h periodic restrict vals valid obs) = true ->
  inb (sh ++ [nvdim]) i = true ->
  nth (ravel (sh ++ [nvdim]) i) (qcl obs) 0%Qc
  = nth (nth ax i 0%nat)
        (diff_line QcOps order (qc h) periodic restrict
           (line (sh ++ [nvdim]) (of_list (f0 QcOps) (sh ++ [nvdim]) (qcl vals)) ax i)
           (line sh (of_list true sh valid) ax (removelast i)))
        0%Qc.
Proof. exact accepted_diff_cell. Qed.
Print Assumptions C04_accepted_diff_cell.
Example C04_accepted_diff_instance :
  check_C04 (CDiff [4]%nat 1 0 1 1 false true [0;1;4;9]%Q [true;true;true;true] [0;2;4;6]%Q) = true.
Proof. exact accepted_diff_instance. Qed.
Print Assumptions C04_accepted_diff_instance.
(* transfer of the exactness theorem to the observation: open direction, validity restriction off, the
   recorded grid line through cell i samples a quadratic => the OBSERVED first derivative at that cell is the
   exact derivative of the quadratic at the cell's position (any shape, axis, component, line length >= 3) *)
Theorem C04_accepted_quadratic_exact : forall sh nvdim ax h vals valid obs i c0 c1 c2 x0,
  check_C04 (CDiff sh nvdim ax 1 h false false vals valid obs) = true ->
  inb (sh ++ [nvdim]) i = true -> (ax < length sh)%nat -> (3 <= nth ax sh 0)%nat ->
  qc h <> 0%Qc ->
  (forall j, (j < nth ax sh 0)%nat ->
     nth j (line (sh ++ [nvdim]) (of_list (f0 QcOps) (sh ++ [nvdim]) (qcl vals)) ax i) 0%Qc
     = quad QcOps c0 c1 c2 (x0 + fnat QcOps j * qc h)%Qc) ->
  nth (ravel (sh ++ [nvdim]) i) (qcl obs) 0%Qc
  = (c1 + (f2 QcOps * c2) * (x0 + fnat QcOps (nth ax i 0%nat) * qc h))%Qc.
Proof. exact accepted_quadratic_exact. Qed.
Print Assumptions C04_accepted_quadratic_exact.
Example C04_accepted_quadratic_instance :
  check_C04 (CDiff [4]%nat 1 0 1 1 false false [0;1;4;9]%Q [true;false;true;true] [0;2;4;6]%Q) = true.
Proof. exact accepted_quadratic_instance. Qed.
Print Assumptions C04_accepted_quadratic_instance.
(* the same for second derivatives: a recorded line sampling a cubic (length >= 4) *)
Theorem C04_accepted_cubic_exact : forall sh nvdim ax h vals valid obs i c0 c1 c2 c3 x0,
  check_C04 (CDiff sh nvdim ax 2 h false false vals valid obs) = true ->
  inb (sh ++ [nvdim]) i = true -> (ax < length sh)%nat -> (4 <= nth ax sh 0)%nat ->
  qc h <> 0%Qc ->
  (forall j, (j < nth ax sh 0)%nat ->
     nth j (line (sh ++ [nvdim]) (of_list (f0 QcOps) (sh ++ [nvdim]) (qcl vals)) ax i) 0%Qc
     = cubic QcOps c0 c1 c2 c3 (x0 + fnat QcOps j * qc h)%Qc) ->
  nth (ravel (sh ++ [nvdim]) i) (qcl obs) 0%Qc
  = (f2 QcOps * c2 + ((f2 QcOps + f2 QcOps + f2 QcOps) * c3) * (x0 + fnat QcOps (nth ax i 0%nat) * qc h))%Qc.
Proof. exact accepted_cubic_exact. Qed.
Print Assumptions C04_accepted_cubic_exact.
Example C04_accepted_cubic_instance :
  check_C04 (CDiff [5]%nat 1 0 2 1 false false [0;1;8;27;64]%Q [true;true;true;true;true] [0;6;12;18;24]%Q) = true.
Proof. exact accepted_cubic_instance. Qed.
Print Assumptions C04_accepted_cubic_instance.
(* invalid cells yield zero, on the observation: open direction, restriction on, recorded flag False *)
Theorem C04_accepted_invalid_zero : forall sh nvdim ax order h vals valid obs i,
  check_C04 (CDiff sh nvdim ax order h false true vals valid obs) = true ->
  inb (sh ++ [nvdim]) i = true -> (ax < length sh)%nat ->
  nth (nth ax i 0%nat) (line sh (of_list true sh valid) ax (removelast i)) true = false ->
  nth (ravel (sh ++ [nvdim]) i) (qcl obs) 0%Qc = 0%Qc.
Proof. exact accepted_invalid_zero. Qed.
Print Assumptions C04_accepted_invalid_zero.
Example C04_accepted_invalid_zero_instance :
  check_C04 (CDiff [4]%nat 1 0 1 1 false true [0;1;4;9]%Q [true;false;true;true] [0;0;5;5]%Q) = true.
Proof. exact accepted_invalid_zero_instance. Qed.
Print Assumptions C04_accepted_invalid_zero_instance.
Theorem C04_shard_verdict : forall cases k,
  failing k (map check_C04 cases) = [] -> forall c, In c cases -> check_C04 c = true.
Proof. exact (CheckSound.failing_nil_all check_C04). Qed.
Print Assumptions C04_shard_verdict.
