(* C05 — grad, div, curl and Laplacian are the textbook combinations of the derivatives.
   Statements only. *)
From DF Require Import Prelude FieldK NDArray Diff Calculus C05_refuse.

Theorem C05_grad_refuses_non_scalar : forall (K : FOps) M dims nv vdims vmap (f : idx -> K) valid,
  nv <> 1%nat -> run_op K OGrad M dims nv vdims vmap f valid = Err ValueE.
Proof. exact grad_refuses_vectors. Qed.
Print Assumptions C05_grad_refuses_non_scalar.
