(* C05 — grad, div, curl and Laplacian are the textbook combinations of the derivatives.
   Statements only.  K is an arbitrary field (FLaws K): every statement holds in particular for all
   real field values and is executed at Qc by the correspondence (Check_C05).
   Model: coq/model/Calculus.v (run_op, grad_v, div_v, curl_v, lap_v over Diff.diff_nd = C04's operator). *)
From Coq Require Import Qcanon.
From DF Require Import Prelude FieldK NDArray Diff Calculus C04_proofs
     C05_stencil C05_identities C05_exact C05_refuse Rotate90 C05_mirror C05_rot C05_commute
     CheckSound Check_C05 C05_sound.

(* ===== textbook combinations; components paired with axes through the mapping ===== *)

(* every derivative used by the four operators is C04's line operator on the grid line through the cell,
   with that line's validity, cell size and periodicity *)
Theorem C05_derivative_is_C04_line_operator : forall (K : FOps) (M : cmesh K) valid order a g (p : idx),
  dax K M order a g valid p
  = nth (nth a p 0%nat)
        (diff_line K order (nth a (cm_cell M) (f0 K)) (nth a (cm_per M) false) true
                   (line (cm_sh M ++ [1%nat]) g a p) (line (cm_sh M) valid a (removelast p)))
        (f0 K).
Proof. exact dax_is_line_derivative. Qed.
Print Assumptions C05_derivative_is_C04_line_operator.

Theorem C05_textbook_grad : forall (K : FOps) (M : cmesh K) dims vmap (f : idx -> K) valid vdims,
  run_op K OGrad M dims 1 vdims vmap f valid = OK (cm_nd M, grad_v K M f valid) /\
  forall (p : idx), grad_v K M f valid p = dax K M 1 (last p 0%nat) (comp K 0 f) valid (cell0 p).
Proof. exact grad_textbook. Qed.
Print Assumptions C05_textbook_grad.

(* component c is differentiated along the axis its LABEL is mapped to (axes c), not along axis c *)
Theorem C05_textbook_div : forall (K : FOps) (M : cmesh K) dims vmap (f : idx -> K) valid vs axes,
  fwd_axes (Some vs) vmap dims = OK axes ->
  run_op K ODiv M dims (cm_nd M) (Some vs) vmap f valid = OK (1%nat, div_v K M axes f valid) /\
  forall (p : idx), div_v K M axes f valid p
    = fsum K (map (fun c => dax K M 1 (nth c axes 0%nat) (comp K c f) valid (cell0 p))
                  (iota 0 (length axes))).
Proof. exact div_textbook. Qed.
Print Assumptions C05_textbook_div.

Example C05_textbook_div_nonvacuous :
  fwd_axes (Some ["p"; "q"; "s"]%string) [("s", "a"); ("p", "b"); ("q", "c")]%string ["a"; "b"; "c"]%string
  = OK [1; 2; 0]%nat.
Proof. reflexivity. Qed.
Print Assumptions C05_textbook_div_nonvacuous.

(* result component k is along axis k; the component that points along axis a is r a (reversed mapping) *)
Theorem C05_textbook_curl : forall (K : FOps) (M : cmesh K) dims vmap (f : idx -> K) valid vs axes r,
  cm_nd M = 3%nat -> fwd_axes (Some vs) vmap dims = OK axes -> rev_comps (Some vs) vmap dims = OK r ->
  run_op K OCurl M dims 3 (Some vs) vmap f valid = OK (3%nat, curl_v K M r f valid) /\
  forall (p : idx), curl_v K M r f valid p
    = fsub (dax K M 1 ((last p 0 + 1) mod 3)%nat (comp K (nth ((last p 0 + 2) mod 3) r 0)%nat f) valid (cell0 p))
           (dax K M 1 ((last p 0 + 2) mod 3)%nat (comp K (nth ((last p 0 + 1) mod 3) r 0)%nat f) valid (cell0 p)).
Proof. exact curl_textbook. Qed.
Print Assumptions C05_textbook_curl.

Example C05_textbook_curl_nonvacuous :
  rev_comps (Some ["p"; "q"; "s"]%string) [("s", "a"); ("p", "b"); ("q", "c")]%string ["a"; "b"; "c"]%string
  = OK [2; 0; 1]%nat.
Proof. reflexivity. Qed.
Print Assumptions C05_textbook_curl_nonvacuous.

Theorem C05_textbook_laplace : forall (K : FOps) (M : cmesh K) dims vmap (f : idx -> K) valid nv vs,
  run_op K OLap M dims nv (Some vs) vmap f valid = OK (nv, lap_v K M f valid) /\
  forall (p : idx), lap_v K M f valid p
    = fsum K (map (fun a => dax K M 2 a (comp K (last p 0%nat) f) valid (cell0 p)) (iota 0 (cm_nd M))).
Proof. exact laplace_textbook. Qed.
Print Assumptions C05_textbook_laplace.

(* what the dictionaries deliver: label c -> its entry d in the mapping -> position of d in dims *)
Theorem C05_mapping_pairs_components_with_named_axes : forall vs m dims axes,
  fwd_axes (Some vs) m dims = OK axes ->
  length axes = length vs /\
  forall c, (c < length vs)%nat ->
    exists d, dlookup (nth c vs ""%string) m = Some d /\ index_of d dims = Some (nth c axes 0%nat).
Proof. exact fwd_axes_spec. Qed.
Print Assumptions C05_mapping_pairs_components_with_named_axes.

Theorem C05_reversed_mapping_names_component_of_axis : forall vs m dims r,
  rev_comps (Some vs) m dims = OK r ->
  length r = length dims /\
  forall a, (a < length dims)%nat ->
    exists v, Calculus.rlookup (nth a dims ""%string) m = Some v /\ index_of v vs = Some (nth a r 0%nat).
Proof. exact rev_comps_spec. Qed.
Print Assumptions C05_reversed_mapping_names_component_of_axis.

(* label spelling is irrelevant: renaming the component labels and the dimension names injectively
   changes nothing in any of the four operators (acceptance and values) *)
Theorem C05_label_spelling_irrelevant : forall (rho delta : string -> string),
  (forall s t, rho s = rho t -> s = t) -> (forall s t, delta s = delta t -> s = t) ->
  forall (K : FOps) op (M : cmesh K) dims nv vdims m (f : idx -> K) valid,
  run_op K op M (map delta dims) nv (option_map (map rho) vdims) (ren_map rho delta m) f valid
  = run_op K op M dims nv vdims m f valid.
Proof. exact run_op_ren. Qed.
Print Assumptions C05_label_spelling_irrelevant.

(* ===== exactness on polynomials of degree <= 2 ===== *)

(* any number of dimensions: a field that is quadratic along the grid line through the cell (other
   coordinates frozen) is differentiated exactly along that line, for every line length >= 3 *)
Theorem C05_exact_first_derivative_on_lines : forall (K : FOps), FLaws K -> f2 K <> f0 K ->
  forall (M : cmesh K) org a g valid (q : idx) c0 c1 c2,
  (forall j, valid j = true) -> good_axis K M a -> in_mesh K M q ->
  (forall j, (j < nth a (cm_sh M) 0)%nat ->
     g (set_nth a j q ++ [0%nat]) = quad K c0 c1 c2 (xc K M org a j)) ->
  dax K M 1 a g valid (q ++ [0%nat]) = fadd c1 (fmul (fmul (f2 K) c2) (xc K M org a (nth a q 0%nat))).
Proof. exact dax1_exact_line. Qed.
Print Assumptions C05_exact_first_derivative_on_lines.

Theorem C05_exact_second_derivative_on_lines : forall (K : FOps), FLaws K ->
  forall (M : cmesh K) org a g valid (q : idx) c0 c1 c2,
  (forall j, valid j = true) -> good_axis K M a -> in_mesh K M q ->
  (forall j, (j < nth a (cm_sh M) 0)%nat ->
     g (set_nth a j q ++ [0%nat]) = quad K c0 c1 c2 (xc K M org a j)) ->
  dax K M 2 a g valid (q ++ [0%nat]) = fmul (f2 K) c2.
Proof. exact dax2_exact_line. Qed.
Print Assumptions C05_exact_second_derivative_on_lines.

Theorem C05_exact_grad_any_dimension : forall (K : FOps), FLaws K -> f2 K <> f0 K ->
  forall (M : cmesh K) org f valid (q : idx) a c0 c1 c2,
  (forall j, valid j = true) -> good_axis K M a -> in_mesh K M q ->
  (forall j, (j < nth a (cm_sh M) 0)%nat ->
     f (set_nth a j q ++ [0%nat]) = quad K c0 c1 c2 (xc K M org a j)) ->
  grad_v K M f valid (q ++ [a]) = fadd c1 (fmul (fmul (f2 K) c2) (xc K M org a (nth a q 0%nat))).
Proof. exact grad_exact_line. Qed.
Print Assumptions C05_exact_grad_any_dimension.

(* three dimensions, the general polynomial of total degree <= 2 (p3, 10 coefficients), >= 3 cells per
   direction, fully valid, open: all four operators return the analytic derivatives at the cell centres *)
Theorem C05_exact_quadratic_grad : forall (K : FOps), FLaws K -> f2 K <> f0 K ->
  forall (M : cmesh K) org valid i j k,
  (forall x, valid x = true) -> good_mesh3 K M ->
  (i < nth 0 (cm_sh M) 0)%nat -> (j < nth 1 (cm_sh M) 0)%nat -> (k < nth 2 (cm_sh M) 0)%nat ->
  forall f P a, samples3 K M org (comp K 0 f) P -> (a < 3)%nat ->
  grad_v K M f valid ([i; j; k] ++ [a]) = p3_d K a P (xc K M org 0 i) (xc K M org 1 j) (xc K M org 2 k).
Proof. exact grad_exact_poly3. Qed.
Print Assumptions C05_exact_quadratic_grad.

(* for ANY assignment ax0, ax1, ax2 of the three components to axes *)
Theorem C05_exact_quadratic_div : forall (K : FOps), FLaws K -> f2 K <> f0 K ->
  forall (M : cmesh K) org valid i j k,
  (forall x, valid x = true) -> good_mesh3 K M ->
  (i < nth 0 (cm_sh M) 0)%nat -> (j < nth 1 (cm_sh M) 0)%nat -> (k < nth 2 (cm_sh M) 0)%nat ->
  forall v Ps ax0 ax1 ax2 w, vsamples3 K M org v Ps ->
  (ax0 < 3)%nat -> (ax1 < 3)%nat -> (ax2 < 3)%nat ->
  div_v K M [ax0; ax1; ax2] v valid ([i; j; k] ++ [w])
  = fadd (p3_d K ax0 (Ps 0%nat) (xc K M org 0 i) (xc K M org 1 j) (xc K M org 2 k))
      (fadd (p3_d K ax1 (Ps 1%nat) (xc K M org 0 i) (xc K M org 1 j) (xc K M org 2 k))
         (fadd (p3_d K ax2 (Ps 2%nat) (xc K M org 0 i) (xc K M org 1 j) (xc K M org 2 k)) (f0 K))).
Proof. exact div_exact_poly3. Qed.
Print Assumptions C05_exact_quadratic_div.

(* for ANY assignment r of components to axes (r a = component along axis a) *)
Theorem C05_exact_quadratic_curl : forall (K : FOps), FLaws K -> f2 K <> f0 K ->
  forall (M : cmesh K) org valid i j k,
  (forall x, valid x = true) -> good_mesh3 K M ->
  (i < nth 0 (cm_sh M) 0)%nat -> (j < nth 1 (cm_sh M) 0)%nat -> (k < nth 2 (cm_sh M) 0)%nat ->
  forall v Ps (r : list nat) c, vsamples3 K M org v Ps -> (c < 3)%nat ->
  curl_v K M r v valid ([i; j; k] ++ [c])
  = fsub (p3_d K ((c + 1) mod 3) (Ps (nth ((c + 2) mod 3) r 0%nat))
               (xc K M org 0 i) (xc K M org 1 j) (xc K M org 2 k))
         (p3_d K ((c + 2) mod 3) (Ps (nth ((c + 1) mod 3) r 0%nat))
               (xc K M org 0 i) (xc K M org 1 j) (xc K M org 2 k)).
Proof. exact curl_exact_poly3. Qed.
Print Assumptions C05_exact_quadratic_curl.

Theorem C05_exact_quadratic_laplace : forall (K : FOps), FLaws K ->
  forall (M : cmesh K) org valid i j k,
  (forall x, valid x = true) -> good_mesh3 K M ->
  (i < nth 0 (cm_sh M) 0)%nat -> (j < nth 1 (cm_sh M) 0)%nat -> (k < nth 2 (cm_sh M) 0)%nat ->
  forall v Ps c, vsamples3 K M org v Ps ->
  lap_v K M v valid ([i; j; k] ++ [c])
  = fadd (p3_dd K 0 (Ps c)) (fadd (p3_dd K 1 (Ps c)) (fadd (p3_dd K 2 (Ps c)) (f0 K))).
Proof. exact laplace_exact_poly3. Qed.
Print Assumptions C05_exact_quadratic_laplace.

Definition C05_demo_mesh : cmesh QcOps :=
  mkCMesh QcOps [3; 4; 3]%nat [Q2Qc (1 # 2); Q2Qc 1; Q2Qc (1 # 4)] [false; false; false].

Example C05_exact_quadratic_nonvacuous : good_mesh3 QcOps C05_demo_mesh /\ f2 QcOps <> f0 QcOps.
Proof.
  split; [split; [reflexivity|] | discriminate].
  intros [|[|[|a]]] Ha; try lia; (split; [cbv; lia | split; [reflexivity | split; [discriminate | cbv; lia]]]).
Qed.
Print Assumptions C05_exact_quadratic_nonvacuous.

(* ===== the vector identities, exactly in K, on every fully valid 3-d mesh ===== *)

(* derivatives along different axes commute: any orders, any numbers of cells, open or periodic *)
Theorem C05_derivatives_along_different_axes_commute : forall (K : FOps), FLaws K ->
  forall (M : cmesh K) o1 o2 a b g valid (i : idx),
  (o1 = 1 \/ o1 = 2)%nat -> (o2 = 1 \/ o2 = 2)%nat -> (forall j, valid j = true) ->
  a <> b -> (a < cm_nd M)%nat -> (b < cm_nd M)%nat ->
  (nth a i 0 < nth a (cm_sh M) 0)%nat -> (nth b i 0 < nth b (cm_sh M) 0)%nat ->
  dax K M o1 a (dax K M o2 b g valid) valid i = dax K M o2 b (dax K M o1 a g valid) valid i.
Proof. exact dax_comm. Qed.
Print Assumptions C05_derivatives_along_different_axes_commute.

(* the matrix form behind it: on a fully valid line every cell's derivative is a fixed row applied to the line *)
Theorem C05_fully_valid_line_is_stencil_row : forall (K : FOps), FLaws K ->
  forall order h per (u : list K) i, (order = 1 \/ order = 2)%nat -> (i < length u)%nat ->
  nth i (diff_line K order h per true u (repeat true (length u))) (f0 K)
  = sapply K (row K order h per (length u) i) (fun j => nth j u (f0 K)).
Proof. exact diff_line_row. Qed.
Print Assumptions C05_fully_valid_line_is_stencil_row.

(* the gradient's result carries the identity mapping, hence r = [0;1;2] *)
Theorem C05_curl_grad_zero : forall (K : FOps), FLaws K ->
  forall (M : cmesh K) f valid (q : idx) k,
  cm_nd M = 3%nat -> (forall j, valid j = true) -> in_mesh K M q -> (k < 3)%nat ->
  curl_v K M [0; 1; 2]%nat (grad_v K M f valid) valid (q ++ [k]) = f0 K.
Proof. exact curl_grad_zero. Qed.
Print Assumptions C05_curl_grad_zero.

(* for every assignment r of the components of v to the axes *)
Theorem C05_div_curl_zero : forall (K : FOps), FLaws K ->
  forall (M : cmesh K) (r : list nat) v valid (q : idx) z,
  cm_nd M = 3%nat -> (forall j, valid j = true) -> in_mesh K M q ->
  div_v K M [0; 1; 2]%nat (curl_v K M r v valid) valid (q ++ [z]) = f0 K.
Proof. exact div_curl_zero. Qed.
Print Assumptions C05_div_curl_zero.

Example C05_identities_nonvacuous :
  cm_nd C05_demo_mesh = 3%nat /\ in_mesh QcOps C05_demo_mesh [2; 3; 0]%nat.
Proof.
  split; [reflexivity|]. split; [reflexivity|].
  intros [|[|[|a]]] Ha; cbv in Ha |- *; lia.
Qed.
Print Assumptions C05_identities_nonvacuous.


(* ===== commutation with quarter-turn rotations of the field =====
   Field.rotate90 (model: Rotate90.field_rotate90) = numpy.rot90 on the data (shape n ++ [nvdim]) and on
   the validity (shape n), the two components that the reversed mapping assigns to the two axes rotated
   by the exact quarter turn kturn k (Rotate90.rot_comp), mesh with the cell counts and cell sizes of the
   two axes exchanged for odd k, and -- since /repo 6c074f8c, where Mesh.rotate90 swaps the two letters in bc --
   their periodic flags exchanged as well (rotM = swapM for odd k).  There is NO restriction on which axes
   are periodic: rot_ok only asks for a well-formed mesh (one cell size and one flag per axis), a <> b in
   range and a target cell inside the rotated mesh.
   All statements: any number of dimensions, any numbers of cells, ARBITRARY validity masks, open and
   periodic directions, every integer k. *)

(* mirror symmetry of the stencil set (uses the symmetry of the coefficient tuples read from the source) *)
Theorem C05_stencil_mirror_run : forall (K : FOps), FLaws K ->
  forall order (a : list K) h, (order = 1 \/ order = 2)%nat ->
  d_run K order (rev a) h = map (msign K order) (rev (d_run K order a h)).
Proof. exact d_run_rev. Qed.
Print Assumptions C05_stencil_mirror_run.

Theorem C05_stencil_mirror_line : forall (K : FOps), FLaws K ->
  forall order h per (vals : list K) valid, (order = 1 \/ order = 2)%nat -> length vals = length valid ->
  diff_line K order h per true (rev vals) (rev valid)
  = map (msign K order) (rev (diff_line K order h per true vals valid)).
Proof. exact diff_line_rev. Qed.
Print Assumptions C05_stencil_mirror_line.

(* the derivative along axis x of the rotated array at target cell q = (signed) derivative of the source
   array along the source axis at the source cell rho q *)
Theorem C05_derivative_of_rotated_field : forall (K : FOps), FLaws K ->
  forall (M : cmesh K) a b k x order g valid (q : idx),
  rot_ok K M a b k q -> (x < cm_nd M)%nat -> (order = 1 \/ order = 2)%nat ->
  dax K (rotM K M a b k) order x
      (rot90 (cm_sh M ++ [1%nat]) a b k g) (rot90 (cm_sh M) a b k valid) (q ++ [0%nat])
  = msgn K (rot_fl a b k x) order
      (dax K M order (src_ax a b k x) g valid (rho (cm_sh M) a b k q ++ [0%nat])).
Proof. exact dax_rot90_cell. Qed.
Print Assumptions C05_derivative_of_rotated_field.

Theorem C05_derivative_linear_in_data : forall (K : FOps), FLaws K ->
  forall (M : cmesh K) order x a' b' g g' valid (p : idx),
  (x < cm_nd M)%nat -> (nth x p 0 < nth x (cm_sh M) 0)%nat ->
  dax K M order x (fun i => fadd (fmul a' (g i)) (fmul b' (g' i))) valid p
  = fadd (fmul a' (dax K M order x g valid p)) (fmul b' (dax K M order x g' valid p)).
Proof. exact dax_lin. Qed.
Print Assumptions C05_derivative_linear_in_data.

(* grad (rotate90 f) = rotate90 (grad f): the gradient's components are mapped identically onto the axes,
   so Field.rotate90 rotates its components a and b *)
Theorem C05_rot90_commute_grad : forall (K : FOps), FLaws K ->
  forall (M : cmesh K) a b k f valid (q : idx) x,
  rot_ok K M a b k q -> (x < cm_nd M)%nat ->
  grad_v K (rotM K M a b k) (rot90 (cm_sh M ++ [1%nat]) a b k f) (rot90 (cm_sh M) a b k valid) (q ++ [x])
  = rot_comp K (fst (kturn K k)) (snd (kturn K k)) a b
      (rot90 (cm_sh M ++ [cm_nd M]) a b k (grad_v K M f valid)) (q ++ [x]).
Proof. exact grad_rot90. Qed.
Print Assumptions C05_rot90_commute_grad.

(* laplace (rotate90 f) = rotate90 (laplace f) for scalar fields (nv = 1, c = 0), and component by
   component for arrays whose components are not mixed *)
Theorem C05_rot90_commute_laplace_scalar : forall (K : FOps), FLaws K ->
  forall (M : cmesh K) a b k nv v valid (q : idx) c,
  rot_ok K M a b k q ->
  lap_v K (rotM K M a b k) (rot90 (cm_sh M ++ [nv]) a b k v) (rot90 (cm_sh M) a b k valid) (q ++ [c])
  = rot90 (cm_sh M ++ [nv]) a b k (lap_v K M v valid) (q ++ [c]).
Proof. exact lap_rot90_unmixed. Qed.
Print Assumptions C05_rot90_commute_laplace_scalar.

(* vector fields: v1, v2 = the components Field.rotate90 finds through the reversed mapping for the two
   axes; the Laplacian keeps labels and mapping, so its result is rotated with the same v1, v2 *)
Theorem C05_rot90_commute_laplace_vector : forall (K : FOps), FLaws K ->
  forall (M : cmesh K) a b k nv v valid (q : idx) c s v1 v2 ci,
  rot_ok K M a b k q ->
  lap_v K (rotM K M a b k) (rot_comp K c s v1 v2 (rot90 (cm_sh M ++ [nv]) a b k v))
        (rot90 (cm_sh M) a b k valid) (q ++ [ci])
  = rot_comp K c s v1 v2 (rot90 (cm_sh M ++ [nv]) a b k (lap_v K M v valid)) (q ++ [ci]).
Proof. exact lap_rot90_vector. Qed.
Print Assumptions C05_rot90_commute_laplace_vector.

(* div (rotate90 v) = rotate90 (div v): axes c = axis component c is mapped to (the rotated field keeps
   labels and mapping, the rotated mesh keeps its dimension names, so the same list applies on both
   sides); v1, v2 = the components mapped to a and b, all other components mapped to other axes --
   i.e. any injective mapping, in any number of dimensions *)
Theorem C05_rot90_commute_div : forall (K : FOps), FLaws K ->
  forall (M : cmesh K) a b k nv v valid (q : idx) axes v1 v2 z,
  rot_ok K M a b k q -> v1 <> v2 -> (v1 < length axes)%nat -> (v2 < length axes)%nat ->
  nth v1 axes 0%nat = a -> nth v2 axes 0%nat = b ->
  (forall ci, (ci < length axes)%nat -> (nth ci axes 0 < cm_nd M)%nat) ->
  (forall ci, (ci < length axes)%nat -> ci <> v1 -> ci <> v2 -> nth ci axes 0%nat <> a /\ nth ci axes 0%nat <> b) ->
  div_v K (rotM K M a b k) axes
        (rot_comp K (fst (kturn K k)) (snd (kturn K k)) v1 v2 (rot90 (cm_sh M ++ [nv]) a b k v))
        (rot90 (cm_sh M) a b k valid) (q ++ [z])
  = rot90 (cm_sh M ++ [1%nat]) a b k (div_v K M axes v valid) (q ++ [z]).
Proof. exact div_rot90. Qed.
Print Assumptions C05_rot90_commute_div.

Example C05_rot90_commute_div_nonvacuous :
  let axes := [1; 2; 0]%nat in
  nth 2 axes 0%nat = 0%nat /\ nth 1 axes 0%nat = 2%nat /\
  (forall ci, (ci < 3)%nat -> (nth ci axes 0 < 3)%nat) /\
  (forall ci, (ci < 3)%nat -> ci <> 2%nat -> ci <> 1%nat -> nth ci axes 0%nat <> 0%nat /\ nth ci axes 0%nat <> 2%nat).
Proof.
  cbv zeta. repeat split; try reflexivity;
    try (intros [|[|[|ci]]] H; simpl; lia); try (destruct ci as [|[|[|ci]]]; simpl; lia).
Qed.
Print Assumptions C05_rot90_commute_div_nonvacuous.

(* curl (rotate90 v) = rotate90 (curl v) in three dimensions: r x = component mapped to axis x (any
   bijection); Field.rotate90 rotates the components r a and r b of v, and the components a and b of the
   curl field (whose result is mapped identically onto the axes) *)
Theorem C05_rot90_commute_curl : forall (K : FOps), FLaws K ->
  forall (M : cmesh K) a b k v valid (q : idx) (r : list nat) x,
  rot_ok K M a b k q -> cm_nd M = 3%nat -> (x < 3)%nat -> length r = 3%nat -> NoDup r ->
  curl_v K (rotM K M a b k) r
         (rot_comp K (fst (kturn K k)) (snd (kturn K k)) (nth a r 0%nat) (nth b r 0%nat)
                   (rot90 (cm_sh M ++ [3%nat]) a b k v))
         (rot90 (cm_sh M) a b k valid) (q ++ [x])
  = rot_comp K (fst (kturn K k)) (snd (kturn K k)) a b
      (rot90 (cm_sh M ++ [3%nat]) a b k (curl_v K M r v valid)) (q ++ [x]).
Proof. exact curl_rot90. Qed.
Print Assumptions C05_rot90_commute_curl.

Example C05_rot90_commute_curl_nonvacuous : NoDup [2; 0; 1]%nat /\ cm_nd C05_demo_mesh = 3%nat.
Proof.
  split; [|reflexivity]. repeat constructor; simpl; intuition discriminate.
Qed.
Print Assumptions C05_rot90_commute_curl_nonvacuous.

(* a mesh with exactly ONE periodic axis in the rotation plane (axis 0 periodic, axis 2 open), odd k *)
Definition C05_demo_mesh_per : cmesh QcOps :=
  mkCMesh QcOps [3; 4; 2]%nat [Q2Qc (1 # 2); Q2Qc 1; Q2Qc (1 # 4)] [true; false; false].

Example C05_rot90_commute_nonvacuous :
  rot_ok QcOps C05_demo_mesh_per 0 2 1 [1; 3; 2]%nat /\
  cm_per (rotM QcOps C05_demo_mesh_per 0 2 1) = [false; false; true] /\
  cm_sh (rotM QcOps C05_demo_mesh_per 0 2 1) = [2; 4; 3]%nat.
Proof.
  split; [|split; reflexivity].
  split; try (split; reflexivity); try discriminate; try (cbv; lia).
  split; [reflexivity|]. intros [|[|[|t]]] Ht; cbv in Ht |- *; lia.
Qed.
Print Assumptions C05_rot90_commute_nonvacuous.

(* ===== refusals ===== *)
Theorem C05_grad_refuses_non_scalar : forall (K : FOps) (M : cmesh K) dims vmap (f : idx -> K) valid nv vdims,
  nv <> 1%nat -> run_op K OGrad M dims nv vdims vmap f valid = Err ValueE.
Proof. exact grad_refuses_vectors. Qed.
Print Assumptions C05_grad_refuses_non_scalar.

Theorem C05_div_refuses_nvdim_not_ndim : forall (K : FOps) (M : cmesh K) dims vmap (f : idx -> K) valid nv vdims,
  nv <> cm_nd M -> run_op K ODiv M dims nv vdims vmap f valid = Err ValueE.
Proof. exact div_refuses_misfit. Qed.
Print Assumptions C05_div_refuses_nvdim_not_ndim.

Theorem C05_curl_refuses_not_3x3 : forall (K : FOps) (M : cmesh K) dims vmap (f : idx -> K) valid nv vdims,
  nv <> 3%nat \/ cm_nd M <> 3%nat -> run_op K OCurl M dims nv vdims vmap f valid = Err ValueE.
Proof. exact curl_refuses_misfit. Qed.
Print Assumptions C05_curl_refuses_not_3x3.

(* a component label without a mapping entry, or mapped to a name that is not a dimension of the mesh *)
Theorem C05_div_refuses_unmapped_component : forall (K : FOps) (M : cmesh K) dims vmap (f : idx -> K) valid nv vs v,
  In v vs -> unmapped dims vmap v -> is_err (run_op K ODiv M dims nv (Some vs) vmap f valid).
Proof. exact div_refuses_unmapped. Qed.
Print Assumptions C05_div_refuses_unmapped_component.

Theorem C05_curl_refuses_unmapped_component : forall (K : FOps) (M : cmesh K) dims vmap (f : idx -> K) valid nv vs v,
  In v vs -> unmapped dims vmap v -> is_err (run_op K OCurl M dims nv (Some vs) vmap f valid).
Proof. exact curl_refuses_unmapped. Qed.
Print Assumptions C05_curl_refuses_unmapped_component.

Theorem C05_curl_refuses_axis_without_component : forall (K : FOps) (M : cmesh K) dims vmap (f : idx -> K) valid nv vs d,
  In d dims -> Calculus.rlookup d vmap = None -> is_err (run_op K OCurl M dims nv (Some vs) vmap f valid).
Proof. exact curl_refuses_uncovered_axis. Qed.
Print Assumptions C05_curl_refuses_axis_without_component.

Theorem C05_div_curl_refuse_unlabelled : forall (K : FOps) (M : cmesh K) dims vmap (f : idx -> K) valid op nv,
  op = ODiv \/ op = OCurl -> is_err (run_op K op M dims nv None vmap f valid).
Proof. exact div_curl_refuse_unlabelled. Qed.
Print Assumptions C05_div_curl_refuse_unlabelled.

Example C05_refusals_nonvacuous :
  unmapped ["a"; "b"; "c"]%string [("p", "b"); ("q", "nope"); ("s", "a")]%string "q"%string /\
  unmapped ["a"; "b"; "c"]%string [("p", "b"); ("s", "a")]%string "q"%string /\
  Calculus.rlookup "c"%string [("p", "b"); ("q", "b"); ("s", "a")]%string = None.
Proof.
  split; [right; exists "nope"%string; split; reflexivity|]. split; [left; reflexivity | reflexivity].
Qed.
Print Assumptions C05_refusals_nonvacuous.


(* ===== soundness of the correspondence checker, and the theorems above on OBSERVED outputs =====
   check_C05 (Check_C05.v) is proved, not only read: an accepted case certifies that the implementation
   raised exactly when the model refuses, and otherwise returned the model's number of components, the
   model's array (exact regime: equal; scale regime: every entry within c05_tol * c05_scale) and labels that
   say what the property says.  c05M / c05f / c05v / c05_run (C05_sound.v) are the mesh, the value array,
   the validity mask and the run_op call that the checker builds from the recorded inputs. *)
Theorem C05_check_sizes_sound : forall exact op sh cell per dims nv vdims vmap vals valid obs,
  check_C05 (COp exact op sh cell per dims nv vdims vmap vals valid obs) = true ->
  length vals = nprod (sh ++ [nv]) /\ length valid = nprod sh /\
  length cell = length sh /\ length per = length sh /\ length dims = length sh.
Proof. exact check_op_sizes. Qed.
Print Assumptions C05_check_sizes_sound.

Theorem C05_check_raised_sound : forall exact op sh cell per dims nv vdims vmap vals valid,
  check_C05 (COp exact op sh cell per dims nv vdims vmap vals valid None) = true ->
  exists e, c05_run op sh cell per dims nv vdims vmap vals valid = Err e.
Proof. exact check_op_reject_sound. Qed.
Print Assumptions C05_check_raised_sound.

(* c05_arr_ok true = the observed array IS the model's; c05_arr_ok false = same length and every entry within
   c05_tol * c05_scale; c05_labels_ok = the expected axes are the ones the result's labels say, and the vector
   Laplacian keeps the labels *)
Theorem C05_check_returned_sound : forall exact op sh cell per dims nv vdims vmap vals valid onv oarr ovdims ovmap,
  check_C05 (COp exact op sh cell per dims nv vdims vmap vals valid (Some (onv, oarr, ovdims, ovmap))) = true ->
  exists r, c05_run op sh cell per dims nv vdims vmap vals valid = OK (onv, r) /\
    c05_arr_ok exact op sh cell vals (to_list (sh ++ [onv]) r) oarr /\
    c05_labels_ok op (length sh) nv vdims vmap dims ovdims ovmap.
Proof. exact check_op_sound. Qed.
Print Assumptions C05_check_returned_sound.

Theorem C05_check_exact_entries_sound : forall op sh cell per dims nv vdims vmap vals valid onv oarr ovdims ovmap,
  check_C05 (COp true op sh cell per dims nv vdims vmap vals valid (Some (onv, oarr, ovdims, ovmap))) = true ->
  exists r, c05_run op sh cell per dims nv vdims vmap vals valid = OK (onv, r) /\
    forall i, inb (sh ++ [onv]) i = true -> nth (ravel (sh ++ [onv]) i) (qcl oarr) 0%Qc = r i.
Proof. exact accepted_entry. Qed.
Print Assumptions C05_check_exact_entries_sound.

Theorem C05_check_scale_entries_sound : forall op sh cell per dims nv vdims vmap vals valid onv oarr ovdims ovmap,
  check_C05 (COp false op sh cell per dims nv vdims vmap vals valid (Some (onv, oarr, ovdims, ovmap))) = true ->
  exists r, c05_run op sh cell per dims nv vdims vmap vals valid = OK (onv, r) /\
    length oarr = nprod (sh ++ [onv]) /\
    forall i, inb (sh ++ [onv]) i = true ->
      (Qabs (this (r i) - this (nth (ravel (sh ++ [onv]) i) (qcl oarr) 0%Qc))
       <= c05_tol * c05_scale op sh cell vals)%Q.
Proof. exact accepted_entry_close. Qed.
Print Assumptions C05_check_scale_entries_sound.

(* complex-valued fields: both parts were accepted *)
Theorem C05_check_complex_sound : forall re im,
  check_C05 (CBoth re im) = true -> check_C05 re = true /\ check_C05 im = true.
Proof. exact check_both_sound. Qed.
Print Assumptions C05_check_complex_sound.

(* a whole shard: no failing index means every case was accepted *)
Theorem C05_shard_verdict : forall cases k,
  failing k (map check_C05 cases) = [] -> forall c, In c cases -> check_C05 c = true.
Proof. exact (failing_nil_all check_C05). Qed.
Print Assumptions C05_shard_verdict.

(* ----- transfer: refusals, stated about the observed outcome (None = the call raised) ----- *)
Theorem C05_accepted_grad_refuses_non_scalar : forall exact sh cell per dims nv vdims vmap vals valid obs,
  check_C05 (COp exact OGrad sh cell per dims nv vdims vmap vals valid obs) = true ->
  nv <> 1%nat -> obs = None.
Proof. exact accepted_grad_refuses_non_scalar. Qed.
Print Assumptions C05_accepted_grad_refuses_non_scalar.

Theorem C05_accepted_div_refuses_nvdim_not_ndim : forall exact sh cell per dims nv vdims vmap vals valid obs,
  check_C05 (COp exact ODiv sh cell per dims nv vdims vmap vals valid obs) = true ->
  nv <> length sh -> obs = None.
Proof. exact accepted_div_refuses_misfit. Qed.
Print Assumptions C05_accepted_div_refuses_nvdim_not_ndim.

Theorem C05_accepted_curl_refuses_not_3x3 : forall exact sh cell per dims nv vdims vmap vals valid obs,
  check_C05 (COp exact OCurl sh cell per dims nv vdims vmap vals valid obs) = true ->
  nv <> 3%nat \/ length sh <> 3%nat -> obs = None.
Proof. exact accepted_curl_refuses_misfit. Qed.
Print Assumptions C05_accepted_curl_refuses_not_3x3.

Theorem C05_accepted_div_curl_refuse_unlabelled : forall exact op sh cell per dims nv vmap vals valid obs,
  check_C05 (COp exact op sh cell per dims nv None vmap vals valid obs) = true ->
  op = ODiv \/ op = OCurl -> obs = None.
Proof. exact accepted_div_curl_refuse_unlabelled. Qed.
Print Assumptions C05_accepted_div_curl_refuse_unlabelled.

Theorem C05_accepted_div_refuses_unmapped_component : forall exact sh cell per dims nv vs vmap vals valid obs v,
  check_C05 (COp exact ODiv sh cell per dims nv (Some vs) vmap vals valid obs) = true ->
  In v vs -> unmapped dims vmap v -> obs = None.
Proof. exact accepted_div_refuses_unmapped. Qed.
Print Assumptions C05_accepted_div_refuses_unmapped_component.

Example C05_accepted_refusal_instance :
  check_C05 (COp true OGrad [2]%nat [1]%Q [false] ["x"%string] 2 None [] [0; 1; 2; 3]%Q [true; true] None) = true.
Proof. exact accepted_refusal_instance. Qed.
Print Assumptions C05_accepted_refusal_instance.

(* ----- transfer: the textbook combinations, stated about the observed arrays (exact regime) ----- *)
(* an accepted grad call had a scalar field and returned one component per axis; the observed entry (cell q,
   component a) is C04's line operator on the grid line of the recorded values through q along axis a *)
Theorem C05_accepted_grad_textbook : forall sh cell per dims nv vdims vmap vals valid onv oarr ovdims ovmap,
  check_C05 (COp true OGrad sh cell per dims nv vdims vmap vals valid (Some (onv, oarr, ovdims, ovmap))) = true ->
  nv = 1%nat /\ onv = length sh /\
  forall (q : idx) a, inb sh q = true -> (a < length sh)%nat ->
    nth (ravel (sh ++ [length sh]) (q ++ [a])) (qcl oarr) 0%Qc
    = nth (nth a q 0%nat)
          (diff_line QcOps 1 (nth a (qcl cell) 0%Qc) (nth a per false) true
             (line (sh ++ [1%nat]) (comp QcOps 0 (c05f sh 1 vals)) a (q ++ [0%nat]))
             (line sh (c05v sh valid) a q))
          0%Qc.
Proof. exact accepted_grad_textbook. Qed.
Print Assumptions C05_accepted_grad_textbook.

(* the observed divergence: component c is differentiated along the axis its LABEL is mapped to *)
Theorem C05_accepted_div_textbook : forall sh cell per dims nv vdims vmap vals valid onv oarr ovdims ovmap,
  check_C05 (COp true ODiv sh cell per dims nv vdims vmap vals valid (Some (onv, oarr, ovdims, ovmap))) = true ->
  nv = length sh /\ onv = 1%nat /\
  exists axes, fwd_axes vdims vmap dims = OK axes /\
    forall (q : idx), inb sh q = true ->
      nth (ravel (sh ++ [1%nat]) (q ++ [0%nat])) (qcl oarr) 0%Qc
      = fsum QcOps (map (fun c => dax QcOps (c05M sh cell per) 1 (nth c axes 0%nat)
                                    (comp QcOps c (c05f sh nv vals)) (c05v sh valid) (q ++ [0%nat]))
                        (iota 0 (length axes))).
Proof. exact accepted_div_textbook. Qed.
Print Assumptions C05_accepted_div_textbook.

(* the observed curl: result component k is along axis k, the operands are found through the reversed mapping *)
Theorem C05_accepted_curl_textbook : forall sh cell per dims nv vdims vmap vals valid onv oarr ovdims ovmap,
  check_C05 (COp true OCurl sh cell per dims nv vdims vmap vals valid (Some (onv, oarr, ovdims, ovmap))) = true ->
  nv = 3%nat /\ length sh = 3%nat /\ onv = 3%nat /\
  exists rc, rev_comps vdims vmap dims = OK rc /\
    forall (q : idx) k, inb sh q = true -> (k < 3)%nat ->
      nth (ravel (sh ++ [3%nat]) (q ++ [k])) (qcl oarr) 0%Qc
      = (dax QcOps (c05M sh cell per) 1 ((k + 1) mod 3)
             (comp QcOps (nth ((k + 2) mod 3) rc 0%nat) (c05f sh nv vals)) (c05v sh valid) (q ++ [0%nat])
         - dax QcOps (c05M sh cell per) 1 ((k + 2) mod 3)
             (comp QcOps (nth ((k + 1) mod 3) rc 0%nat) (c05f sh nv vals)) (c05v sh valid) (q ++ [0%nat]))%Qc.
Proof. exact accepted_curl_textbook. Qed.
Print Assumptions C05_accepted_curl_textbook.

(* the observed Laplacian: per component, the sum of the second derivatives along all axes *)
Theorem C05_accepted_laplace_textbook : forall sh cell per dims nv vdims vmap vals valid onv oarr ovdims ovmap,
  check_C05 (COp true OLap sh cell per dims nv vdims vmap vals valid (Some (onv, oarr, ovdims, ovmap))) = true ->
  onv = nv /\
  forall (q : idx) c, inb sh q = true -> (c < nv)%nat ->
    nth (ravel (sh ++ [nv]) (q ++ [c])) (qcl oarr) 0%Qc
    = fsum QcOps (map (fun a => dax QcOps (c05M sh cell per) 2 a (comp QcOps c (c05f sh nv vals))
                                  (c05v sh valid) (q ++ [0%nat]))
                      (iota 0 (length sh))).
Proof. exact accepted_laplace_textbook. Qed.
Print Assumptions C05_accepted_laplace_textbook.

(* labels of the observed results (both regimes) *)
Theorem C05_accepted_laplace_keeps_labels : forall exact sh cell per dims nv vdims vmap vals valid onv oarr ovdims ovmap,
  check_C05 (COp exact OLap sh cell per dims nv vdims vmap vals valid (Some (onv, oarr, ovdims, ovmap))) = true ->
  (2 <= nv)%nat -> ovdims = vdims /\ soft_axes ovdims ovmap dims = soft_axes vdims vmap dims.
Proof. exact accepted_laplace_keeps_labels. Qed.
Print Assumptions C05_accepted_laplace_keeps_labels.

Theorem C05_accepted_result_mapping_is_identity :
  forall exact op sh cell per dims nv vdims vmap vals valid onv oarr ovdims ovmap,
  check_C05 (COp exact op sh cell per dims nv vdims vmap vals valid (Some (onv, oarr, ovdims, ovmap))) = true ->
  (op = OGrad /\ (2 <= length sh)%nat) \/ op = OCurl ->
  soft_axes ovdims ovmap dims = map Some (iota 0 onv).
Proof. exact accepted_result_mapping_is_identity. Qed.
Print Assumptions C05_accepted_result_mapping_is_identity.

(* ----- transfer: polynomial exactness on the observed gradient ----- *)
(* a recorded validity list without a false entry is the fully valid mask the theorems ask for *)
Theorem C05_recorded_mask_fully_valid : forall sh valid,
  forallb (fun b => b) valid = true -> forall j, c05v sh valid j = true.
Proof. exact all_valid. Qed.
Print Assumptions C05_recorded_mask_fully_valid.

Theorem C05_recorded_cell_in_mesh : forall sh cell per (q : idx),
  inb sh q = true -> in_mesh QcOps (c05M sh cell per) q.
Proof. exact inb_in_mesh. Qed.
Print Assumptions C05_recorded_cell_in_mesh.

(* C05_exact_grad_any_dimension on the observation: recorded values that sample a quadratic on the grid line
   through cell q along a (fully valid, open, >= 3 cells) => the OBSERVED gradient component is the analytic
   derivative at the cell centre *)
Theorem C05_accepted_grad_exact_on_quadratic :
  forall sh cell per dims nv vdims vmap vals valid onv oarr ovdims ovmap org (q : idx) a c0 c1 c2,
  check_C05 (COp true OGrad sh cell per dims nv vdims vmap vals valid (Some (onv, oarr, ovdims, ovmap))) = true ->
  forallb (fun b => b) valid = true -> good_axis QcOps (c05M sh cell per) a -> inb sh q = true ->
  (forall j, (j < nth a sh 0)%nat ->
     c05f sh nv vals (set_nth a j q ++ [0%nat]) = quad QcOps c0 c1 c2 (xc QcOps (c05M sh cell per) org a j)) ->
  nth (ravel (sh ++ [onv]) (q ++ [a])) (qcl oarr) 0%Qc
  = (c1 + f2 QcOps * c2 * xc QcOps (c05M sh cell per) org a (nth a q 0%nat))%Qc.
Proof. exact accepted_grad_exact_on_quadratic. Qed.
Print Assumptions C05_accepted_grad_exact_on_quadratic.

Example C05_accepted_grad_exact_instance :
  check_C05 (COp true OGrad [4]%nat [1#2]%Q [false] ["x"%string] 1 None []
                 [1#16; 9#16; 25#16; 49#16]%Q [true; true; true; true]
                 (Some (1%nat, [1#2; 3#2; 5#2; 7#2]%Q, None, []))) = true /\
  good_axis QcOps (c05M [4]%nat [1#2]%Q [false]) 0 /\
  forall j, (j < 4)%nat ->
    c05f [4]%nat 1 [1#16; 9#16; 25#16; 49#16]%Q (set_nth 0 j [0%nat] ++ [0%nat])
    = quad QcOps 0%Qc 0%Qc 1%Qc (xc QcOps (c05M [4]%nat [1#2]%Q [false]) [Q2Qc (1#4)] 0 j).
Proof. exact accepted_grad_instance. Qed.
Print Assumptions C05_accepted_grad_exact_instance.

(* ----- transfer: the vector identities on chained observations -----
   the array the implementation returned from the first call is the array the second call was given *)
Theorem C05_accepted_curl_of_accepted_grad_zero :
  forall sh cell per dims nv vdims vmap vals valid onv oarr ovdims ovmap
         dims2 vdims2 vmap2 onv2 oarr2 ovdims2 ovmap2,
  check_C05 (COp true OGrad sh cell per dims nv vdims vmap vals valid (Some (onv, oarr, ovdims, ovmap))) = true ->
  check_C05 (COp true OCurl sh cell per dims2 onv vdims2 vmap2 oarr valid (Some (onv2, oarr2, ovdims2, ovmap2))) = true ->
  forallb (fun b => b) valid = true -> rev_comps vdims2 vmap2 dims2 = OK [0; 1; 2]%nat ->
  forall (q : idx) k, inb sh q = true -> (k < 3)%nat ->
    nth (ravel (sh ++ [3%nat]) (q ++ [k])) (qcl oarr2) 0%Qc = 0%Qc.
Proof. exact accepted_curl_of_accepted_grad_zero. Qed.
Print Assumptions C05_accepted_curl_of_accepted_grad_zero.

Theorem C05_accepted_div_of_accepted_curl_zero :
  forall sh cell per dims nv vdims vmap vals valid onv oarr ovdims ovmap
         dims2 vdims2 vmap2 onv2 oarr2 ovdims2 ovmap2,
  check_C05 (COp true OCurl sh cell per dims nv vdims vmap vals valid (Some (onv, oarr, ovdims, ovmap))) = true ->
  check_C05 (COp true ODiv sh cell per dims2 onv vdims2 vmap2 oarr valid (Some (onv2, oarr2, ovdims2, ovmap2))) = true ->
  forallb (fun b => b) valid = true -> fwd_axes vdims2 vmap2 dims2 = OK [0; 1; 2]%nat ->
  forall (q : idx), inb sh q = true ->
    nth (ravel (sh ++ [1%nat]) (q ++ [0%nat])) (qcl oarr2) 0%Qc = 0%Qc.
Proof. exact accepted_div_of_accepted_curl_zero. Qed.
Print Assumptions C05_accepted_div_of_accepted_curl_zero.

Example C05_accepted_curl_grad_instance :
  let dims := ["a"; "b"; "c"]%string in
  let valid := [true; true; true; true; true; true; true; true] in
  let g := [10; 0; 1#2; -1; 0; 1#2; 8; 0; -1#2; 4; 0; -1#2; 10; 0; -9#4; -1; 0; -9#4; 8; 0; -3#2; 4; 0; -3#2]%Q in
  let vd := Some ["p"; "q"; "s"]%string in
  let vm := [("p", "a"); ("q", "b"); ("s", "c")]%string in
  check_C05 (COp true OGrad [2; 2; 2]%nat [1#2; 1; 2]%Q [false; true; false] dims 1 None []
                 [0; 1; 3; 2; 5; 1#2; 7; 4]%Q valid (Some (3%nat, g, vd, vm))) = true /\
  check_C05 (COp true OCurl [2; 2; 2]%nat [1#2; 1; 2]%Q [false; true; false] dims 3 vd vm g valid
                 (Some (3%nat, [0; 0; 0; 0; 0; 0; 0; 0; 0; 0; 0; 0; 0; 0; 0; 0; 0; 0; 0; 0; 0; 0; 0; 0]%Q, vd, vm))) = true /\
  forallb (fun b => b) valid = true /\ rev_comps vd vm dims = OK [0; 1; 2]%nat.
Proof. exact accepted_curl_grad_instance. Qed.
Print Assumptions C05_accepted_curl_grad_instance.

(* ----- scale regime: the observed entries are within the tolerance of the textbook combinations ----- *)
Theorem C05_accepted_grad_close : forall sh cell per dims nv vdims vmap vals valid onv oarr ovdims ovmap,
  check_C05 (COp false OGrad sh cell per dims nv vdims vmap vals valid (Some (onv, oarr, ovdims, ovmap))) = true ->
  nv = 1%nat /\ onv = length sh /\
  forall (q : idx) a, inb sh q = true -> (a < length sh)%nat ->
    (Qabs (this (dax QcOps (c05M sh cell per) 1 a (comp QcOps 0 (c05f sh 1 vals)) (c05v sh valid) (q ++ [0%nat]))
           - this (nth (ravel (sh ++ [length sh]) (q ++ [a])) (qcl oarr) 0%Qc))
     <= c05_tol * c05_scale OGrad sh cell vals)%Q.
Proof. exact accepted_grad_close. Qed.
Print Assumptions C05_accepted_grad_close.

Theorem C05_accepted_laplace_close : forall sh cell per dims nv vdims vmap vals valid onv oarr ovdims ovmap,
  check_C05 (COp false OLap sh cell per dims nv vdims vmap vals valid (Some (onv, oarr, ovdims, ovmap))) = true ->
  onv = nv /\
  forall (q : idx) c, inb sh q = true -> (c < nv)%nat ->
    (Qabs (this (fsum QcOps (map (fun a => dax QcOps (c05M sh cell per) 2 a (comp QcOps c (c05f sh nv vals))
                                              (c05v sh valid) (q ++ [0%nat]))
                                 (iota 0 (length sh))))
           - this (nth (ravel (sh ++ [nv]) (q ++ [c])) (qcl oarr) 0%Qc))
     <= c05_tol * c05_scale OLap sh cell vals)%Q.
Proof. exact accepted_laplace_close. Qed.
Print Assumptions C05_accepted_laplace_close.

Example C05_accepted_grad_close_instance :
  check_C05 (COp false OGrad [3]%nat [1#10]%Q [false] ["x"%string] 1 None [] [0; 1#10; 2#10]%Q [true; true; true]
                 (Some (1%nat, [1; 1 + (1#1000000000000); 1]%Q, None, []))) = true.
Proof. exact accepted_grad_close_instance. Qed.
Print Assumptions C05_accepted_grad_close_instance.
