(* C06 — Integrals and means are cell sums times cell measure, consistent across axes.
   K is an arbitrary field. Statements only. *)
From Coq Require Import Qcanon.
From DF Require Import Prelude FieldK NDArray Integrate C06_proofs C06_means Check_C06 CheckSound C06_sound.

(* the integral over all directions is the sum of the cell values times the cell volume *)
Theorem C06_total : forall (K : FOps) sh nvdim dV (f : idx -> K) c, (c < nvdim)%nat ->
  nth c (integrate_all K sh nvdim dV f) (f0 K) = fmul (total K sh (fun i => f (i ++ [c]))) dV.
Proof.
  intros K sh nvdim dV f c Hc. unfold integrate_all.
  exact (ListLemmas.nth_map_iota (fun c => fmul (total K sh (fun i => f (i ++ [c]))) dV) nvdim c (f0 K) Hc).
Qed.
Print Assumptions C06_total.

(* each directional integral is the sum along that axis times the cell length *)
Theorem C06_directional : forall (K : FOps) sh nvdim ax h (f : idx -> K) i,
  integrate_dir K sh nvdim ax h f i
  = fmul (fsum K (map (fun j => f (insert_nth ax j i)) (iota 0 (nth ax (sh ++ [nvdim]) 0%nat)))) h.
Proof. reflexivity. Qed.
Print Assumptions C06_directional.

(* Fubini: summing along any one axis first leaves the total unchanged (hence any order of axes) *)
Theorem C06_fubini_step : forall (K : FOps), FLaws K -> forall sh ax (f : idx -> K),
  (ax < length sh)%nat ->
  total K (remove_nth ax sh) (sum_axis K sh ax f) = total K sh f.
Proof. exact total_sum_axis. Qed.
Print Assumptions C06_fubini_step.

Theorem C06_fubini_with_cell_lengths : forall (K : FOps), FLaws K -> forall sh ax h r (f : idx -> K),
  (ax < length sh)%nat ->
  fmul (total K (remove_nth ax sh) (fun i => fmul (sum_axis K sh ax f i) h)) r
  = fmul (total K sh f) (fmul h r).
Proof. exact total_integrate_dir. Qed.
Print Assumptions C06_fubini_with_cell_lengths.

(* hence: integrating direction by direction in ANY order (any sequence of remaining axes) gives the
   same number; when all axes are used up the single remaining entry is the total *)
Theorem C06_fubini_any_order : forall (K : FOps), FLaws K -> forall axs sh (f : idx -> K),
  axes_valid axs (length sh) ->
  total K (fst (reduce_axes K axs sh f)) (snd (reduce_axes K axs sh f)) = total K sh f.
Proof. exact total_reduce_axes. Qed.
Print Assumptions C06_fubini_any_order.

(* cumulative integral: c_j = h * (sum of the preceding cells + half the cell's own value) *)
Theorem C06_cumulative : forall (K : FOps), FLaws K -> forall h (a : list K) j,
  (j < length a)%nat ->
  nth j (cum_line K h a) (f0 K)
  = fmul (fadd (fdiv (nth j a (f0 K)) (f2 K)) (fsum K (firstn j a))) h.
Proof. exact cum_line_nth. Qed.
Print Assumptions C06_cumulative.

(* its last entry plus half the last cell equals the directional integral *)
Theorem C06_cumulative_last : forall (K : FOps), FLaws K -> forall h (a : list K),
  f2 K <> f0 K -> a <> [] ->
  fadd (nth (length a - 1) (cum_line K h a) (f0 K)) (fmul (fdiv (nth (length a - 1) a (f0 K)) (f2 K)) h)
  = fmul (fsum K a) h.
Proof. exact cum_line_last. Qed.
Print Assumptions C06_cumulative_last.

(* mean x integrated extent = integral *)
Theorem C06_mean_times_extent : forall (K : FOps), FLaws K -> forall sh (f : idx -> K) dV,
  fnat K (nprod sh) <> f0 K ->
  fmul (fdiv (total K sh f) (fnat K (nprod sh))) (fmul (fnat K (nprod sh)) dV) = fmul (total K sh f) dV.
Proof. exact mean_times_extent. Qed.
Print Assumptions C06_mean_times_extent.

(* linearity *)
Theorem C06_linear_total : forall (K : FOps), FLaws K -> forall sh a b (f g : idx -> K),
  total K sh (fun i => fadd (fmul a (f i)) (fmul b (g i)))
  = fadd (fmul a (total K sh f)) (fmul b (total K sh g)).
Proof. exact total_lin. Qed.
Print Assumptions C06_linear_total.

Theorem C06_linear_directional : forall (K : FOps), FLaws K -> forall sh ax a b (f g : idx -> K) i,
  sum_axis K sh ax (fun i => fadd (fmul a (f i)) (fmul b (g i))) i
  = fadd (fmul a (sum_axis K sh ax f i)) (fmul b (sum_axis K sh ax g i)).
Proof. exact sum_axis_lin. Qed.
Print Assumptions C06_linear_directional.

(* the mean over ONE direction times the integrated extent is the directional integral ... *)
Theorem C06_mean_directional_times_extent : forall (K : FOps), FLaws K -> forall sh nvdim ax h (f : idx -> K) i,
  fnat K (nth ax sh 0%nat) <> f0 K ->
  fmul (mean_dir K sh nvdim ax f i) (fmul (fnat K (nth ax sh 0%nat)) h) = integrate_dir K sh nvdim ax h f i.
Proof. exact mean_dir_times_extent. Qed.
Print Assumptions C06_mean_directional_times_extent.

(* ... and the mean of the directional means over the remaining directions is the mean over all directions
   (means over several directions are obtained by repeating this step) *)
Theorem C06_mean_of_directional_means : forall (K : FOps), FLaws K -> forall sh ax (f : idx -> K),
  (ax < length sh)%nat -> fnat K (nprod sh) <> f0 K ->
  fdiv (total K (remove_nth ax sh) (fun i => fdiv (sum_axis K sh ax f i) (fnat K (nth ax sh 0%nat))))
       (fnat K (nprod (remove_nth ax sh)))
  = fdiv (total K sh f) (fnat K (nprod sh)).
Proof. exact mean_of_directional_means. Qed.
Print Assumptions C06_mean_of_directional_means.

(* the cumulative integral is linear in the line *)
Theorem C06_linear_cumulative : forall (K : FOps), FLaws K -> forall h a b (u w : list K),
  length u = length w ->
  cum_line K h (map2 (fun x y => fadd (fmul a x) (fmul b y)) u w)
  = map2 (fun x y => fadd (fmul a x) (fmul b y)) (cum_line K h u) (cum_line K h w).
Proof. exact cum_line_lin. Qed.
Print Assumptions C06_linear_cumulative.

(* none of the definitions mentions the position of the mesh: integrate_all / integrate_dir /
   integrate_cum / mean_* take only shape, cell lengths and values (translation invariance is
   therefore structural; on the implementation it is checked by the harness clause
   `depends-on-mesh-position`). *)

(* ---- the tie, proved: soundness of the correspondence checker.  A case of a shard that evaluates
   to true certifies that the OBSERVED output of the implementation is the model's value on the
   observed input array (exact regime: Leibniz equality of canonical rationals; means: within
   mean_tol * scale), so the theorems above apply to the observation itself. *)
Theorem C06_check_total_sound : forall sh nvdim dV vals obs,
  check_C06 (CIntAll sh nvdim dV vals obs) = true ->
  length vals = nprod (sh ++ [nvdim]) /\
  qcl obs = integrate_all QcOps sh nvdim (qc dV) (arr sh nvdim vals).
Proof. exact check_int_all_sound. Qed.
Print Assumptions C06_check_total_sound.
Theorem C06_check_directional_sound : forall sh nvdim ax h vals obs,
  check_C06 (CIntDir sh nvdim ax h vals obs) = true ->
  length vals = nprod (sh ++ [nvdim]) /\
  qcl obs = to_list (remove_nth ax sh ++ [nvdim]) (integrate_dir QcOps sh nvdim ax (qc h) (arr sh nvdim vals)).
Proof. exact check_int_dir_sound. Qed.
Print Assumptions C06_check_directional_sound.
Theorem C06_check_cumulative_sound : forall sh nvdim ax h vals obs,
  check_C06 (CIntCum sh nvdim ax h vals obs) = true ->
  length vals = nprod (sh ++ [nvdim]) /\
  qcl obs = to_list (sh ++ [nvdim]) (integrate_cum QcOps sh nvdim ax (qc h) (arr sh nvdim vals)).
Proof. exact check_int_cum_sound. Qed.
Print Assumptions C06_check_cumulative_sound.
Theorem C06_check_mean_sound : forall sh nvdim vals scale obs,
  check_C06 (CMeanAll sh nvdim vals scale obs) = true ->
  length vals = nprod (sh ++ [nvdim]) /\
  length obs = nvdim /\
  forall c, (c < nvdim)%nat ->
    (Qabs (this (nth c (mean_all QcOps sh nvdim (arr sh nvdim vals)) 0%Qc) - this (nth c (qcl obs) 0%Qc))
     <= mean_tol * scale)%Q.
Proof. exact check_mean_all_sound. Qed.
Print Assumptions C06_check_mean_sound.
Theorem C06_check_mean_directional_sound : forall sh nvdim ax vals scale obs,
  check_C06 (CMeanDir sh nvdim ax vals scale obs) = true ->
  length vals = nprod (sh ++ [nvdim]) /\
  forall k, (k < length obs)%nat ->
    (Qabs (this (nth k (to_list (remove_nth ax sh ++ [nvdim]) (mean_dir QcOps sh nvdim ax (arr sh nvdim vals))) 0%Qc)
           - this (nth k (qcl obs) 0%Qc)) <= mean_tol * scale)%Q.
Proof. exact check_mean_dir_sound. Qed.
Print Assumptions C06_check_mean_directional_sound.
(* a whole shard: no failing index means every case was accepted *)
Theorem C06_shard_verdict : forall cases k,
  failing k (map check_C06 cases) = [] -> forall c, In c cases -> check_C06 c = true.
Proof. exact (failing_nil_all check_C06). Qed.
Print Assumptions C06_shard_verdict.
(* transfer: the observed integrate() output is the cell sum times the cell volume ... *)
Theorem C06_accepted_total : forall sh nvdim dV vals obs c,
  check_C06 (CIntAll sh nvdim dV vals obs) = true -> (c < nvdim)%nat ->
  nth c (qcl obs) 0%Qc = (total QcOps sh (fun i => arr sh nvdim vals (i ++ [c])) * qc dV)%Qc.
Proof. exact accepted_total. Qed.
Print Assumptions C06_accepted_total.
(* ... and equals the directional integral along ANY axis summed over the remaining cells *)
Theorem C06_accepted_fubini : forall sh ax h r vals obs_all,
  (ax < length sh)%nat ->
  check_C06 (CIntAll sh 1 (Qmult h r) vals obs_all) = true ->
  nth 0 (qcl obs_all) 0%Qc
  = (total QcOps (remove_nth ax sh)
       (fun i => (sum_axis QcOps sh ax (fun i => arr sh 1 vals (i ++ [0%nat])) i * qc h)%Qc) * qc r)%Qc.
Proof. exact accepted_fubini. Qed.
Print Assumptions C06_accepted_fubini.
Example C06_accepted_total_instance :
  check_C06 (CIntAll [2;3]%nat 1 (1#4) [1;2;3;4;5;6]%Q [(21#4)%Q]) = true.
Proof. exact accepted_total_instance. Qed.
Print Assumptions C06_accepted_total_instance.
(* transfer: every observed cumulative value is the cell length times (half the cell's own value plus
   the sum of the preceding cells on its own grid line) *)
Theorem C06_accepted_cumulative : forall sh nvdim ax h vals obs i,
  check_C06 (CIntCum sh nvdim ax h vals obs) = true ->
  inb (sh ++ [nvdim]) i = true ->
  (nth ax i 0%nat < length (line (sh ++ [nvdim]) (arr sh nvdim vals) ax i))%nat ->
  nth (ravel (sh ++ [nvdim]) i) (qcl obs) 0%Qc
  = ((nth (nth ax i 0%nat) (line (sh ++ [nvdim]) (arr sh nvdim vals) ax i) 0%Qc / f2 QcOps
      + fsum QcOps (firstn (nth ax i 0%nat) (line (sh ++ [nvdim]) (arr sh nvdim vals) ax i))) * qc h)%Qc.
Proof. exact accepted_cumulative. Qed.
Print Assumptions C06_accepted_cumulative.
(* transfer: every entry of the observed directional integral is the sum along that axis times the cell length *)
Theorem C06_accepted_directional : forall sh nvdim ax h vals obs i,
  check_C06 (CIntDir sh nvdim ax h vals obs) = true ->
  inb (remove_nth ax sh ++ [nvdim]) i = true ->
  nth (ravel (remove_nth ax sh ++ [nvdim]) i) (qcl obs) 0%Qc
  = (fsum QcOps (map (fun j => arr sh nvdim vals (insert_nth ax j i))
                     (iota 0 (nth ax (sh ++ [nvdim]) 0%nat))) * qc h)%Qc.
Proof. exact accepted_directional. Qed.
Print Assumptions C06_accepted_directional.
