(* C06 — Integrals and means are cell sums times cell measure, consistent across axes.
   K is an arbitrary field. Statements only. *)
From DF Require Import Prelude FieldK NDArray Integrate C06_proofs C06_means.

(* the integral over all directions is the sum of the cell values times the cell volume *)
Theorem C06_total : forall (K : FOps) sh nvdim dV (f : idx -> K) c, (c < nvdim)%nat ->
  nth c (integrate_all K sh nvdim dV f) (f0 K) = fmul (total K sh (fun i => f (i ++ [c]))) dV.
Proof.
  intros K sh nvdim dV f c Hc. unfold integrate_all.
  exact (ListLemmas.nth_map_iota (fun c => fmul (total K sh (fun i => f (i ++ [c]))) dV) nvdim c (f0 K) Hc).
Qed.
Print Assumptions C06_total.

(* each directional integral is the sum along that axis times the cell length *)
Theorem C06_directional : forall (K : FOps) sh nvdim ax h (f : idx -> K) i,
  integrate_dir K sh nvdim ax h f i
  = fmul (fsum K (map (fun j => f (insert_nth ax j i)) (iota 0 (nth ax (sh ++ [nvdim]) 0%nat)))) h.
Proof. reflexivity. Qed.
Print Assumptions C06_directional.

(* Fubini: summing along any one axis first leaves the total unchanged (hence any order of axes) *)
Theorem C06_fubini_step : forall (K : FOps), FLaws K -> forall sh ax (f : idx -> K),
  (ax < length sh)%nat ->
  total K (remove_nth ax sh) (sum_axis K sh ax f) = total K sh f.
Proof. exact total_sum_axis. Qed.
Print Assumptions C06_fubini_step.

Theorem C06_fubini_with_cell_lengths : forall (K : FOps), FLaws K -> forall sh ax h r (f : idx -> K),
  (ax < length sh)%nat ->
  fmul (total K (remove_nth ax sh) (fun i => fmul (sum_axis K sh ax f i) h)) r
  = fmul (total K sh f) (fmul h r).
Proof. exact total_integrate_dir. Qed.
Print Assumptions C06_fubini_with_cell_lengths.

(* hence: integrating direction by direction in ANY order (any sequence of remaining axes) gives the
   same number; when all axes are used up the single remaining entry is the total *)
Theorem C06_fubini_any_order : forall (K : FOps), FLaws K -> forall axs sh (f : idx -> K),
  axes_valid axs (length sh) ->
  total K (fst (reduce_axes K axs sh f)) (snd (reduce_axes K axs sh f)) = total K sh f.
Proof. exact total_reduce_axes. Qed.
Print Assumptions C06_fubini_any_order.

(* cumulative integral: c_j = h * (sum of the preceding cells + half the cell's own value) *)
Theorem C06_cumulative : forall (K : FOps), FLaws K -> forall h (a : list K) j,
  (j < length a)%nat ->
  nth j (cum_line K h a) (f0 K)
  = fmul (fadd (fdiv (nth j a (f0 K)) (f2 K)) (fsum K (firstn j a))) h.
Proof. exact cum_line_nth. Qed.
Print Assumptions C06_cumulative.

(* its last entry plus half the last cell equals the directional integral *)
Theorem C06_cumulative_last : forall (K : FOps), FLaws K -> forall h (a : list K),
  f2 K <> f0 K -> a <> [] ->
  fadd (nth (length a - 1) (cum_line K h a) (f0 K)) (fmul (fdiv (nth (length a - 1) a (f0 K)) (f2 K)) h)
  = fmul (fsum K a) h.
Proof. exact cum_line_last. Qed.
Print Assumptions C06_cumulative_last.

(* mean x integrated extent = integral *)
Theorem C06_mean_times_extent : forall (K : FOps), FLaws K -> forall sh (f : idx -> K) dV,
  fnat K (nprod sh) <> f0 K ->
  fmul (fdiv (total K sh f) (fnat K (nprod sh))) (fmul (fnat K (nprod sh)) dV) = fmul (total K sh f) dV.
Proof. exact mean_times_extent. Qed.
Print Assumptions C06_mean_times_extent.

(* linearity *)
Theorem C06_linear_total : forall (K : FOps), FLaws K -> forall sh a b (f g : idx -> K),
  total K sh (fun i => fadd (fmul a (f i)) (fmul b (g i)))
  = fadd (fmul a (total K sh f)) (fmul b (total K sh g)).
Proof. exact total_lin. Qed.
Print Assumptions C06_linear_total.

Theorem C06_linear_directional : forall (K : FOps), FLaws K -> forall sh ax a b (f g : idx -> K) i,
  sum_axis K sh ax (fun i => fadd (fmul a (f i)) (fmul b (g i))) i
  = fadd (fmul a (sum_axis K sh ax f i)) (fmul b (sum_axis K sh ax g i)).
Proof. exact sum_axis_lin. Qed.
Print Assumptions C06_linear_directional.

(* the mean over ONE direction times the integrated extent is the directional integral ... *)
Theorem C06_mean_directional_times_extent : forall (K : FOps), FLaws K -> forall sh nvdim ax h (f : idx -> K) i,
  fnat K (nth ax sh 0%nat) <> f0 K ->
  fmul (mean_dir K sh nvdim ax f i) (fmul (fnat K (nth ax sh 0%nat)) h) = integrate_dir K sh nvdim ax h f i.
Proof. exact mean_dir_times_extent. Qed.
Print Assumptions C06_mean_directional_times_extent.

(* ... and the mean of the directional means over the remaining directions is the mean over all directions
   (means over several directions are obtained by repeating this step) *)
Theorem C06_mean_of_directional_means : forall (K : FOps), FLaws K -> forall sh ax (f : idx -> K),
  (ax < length sh)%nat -> fnat K (nprod sh) <> f0 K ->
  fdiv (total K (remove_nth ax sh) (fun i => fdiv (sum_axis K sh ax f i) (fnat K (nth ax sh 0%nat))))
       (fnat K (nprod (remove_nth ax sh)))
  = fdiv (total K sh f) (fnat K (nprod sh)).
Proof. exact mean_of_directional_means. Qed.
Print Assumptions C06_mean_of_directional_means.

(* the cumulative integral is linear in the line *)
Theorem C06_linear_cumulative : forall (K : FOps), FLaws K -> forall h a b (u w : list K),
  length u = length w ->
  cum_line K h (map2 (fun x y => fadd (fmul a x) (fmul b y)) u w)
  = map2 (fun x y => fadd (fmul a x) (fmul b y)) (cum_line K h u) (cum_line K h w).
Proof. exact cum_line_lin. Qed.
Print Assumptions C06_linear_cumulative.

(* none of the definitions mentions the position of the mesh: integrate_all / integrate_dir /
   integrate_cum / mean_* take only shape, cell lengths and values (translation invariance is
   therefore structural; on the implementation it is checked by the harness clause
   `depends-on-mesh-position`). *)
