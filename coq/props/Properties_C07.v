(* C07 - sub-selection, padding and resampling keep every value at its physical position.
   ONLY statements closed by [exact], each followed by Print Assumptions.
   Per-axis statements quantify over every axis lo < hi with k > 0 cells (geometry in Q);
   field statements over every value type V. *)
From DF Require Import Prelude Constants_gen Region Mesh Select C01_axis C07_axis C07_nd C07_pad C07_accept C07_ops C07_getitem C07_examples CheckSound Check_C07 C07_sound.
Open Scope Q_scope.

(* pointwise: inside the block the source cell of a point is the block cell shifted by the offset (range selection, extraction by region / name) *)
Theorem C07_pointwise_block :
  forall (lo hi : Q) (k : Z),
       lo < hi ->
       (0 < k)%Z ->
       forall (off cnt : Z) (lo' hi' : Q),
       (0 < cnt)%Z ->
       lo' == lo + inject_Z off * cell_of lo hi k ->
       hi' == lo + inject_Z (off + cnt) * cell_of lo hi k ->
       forall q : Q,
       (0 <= off)%Z ->
       (off + cnt <= k)%Z ->
       lo' <= q -> q < hi' -> p2i1 lo (cell_of lo hi k) k q = (p2i1 lo' (cell_of lo' hi' cnt) cnt q + off)%Z.
Proof. exact (@block_index_shift). Qed.
Print Assumptions C07_pointwise_block.

(* pointwise, padding: inside the source the padded mesh addresses the same cell, shifted by the pad width *)
Theorem C07_pointwise_pad :
  forall (lo hi : Q) (k : Z),
       lo < hi ->
       (0 < k)%Z ->
       forall (off cnt : Z) (lo' hi' : Q),
       (0 < cnt)%Z ->
       lo' == lo + inject_Z off * cell_of lo hi k ->
       hi' == lo + inject_Z (off + cnt) * cell_of lo hi k ->
       forall q : Q,
       lo <= q ->
       q < hi ->
       (off <= 0)%Z ->
       (k <= off + cnt)%Z -> p2i1 lo (cell_of lo hi k) k q = (p2i1 lo' (cell_of lo' hi' cnt) cnt q + off)%Z.
Proof. exact (@block_index_shift_pad). Qed.
Print Assumptions C07_pointwise_pad.

(* cell centres of a block are source cell centres *)
Theorem C07_block_centres :
  forall (lo hi : Q) (k off cnt : Z) (lo' hi' : Q),
       (0 < cnt)%Z ->
       lo' == lo + inject_Z off * cell_of lo hi k ->
       hi' == lo + inject_Z (off + cnt) * cell_of lo hi k ->
       forall j : Z, i2p1 lo' (cell_of lo' hi' cnt) j == i2p1 lo (cell_of lo hi k) (j + off).
Proof. exact (@block_centres). Qed.
Print Assumptions C07_block_centres.

(* cell size of a block is the source cell size *)
Theorem C07_block_cell :
  forall (lo hi : Q) (k off cnt : Z) (lo' hi' : Q),
       (0 < cnt)%Z ->
       lo' == lo + inject_Z off * cell_of lo hi k ->
       hi' == lo + inject_Z (off + cnt) * cell_of lo hi k -> cell_of lo' hi' cnt == cell_of lo hi k.
Proof. exact (@block_cell). Qed.
Print Assumptions C07_block_cell.

(* Mesh(region=block, cell=source cell) recovers the number of kept cells *)
Theorem C07_block_count :
  forall (lo hi : Q) (k : Z),
       lo < hi ->
       (0 < k)%Z ->
       forall (off cnt : Z) (lo' hi' : Q),
       lo' == lo + inject_Z off * cell_of lo hi k ->
       hi' == lo + inject_Z (off + cnt) * cell_of lo hi k ->
       Qround_half_even ((hi' - lo') / cell_of lo hi k) = cnt.
Proof. exact (@block_count). Qed.
Print Assumptions C07_block_count.

(* values and validity of a range selection are the source's at the index shifted by the first kept cell *)
Theorem C07_pointwise_range_values :
  forall (V : Type) (F : field V) (a : nat) (x1 x2 : Q) (R : field V),
       field_sel F a (SRange x1 x2) = OK (FField R) ->
       exists ilo ihi : Z,
         sel_convert (fmesh F) a (SRange x1 x2) = OK (IRange ilo ihi) /\
         mesh_sel_range (fmesh F) a ilo ihi = OK (fmesh R) /\
         (forall i : list Z,
          fval R i = fval F (shift_nth a ilo i) /\ fvalid R i = fvalid F (shift_nth a ilo i)).
Proof. exact (@field_sel_range_values). Qed.
Print Assumptions C07_pointwise_range_values.

(* values and validity of a plane selection are the source's with the plane index re-inserted *)
Theorem C07_pointwise_plane_values :
  forall (V : Type) (F : field V) (a : nat) (s : selarg) (R : field V),
       (forall x1 x2 : Q, s <> SRange x1 x2) ->
       field_sel F a s = OK (FField R) ->
       exists k : Z,
         sel_convert (fmesh F) a s = OK (IPlane k) /\
         mesh_sel_plane (fmesh F) a k = OK (fmesh R) /\
         (forall i : list Z, fval R i = fval F (insert_nth a k i) /\ fvalid R i = fvalid F (insert_nth a k i)).
Proof. exact (@field_sel_plane_values). Qed.
Print Assumptions C07_pointwise_plane_values.

(* plane selection of a one-dimensional field: the bare value of the selected cell *)
Theorem C07_pointwise_plane_1d :
  forall (V : Type) (F : field V) (a : nat) (s : selarg) (v : V),
       field_sel F a s = OK (FValue v) ->
       exists k : Z, sel_convert (fmesh F) a s = OK (IPlane k) /\ v = fval F [k].
Proof. exact (@field_sel_plane_1d). Qed.
Print Assumptions C07_pointwise_plane_1d.

(* values and validity of an extracted block are the source's at the index shifted by the block offset *)
Theorem C07_pointwise_block_values :
  forall (V : Type) (F : field V) (sub : mesh) (R : field V),
       field_block F sub = OK R ->
       fmesh R = sub /\
       (exists off : list Z,
          block_offset (fmesh F) sub = OK off /\
          (forall i : list Z, fval R i = fval F (add_idx i off) /\ fvalid R i = fvalid F (add_idx i off))).
Proof. exact (@field_block_values). Qed.
Print Assumptions C07_pointwise_block_values.

(* values and validity of a padded field follow the mode's index map; constant mode fills 0 / False *)
Theorem C07_pointwise_pad_values :
  forall (V : Type) (zero : V) (F : field V) (pw : list (Z * Z)) (md : pmode) (R : field V),
       field_pad zero F pw md = OK R ->
       mesh_pad (fmesh F) pw = OK (fmesh R) /\
       (forall i : list Z,
        match pad_index md (n (fmesh F)) pw i with
        | Some s => fval R i = fval F s /\ fvalid R i = fvalid F s
        | None => fval R i = zero /\ fvalid R i = false
        end).
Proof. exact (@field_pad_values). Qed.
Print Assumptions C07_pointwise_pad_values.

(* interior cells of a padded field read their own source cell in every mode *)
Theorem C07_pad_interior_index :
  forall (md : pmode) (ns : list Z) (pw : list (Z * Z)) (j : list Z),
       Datatypes.length pw = Datatypes.length ns ->
       Datatypes.length j = Datatypes.length ns ->
       (forall a : nat, (a < Datatypes.length ns)%nat -> (0 <= nth a j 0 < nth a ns 0)%Z) ->
       pad_index md ns pw (map2 (fun (x : Z) (w : Z * Z) => (x + fst w)%Z) j pw) = Some j.
Proof. exact (@pad_index_interior). Qed.
Print Assumptions C07_pad_interior_index.

(* a coordinate lo<=x<=hi is looked up in a cell of the axis whose closed extent contains it (half-open below the upper face) *)
Theorem C07_cell_of_coord :
  forall (lo hi : Q) (k : Z),
       lo < hi ->
       (0 < k)%Z ->
       forall x : Q,
       lo <= x ->
       x <= hi ->
       let i := p2i1 lo (cell_of lo hi k) k x in
       (0 <= i < k)%Z /\
       lo + inject_Z i * cell_of lo hi k <= x /\
       x <= lo + (inject_Z i + 1) * cell_of lo hi k /\
       (x < hi -> x < lo + (inject_Z i + 1) * cell_of lo hi k).
Proof. exact (@cell_of_coord). Qed.
Print Assumptions C07_cell_of_coord.

(* plane: the removed axis is cut at the cell containing the requested coordinate *)
Theorem C07_plane :
  forall m : mesh,
       wf_mesh m ->
       forall (a : nat) (x : Q) (k : Z),
       (a < Datatypes.length (pmin (reg m)))%nat ->
       sel_convert m a (SPoint x) = OK (IPlane k) ->
       let lo := nth a (pmin (reg m)) 0 in
       let c := nth a (cell m) 0 in
       (0 <= k < nth a (n m) 1)%Z /\
       lo + inject_Z k * c <= x /\
       x <= lo + (inject_Z k + 1) * c /\ (x < nth a (pmax (reg m)) 0 -> x < lo + (inject_Z k + 1) * c).
Proof. exact (@plane_index). Qed.
Print Assumptions C07_plane.

(* range: first and last kept index, ordered, in range, each containing its end of the range *)
Theorem C07_range_indices :
  forall m : mesh,
       wf_mesh m ->
       forall (a : nat) (x1 x2 : Q) (i1 i2 : Z),
       (a < Datatypes.length (pmin (reg m)))%nat ->
       sel_convert m a (SRange x1 x2) = OK (IRange i1 i2) ->
       let lo := nth a (pmin (reg m)) 0 in
       let c := nth a (cell m) 0 in
       (0 <= i1)%Z /\
       (i1 <= i2)%Z /\
       (i2 < nth a (n m) 1)%Z /\
       lo + inject_Z i1 * c <= Qmin x1 x2 /\
       Qmin x1 x2 <= lo + (inject_Z i1 + 1) * c /\
       lo + inject_Z i2 * c <= Qmax x1 x2 <= lo + (inject_Z i2 + 1) * c.
Proof. exact (@range_indices). Qed.
Print Assumptions C07_range_indices.

(* range: the kept cells are exactly idx(x1)..idx(x2), the region is their union, cell size and count follow *)
Theorem C07_range_exact :
  forall (lo hi : Q) (k : Z),
       lo < hi ->
       (0 < k)%Z ->
       forall x1 x2 : Q,
       lo <= x1 ->
       x1 <= x2 ->
       x2 <= hi ->
       let i1 := p2i1 lo (cell_of lo hi k) k x1 in
       let i2 := p2i1 lo (cell_of lo hi k) k x2 in
       let min_val := i2p1 lo (cell_of lo hi k) i1 - cell_of lo hi k / 2 in
       let max_val := i2p1 lo (cell_of lo hi k) i2 + cell_of lo hi k / 2 in
       (0 <= i1)%Z /\
       (i1 <= i2)%Z /\
       (i2 < k)%Z /\
       min_val == lo + inject_Z i1 * cell_of lo hi k /\
       max_val == lo + inject_Z (i1 + (i2 - i1 + 1)) * cell_of lo hi k /\
       min_val <= x1 /\
       x2 <= max_val /\
       lo <= min_val /\
       max_val <= hi /\
       Qround_half_even ((max_val - min_val) / cell_of lo hi k) = (i2 - i1 + 1)%Z /\
       cell_of min_val max_val (i2 - i1 + 1) == cell_of lo hi k.
Proof. exact (@range_exact). Qed.
Print Assumptions C07_range_exact.

(* extraction by region: floor / ceil-1 give a whole-cell block containing the region and contained in every such block *)
Theorem C07_block_minimal :
  forall (lo hi : Q) (k : Z),
       lo < hi ->
       (0 < k)%Z ->
       forall x0 x1 : Q,
       lo <= x0 ->
       x0 < x1 ->
       x1 <= hi ->
       let a := p2i1 lo (cell_of lo hi k) k x0 in
       let b := upper_idx1 lo (cell_of lo hi k) x1 in
       (0 <= a)%Z /\
       (a <= b)%Z /\
       (b < k)%Z /\
       lo + inject_Z a * cell_of lo hi k <= x0 /\
       x1 <= lo + (inject_Z b + 1) * cell_of lo hi k /\
       (forall a' b' : Z,
        lo + inject_Z a' * cell_of lo hi k <= x0 ->
        x1 <= lo + (inject_Z b' + 1) * cell_of lo hi k -> (a' <= a)%Z /\ (b <= b')%Z).
Proof. exact (@block_minimal). Qed.
Print Assumptions C07_block_minimal.

(* the corners handed to the constructor are the faces of that block *)
Theorem C07_block_corners :
  forall (lo hi : Q) (k a b : Z),
       half_down (i2p1 lo (cell_of lo hi k) a) (cell_of lo hi k) == lo + inject_Z a * cell_of lo hi k /\
       half_up (i2p1 lo (cell_of lo hi k) b) (cell_of lo hi k) ==
       lo + inject_Z (a + (b - a + 1)) * cell_of lo hi k.
Proof. exact (@getitem_corners). Qed.
Print Assumptions C07_block_corners.

(* region2slices of a cell-aligned region selects exactly its cells *)
Theorem C07_slices :
  forall (lo hi : Q) (k : Z),
       lo < hi ->
       (0 < k)%Z ->
       forall a b : Z,
       (0 <= a)%Z ->
       (a <= b)%Z ->
       (b < k)%Z ->
       p2i1 lo (cell_of lo hi k) k (half_up (lo + inject_Z a * cell_of lo hi k) (cell_of lo hi k)) = a /\
       p2i1 lo (cell_of lo hi k) k (half_down (lo + inject_Z (b + 1) * cell_of lo hi k) (cell_of lo hi k)) =
       b.
Proof. exact (@slices_aligned). Qed.
Print Assumptions C07_slices.

(* padding adds the requested number of cells per side, cell size unchanged *)
Theorem C07_pad_counts :
  forall (lo hi : Q) (k : Z),
       lo < hi ->
       (0 < k)%Z ->
       forall w : Z * Z,
       (0 <= fst w)%Z ->
       (0 <= snd w)%Z ->
       let lo' := pad_lo lo (cell_of lo hi k) w in
       let hi' := pad_hi hi (cell_of lo hi k) w in
       lo' == lo + inject_Z (- fst w) * cell_of lo hi k /\
       hi' == lo + inject_Z (- fst w + (k + fst w + snd w)) * cell_of lo hi k /\
       Qround_half_even ((hi' - lo') / cell_of lo hi k) = (k + fst w + snd w)%Z /\
       cell_of lo' hi' (k + fst w + snd w) == cell_of lo hi k.
Proof. exact (@pad_axis). Qed.
Print Assumptions C07_pad_counts.

(* every padding mode is the identity inside the source *)
Theorem C07_pad_interior :
  forall (md : pmode) (k j : Z), (0 <= j < k)%Z -> pad_src md k j = Some j.
Proof. exact (@pad_src_interior). Qed.
Print Assumptions C07_pad_interior.

(* every padding mode reads source cells only *)
Theorem C07_pad_reads_source :
  forall (md : pmode) (k j s : Z), (0 < k)%Z -> pad_src md k j = Some s -> (0 <= s < k)%Z.
Proof. exact (@pad_src_range). Qed.
Print Assumptions C07_pad_reads_source.

(* constant mode fills exactly the added cells *)
Theorem C07_pad_constant :
  forall k j : Z, pad_src PConstant k j = None <-> ~ (0 <= j < k)%Z.
Proof. exact (@pad_src_constant). Qed.
Print Assumptions C07_pad_constant.

(* edge mode repeats the nearest edge cell *)
Theorem C07_pad_edge :
  forall k j : Z,
       (0 < k)%Z ->
       pad_src PEdge k j = Some (if (j <? 0)%Z then 0%Z else if (k <=? j)%Z then (k - 1)%Z else j).
Proof. exact (@pad_src_edge). Qed.
Print Assumptions C07_pad_edge.

(* wrap mode is periodic continuation *)
Theorem C07_pad_wrap :
  forall k j : Z, (0 < k)%Z -> pad_src PWrap k j = Some (j mod k)%Z.
Proof. exact (@pad_src_wrap). Qed.
Print Assumptions C07_pad_wrap.

(* negative pad widths are rejected *)
Theorem C07_pad_negative :
  forall (V : Type) (zero : V) (F : field V) (pw : list (Z * Z)) (md : pmode),
       (exists w : Z * Z, In w pw /\ ((fst w < 0)%Z \/ (snd w < 0)%Z)) -> field_pad zero F pw md = Err ValueE.
Proof. exact (@field_pad_negative). Qed.
Print Assumptions C07_pad_negative.

(* resampling keeps the region, takes the requested resolution, reads the nearest source cell *)
Theorem C07_resample_region :
  forall (V : Type) (F : field V) (n' : list Z) (R : field V),
       field_resample F n' = OK R ->
       reg (fmesh R) = reg (fmesh F) /\
       n (fmesh R) = n' /\
       (forall j : list Z,
        fval R j = fval F (resample_src (fmesh F) (fmesh R) j) /\
        fvalid R j = fvalid F (resample_src (fmesh F) (fmesh R) j)).
Proof. exact (@resample_region). Qed.
Print Assumptions C07_resample_region.

(* a nearest source centre belongs to a cell that contains the new centre *)
Theorem C07_resample_nearest_contains :
  forall (lo hi : Q) (k : Z),
       lo < hi ->
       (0 < k)%Z ->
       forall (q : Q) (i : Z),
       lo <= q ->
       q <= hi ->
       is_nearest lo hi k q i ->
       lo + inject_Z i * cell_of lo hi k <= q <= lo + (inject_Z i + 1) * cell_of lo hi k.
Proof. exact (@nearest_contains). Qed.
Print Assumptions C07_resample_nearest_contains.

(* the cell containing the new centre is a nearest cell (the modelled pick is admissible) *)
Theorem C07_resample_pick_nearest :
  forall (lo hi : Q) (k : Z),
       lo < hi ->
       (0 < k)%Z ->
       forall q : Q, lo <= q -> q <= hi -> is_nearest lo hi k q (nearest_pick lo (cell_of lo hi k) k q).
Proof. exact (@pick_is_nearest). Qed.
Print Assumptions C07_resample_pick_nearest.

(* the checker's boolean nearest test is the nearest relation *)
Theorem C07_resample_nearestb :
  forall (lo hi : Q) (k : Z),
       (0 < k)%Z ->
       forall (q : Q) (i : Z), nearestb lo (cell_of lo hi k) k q i = true <-> is_nearest lo hi k q i.
Proof. exact (@nearestb_spec). Qed.
Print Assumptions C07_resample_nearestb.

(* malformed resolutions are rejected *)
Theorem C07_resample_rejects :
  forall (V : Type) (F : field V) (n' : list Z),
       Datatypes.length n' <> ndim (reg (fmesh F)) \/ (exists k : Z, In k n' /\ (k <= 0)%Z) ->
       is_ok (field_resample F n') = false.
Proof. exact (@resample_rejects). Qed.
Print Assumptions C07_resample_rejects.

(* a plane coordinate outside the region is rejected *)
Theorem C07_reject_outside_point :
  forall (V : Type) (F : field V) (a : nat) (x : Q),
       let m := fmesh F in
       x < nth a (pmin (reg m)) 0 \/ nth a (pmax (reg m)) 0 < x ->
       is_ok (mesh_sel m a (SPoint x)) = false /\ is_ok (field_sel F a (SPoint x)) = false.
Proof. exact (@sel_point_outside). Qed.
Print Assumptions C07_reject_outside_point.

(* a range with an end outside the region is rejected *)
Theorem C07_reject_outside_range :
  forall (V : Type) (F : field V) (a : nat) (x1 x2 : Q),
       let m := fmesh F in
       Qmin x1 x2 < nth a (pmin (reg m)) 0 \/ nth a (pmax (reg m)) 0 < Qmax x1 x2 ->
       is_ok (mesh_sel m a (SRange x1 x2)) = false /\ is_ok (field_sel F a (SRange x1 x2)) = false.
Proof. exact (@sel_range_outside). Qed.
Print Assumptions C07_reject_outside_range.

(* an unknown axis is rejected *)
Theorem C07_reject_unknown_axis :
  forall (V : Type) (F : field V) (a : nat) (s : selarg),
       (ndim (reg (fmesh F)) <= a)%nat ->
       is_ok (mesh_sel (fmesh F) a s) = false /\ is_ok (field_sel F a s) = false.
Proof. exact (@sel_unknown_axis). Qed.
Print Assumptions C07_reject_unknown_axis.

(* a region that is not contained in the mesh region is rejected *)
Theorem C07_reject_outside_region :
  forall (V : Type) (F : field V) (item : region),
       contains_region (reg (fmesh F)) item = false ->
       is_ok (getitem_region (fmesh F) item) = false /\ is_ok (field_getitem_region F item) = false.
Proof. exact (@getitem_outside). Qed.
Print Assumptions C07_reject_outside_region.

(* a region with a corner farther than the tolerance outside is rejected *)
Theorem C07_reject_outside_corner :
  forall (m : mesh) (item : region),
       wf_mesh m ->
       (exists a : nat,
          (a < Datatypes.length (pmin (reg m)))%nat /\
          (let x := nth a (pmax item) 0 in
           let t := tau (tf (reg m)) (reg_atol (reg m)) x in nth a (pmax (reg m)) 0 + t < x)) ->
       is_ok (getitem_region m item) = false.
Proof. exact (@getitem_corner_outside). Qed.
Print Assumptions C07_reject_outside_corner.

(* non-vacuity: concrete states satisfying the hypotheses of the implications above *)
Example C07_pointwise_block_nonvacuous :
  0 < 4 /\ (0 < 4)%Z /\ (0 < 2)%Z /\ 1 == 0 + inject_Z 1 * cell_of 0 4 4 /\
  3 == 0 + inject_Z (1 + 2) * cell_of 0 4 4 /\ (0 <= 1)%Z /\ (1 + 2 <= 4)%Z /\ 1 <= (3 # 2) /\ (3 # 2) < 3 /\
  p2i1 0 (cell_of 0 4 4) 4 (3 # 2) = 1%Z.
Proof. exact ex_block. Qed.
Print Assumptions C07_pointwise_block_nonvacuous.

Example C07_block_minimal_nonvacuous :
  0 < 4 /\ (0 < 4)%Z /\ 0 <= (5 # 4) /\ (5 # 4) < (5 # 2) /\ (5 # 2) <= 4 /\
  p2i1 0 (cell_of 0 4 4) 4 (5 # 4) = 1%Z /\ upper_idx1 0 (cell_of 0 4 4) (5 # 2) = 2%Z.
Proof. exact ex_minimal. Qed.
Print Assumptions C07_block_minimal_nonvacuous.

Example C07_resample_nonvacuous :
  is_nearest 0 4 4 2 1 /\ is_nearest 0 4 4 2 2 /\ nearest_pick 0 (cell_of 0 4 4) 4 2 = 2%Z.
Proof. exact ex_nearest. Qed.
Print Assumptions C07_resample_nonvacuous.

Example C07_sel_nonvacuous :
  sel_convert ex_mesh 1 (SRange (5 # 2) (1 # 2)) = OK (IRange 0 2) /\
  sel_convert ex_mesh 0 (SPoint 1) = OK (IPlane 1) /\ sel_convert ex_mesh 0 SCentre = OK (IPlane 1) /\
  is_ok (sel_convert ex_mesh 0 (SPoint (5 # 2))) = false.
Proof. exact ex_sel. Qed.
Print Assumptions C07_sel_nonvacuous.

(* ================= phase 2: n-d acceptance, pad closed forms, result regions ================= *)

(* symmetric mode below the array: the d-th added cell (d = 0 next to the edge) is the mirror image about the edge, edge cell included, period 2k - for every pad width *)
Theorem C07_pad_symmetric_below :
  forall k d : Z,
       (0 < k)%Z -> (0 <= d)%Z -> pad_src PSymmetric k (- d - 1) = Some (mirror_sym k (d mod (2 * k))).
Proof. exact (@pad_src_symmetric_below). Qed.
Print Assumptions C07_pad_symmetric_below.

(* symmetric mode above the array *)
Theorem C07_pad_symmetric_above :
  forall k d : Z,
       (0 < k)%Z ->
       (0 <= d)%Z -> pad_src PSymmetric k (k + d) = Some (k - 1 - mirror_sym k (d mod (2 * k)))%Z.
Proof. exact (@pad_src_symmetric_above). Qed.
Print Assumptions C07_pad_symmetric_above.

(* reflect mode below the array: distance d >= 1 from the edge cell, edge cell not repeated, period 2k-2 - for every pad width *)
Theorem C07_pad_reflect_below :
  forall k d : Z,
       (1 < k)%Z -> (1 <= d)%Z -> pad_src PReflect k (- d) = Some (mirror_ref k (d mod (2 * k - 2))).
Proof. exact (@pad_src_reflect_below). Qed.
Print Assumptions C07_pad_reflect_below.

(* reflect mode above the array *)
Theorem C07_pad_reflect_above :
  forall k d : Z,
       (1 < k)%Z ->
       (1 <= d)%Z -> pad_src PReflect k (k - 1 + d) = Some (k - 1 - mirror_ref k (d mod (2 * k - 2)))%Z.
Proof. exact (@pad_src_reflect_above). Qed.
Print Assumptions C07_pad_reflect_above.

(* reflect mode on a single cell repeats it (numpy's special case) *)
Theorem C07_pad_reflect_single :
  forall j : Z, pad_src PReflect 1 j = Some 0%Z.
Proof. exact (@pad_src_reflect_single). Qed.
Print Assumptions C07_pad_reflect_single.

(* wrap mode below / above in the same distance form *)
Theorem C07_pad_wrap_below :
  forall k d : Z, (0 < k)%Z -> (0 <= d)%Z -> pad_src PWrap k (- d - 1) = Some (k - 1 - d mod k)%Z.
Proof. exact (@pad_src_wrap_below). Qed.
Print Assumptions C07_pad_wrap_below.

(* wrap mode above *)
Theorem C07_pad_wrap_above :
  forall k d : Z, (0 < k)%Z -> (0 <= d)%Z -> pad_src PWrap k (k + d) = Some (d mod k)%Z.
Proof. exact (@pad_src_wrap_above). Qed.
Print Assumptions C07_pad_wrap_above.

(* within the first k added cells symmetric is the plain mirror image d |-> d *)
Theorem C07_pad_symmetric_first_period :
  forall k d : Z, (0 <= d < k)%Z -> mirror_sym k (d mod (2 * k)) = d.
Proof. exact (@mirror_sym_small). Qed.
Print Assumptions C07_pad_symmetric_first_period.

(* within the first k-1 added cells reflect is the plain mirror image d |-> d *)
Theorem C07_pad_reflect_first_period :
  forall k d : Z,
       (1 < k)%Z -> (0 <= d < k)%Z -> (d < 2 * k - 2)%Z -> mirror_ref k (d mod (2 * k - 2)) = d.
Proof. exact (@mirror_ref_small). Qed.
Print Assumptions C07_pad_reflect_first_period.

(* Region(p1, p2, dims, units) on ordered corners is accepted and keeps them *)
Theorem C07_accept_region_ctor :
  forall (p1 p2 : list Q) (ds us : list string) (t : Q),
       Forall2 Qlt p1 p2 ->
       (0 < Datatypes.length p1)%nat ->
       Datatypes.length ds = Datatypes.length p1 ->
       NoDup ds ->
       Datatypes.length us = Datatypes.length p1 ->
       mk_region p1 p2 (Some ds) (Some us) t =
       OK {| pmin := p1; pmax := p2; dims := ds; units := us; tf := t |}.
Proof. exact (@mk_region_accepts). Qed.
Print Assumptions C07_accept_region_ctor.

(* Mesh(region, cell) on a region made of whole cells is accepted with exactly those counts *)
Theorem C07_accept_mesh_by_cell :
  forall (r : region) (c : list Q) (ks : list Z),
       wf_region r ->
       Datatypes.length c = ndim r ->
       Datatypes.length ks = ndim r ->
       (forall a : nat,
        (a < ndim r)%nat ->
        0 < nth a c 0 /\
        (0 < nth a ks 0)%Z /\ nth a (pmax r) 0 - nth a (pmin r) 0 == inject_Z (nth a ks 0%Z) * nth a c 0) ->
       mesh_by_cell r c = OK {| reg := r; n := ks; bc := ""; subs := [] |}.
Proof. exact (@mesh_by_cell_accepts). Qed.
Print Assumptions C07_accept_mesh_by_cell.

(* a point inside the closed region passes the containment test *)
Theorem C07_accept_contains :
  forall (r : region) (p : list Q),
       wf_region r ->
       Datatypes.length p = ndim r ->
       (forall a : nat, (a < ndim r)%nat -> nth a (pmin r) 0 <= nth a p 0 <= nth a (pmax r) 0) ->
       contains_pt r p = true.
Proof. exact (@contains_pt_intro). Qed.
Print Assumptions C07_accept_contains.

(* (d) resampling with n > 0 is accepted and keeps corners, dims and units; the resolution is the requested one *)
Theorem C07_resample_keeps_region :
  forall (V : Type) (F : field V) (n' : list Z),
       Datatypes.length n' = ndim (reg (fmesh F)) ->
       Forall (fun k : Z => (0 < k)%Z) n' ->
       exists R : field V,
         field_resample F n' = OK R /\
         pmin (reg (fmesh R)) = pmin (reg (fmesh F)) /\
         pmax (reg (fmesh R)) = pmax (reg (fmesh F)) /\
         dims (reg (fmesh R)) = dims (reg (fmesh F)) /\
         units (reg (fmesh R)) = units (reg (fmesh F)) /\ n (fmesh R) = n'.
Proof. exact (@resample_accepts). Qed.
Print Assumptions C07_resample_keeps_region.

(* (a) padding with widths >= 0 is accepted; corners move by width * cell, counts grow by the widths *)
Theorem C07_accept_pad_mesh :
  forall m : mesh,
       wf_mesh m ->
       forall pw : list (Z * Z),
       Datatypes.length pw = Datatypes.length (pmin (reg m)) ->
       (forall a : nat,
        (a < Datatypes.length (pmin (reg m)))%nat ->
        (0 <= fst (nth a pw (0, 0)))%Z /\ (0 <= snd (nth a pw (0, 0)))%Z) ->
       mesh_pad m pw =
       OK
         {|
           reg :=
             {|
               pmin := map3 pad_lo (pmin (reg m)) (cell m) pw;
               pmax := map3 pad_hi (pmax (reg m)) (cell m) pw;
               dims := dims (reg m);
               units := units (reg m);
               tf := tf (reg m)
             |};
           n := map2 (fun (k : Z) (w : Z * Z) => (k + fst w + snd w)%Z) (n m) pw;
           bc := bc m;
           subs := []
         |}.
Proof. exact (@mesh_pad_accepts). Qed.
Print Assumptions C07_accept_pad_mesh.

(* (a) Field.pad with widths >= 0 is accepted on that mesh *)
Theorem C07_accept_pad_field :
  forall m : mesh,
       wf_mesh m ->
       forall (V : Type) (zero : V) (F : field V) (pw : list (Z * Z)) (md : pmode),
       fmesh F = m ->
       Datatypes.length pw = Datatypes.length (pmin (reg m)) ->
       (forall a : nat,
        (a < Datatypes.length (pmin (reg m)))%nat ->
        (0 <= fst (nth a pw (0, 0)))%Z /\ (0 <= snd (nth a pw (0, 0)))%Z) ->
       exists R : field V, field_pad zero F pw md = OK R /\ mesh_pad m pw = OK (fmesh R).
Proof. exact (@field_pad_accepts). Qed.
Print Assumptions C07_accept_pad_field.

(* (a) a plane coordinate inside the region is accepted, n-d *)
Theorem C07_accept_point :
  forall m : mesh,
       wf_mesh m ->
       forall (a : nat) (x : Q),
       (a < Datatypes.length (pmin (reg m)))%nat ->
       nth a (pmin (reg m)) 0 <= x ->
       x <= nth a (pmax (reg m)) 0 -> exists k : Z, sel_convert m a (SPoint x) = OK (IPlane k).
Proof. exact (@sel_point_accepts). Qed.
Print Assumptions C07_accept_point.

(* (a) a range inside the region is accepted, n-d *)
Theorem C07_accept_range :
  forall m : mesh,
       wf_mesh m ->
       forall (a : nat) (x1 x2 : Q),
       (a < Datatypes.length (pmin (reg m)))%nat ->
       nth a (pmin (reg m)) 0 <= x1 ->
       x1 <= nth a (pmax (reg m)) 0 ->
       nth a (pmin (reg m)) 0 <= x2 ->
       x2 <= nth a (pmax (reg m)) 0 -> exists i1 i2 : Z, sel_convert m a (SRange x1 x2) = OK (IRange i1 i2).
Proof. exact (@sel_range_accepts). Qed.
Print Assumptions C07_accept_range.

(* (a) the default plane (region centre) is accepted *)
Theorem C07_accept_centre :
  forall m : mesh,
       wf_mesh m ->
       forall a : nat,
       (a < Datatypes.length (pmin (reg m)))%nat -> exists k : Z, sel_convert m a SCentre = OK (IPlane k).
Proof. exact (@sel_centre_accepts). Qed.
Print Assumptions C07_accept_centre.

(* (c) range selection: accepted; the result region is exactly the union of the kept cells [lo+i1 c, lo+(i2+1) c] on the chosen axis, all other corners, dims, units untouched, counts and cell size follow *)
Theorem C07_range_region :
  forall m : mesh,
       wf_mesh m ->
       forall (a : nat) (i1 i2 : Z),
       subs_wf m ->
       (a < Datatypes.length (pmin (reg m)))%nat ->
       (0 <= i1)%Z ->
       (i1 <= i2)%Z ->
       (i2 < nth a (n m) 1)%Z ->
       let lo := nth a (pmin (reg m)) 0 in
       let c := nth a (cell m) 0 in
       exists (m' : mesh) (lo' hi' : Q),
         mesh_sel_range m a i1 i2 = OK m' /\
         reg m' =
         {|
           pmin := set_nth a lo' (pmin (reg m));
           pmax := set_nth a hi' (pmax (reg m));
           dims := dims (reg m);
           units := units (reg m);
           tf := tf (reg m)
         |} /\
         lo' == lo + inject_Z i1 * c /\
         hi' == lo + (inject_Z i2 + 1) * c /\
         n m' = set_nth a (i2 - i1 + 1)%Z (n m) /\
         (forall b : nat, (b < Datatypes.length (pmin (reg m)))%nat -> nth b (cell m') 0 == nth b (cell m) 0).
Proof. exact (@mesh_sel_range_region). Qed.
Print Assumptions C07_range_region.

(* (c) plane selection (nd >= 2): accepted; the mesh is the source mesh with that axis removed (corners, dims, units, n, cell of the other axes untouched) *)
Theorem C07_plane_mesh :
  forall m : mesh,
       wf_mesh m ->
       forall (a : nat) (k : Z),
       subs_wf m ->
       (a < Datatypes.length (pmin (reg m)))%nat ->
       (2 <= Datatypes.length (pmin (reg m)))%nat ->
       exists m' : mesh,
         mesh_sel_plane m a k = OK m' /\
         reg m' =
         {|
           pmin := remove_nth a (pmin (reg m));
           pmax := remove_nth a (pmax (reg m));
           dims := remove_nth a (dims (reg m));
           units := remove_nth a (units (reg m));
           tf := tf (reg m)
         |} /\
         n m' = remove_nth a (n m) /\
         (forall b : nat,
          (b < Datatypes.length (pmin (reg m)) - 1)%nat -> nth b (cell m') 0 == nth (skip a b) (cell m) 0).
Proof. exact (@mesh_sel_plane_mesh). Qed.
Print Assumptions C07_plane_mesh.

(* (a) Field.sel with a range inside the region is accepted, on the mesh Mesh.sel returns *)
Theorem C07_accept_field_range :
  forall m : mesh,
       wf_mesh m ->
       forall (V : Type) (F : field V) (a : nat) (x1 x2 : Q),
       fmesh F = m ->
       subs_wf m ->
       (a < Datatypes.length (pmin (reg m)))%nat ->
       nth a (pmin (reg m)) 0 <= x1 ->
       x1 <= nth a (pmax (reg m)) 0 ->
       nth a (pmin (reg m)) 0 <= x2 ->
       x2 <= nth a (pmax (reg m)) 0 ->
       exists R : field V,
         field_sel F a (SRange x1 x2) = OK (FField R) /\ mesh_sel m a (SRange x1 x2) = OK (fmesh R).
Proof. exact (@field_sel_range_accepts). Qed.
Print Assumptions C07_accept_field_range.

(* (a) Field.sel with a plane coordinate inside the region is accepted (nd >= 2), on the mesh Mesh.sel returns *)
Theorem C07_accept_field_plane :
  forall m : mesh,
       wf_mesh m ->
       forall (V : Type) (F : field V) (a : nat) (x : Q),
       fmesh F = m ->
       subs_wf m ->
       (a < Datatypes.length (pmin (reg m)))%nat ->
       (2 <= Datatypes.length (pmin (reg m)))%nat ->
       nth a (pmin (reg m)) 0 <= x ->
       x <= nth a (pmax (reg m)) 0 ->
       exists R : field V, field_sel F a (SPoint x) = OK (FField R) /\ mesh_sel m a (SPoint x) = OK (fmesh R).
Proof. exact (@field_sel_plane_accepts). Qed.
Print Assumptions C07_accept_field_plane.

Example C07_wf_nonvacuous :
  wf_mesh ex_mesh /\ subs_wf ex_mesh.
Proof. exact ex_wf. Qed.
Print Assumptions C07_wf_nonvacuous.

Example C07_range_region_nonvacuous :
  exists m' : mesh,
         mesh_sel_range ex_mesh 1 0 1 = OK m' /\
         qlist_eqb (pmin (reg m')) [0; 0] = true /\
         qlist_eqb (pmax (reg m')) [2; 2] = true /\ n m' = [2%Z; 2%Z].
Proof. exact ex_range_region. Qed.
Print Assumptions C07_range_region_nonvacuous.

Example C07_plane_mesh_nonvacuous :
  exists m' : mesh,
         mesh_sel_plane ex_mesh 0 1 = OK m' /\
         pmin (reg m') = [0] /\ pmax (reg m') = [3] /\ dims (reg m') = ["y"%string] /\ n m' = [3%Z].
Proof. exact ex_plane_mesh. Qed.
Print Assumptions C07_plane_mesh_nonvacuous.

Example C07_pad_modes_nonvacuous :
  pad_src PSymmetric 3 (-5) = Some 1%Z /\
       pad_src PSymmetric 3 10 = Some 1%Z /\
       pad_src PReflect 3 (-7) = Some 1%Z /\
       pad_src PReflect 3 10 = Some 2%Z /\
       mirror_sym 3 (4 mod (2 * 3)) = 1%Z /\ mirror_ref 3 (7 mod (2 * 3 - 2)) = 1%Z.
Proof. exact ex_pad_modes. Qed.
Print Assumptions C07_pad_modes_nonvacuous.

Example C07_accept_pad_nonvacuous :
  exists m' : mesh,
         mesh_pad ex_mesh [(1%Z, 0%Z); (0%Z, 2%Z)] = OK m' /\
         n m' = [3%Z; 5%Z] /\
         qlist_eqb (pmin (reg m')) [- (1); 0] = true /\ qlist_eqb (pmax (reg m')) [2; 5] = true.
Proof. exact ex_pad_accept. Qed.
Print Assumptions C07_accept_pad_nonvacuous.

(* ================= phase 3: extraction by region / name, n-d ================= *)

(* (a) extraction by a region inside the mesh region is accepted, n-d: per axis the result runs from the lower face of the cell containing the item's lower corner to the upper face of cell ceil(..)-1, contains the item, keeps dims and units *)
Theorem C07_accept_region :
  forall m : mesh,
       wf_mesh m ->
       forall item : region,
       Datatypes.length (pmin item) = Datatypes.length (pmin (reg m)) ->
       Forall2 Qlt (pmin item) (pmax item) ->
       (forall a : nat,
        (a < Datatypes.length (pmin (reg m)))%nat ->
        nth a (pmin (reg m)) 0 <= nth a (pmin item) 0 /\ nth a (pmax item) 0 <= nth a (pmax (reg m)) 0) ->
       exists m' : mesh,
         getitem_region m item = OK m' /\
         dims (reg m') = dims (reg m) /\
         units (reg m') = units (reg m) /\
         Datatypes.length (pmin (reg m')) = Datatypes.length (pmin (reg m)) /\
         (forall a : nat,
          (a < Datatypes.length (pmin (reg m)))%nat ->
          let lo := nth a (pmin (reg m)) 0 in
          let c := nth a (cell m) 0 in
          let i1 := nth a (first_idx m item) 0%Z in
          let i2 := nth a (last_idx m item) 0%Z in
          (0 <= i1)%Z /\
          (i1 <= i2)%Z /\
          (i2 < nth a (n m) 1)%Z /\
          nth a (pmin (reg m')) 0 == lo + inject_Z i1 * c /\
          nth a (pmax (reg m')) 0 == lo + (inject_Z i2 + 1) * c /\
          nth a (n m') 0%Z = (i2 - i1 + 1)%Z /\
          nth a (pmin (reg m')) 0 <= nth a (pmin item) 0 /\ nth a (pmax item) 0 <= nth a (pmax (reg m')) 0).
Proof. exact (@getitem_region_accepts). Qed.
Print Assumptions C07_accept_region.

(* (a) extraction by name: a subregion made of whole cells is accepted and is the result region *)
Theorem C07_accept_name :
  forall m : mesh,
       wf_mesh m ->
       forall (name : string) (s : region) (ks : list Z),
       lookup name (subs m) = Some s ->
       wf_region s ->
       ndim s = Datatypes.length (pmin (reg m)) ->
       Datatypes.length ks = Datatypes.length (pmin (reg m)) ->
       (forall a : nat,
        (a < Datatypes.length (pmin (reg m)))%nat ->
        (0 < nth a ks 0)%Z /\
        nth a (pmax s) 0 - nth a (pmin s) 0 == inject_Z (nth a ks 0%Z) * nth a (cell m) 0) ->
       getitem_name m name = OK {| reg := s; n := ks; bc := ""; subs := [] |}.
Proof. exact (@getitem_name_accepts). Qed.
Print Assumptions C07_accept_name.

(* an unknown subregion name is rejected (KeyError) *)
Theorem C07_reject_unknown_name :
  forall (m : mesh) (name : string), lookup name (subs m) = None -> getitem_name m name = Err KeyE.
Proof. exact (@getitem_name_missing). Qed.
Print Assumptions C07_reject_unknown_name.

(* ================= phase 4: the tie, proved - soundness of check_C07 and transfer ================= *)
(* [agrees R r o]: the model result r and the observed outcome o both succeed and are related by R, or
   both reject.  [mesh_obs] / [field_obs] / [fres_obs]: corners, subregion corners and values agree
   (Qeq), counts, dimension names and validity are equal; arrays are listed in C order over the
   result's indices ([vals_obs]). *)

(* a shard case that evaluates to true certifies that the OBSERVED outcome is the model's *)
Theorem C07_check_pad_sound : forall s pw md om ofd,
  check_C07 (CPad s pw md om ofd) = true ->
  exists F, build_field s = OK F /\
    agrees mesh_obs (mesh_pad (fmesh F) pw) om /\
    agrees field_obs (field_pad (repeat 0 (s_nvdim s)) F pw md) ofd.
Proof. exact check_pad_sound. Qed.
Print Assumptions C07_check_pad_sound.

Theorem C07_check_resample_sound : forall s n' ofd,
  check_C07 (CResample s n' ofd) = true ->
  exists F, build_field s = OK F /\ agrees field_obs (field_resample F n') ofd.
Proof. exact check_resample_sound. Qed.
Print Assumptions C07_check_resample_sound.

Theorem C07_check_getname_sound : forall s name om ofd,
  check_C07 (CGetName s name om ofd) = true ->
  exists F, build_field s = OK F /\
    agrees mesh_obs (getitem_name (fmesh F) name) om /\
    agrees field_obs (field_getitem_name F name) ofd.
Proof. exact check_getname_sound. Qed.
Print Assumptions C07_check_getname_sound.

Theorem C07_check_getregion_sound : forall s q1 q2 om ofd,
  check_C07 (CGetRegion s q1 q2 om ofd) = true ->
  exists F item, build_field s = OK F /\ mk_region q1 q2 None None sub_default_tf = OK item /\
    agrees mesh_obs (getitem_region (fmesh F) item) om /\
    agrees field_obs (field_getitem_region F item) ofd.
Proof. exact check_getregion_sound. Qed.
Print Assumptions C07_check_getregion_sound.

Theorem C07_check_slices_sound : forall s q1 q2 o,
  check_C07 (CSlices s q1 q2 o) = true ->
  exists m item, build_mesh s = OK m /\ mk_region q1 q2 None None sub_default_tf = OK item /\
    agrees eq (region2slices m item) o.
Proof. exact check_slices_sound. Qed.
Print Assumptions C07_check_slices_sound.

(* selection: a coordinate exactly on an interior cell face belongs to both neighbours; the accepted
   observation is the model's for the request itself or for its lower-neighbour representative *)
Theorem C07_check_sel_sound : forall s a arg om ofd,
  check_C07 (CSel s a arg om ofd) = true ->
  exists F arg', build_field s = OK F /\ In arg' (sel_alts (fmesh F) a arg) /\
    agrees mesh_obs (mesh_sel (fmesh F) a arg') om /\
    agrees fres_obs (field_sel F a arg') ofd.
Proof. exact check_sel_sound. Qed.
Print Assumptions C07_check_sel_sound.

(* scale regime: the observed block satisfies the per-axis lattice test and holds exactly the source
   values / validity at the offset of its lower corner *)
Theorem C07_check_blockscale_sound : forall s kind a q1 q2 rlo rhi rn d sb vals valid,
  check_C07 (CBlockScale s kind a q1 q2 (Some (ObsField (ObsMesh rlo rhi rn d sb) vals valid))) = true ->
  exists F xlos xhis, build_field s = OK F /\
    let off := block_offsets (fmesh F) rlo in
    block_ok (pmin (reg (fmesh F))) (pmax (reg (fmesh F))) (n (fmesh F)) rlo rhi rn xlos xhis = true /\
    vals_obs rn (fun i => fval F (add_idx i off)) vals /\
    valid = map (fun i => fvalid F (add_idx i off)) (indices_c rn).
Proof. exact check_blockscale_sound. Qed.
Print Assumptions C07_check_blockscale_sound.

(* ... where the per-axis test bounds the distance of both observed corners to lattice positions by
   1e-9 of the axis scale and keeps the block inside the source *)
Theorem C07_block_axis_ok_sound : forall lo hi k rlo rhi rk xlo xhi,
  block_axis_ok lo hi k rlo rhi rk xlo xhi = true ->
  let c := cell_of lo hi k in
  let off := Qround_half_even ((rlo - lo) / c) in
  Qabs (rlo - (lo + inject_Z off * c)) <= rel_tol * axis_scale lo hi /\
  Qabs (rhi - (lo + inject_Z (off + rk) * c)) <= rel_tol * axis_scale lo hi /\
  (0 < rk)%Z /\ (0 <= off)%Z /\ (off + rk <= k)%Z.
Proof. exact block_axis_ok_sound. Qed.
Print Assumptions C07_block_axis_ok_sound.

(* the source the checker builds is the recorded one and, for a tolerance factor >= 0, well-formed:
   every theorem above stated for wf_mesh m applies to it *)
Theorem C07_build_mesh_wf : forall s m,
  build_mesh s = OK m ->
  n m = s_n s /\ dims (reg m) = s_dims s /\
  pmin (reg m) = map2 Qmin (s_p1 s) (s_p2 s) /\ pmax (reg m) = map2 Qmax (s_p1 s) (s_p2 s) /\
  tf (reg m) = s_tf s /\
  (0 <= s_tf s -> wf_mesh m).
Proof. exact build_mesh_inv. Qed.
Print Assumptions C07_build_mesh_wf.

Theorem C07_build_field : forall s F,
  build_field s = OK F ->
  build_mesh s = OK (fmesh F) /\
  fval F = arr_of [] (s_n s) (s_vals s) /\ fvalid F = arr_of false (s_n s) (s_valid s) /\
  length (s_vals s) = Z.to_nat (zprod (s_n s)) /\ length (s_valid s) = Z.to_nat (zprod (s_n s)).
Proof. exact build_field_inv. Qed.
Print Assumptions C07_build_field.

(* a whole shard: no failing index means every case was accepted *)
Theorem C07_shard_verdict : forall cases k,
  failing k (map check_C07 cases) = [] -> forall c, In c cases -> check_C07 c = true.
Proof. exact shard_verdict. Qed.
Print Assumptions C07_shard_verdict.

(* transfer (C07_pointwise_pad_values on the observation): every observed value / validity flag of
   Field.pad, listed in C order over the observed shape, is the recorded source's at the cell the
   mode's index map names, or the constant fill 0 / False *)
Theorem C07_accepted_pad_values : forall s pw md om lo hi n_ d sb vals valid,
  check_C07 (CPad s pw md om (Some (ObsField (ObsMesh lo hi n_ d sb) vals valid))) = true ->
  Forall2 (fun i v => match pad_index md (s_n s) pw i with
                      | Some j => Forall2 Qeq (arr_of [] (s_n s) (s_vals s) j) v
                      | None => Forall2 Qeq (repeat 0 (s_nvdim s)) v
                      end) (indices_c n_) vals /\
  valid = map (fun i => match pad_index md (s_n s) pw i with
                        | Some j => arr_of false (s_n s) (s_valid s) j
                        | None => false
                        end) (indices_c n_).
Proof. exact accepted_pad_values. Qed.
Print Assumptions C07_accepted_pad_values.

(* transfer (C07_accept_pad_mesh on the observation): the observed counts are the source counts plus
   the widths, the observed corners the source corners moved by width * cell, names kept *)
Theorem C07_accepted_pad_shape : forall s pw md om lo hi n_ d sb vals valid,
  check_C07 (CPad s pw md om (Some (ObsField (ObsMesh lo hi n_ d sb) vals valid))) = true ->
  0 <= s_tf s ->
  exists m, build_mesh s = OK m /\ wf_mesh m /\
    n_ = map2 (fun (k : Z) (w : Z * Z) => (k + fst w + snd w)%Z) (s_n s) pw /\
    Forall2 Qeq (map3 pad_lo (pmin (reg m)) (cell m) pw) lo /\
    Forall2 Qeq (map3 pad_hi (pmax (reg m)) (cell m) pw) hi /\
    d = s_dims s.
Proof. exact accepted_pad_shape. Qed.
Print Assumptions C07_accepted_pad_shape.

(* transfer (C07_resample_region on the observation): the observed field lives on the recorded
   corners with the requested resolution and reads the source cell containing each new centre *)
Theorem C07_accepted_resample : forall s n' lo hi n_ d sb vals valid,
  check_C07 (CResample s n' (Some (ObsField (ObsMesh lo hi n_ d sb) vals valid))) = true ->
  exists F R, build_field s = OK F /\ field_resample F n' = OK R /\
    n_ = n' /\
    Forall2 Qeq (map2 Qmin (s_p1 s) (s_p2 s)) lo /\ Forall2 Qeq (map2 Qmax (s_p1 s) (s_p2 s)) hi /\
    d = s_dims s /\
    vals_obs n' (fun j => arr_of [] (s_n s) (s_vals s) (resample_src (fmesh F) (fmesh R) j)) vals /\
    valid = map (fun j => arr_of false (s_n s) (s_valid s) (resample_src (fmesh F) (fmesh R) j)) (indices_c n').
Proof. exact accepted_resample. Qed.
Print Assumptions C07_accepted_resample.

(* transfer (C07_pointwise_block_values on the observation): an observed extraction by region is the
   recorded source at a fixed index offset *)
Theorem C07_accepted_getregion_values : forall s q1 q2 om lo hi n_ d sb vals valid,
  check_C07 (CGetRegion s q1 q2 om (Some (ObsField (ObsMesh lo hi n_ d sb) vals valid))) = true ->
  exists F item sub off, build_field s = OK F /\ mk_region q1 q2 None None sub_default_tf = OK item /\
    getitem_region (fmesh F) item = OK sub /\ block_offset (fmesh F) sub = OK off /\
    mesh_obs sub (ObsMesh lo hi n_ d sb) /\
    vals_obs n_ (fun i => arr_of [] (s_n s) (s_vals s) (add_idx i off)) vals /\
    valid = map (fun i => arr_of false (s_n s) (s_valid s) (add_idx i off)) (indices_c n_).
Proof. exact accepted_getregion_values. Qed.
Print Assumptions C07_accepted_getregion_values.

(* transfer (C07_plane + C07_pointwise_plane_values on the observation, face alternative discharged):
   an observed plane selection is the recorded source with plane index k re-inserted, where cell k
   of the chosen axis contains the REQUESTED coordinate x in its closed extent *)
Theorem C07_accepted_plane : forall s a x om lo hi n_ d sb vals valid,
  check_C07 (CSel s a (SPoint x) om (Some (ObsField (ObsMesh lo hi n_ d sb) vals valid))) = true ->
  0 <= s_tf s ->
  exists F k, build_field s = OK F /\ wf_mesh (fmesh F) /\
    (let m := fmesh F in
     let l := nth a (pmin (reg m)) 0 in let c := nth a (cell m) 0 in
     (0 <= k < nth a (n m) 1)%Z /\ l + inject_Z k * c <= x /\ x <= l + (inject_Z k + 1) * c) /\
    vals_obs n_ (fun i => arr_of [] (s_n s) (s_vals s) (insert_nth a k i)) vals /\
    valid = map (fun i => arr_of false (s_n s) (s_valid s) (insert_nth a k i)) (indices_c n_).
Proof. exact accepted_plane_contains. Qed.
Print Assumptions C07_accepted_plane.

(* transfer (C07_range_indices + C07_pointwise_range_values on the observation): an observed range
   selection is the recorded source shifted by the first kept index; first / last kept cell are
   ordered, in range and contain their (face-representative) ends of the range *)
Theorem C07_accepted_range : forall s a x1 x2 om lo hi n_ d sb vals valid,
  check_C07 (CSel s a (SRange x1 x2) om (Some (ObsField (ObsMesh lo hi n_ d sb) vals valid))) = true ->
  0 <= s_tf s ->
  exists F y1 y2 i1 i2, build_field s = OK F /\ wf_mesh (fmesh F) /\
    In y1 (coord_alts (fmesh F) a (Qmin x1 x2)) /\ In y2 (coord_alts (fmesh F) a (Qmax x1 x2)) /\
    (let m := fmesh F in
     let l := nth a (pmin (reg m)) 0 in let c := nth a (cell m) 0 in
     (0 <= i1)%Z /\ (i1 <= i2)%Z /\ (i2 < nth a (n m) 1)%Z /\
     l + inject_Z i1 * c <= Qmin y1 y2 /\ Qmin y1 y2 <= l + (inject_Z i1 + 1) * c /\
     l + inject_Z i2 * c <= Qmax y1 y2 <= l + (inject_Z i2 + 1) * c) /\
    vals_obs n_ (fun i => arr_of [] (s_n s) (s_vals s) (shift_nth a i1 i)) vals /\
    valid = map (fun i => arr_of false (s_n s) (s_valid s) (shift_nth a i1 i)) (indices_c n_).
Proof. exact accepted_range. Qed.
Print Assumptions C07_accepted_range.

(* the face alternative: a cell whose closed extent contains the representative contains the coordinate *)
Theorem C07_face_alternative_contains : forall m a x x' k,
  wf_mesh m -> (a < length (pmin (reg m)))%nat -> In x' (coord_alts m a x) ->
  let l := nth a (pmin (reg m)) 0 in let c := nth a (cell m) 0 in
  l + inject_Z k * c <= x' -> x' <= l + (inject_Z k + 1) * c ->
  l + inject_Z k * c <= x /\ x <= l + (inject_Z k + 1) * c.
Proof. exact coord_alts_contains. Qed.
Print Assumptions C07_face_alternative_contains.

(* an observed rejection of Field.sel is a rejection by the model *)
Theorem C07_accepted_sel_reject : forall s a arg om,
  check_C07 (CSel s a arg om None) = true ->
  exists F arg' e, build_field s = OK F /\ In arg' (sel_alts (fmesh F) a arg) /\ field_sel F a arg' = Err e.
Proof. exact accepted_sel_reject. Qed.
Print Assumptions C07_accepted_sel_reject.

(* non-vacuity: concrete accepted cases *)
Example C07_accepted_pad_instance :
  check_C07 (CPad (mkSrc [0] [2] [2%Z] (1 # 1000000000000) ["x"%string] [] 1%nat [[50]; [51]] [true; true])
                  [(1%Z, 2%Z)] PConstant
                  (Some (ObsMesh [- (1)] [4] [5%Z] ["x"%string] []))
                  (Some (ObsField (ObsMesh [- (1)] [4] [5%Z] ["x"%string] [])
                                  [[0]; [50]; [51]; [0]; [0]] [false; true; true; false; false]))) = true.
Proof. exact accepted_pad_instance. Qed.
Print Assumptions C07_accepted_pad_instance.

Example C07_accepted_resample_instance :
  check_C07 (CResample (mkSrc [0] [2] [2%Z] (1 # 1000000000000) ["x"%string] [] 1%nat [[50]; [51]] [true; false])
                  [4%Z]
                  (Some (ObsField (ObsMesh [0] [2] [4%Z] ["x"%string] [])
                                  [[50]; [50]; [51]; [51]] [true; true; false; false]))) = true.
Proof. exact accepted_resample_instance. Qed.
Print Assumptions C07_accepted_resample_instance.

Example C07_accepted_plane_instance :
  check_C07 (CSel (mkSrc [0; 0] [2; 2] [2%Z; 2%Z] (1 # 1000000000000) ["x"%string; "y"%string] [] 1%nat
                         [[1]; [2]; [3]; [4]] [true; true; false; true])
                  0 (SPoint 1)
                  (Some (ObsMesh [0] [2] [2%Z] ["y"%string] []))
                  (Some (ObsField (ObsMesh [0] [2] [2%Z] ["y"%string] []) [[3]; [4]] [false; true]))) = true.
Proof. exact accepted_plane_instance. Qed.
Print Assumptions C07_accepted_plane_instance.
