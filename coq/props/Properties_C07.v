(* C07 - sub-selection, padding and resampling keep every value at its physical position.
   ONLY statements closed by [exact], each followed by Print Assumptions. *)
From DF Require Import Prelude Constants_gen Region Mesh Select C07_axis.
Open Scope Q_scope.

(* inside the source every padding mode is the identity index map *)
Theorem C07_pad_interior (md : pmode) (k j : Z) :
  (0 <= j < k)%Z -> pad_src md k j = Some j.
Proof. exact (pad_src_interior md k j). Qed.
Print Assumptions C07_pad_interior.
