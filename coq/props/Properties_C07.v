(* C07 - sub-selection, padding and resampling keep every value at its physical position.
   ONLY statements closed by [exact], each followed by Print Assumptions.
   Per-axis statements quantify over every axis lo < hi with k > 0 cells (geometry in Q);
   field statements over every value type V. *)
From DF Require Import Prelude Constants_gen Region Mesh Select C01_axis C07_axis C07_nd C07_examples.
Open Scope Q_scope.

(* pointwise: inside the block the source cell of a point is the block cell shifted by the offset (range selection, extraction by region / name) *)
Theorem C07_pointwise_block :
  forall (lo hi : Q) (k : Z),
       lo < hi ->
       (0 < k)%Z ->
       forall (off cnt : Z) (lo' hi' : Q),
       (0 < cnt)%Z ->
       lo' == lo + inject_Z off * cell_of lo hi k ->
       hi' == lo + inject_Z (off + cnt) * cell_of lo hi k ->
       forall q : Q,
       (0 <= off)%Z ->
       (off + cnt <= k)%Z ->
       lo' <= q -> q < hi' -> p2i1 lo (cell_of lo hi k) k q = (p2i1 lo' (cell_of lo' hi' cnt) cnt q + off)%Z.
Proof. exact (@block_index_shift). Qed.
Print Assumptions C07_pointwise_block.

(* pointwise, padding: inside the source the padded mesh addresses the same cell, shifted by the pad width *)
Theorem C07_pointwise_pad :
  forall (lo hi : Q) (k : Z),
       lo < hi ->
       (0 < k)%Z ->
       forall (off cnt : Z) (lo' hi' : Q),
       (0 < cnt)%Z ->
       lo' == lo + inject_Z off * cell_of lo hi k ->
       hi' == lo + inject_Z (off + cnt) * cell_of lo hi k ->
       forall q : Q,
       lo <= q ->
       q < hi ->
       (off <= 0)%Z ->
       (k <= off + cnt)%Z -> p2i1 lo (cell_of lo hi k) k q = (p2i1 lo' (cell_of lo' hi' cnt) cnt q + off)%Z.
Proof. exact (@block_index_shift_pad). Qed.
Print Assumptions C07_pointwise_pad.

(* cell centres of a block are source cell centres *)
Theorem C07_block_centres :
  forall (lo hi : Q) (k off cnt : Z) (lo' hi' : Q),
       (0 < cnt)%Z ->
       lo' == lo + inject_Z off * cell_of lo hi k ->
       hi' == lo + inject_Z (off + cnt) * cell_of lo hi k ->
       forall j : Z, i2p1 lo' (cell_of lo' hi' cnt) j == i2p1 lo (cell_of lo hi k) (j + off).
Proof. exact (@block_centres). Qed.
Print Assumptions C07_block_centres.

(* cell size of a block is the source cell size *)
Theorem C07_block_cell :
  forall (lo hi : Q) (k off cnt : Z) (lo' hi' : Q),
       (0 < cnt)%Z ->
       lo' == lo + inject_Z off * cell_of lo hi k ->
       hi' == lo + inject_Z (off + cnt) * cell_of lo hi k -> cell_of lo' hi' cnt == cell_of lo hi k.
Proof. exact (@block_cell). Qed.
Print Assumptions C07_block_cell.

(* Mesh(region=block, cell=source cell) recovers the number of kept cells *)
Theorem C07_block_count :
  forall (lo hi : Q) (k : Z),
       lo < hi ->
       (0 < k)%Z ->
       forall (off cnt : Z) (lo' hi' : Q),
       lo' == lo + inject_Z off * cell_of lo hi k ->
       hi' == lo + inject_Z (off + cnt) * cell_of lo hi k ->
       Qround_half_even ((hi' - lo') / cell_of lo hi k) = cnt.
Proof. exact (@block_count). Qed.
Print Assumptions C07_block_count.

(* values and validity of a range selection are the source's at the index shifted by the first kept cell *)
Theorem C07_pointwise_range_values :
  forall (V : Type) (F : field V) (a : nat) (x1 x2 : Q) (R : field V),
       field_sel F a (SRange x1 x2) = OK (FField R) ->
       exists ilo ihi : Z,
         sel_convert (fmesh F) a (SRange x1 x2) = OK (IRange ilo ihi) /\
         mesh_sel_range (fmesh F) a ilo ihi = OK (fmesh R) /\
         (forall i : list Z,
          fval R i = fval F (shift_nth a ilo i) /\ fvalid R i = fvalid F (shift_nth a ilo i)).
Proof. exact (@field_sel_range_values). Qed.
Print Assumptions C07_pointwise_range_values.

(* values and validity of a plane selection are the source's with the plane index re-inserted *)
Theorem C07_pointwise_plane_values :
  forall (V : Type) (F : field V) (a : nat) (s : selarg) (R : field V),
       (forall x1 x2 : Q, s <> SRange x1 x2) ->
       field_sel F a s = OK (FField R) ->
       exists k : Z,
         sel_convert (fmesh F) a s = OK (IPlane k) /\
         mesh_sel_plane (fmesh F) a k = OK (fmesh R) /\
         (forall i : list Z, fval R i = fval F (insert_nth a k i) /\ fvalid R i = fvalid F (insert_nth a k i)).
Proof. exact (@field_sel_plane_values). Qed.
Print Assumptions C07_pointwise_plane_values.

(* plane selection of a one-dimensional field: the bare value of the selected cell *)
Theorem C07_pointwise_plane_1d :
  forall (V : Type) (F : field V) (a : nat) (s : selarg) (v : V),
       field_sel F a s = OK (FValue v) ->
       exists k : Z, sel_convert (fmesh F) a s = OK (IPlane k) /\ v = fval F [k].
Proof. exact (@field_sel_plane_1d). Qed.
Print Assumptions C07_pointwise_plane_1d.

(* values and validity of an extracted block are the source's at the index shifted by the block offset *)
Theorem C07_pointwise_block_values :
  forall (V : Type) (F : field V) (sub : mesh) (R : field V),
       field_block F sub = OK R ->
       fmesh R = sub /\
       (exists off : list Z,
          block_offset (fmesh F) sub = OK off /\
          (forall i : list Z, fval R i = fval F (add_idx i off) /\ fvalid R i = fvalid F (add_idx i off))).
Proof. exact (@field_block_values). Qed.
Print Assumptions C07_pointwise_block_values.

(* values and validity of a padded field follow the mode's index map; constant mode fills 0 / False *)
Theorem C07_pointwise_pad_values :
  forall (V : Type) (zero : V) (F : field V) (pw : list (Z * Z)) (md : pmode) (R : field V),
       field_pad zero F pw md = OK R ->
       mesh_pad (fmesh F) pw = OK (fmesh R) /\
       (forall i : list Z,
        match pad_index md (n (fmesh F)) pw i with
        | Some s => fval R i = fval F s /\ fvalid R i = fvalid F s
        | None => fval R i = zero /\ fvalid R i = false
        end).
Proof. exact (@field_pad_values). Qed.
Print Assumptions C07_pointwise_pad_values.

(* interior cells of a padded field read their own source cell in every mode *)
Theorem C07_pad_interior_index :
  forall (md : pmode) (ns : list Z) (pw : list (Z * Z)) (j : list Z),
       Datatypes.length pw = Datatypes.length ns ->
       Datatypes.length j = Datatypes.length ns ->
       (forall a : nat, (a < Datatypes.length ns)%nat -> (0 <= nth a j 0 < nth a ns 0)%Z) ->
       pad_index md ns pw (map2 (fun (x : Z) (w : Z * Z) => (x + fst w)%Z) j pw) = Some j.
Proof. exact (@pad_index_interior). Qed.
Print Assumptions C07_pad_interior_index.

(* a coordinate lo<=x<=hi is looked up in a cell of the axis whose closed extent contains it (half-open below the upper face) *)
Theorem C07_cell_of_coord :
  forall (lo hi : Q) (k : Z),
       lo < hi ->
       (0 < k)%Z ->
       forall x : Q,
       lo <= x ->
       x <= hi ->
       let i := p2i1 lo (cell_of lo hi k) k x in
       (0 <= i < k)%Z /\
       lo + inject_Z i * cell_of lo hi k <= x /\
       x <= lo + (inject_Z i + 1) * cell_of lo hi k /\
       (x < hi -> x < lo + (inject_Z i + 1) * cell_of lo hi k).
Proof. exact (@cell_of_coord). Qed.
Print Assumptions C07_cell_of_coord.

(* plane: the removed axis is cut at the cell containing the requested coordinate *)
Theorem C07_plane :
  forall m : mesh,
       wf_mesh m ->
       forall (a : nat) (x : Q) (k : Z),
       (a < Datatypes.length (pmin (reg m)))%nat ->
       sel_convert m a (SPoint x) = OK (IPlane k) ->
       let lo := nth a (pmin (reg m)) 0 in
       let c := nth a (cell m) 0 in
       (0 <= k < nth a (n m) 1)%Z /\
       lo + inject_Z k * c <= x /\
       x <= lo + (inject_Z k + 1) * c /\ (x < nth a (pmax (reg m)) 0 -> x < lo + (inject_Z k + 1) * c).
Proof. exact (@plane_index). Qed.
Print Assumptions C07_plane.

(* range: first and last kept index, ordered, in range, each containing its end of the range *)
Theorem C07_range_indices :
  forall m : mesh,
       wf_mesh m ->
       forall (a : nat) (x1 x2 : Q) (i1 i2 : Z),
       (a < Datatypes.length (pmin (reg m)))%nat ->
       sel_convert m a (SRange x1 x2) = OK (IRange i1 i2) ->
       let lo := nth a (pmin (reg m)) 0 in
       let c := nth a (cell m) 0 in
       (0 <= i1)%Z /\
       (i1 <= i2)%Z /\
       (i2 < nth a (n m) 1)%Z /\
       lo + inject_Z i1 * c <= Qmin x1 x2 /\
       Qmin x1 x2 <= lo + (inject_Z i1 + 1) * c /\
       lo + inject_Z i2 * c <= Qmax x1 x2 <= lo + (inject_Z i2 + 1) * c.
Proof. exact (@range_indices). Qed.
Print Assumptions C07_range_indices.

(* range: the kept cells are exactly idx(x1)..idx(x2), the region is their union, cell size and count follow *)
Theorem C07_range_exact :
  forall (lo hi : Q) (k : Z),
       lo < hi ->
       (0 < k)%Z ->
       forall x1 x2 : Q,
       lo <= x1 ->
       x1 <= x2 ->
       x2 <= hi ->
       let i1 := p2i1 lo (cell_of lo hi k) k x1 in
       let i2 := p2i1 lo (cell_of lo hi k) k x2 in
       let min_val := i2p1 lo (cell_of lo hi k) i1 - cell_of lo hi k / 2 in
       let max_val := i2p1 lo (cell_of lo hi k) i2 + cell_of lo hi k / 2 in
       (0 <= i1)%Z /\
       (i1 <= i2)%Z /\
       (i2 < k)%Z /\
       min_val == lo + inject_Z i1 * cell_of lo hi k /\
       max_val == lo + inject_Z (i1 + (i2 - i1 + 1)) * cell_of lo hi k /\
       min_val <= x1 /\
       x2 <= max_val /\
       lo <= min_val /\
       max_val <= hi /\
       Qround_half_even ((max_val - min_val) / cell_of lo hi k) = (i2 - i1 + 1)%Z /\
       cell_of min_val max_val (i2 - i1 + 1) == cell_of lo hi k.
Proof. exact (@range_exact). Qed.
Print Assumptions C07_range_exact.

(* extraction by region: floor / ceil-1 give a whole-cell block containing the region and contained in every such block *)
Theorem C07_block_minimal :
  forall (lo hi : Q) (k : Z),
       lo < hi ->
       (0 < k)%Z ->
       forall x0 x1 : Q,
       lo <= x0 ->
       x0 < x1 ->
       x1 <= hi ->
       let a := p2i1 lo (cell_of lo hi k) k x0 in
       let b := upper_idx1 lo (cell_of lo hi k) x1 in
       (0 <= a)%Z /\
       (a <= b)%Z /\
       (b < k)%Z /\
       lo + inject_Z a * cell_of lo hi k <= x0 /\
       x1 <= lo + (inject_Z b + 1) * cell_of lo hi k /\
       (forall a' b' : Z,
        lo + inject_Z a' * cell_of lo hi k <= x0 ->
        x1 <= lo + (inject_Z b' + 1) * cell_of lo hi k -> (a' <= a)%Z /\ (b <= b')%Z).
Proof. exact (@block_minimal). Qed.
Print Assumptions C07_block_minimal.

(* the corners handed to the constructor are the faces of that block *)
Theorem C07_block_corners :
  forall (lo hi : Q) (k a b : Z),
       half_down (i2p1 lo (cell_of lo hi k) a) (cell_of lo hi k) == lo + inject_Z a * cell_of lo hi k /\
       half_up (i2p1 lo (cell_of lo hi k) b) (cell_of lo hi k) ==
       lo + inject_Z (a + (b - a + 1)) * cell_of lo hi k.
Proof. exact (@getitem_corners). Qed.
Print Assumptions C07_block_corners.

(* region2slices of a cell-aligned region selects exactly its cells *)
Theorem C07_slices :
  forall (lo hi : Q) (k : Z),
       lo < hi ->
       (0 < k)%Z ->
       forall a b : Z,
       (0 <= a)%Z ->
       (a <= b)%Z ->
       (b < k)%Z ->
       p2i1 lo (cell_of lo hi k) k (half_up (lo + inject_Z a * cell_of lo hi k) (cell_of lo hi k)) = a /\
       p2i1 lo (cell_of lo hi k) k (half_down (lo + inject_Z (b + 1) * cell_of lo hi k) (cell_of lo hi k)) =
       b.
Proof. exact (@slices_aligned). Qed.
Print Assumptions C07_slices.

(* padding adds the requested number of cells per side, cell size unchanged *)
Theorem C07_pad_counts :
  forall (lo hi : Q) (k : Z),
       lo < hi ->
       (0 < k)%Z ->
       forall w : Z * Z,
       (0 <= fst w)%Z ->
       (0 <= snd w)%Z ->
       let lo' := pad_lo lo (cell_of lo hi k) w in
       let hi' := pad_hi hi (cell_of lo hi k) w in
       lo' == lo + inject_Z (- fst w) * cell_of lo hi k /\
       hi' == lo + inject_Z (- fst w + (k + fst w + snd w)) * cell_of lo hi k /\
       Qround_half_even ((hi' - lo') / cell_of lo hi k) = (k + fst w + snd w)%Z /\
       cell_of lo' hi' (k + fst w + snd w) == cell_of lo hi k.
Proof. exact (@pad_axis). Qed.
Print Assumptions C07_pad_counts.

(* every padding mode is the identity inside the source *)
Theorem C07_pad_interior :
  forall (md : pmode) (k j : Z), (0 <= j < k)%Z -> pad_src md k j = Some j.
Proof. exact (@pad_src_interior). Qed.
Print Assumptions C07_pad_interior.

(* every padding mode reads source cells only *)
Theorem C07_pad_reads_source :
  forall (md : pmode) (k j s : Z), (0 < k)%Z -> pad_src md k j = Some s -> (0 <= s < k)%Z.
Proof. exact (@pad_src_range). Qed.
Print Assumptions C07_pad_reads_source.

(* constant mode fills exactly the added cells *)
Theorem C07_pad_constant :
  forall k j : Z, pad_src PConstant k j = None <-> ~ (0 <= j < k)%Z.
Proof. exact (@pad_src_constant). Qed.
Print Assumptions C07_pad_constant.

(* edge mode repeats the nearest edge cell *)
Theorem C07_pad_edge :
  forall k j : Z,
       (0 < k)%Z ->
       pad_src PEdge k j = Some (if (j <? 0)%Z then 0%Z else if (k <=? j)%Z then (k - 1)%Z else j).
Proof. exact (@pad_src_edge). Qed.
Print Assumptions C07_pad_edge.

(* wrap mode is periodic continuation *)
Theorem C07_pad_wrap :
  forall k j : Z, (0 < k)%Z -> pad_src PWrap k j = Some (j mod k)%Z.
Proof. exact (@pad_src_wrap). Qed.
Print Assumptions C07_pad_wrap.

(* negative pad widths are rejected *)
Theorem C07_pad_negative :
  forall (V : Type) (zero : V) (F : field V) (pw : list (Z * Z)) (md : pmode),
       (exists w : Z * Z, In w pw /\ ((fst w < 0)%Z \/ (snd w < 0)%Z)) -> field_pad zero F pw md = Err ValueE.
Proof. exact (@field_pad_negative). Qed.
Print Assumptions C07_pad_negative.

(* resampling keeps the region, takes the requested resolution, reads the nearest source cell *)
Theorem C07_resample_region :
  forall (V : Type) (F : field V) (n' : list Z) (R : field V),
       field_resample F n' = OK R ->
       reg (fmesh R) = reg (fmesh F) /\
       n (fmesh R) = n' /\
       (forall j : list Z,
        fval R j = fval F (resample_src (fmesh F) (fmesh R) j) /\
        fvalid R j = fvalid F (resample_src (fmesh F) (fmesh R) j)).
Proof. exact (@resample_region). Qed.
Print Assumptions C07_resample_region.

(* a nearest source centre belongs to a cell that contains the new centre *)
Theorem C07_resample_nearest_contains :
  forall (lo hi : Q) (k : Z),
       lo < hi ->
       (0 < k)%Z ->
       forall (q : Q) (i : Z),
       lo <= q ->
       q <= hi ->
       is_nearest lo hi k q i ->
       lo + inject_Z i * cell_of lo hi k <= q <= lo + (inject_Z i + 1) * cell_of lo hi k.
Proof. exact (@nearest_contains). Qed.
Print Assumptions C07_resample_nearest_contains.

(* the cell containing the new centre is a nearest cell (the modelled pick is admissible) *)
Theorem C07_resample_pick_nearest :
  forall (lo hi : Q) (k : Z),
       lo < hi ->
       (0 < k)%Z ->
       forall q : Q, lo <= q -> q <= hi -> is_nearest lo hi k q (nearest_pick lo (cell_of lo hi k) k q).
Proof. exact (@pick_is_nearest). Qed.
Print Assumptions C07_resample_pick_nearest.

(* the checker's boolean nearest test is the nearest relation *)
Theorem C07_resample_nearestb :
  forall (lo hi : Q) (k : Z),
       (0 < k)%Z ->
       forall (q : Q) (i : Z), nearestb lo (cell_of lo hi k) k q i = true <-> is_nearest lo hi k q i.
Proof. exact (@nearestb_spec). Qed.
Print Assumptions C07_resample_nearestb.

(* malformed resolutions are rejected *)
Theorem C07_resample_rejects :
  forall (V : Type) (F : field V) (n' : list Z),
       Datatypes.length n' <> ndim (reg (fmesh F)) \/ (exists k : Z, In k n' /\ (k <= 0)%Z) ->
       is_ok (field_resample F n') = false.
Proof. exact (@resample_rejects). Qed.
Print Assumptions C07_resample_rejects.

(* a plane coordinate outside the region is rejected *)
Theorem C07_reject_outside_point :
  forall (V : Type) (F : field V) (a : nat) (x : Q),
       let m := fmesh F in
       x < nth a (pmin (reg m)) 0 \/ nth a (pmax (reg m)) 0 < x ->
       is_ok (mesh_sel m a (SPoint x)) = false /\ is_ok (field_sel F a (SPoint x)) = false.
Proof. exact (@sel_point_outside). Qed.
Print Assumptions C07_reject_outside_point.

(* a range with an end outside the region is rejected *)
Theorem C07_reject_outside_range :
  forall (V : Type) (F : field V) (a : nat) (x1 x2 : Q),
       let m := fmesh F in
       Qmin x1 x2 < nth a (pmin (reg m)) 0 \/ nth a (pmax (reg m)) 0 < Qmax x1 x2 ->
       is_ok (mesh_sel m a (SRange x1 x2)) = false /\ is_ok (field_sel F a (SRange x1 x2)) = false.
Proof. exact (@sel_range_outside). Qed.
Print Assumptions C07_reject_outside_range.

(* an unknown axis is rejected *)
Theorem C07_reject_unknown_axis :
  forall (V : Type) (F : field V) (a : nat) (s : selarg),
       (ndim (reg (fmesh F)) <= a)%nat ->
       is_ok (mesh_sel (fmesh F) a s) = false /\ is_ok (field_sel F a s) = false.
Proof. exact (@sel_unknown_axis). Qed.
Print Assumptions C07_reject_unknown_axis.

(* a region that is not contained in the mesh region is rejected *)
Theorem C07_reject_outside_region :
  forall (V : Type) (F : field V) (item : region),
       contains_region (reg (fmesh F)) item = false ->
       is_ok (getitem_region (fmesh F) item) = false /\ is_ok (field_getitem_region F item) = false.
Proof. exact (@getitem_outside). Qed.
Print Assumptions C07_reject_outside_region.

(* a region with a corner farther than the tolerance outside is rejected *)
Theorem C07_reject_outside_corner :
  forall (m : mesh) (item : region),
       wf_mesh m ->
       (exists a : nat,
          (a < Datatypes.length (pmin (reg m)))%nat /\
          (let x := nth a (pmax item) 0 in
           let t := tau (tf (reg m)) (reg_atol (reg m)) x in nth a (pmax (reg m)) 0 + t < x)) ->
       is_ok (getitem_region m item) = false.
Proof. exact (@getitem_corner_outside). Qed.
Print Assumptions C07_reject_outside_corner.

(* non-vacuity: concrete states satisfying the hypotheses of the implications above *)
Example C07_pointwise_block_nonvacuous :
  0 < 4 /\ (0 < 4)%Z /\ (0 < 2)%Z /\ 1 == 0 + inject_Z 1 * cell_of 0 4 4 /\
  3 == 0 + inject_Z (1 + 2) * cell_of 0 4 4 /\ (0 <= 1)%Z /\ (1 + 2 <= 4)%Z /\ 1 <= (3 # 2) /\ (3 # 2) < 3 /\
  p2i1 0 (cell_of 0 4 4) 4 (3 # 2) = 1%Z.
Proof. exact ex_block. Qed.
Print Assumptions C07_pointwise_block_nonvacuous.

Example C07_block_minimal_nonvacuous :
  0 < 4 /\ (0 < 4)%Z /\ 0 <= (5 # 4) /\ (5 # 4) < (5 # 2) /\ (5 # 2) <= 4 /\
  p2i1 0 (cell_of 0 4 4) 4 (5 # 4) = 1%Z /\ upper_idx1 0 (cell_of 0 4 4) (5 # 2) = 2%Z.
Proof. exact ex_minimal. Qed.
Print Assumptions C07_block_minimal_nonvacuous.

Example C07_resample_nonvacuous :
  is_nearest 0 4 4 2 1 /\ is_nearest 0 4 4 2 2 /\ nearest_pick 0 (cell_of 0 4 4) 4 2 = 2%Z.
Proof. exact ex_nearest. Qed.
Print Assumptions C07_resample_nonvacuous.

Example C07_sel_nonvacuous :
  sel_convert ex_mesh 1 (SRange (5 # 2) (1 # 2)) = OK (IRange 0 2) /\
  sel_convert ex_mesh 0 (SPoint 1) = OK (IPlane 1) /\ sel_convert ex_mesh 0 SCentre = OK (IPlane 1) /\
  is_ok (sel_convert ex_mesh 0 (SPoint (5 # 2))) = false.
Proof. exact ex_sel. Qed.
Print Assumptions C07_sel_nonvacuous.
