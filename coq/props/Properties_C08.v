(* C08 — validity masks follow the data. *)
From DF Require Import Prelude NDArray Valid.

Theorem C08_setter_provenance_fresh : forall p, setter_prov p = PFresh.
Proof. exact (fun p => eq_refl). Qed.
Print Assumptions C08_setter_provenance_fresh.
