(* C08 — Validity masks follow the data through every operation that keeps or maps cells.
   Statements only.  [veval] is the executable model of the code (what each operation hands to the
   constructor + the `valid` setter's normalisation, with rejections); [sem] is the plain reading of
   the property (operand masks, cell-wise AND, gathers).  Masks have arbitrary shapes and sizes. *)
From DF Require Import Prelude NDArray Valid C08_arrays C08_valid C08_maps C08_reals ListLemmas CheckSound Check_C08 C08_sound.
From Coq Require Import Reals Qreals.
Open Scope nat_scope.

(* --- unary operations (neg, abs, component, norm, orientation, complex parts, diff, scalar
       operands, one-field ufuncs, grad/div/curl/laplace) return the operand's validity *)
Theorem C08_unary : forall u v, wf v -> unop_ok u -> un_sem u v = OK v.
Proof. exact un_sem_ok. Qed.
Print Assumptions C08_unary.

Example C08_unary_nonvacuous : wf (mkM [2; 1] [true; false]) /\ unop_ok (UGrad 2).
Proof. split; [reflexivity | exact I]. Qed.
Print Assumptions C08_unary_nonvacuous.

(* --- binary operations between fields on the same mesh: cell-wise AND; otherwise rejected *)
Theorem C08_binary_and : forall b v1 v2, wf v1 -> wf v2 -> msh v1 = msh v2 ->
  bin_sem b v1 v2 = OK (and_cells v1 v2) /\
  forall k, nth k (mcells (and_cells v1 v2)) true = nth k (mcells v1) true && nth k (mcells v2) true.
Proof.
  exact (fun b v1 v2 H1 H2 E => conj (bin_sem_ok b v1 v2 H1 H2 E)
           (fun k => nth_map2_andb (mcells v1) (mcells v2) k
                       (eq_trans H1 (eq_trans (f_equal nprod E) (eq_sym H2))))).
Qed.
Print Assumptions C08_binary_and.

Example C08_binary_and_nonvacuous :
  bin_sem BCross (mkM [3] [true; true; false]) (mkM [3] [false; true; true]) = OK (mkM [3] [false; true; false]).
Proof. reflexivity. Qed.
Print Assumptions C08_binary_and_nonvacuous.

Theorem C08_binary_rejects_other_mesh : forall b v1 v2, msh v1 <> msh v2 -> bin_sem b v1 v2 = Err ValueE.
Proof. exact bin_sem_rejects. Qed.
Print Assumptions C08_binary_rejects_other_mesh.

(* same n but a region displaced on the common lattice: rejected as well; same position: the plain
   binary operation *)
Theorem C08_binary_rejects_shifted_mesh : forall env nd b e1 e2 v1 v2 o1 o2,
  veval env e1 = OK v1 -> veval env e2 = OK v2 ->
  eorigin nd e1 = Some o1 -> eorigin nd e2 = Some o2 -> zlist_eqb o1 o2 = false ->
  veval_bin_geo env nd b e1 e2 = Some (Err ValueE).
Proof. exact bin_geo_rejects_shifted. Qed.
Print Assumptions C08_binary_rejects_shifted_mesh.

Theorem C08_binary_same_position : forall env nd b e1 e2 v1 v2 o,
  veval env e1 = OK v1 -> veval env e2 = OK v2 ->
  eorigin nd e1 = Some o -> eorigin nd e2 = Some o -> msh v1 = msh v2 ->
  veval_bin_geo env nd b e1 e2 = Some (veval env (Bin b e1 e2)).
Proof. exact bin_geo_same_mesh. Qed.
Print Assumptions C08_binary_same_position.

Example C08_binary_shifted_nonvacuous :
  veval_bin_geo [mkM [2] [true; false]; mkM [2] [true; true]] 1 BAdd (Leaf 0)
    (Map (MRange 0 1 2) (Map (MPad PEdge 0 0 1 false) (Leaf 1))) = Some (Err ValueE) /\
  veval_bin_geo [mkM [2] [true; false]; mkM [2] [true; true]] 1 BAdd (Leaf 0)
    (Map (MRange 0 1 2) (Map (MPad PEdge 0 1 0 false) (Leaf 1))) = Some (OK (mkM [2] [true; false])).
Proof. split; reflexivity. Qed.
Print Assumptions C08_binary_shifted_nonvacuous.

(* --- every composition: the model of the code computes exactly the plain reading *)
Theorem C08_expr : forall env e, Forall wf env -> forall v, veval env e = OK v -> v = sem env e /\ wf v.
Proof. exact veval_sem. Qed.
Print Assumptions C08_expr.

Theorem C08_expr_shape : forall env e, Forall wf env -> forall v, veval env e = OK v ->
  eshape (map msh env) e = Some (msh v).
Proof. exact veval_shape. Qed.
Print Assumptions C08_expr_shape.

Theorem C08_expr_total : forall env e, Forall wf env -> unops_ok e -> forall sh,
  eshape (map msh env) e = Some sh -> exists v, veval env e = OK v /\ msh v = sh.
Proof. exact veval_total. Qed.
Print Assumptions C08_expr_total.

(* validity of any expression of unary and binary operations = AND over its field leaves *)
Theorem C08_expr_and_over_leaves : forall env sh e i, same_shape env sh -> map_free e = true ->
  (forall k, In k (leaves e) -> k < length env) ->
  mget (sem env e) i = forallb (fun k => mget (nth k env (mkM [] [])) i) (leaves e).
Proof. exact sem_and_over_leaves. Qed.
Print Assumptions C08_expr_and_over_leaves.

Example C08_expr_nonvacuous :
  veval [mkM [2] [true; false]; mkM [2] [true; true]]
        (Bin BAdd (Un UNeg (Leaf 0)) (Map (MRot90 false 0 0 0) (Leaf 1))) = Err ValueE /\
  veval [mkM [2] [true; false]; mkM [2] [true; true]]
        (Bin BAdd (Un UNeg (Leaf 0)) (Map (MPad PWrap 0 0 0 false) (Leaf 1))) = OK (mkM [2] [true; false]).
Proof. split; reflexivity. Qed.
Print Assumptions C08_expr_nonvacuous.

(* --- selection, extraction, padding, resampling, rotation, HDF5/VTK: the result cell reads the
       operand's validity at the cell the index map of the DATA sends it to *)
Theorem C08_mapped : forall env m e i,
  inb (map_shape m (msh (sem env e))) i = true ->
  mget (sem env (Map m e)) i =
  match map_idx m (msh (sem env e)) i with
  | Some j => mget (sem env e) j
  | None => map_fill m
  end.
Proof. exact sem_map_pointwise. Qed.
Print Assumptions C08_mapped.

(* cells map to cells: the source index of every result cell lies inside the operand's mesh
   (all pad modes incl. widths beyond the array length, all quarter turns, nearest-cell resampling) *)
Theorem C08_mapped_cells_to_cells : forall m sh i j,
  map_ok m sh = true -> inb (map_shape m sh) i = true -> map_idx m sh i = Some j -> inb sh j = true.
Proof. exact map_idx_in_range. Qed.
Print Assumptions C08_mapped_cells_to_cells.

Example C08_mapped_nonvacuous :
  map_ok (MPad PReflect 1 5 2 false) [2; 3] = true /\
  inb (map_shape (MPad PReflect 1 5 2 false) [2; 3]) [1; 0] = true /\
  map_idx (MPad PReflect 1 5 2 false) [2; 3] [1; 0] = Some [1; 1].
Proof. repeat split; reflexivity. Qed.
Print Assumptions C08_mapped_nonvacuous.

(* one pad call with widths on two axes = the composition of the single-axis gathers, in either order *)
Theorem C08_pad_two_axes_is_composition : forall (V : Type) md sh a ba aa b bb ab (fill : V) (src : idx -> V) i,
  a <> b ->
  gather_pad2 md sh a ba aa b bb ab fill src i =
  gather (MPad md a ba aa true) (map_shape (MPad md b bb ab true) sh) fill
         (gather (MPad md b bb ab true) sh fill src) i.
Proof. exact @pad2_is_composition. Qed.
Print Assumptions C08_pad_two_axes_is_composition.

Theorem C08_pad_axes_commute : forall (V : Type) md sh a ba aa b bb ab (fill : V) (src : idx -> V) i,
  a <> b ->
  gather (MPad md a ba aa true) (map_shape (MPad md b bb ab true) sh) fill
         (gather (MPad md b bb ab true) sh fill src) i =
  gather (MPad md b bb ab true) (map_shape (MPad md a ba aa true) sh) fill
         (gather (MPad md a ba aa true) sh fill src) i.
Proof. exact @pad_axes_commute. Qed.
Print Assumptions C08_pad_axes_commute.

(* the gather is the same for every cell-wise payload (values, validity) *)
Theorem C08_mapped_same_for_data_and_validity : forall (A B : Type) (g : A -> B) m sh fill (src : idx -> A) i,
  gather m sh (g fill) (fun j => g (src j)) i = g (gather m sh fill src i).
Proof. exact @gather_natural. Qed.
Print Assumptions C08_mapped_same_for_data_and_validity.

Theorem C08_mapped_model : forall m v, wf v -> map_ok m (msh v) = true -> map_sem m v = OK (sem_map m v).
Proof. exact map_sem_ok. Qed.
Print Assumptions C08_mapped_model.

(* --- codecs *)
Theorem C08_roundtrip_vtk : forall v, wf v -> vtk_decode (msh v) (vtk_encode v) = OK v.
Proof. exact (fun v H => eq_trans (vtk_roundtrip v H) (f_equal OK (mtab_self v H))). Qed.
Print Assumptions C08_roundtrip_vtk.

Theorem C08_roundtrip_hdf5 : forall n nvdim vals cells, length cells = nprod n ->
  set_valid n nvdim vals (VArray n (map SB cells)) = OK (mkM n cells).
Proof. exact set_valid_bool_array. Qed.
Print Assumptions C08_roundtrip_hdf5.

(* --- a result's validity is its own *)
Theorem C08_own_partial : forall e, is_leaf (strip_pos e) = false -> eprov e = PFresh.
Proof. exact eprov_fresh. Qed.
Print Assumptions C08_own_partial.

Theorem C08_own_classification : forall e,
  eprov e = PFresh \/ exists k, strip_pos e = Leaf k /\ eprov e = PView k.
Proof. exact eprov_own. Qed.
Print Assumptions C08_own_classification.

(* faithful model of `__pos__` (`return self`): the full statement is false (known finding
   C08-pos-returns-self) *)
Theorem C08_own_refuted : exists e k, e <> Leaf k /\ eprov e = PView k.
Proof. exact eprov_pos_aliases. Qed.
Print Assumptions C08_own_refuted.

(* --- the setter *)
Theorem C08_setter_shape : forall n nvdim vals v m, set_valid n nvdim vals v = OK m -> msh m = n /\ wf m.
Proof. exact set_valid_shape. Qed.
Print Assumptions C08_setter_shape.

Theorem C08_setter_keeps_values : forall f v f', assign_valid f v = OK f' ->
  fvals f' = fvals f /\ fn f' = fn f /\ fnvdim f' = fnvdim f /\ msh (fvalid f') = fn f /\ wf (fvalid f').
Proof. exact assign_valid_keeps_values. Qed.
Print Assumptions C08_setter_keeps_values.

Theorem C08_setter_integer_mask : forall n nvdim vals zs, length zs = nprod n ->
  set_valid n nvdim vals (VArray n (map SI zs)) = OK (mkM n (map (fun z => negb (z =? 0)%Z) zs)).
Proof. exact set_valid_int_array. Qed.
Print Assumptions C08_setter_integer_mask.

Theorem C08_setter_own : forall p, setter_prov p = PFresh.
Proof. exact (fun p => eq_refl). Qed.
Print Assumptions C08_setter_own.

Theorem C08_setter_norm : forall n nvdim vals k, k < nprod n ->
  forall m, set_valid n nvdim vals VNorm = OK m ->
  nth k (mcells m) true = norm_valid (nth k (chunks nvdim (nprod n) vals) []).
Proof. exact set_valid_norm. Qed.
Print Assumptions C08_setter_norm.

Theorem C08_norm_threshold : forall atol v, norm_valid_at atol v = true <-> (atol * atol < sumsq v)%Q.
Proof. exact norm_valid_iff. Qed.
Print Assumptions C08_norm_threshold.

Theorem C08_norm_zero_vector_invalid : forall atol v, Forall (fun x => x == 0)%Q v -> (0 <= atol)%Q ->
  norm_valid_at atol v = false.
Proof. exact norm_valid_zero. Qed.
Print Assumptions C08_norm_zero_vector_invalid.

(* --- the 'norm' clause in the property's own words (stdlib reals): a cell is valid iff the Euclidean
       length of its value exceeds the absolute threshold *)
Theorem C08_sqrt_bridge : forall x a : R, (0 <= x)%R -> (0 <= a)%R -> ((sqrt x <= a)%R <-> (x <= a * a)%R).
Proof. exact sqrt_le_sq. Qed.
Print Assumptions C08_sqrt_bridge.

(* numpy.isclose(x, 0, rtol, atol): rtol * |0| = 0, only atol matters (formula of Prelude.isclose) *)
Theorem C08_isclose_zero_only_atol : forall rtol atol a : Q,
  isclose rtol atol a 0 = true <-> (Qabs a <= atol)%Q.
Proof. exact isclose_zero_Q. Qed.
Print Assumptions C08_isclose_zero_only_atol.

Theorem C08_isclose_zero_only_atol_R : forall rtol atol a : R,
  Risclose rtol atol a 0 <-> (Rabs a <= atol)%R.
Proof. exact Risclose_zero. Qed.
Print Assumptions C08_isclose_zero_only_atol_R.

Theorem C08_norm_valid_iff_length_exceeds_threshold : forall (atol : Q) (v : list Q), (0 <= atol)%Q ->
  (norm_valid_at atol v = true <-> (Q2R atol < sqrt (Rsumsq (map Q2R v)))%R).
Proof. exact norm_valid_length. Qed.
Print Assumptions C08_norm_valid_iff_length_exceeds_threshold.

Theorem C08_norm_invalid_iff_length_up_to_threshold : forall (atol : Q) (v : list Q), (0 <= atol)%Q ->
  (norm_valid_at atol v = false <-> (sqrt (Rsumsq (map Q2R v)) <= Q2R atol)%R).
Proof. exact norm_valid_false_length. Qed.
Print Assumptions C08_norm_invalid_iff_length_up_to_threshold.

(* = ~np.isclose(norm, 0) whatever rtol is *)
Theorem C08_norm_valid_is_not_isclose : forall (rtol : R) (atol : Q) (v : list Q), (0 <= atol)%Q ->
  (norm_valid_at atol v = true <-> ~ Risclose rtol (Q2R atol) (sqrt (Rsumsq (map Q2R v))) 0).
Proof. exact norm_valid_not_isclose. Qed.
Print Assumptions C08_norm_valid_is_not_isclose.

Example C08_norm_nonvacuous :
  (0 <= norm_atol)%Q /\ norm_valid [(3 # 1)%Q; (4 # 1)%Q] = true /\ norm_valid [0%Q; 0%Q] = false.
Proof. split; [unfold Qle; simpl; lia | split; reflexivity]. Qed.
Print Assumptions C08_norm_nonvacuous.

(* ================================================================== correspondence checker: soundness.
   An accepted case certifies that the OBSERVED output is the model's value on the recorded inputs. *)
Theorem C08_check_expr_sound : forall env e sh cells s t,
  check_C08 (CExpr env e (Some (sh, cells)) s t) = true ->
  Forall wf (mk_env env) /\
  veval (mk_env env) e = OK (mkM sh cells) /\
  s = shares_want env e /\ t = shares_want env e.
Proof. exact check_expr_ok_sound. Qed.
Print Assumptions C08_check_expr_sound.
Theorem C08_check_expr_rejection_sound : forall env e s t,
  check_C08 (CExpr env e None s t) = true ->
  Forall wf (mk_env env) /\ exists er, veval (mk_env env) e = Err er.
Proof. exact check_expr_rej_sound. Qed.
Print Assumptions C08_check_expr_rejection_sound.
Theorem C08_check_mapdata_sound : forall sh m mask obs_sh obs_ids obs_mask,
  check_C08 (CMapData sh m mask obs_sh obs_ids obs_mask) = true ->
  wf (mkM sh mask) /\ map_ok m sh = true /\
  obs_sh = map_shape m sh /\
  obs_ids = to_list (map_shape m sh) (gather m sh None (fun j => Some (ravel sh j))) /\
  map_sem m (mkM sh mask) = OK (mkM obs_sh obs_mask).
Proof. exact check_mapdata_sound. Qed.
Print Assumptions C08_check_mapdata_sound.
Theorem C08_check_setter_sound : forall n v sh cells ib vs own,
  check_C08 (CSetter n v (Some (sh, cells)) ib vs own) = true ->
  set_valid n 1 [] v = OK (mkM sh cells) /\ ib = true /\ vs = true /\ own = true.
Proof. exact check_setter_ok_sound. Qed.
Print Assumptions C08_check_setter_sound.
Theorem C08_check_setter_rejection_sound : forall n v ib vs own,
  check_C08 (CSetter n v None ib vs own) = true ->
  (exists er, set_valid n 1 [] v = Err er) /\ vs = true.
Proof. exact check_setter_rej_sound. Qed.
Print Assumptions C08_check_setter_rejection_sound.
Theorem C08_check_norm_exact_sound : forall n nvdim vals obs,
  check_C08 (CNorm true n nvdim vals obs) = true ->
  length vals = nprod n * nvdim /\ length obs = nprod n /\
  obs = map (norm_valid_at norm_atol_f64) (chunks nvdim (nprod n) vals).
Proof. exact check_norm_exact_sound. Qed.
Print Assumptions C08_check_norm_exact_sound.
(* tolerance regime: outside the relative band 1e-9 around the threshold the observed cell is decided *)
Theorem C08_check_norm_band_sound : forall n nvdim vals obs,
  check_C08 (CNorm false n nvdim vals obs) = true ->
  length vals = nprod n * nvdim /\ length obs = nprod n /\
  forall k, k < nprod n ->
    let v := nth k (chunks nvdim (nprod n) vals) [] in
    ((band_hi * band_hi < sumsq v)%Q -> nth k obs true = true) /\
    ((sumsq v < band_lo * band_lo)%Q -> nth k obs true = false).
Proof. exact check_norm_band_sound. Qed.
Print Assumptions C08_check_norm_band_sound.
Theorem C08_check_vtk_sound : forall sh mask obs_ints,
  check_C08 (CVtkEnc sh mask obs_ints) = true ->
  wf (mkM sh mask) /\ obs_ints = vtk_encode (mkM sh mask).
Proof. exact check_vtk_sound. Qed.
Print Assumptions C08_check_vtk_sound.
Theorem C08_check_bingeo_sound : forall env nd b e1 e2 sh cells,
  check_C08 (CBinGeo env nd b e1 e2 (Some (sh, cells))) = true ->
  Forall wf (mk_env env) /\
  veval_bin_geo (mk_env env) nd b e1 e2 = Some (OK (mkM sh cells)).
Proof. exact check_bingeo_ok_sound. Qed.
Print Assumptions C08_check_bingeo_sound.
Theorem C08_check_bingeo_rejection_sound : forall env nd b e1 e2,
  check_C08 (CBinGeo env nd b e1 e2 None) = true ->
  Forall wf (mk_env env) /\
  exists er, veval_bin_geo (mk_env env) nd b e1 e2 = Some (Err er).
Proof. exact check_bingeo_rej_sound. Qed.
Print Assumptions C08_check_bingeo_rejection_sound.
Theorem C08_check_both_sound : forall c1 c2,
  check_C08 (CBoth c1 c2) = true -> check_C08 c1 = true /\ check_C08 c2 = true.
Proof. exact check_both_sound. Qed.
Print Assumptions C08_check_both_sound.
(* a whole shard: no failing index means every case was accepted *)
Theorem C08_shard_verdict : forall cases k,
  failing k (map check_C08 cases) = [] -> forall c, In c cases -> check_C08 c = true.
Proof. exact (failing_nil_all check_C08). Qed.
Print Assumptions C08_shard_verdict.

(* --- transfer: the property's conclusions about the OBSERVED outputs *)
(* the observed mask of an accepted operation chain is the plain reading of the property; the
   well-formedness of the operands is established by the checker itself *)
Theorem C08_accepted_expr_is_sem : forall env e sh cells s t,
  check_C08 (CExpr env e (Some (sh, cells)) s t) = true ->
  mkM sh cells = sem (mk_env env) e /\
  length cells = nprod sh /\
  eshape (map msh (mk_env env)) e = Some sh.
Proof. exact accepted_expr_is_sem. Qed.
Print Assumptions C08_accepted_expr_is_sem.
(* operands on one mesh, unary and binary operations: every observed cell = AND over the field leaves *)
Theorem C08_accepted_expr_and_over_leaves : forall env e sh cells s t sh0 i,
  check_C08 (CExpr env e (Some (sh, cells)) s t) = true ->
  (forall p, In p env -> fst p = sh0) -> map_free e = true ->
  (forall k, In k (leaves e) -> k < length env) ->
  mget (mkM sh cells) i =
  forallb (fun k => mget (nth k (mk_env env) (mkM [] [])) i) (leaves e).
Proof. exact accepted_expr_and_over_leaves. Qed.
Print Assumptions C08_accepted_expr_and_over_leaves.
(* observed np.shares_memory / in-place write probe: True only for the operand itself behind unary pluses *)
Theorem C08_accepted_expr_own : forall env e sh cells s t k,
  check_C08 (CExpr env e (Some (sh, cells)) s t) = true -> k < length env ->
  (nth k s false = true \/ nth k t false = true) -> strip_pos e = Leaf k.
Proof. exact accepted_expr_own. Qed.
Print Assumptions C08_accepted_expr_own.
Theorem C08_accepted_expr_fresh : forall env e sh cells s t,
  check_C08 (CExpr env e (Some (sh, cells)) s t) = true ->
  is_leaf (strip_pos e) = false ->
  s = repeat false (length env) /\ t = repeat false (length env).
Proof. exact accepted_expr_fresh. Qed.
Print Assumptions C08_accepted_expr_fresh.
(* observed mask of a mapping operation: the operand's mask at the cell the index map sends it to,
   which lies inside the operand's mesh *)
Theorem C08_accepted_mapped : forall sh m mask obs_sh obs_ids obs_mask i,
  check_C08 (CMapData sh m mask obs_sh obs_ids obs_mask) = true ->
  inb obs_sh i = true ->
  nth (ravel obs_sh i) obs_mask true =
  match map_idx m sh i with
  | Some j => nth (ravel sh j) mask true
  | None => map_fill m
  end /\
  forall j, map_idx m sh i = Some j -> inb sh j = true.
Proof. exact accepted_mapped. Qed.
Print Assumptions C08_accepted_mapped.
(* validity follows the DATA: where the observed value of result cell i was taken from operand cell
   number c, the observed validity is the operand's validity at c; padding constants get the fill *)
Theorem C08_accepted_mask_follows_data : forall sh m mask obs_sh obs_ids obs_mask i,
  check_C08 (CMapData sh m mask obs_sh obs_ids obs_mask) = true ->
  inb obs_sh i = true ->
  nth (ravel obs_sh i) obs_mask true =
  match nth (ravel obs_sh i) obs_ids None with
  | Some c => nth c mask true
  | None => map_fill m
  end.
Proof. exact accepted_mask_follows_data. Qed.
Print Assumptions C08_accepted_mask_follows_data.
(* decoding the OBSERVED VTK integers gives back the mask that was written *)
Theorem C08_accepted_vtk_roundtrip : forall sh mask obs_ints,
  check_C08 (CVtkEnc sh mask obs_ints) = true ->
  vtk_decode sh obs_ints = OK (mkM sh mask).
Proof. exact accepted_vtk_roundtrip. Qed.
Print Assumptions C08_accepted_vtk_roundtrip.
Theorem C08_accepted_setter_shape : forall n v sh cells ib vs own,
  check_C08 (CSetter n v (Some (sh, cells)) ib vs own) = true ->
  sh = n /\ length cells = nprod n /\ ib = true /\ vs = true /\ own = true.
Proof. exact accepted_setter_shape. Qed.
Print Assumptions C08_accepted_setter_shape.
Theorem C08_accepted_setter_bool_array : forall n cells sh obs ib vs own,
  check_C08 (CSetter n (VArray n (map SB cells)) (Some (sh, obs)) ib vs own) = true ->
  length cells = nprod n -> sh = n /\ obs = cells.
Proof. exact accepted_setter_bool_array. Qed.
Print Assumptions C08_accepted_setter_bool_array.
(* valid="norm", exact regime: an observed cell is valid iff the Euclidean length of its value
   exceeds the (binary64) threshold *)
Theorem C08_accepted_norm_exact : forall n nvdim vals obs k,
  check_C08 (CNorm true n nvdim vals obs) = true -> k < nprod n ->
  (nth k obs true = true <->
   (Q2R norm_atol_f64 < sqrt (Rsumsq (map Q2R (nth k (chunks nvdim (nprod n) vals) []))))%R).
Proof. exact accepted_norm_exact. Qed.
Print Assumptions C08_accepted_norm_exact.
(* tolerance regime: outside the band the observed cell is the model setter's cell *)
Theorem C08_accepted_norm_band : forall n nvdim vals obs k m,
  check_C08 (CNorm false n nvdim vals obs) = true -> k < nprod n ->
  set_valid n nvdim vals VNorm = OK m ->
  let v := nth k (chunks nvdim (nprod n) vals) [] in
  ((band_hi * band_hi < sumsq v)%Q \/ (sumsq v < band_lo * band_lo)%Q) ->
  nth k obs true = nth k (mcells m) true.
Proof. exact accepted_norm_band. Qed.
Print Assumptions C08_accepted_norm_band.
(* binary operation between derived fields of one mesh: observed result = AND of both sides, at one position *)
Theorem C08_accepted_bingeo : forall env nd b e1 e2 sh cells,
  check_C08 (CBinGeo env nd b e1 e2 (Some (sh, cells))) = true ->
  mkM sh cells = and_cells (sem (mk_env env) e1) (sem (mk_env env) e2) /\
  msh (sem (mk_env env) e1) = msh (sem (mk_env env) e2) /\
  exists o, eorigin nd e1 = Some o /\ eorigin nd e2 = Some o.
Proof. exact accepted_bingeo. Qed.
Print Assumptions C08_accepted_bingeo.
(* an observed rejection is never spurious: the shapes or the positions differ *)
Theorem C08_accepted_bingeo_rejection : forall env nd b e1 e2,
  check_C08 (CBinGeo env nd b e1 e2 None) = true ->
  exists v1 v2 o1 o2,
    veval (mk_env env) e1 = OK v1 /\ veval (mk_env env) e2 = OK v2 /\
    eorigin nd e1 = Some o1 /\ eorigin nd e2 = Some o2 /\
    (msh v1 <> msh v2 \/ o1 <> o2).
Proof. exact accepted_bingeo_rejection. Qed.
Print Assumptions C08_accepted_bingeo_rejection.

(* non-vacuity: concrete accepted cases *)
Example C08_accepted_expr_instance :
  check_C08 (CExpr [([3], [true; true; false]); ([3], [false; true; true])]
                   (Bin BCross (Un UNeg (Leaf 0)) (Pos (Leaf 1)))
                   (Some ([3], [false; true; false])) [false; false] [false; false]) = true.
Proof. exact accepted_expr_instance. Qed.
Print Assumptions C08_accepted_expr_instance.
Example C08_accepted_mapdata_instance :
  check_C08 (CMapData [3] (MPad PConstant 0 1 0 false) [true; false; true]
                      [4] [None; Some 0; Some 1; Some 2] [false; true; false; true]) = true.
Proof. exact accepted_mapdata_instance. Qed.
Print Assumptions C08_accepted_mapdata_instance.
Example C08_accepted_vtk_instance :
  check_C08 (CVtkEnc [2; 1; 1] [true; false] [1%Z; 0%Z]) = true.
Proof. exact accepted_vtk_instance. Qed.
Print Assumptions C08_accepted_vtk_instance.
Example C08_accepted_norm_instance :
  check_C08 (CNorm true [2] 2 [(3 # 1)%Q; (4 # 1)%Q; 0%Q; 0%Q] [true; false]) = true /\
  check_C08 (CNorm false [2] 2 [(3 # 1)%Q; (4 # 1)%Q; 0%Q; 0%Q] [true; false]) = true.
Proof. exact accepted_norm_instance. Qed.
Print Assumptions C08_accepted_norm_instance.
Example C08_accepted_setter_instance :
  check_C08 (CSetter [2] (VArray [2] [SB true; SB false]) (Some ([2], [true; false])) true true true) = true.
Proof. exact accepted_setter_instance. Qed.
Print Assumptions C08_accepted_setter_instance.
Example C08_accepted_bingeo_instance :
  check_C08 (CBinGeo [([2], [true; false]); ([2], [true; true])] 1 BAdd (Leaf 0)
               (Map (MRange 0 1 2) (Map (MPad PEdge 0 0 1 false) (Leaf 1))) None) = true /\
  check_C08 (CBinGeo [([2], [true; false]); ([2], [true; true])] 1 BAdd (Leaf 0)
               (Map (MRange 0 1 2) (Map (MPad PEdge 0 1 0 false) (Leaf 1))) (Some ([2], [true; false]))) = true.
Proof. exact accepted_bingeo_instance. Qed.
Print Assumptions C08_accepted_bingeo_instance.
