(* C08 — Validity masks follow the data through every operation that keeps or maps cells.
   Statements only.  [veval] is the executable model of the code (what each operation hands to the
   constructor + the `valid` setter's normalisation, with rejections); [sem] is the plain reading of
   the property (operand masks, cell-wise AND, gathers).  Masks have arbitrary shapes and sizes. *)
From DF Require Import Prelude NDArray Valid C08_arrays C08_valid C08_maps C08_reals.
From Coq Require Import Reals Qreals.
Open Scope nat_scope.

(* --- unary operations (neg, abs, component, norm, orientation, complex parts, diff, scalar
       operands, one-field ufuncs, grad/div/curl/laplace) return the operand's validity *)
Theorem C08_unary : forall u v, wf v -> unop_ok u -> un_sem u v = OK v.
Proof. exact un_sem_ok. Qed.
Print Assumptions C08_unary.

Example C08_unary_nonvacuous : wf (mkM [2; 1] [true; false]) /\ unop_ok (UGrad 2).
Proof. split; [reflexivity | exact I]. Qed.
Print Assumptions C08_unary_nonvacuous.

(* --- binary operations between fields on the same mesh: cell-wise AND; otherwise rejected *)
Theorem C08_binary_and : forall b v1 v2, wf v1 -> wf v2 -> msh v1 = msh v2 ->
  bin_sem b v1 v2 = OK (and_cells v1 v2) /\
  forall k, nth k (mcells (and_cells v1 v2)) true = nth k (mcells v1) true && nth k (mcells v2) true.
Proof.
  exact (fun b v1 v2 H1 H2 E => conj (bin_sem_ok b v1 v2 H1 H2 E)
           (fun k => nth_map2_andb (mcells v1) (mcells v2) k
                       (eq_trans H1 (eq_trans (f_equal nprod E) (eq_sym H2))))).
Qed.
Print Assumptions C08_binary_and.

Example C08_binary_and_nonvacuous :
  bin_sem BCross (mkM [3] [true; true; false]) (mkM [3] [false; true; true]) = OK (mkM [3] [false; true; false]).
Proof. reflexivity. Qed.
Print Assumptions C08_binary_and_nonvacuous.

Theorem C08_binary_rejects_other_mesh : forall b v1 v2, msh v1 <> msh v2 -> bin_sem b v1 v2 = Err ValueE.
Proof. exact bin_sem_rejects. Qed.
Print Assumptions C08_binary_rejects_other_mesh.

(* same n but a region displaced on the common lattice: rejected as well; same position: the plain
   binary operation *)
Theorem C08_binary_rejects_shifted_mesh : forall env nd b e1 e2 v1 v2 o1 o2,
  veval env e1 = OK v1 -> veval env e2 = OK v2 ->
  eorigin nd e1 = Some o1 -> eorigin nd e2 = Some o2 -> zlist_eqb o1 o2 = false ->
  veval_bin_geo env nd b e1 e2 = Some (Err ValueE).
Proof. exact bin_geo_rejects_shifted. Qed.
Print Assumptions C08_binary_rejects_shifted_mesh.

Theorem C08_binary_same_position : forall env nd b e1 e2 v1 v2 o,
  veval env e1 = OK v1 -> veval env e2 = OK v2 ->
  eorigin nd e1 = Some o -> eorigin nd e2 = Some o -> msh v1 = msh v2 ->
  veval_bin_geo env nd b e1 e2 = Some (veval env (Bin b e1 e2)).
Proof. exact bin_geo_same_mesh. Qed.
Print Assumptions C08_binary_same_position.

Example C08_binary_shifted_nonvacuous :
  veval_bin_geo [mkM [2] [true; false]; mkM [2] [true; true]] 1 BAdd (Leaf 0)
    (Map (MRange 0 1 2) (Map (MPad PEdge 0 0 1 false) (Leaf 1))) = Some (Err ValueE) /\
  veval_bin_geo [mkM [2] [true; false]; mkM [2] [true; true]] 1 BAdd (Leaf 0)
    (Map (MRange 0 1 2) (Map (MPad PEdge 0 1 0 false) (Leaf 1))) = Some (OK (mkM [2] [true; false])).
Proof. split; reflexivity. Qed.
Print Assumptions C08_binary_shifted_nonvacuous.

(* --- every composition: the model of the code computes exactly the plain reading *)
Theorem C08_expr : forall env e, Forall wf env -> forall v, veval env e = OK v -> v = sem env e /\ wf v.
Proof. exact veval_sem. Qed.
Print Assumptions C08_expr.

Theorem C08_expr_shape : forall env e, Forall wf env -> forall v, veval env e = OK v ->
  eshape (map msh env) e = Some (msh v).
Proof. exact veval_shape. Qed.
Print Assumptions C08_expr_shape.

Theorem C08_expr_total : forall env e, Forall wf env -> unops_ok e -> forall sh,
  eshape (map msh env) e = Some sh -> exists v, veval env e = OK v /\ msh v = sh.
Proof. exact veval_total. Qed.
Print Assumptions C08_expr_total.

(* validity of any expression of unary and binary operations = AND over its field leaves *)
Theorem C08_expr_and_over_leaves : forall env sh e i, same_shape env sh -> map_free e = true ->
  (forall k, In k (leaves e) -> k < length env) ->
  mget (sem env e) i = forallb (fun k => mget (nth k env (mkM [] [])) i) (leaves e).
Proof. exact sem_and_over_leaves. Qed.
Print Assumptions C08_expr_and_over_leaves.

Example C08_expr_nonvacuous :
  veval [mkM [2] [true; false]; mkM [2] [true; true]]
        (Bin BAdd (Un UNeg (Leaf 0)) (Map (MRot90 false 0 0 0) (Leaf 1))) = Err ValueE /\
  veval [mkM [2] [true; false]; mkM [2] [true; true]]
        (Bin BAdd (Un UNeg (Leaf 0)) (Map (MPad PWrap 0 0 0 false) (Leaf 1))) = OK (mkM [2] [true; false]).
Proof. split; reflexivity. Qed.
Print Assumptions C08_expr_nonvacuous.

(* --- selection, extraction, padding, resampling, rotation, HDF5/VTK: the result cell reads the
       operand's validity at the cell the index map of the DATA sends it to *)
Theorem C08_mapped : forall env m e i,
  inb (map_shape m (msh (sem env e))) i = true ->
  mget (sem env (Map m e)) i =
  match map_idx m (msh (sem env e)) i with
  | Some j => mget (sem env e) j
  | None => map_fill m
  end.
Proof. exact sem_map_pointwise. Qed.
Print Assumptions C08_mapped.

(* cells map to cells: the source index of every result cell lies inside the operand's mesh
   (all pad modes incl. widths beyond the array length, all quarter turns, nearest-cell resampling) *)
Theorem C08_mapped_cells_to_cells : forall m sh i j,
  map_ok m sh = true -> inb (map_shape m sh) i = true -> map_idx m sh i = Some j -> inb sh j = true.
Proof. exact map_idx_in_range. Qed.
Print Assumptions C08_mapped_cells_to_cells.

Example C08_mapped_nonvacuous :
  map_ok (MPad PReflect 1 5 2 false) [2; 3] = true /\
  inb (map_shape (MPad PReflect 1 5 2 false) [2; 3]) [1; 0] = true /\
  map_idx (MPad PReflect 1 5 2 false) [2; 3] [1; 0] = Some [1; 1].
Proof. repeat split; reflexivity. Qed.
Print Assumptions C08_mapped_nonvacuous.

(* one pad call with widths on two axes = the composition of the single-axis gathers, in either order *)
Theorem C08_pad_two_axes_is_composition : forall (V : Type) md sh a ba aa b bb ab (fill : V) (src : idx -> V) i,
  a <> b ->
  gather_pad2 md sh a ba aa b bb ab fill src i =
  gather (MPad md a ba aa true) (map_shape (MPad md b bb ab true) sh) fill
         (gather (MPad md b bb ab true) sh fill src) i.
Proof. exact @pad2_is_composition. Qed.
Print Assumptions C08_pad_two_axes_is_composition.

Theorem C08_pad_axes_commute : forall (V : Type) md sh a ba aa b bb ab (fill : V) (src : idx -> V) i,
  a <> b ->
  gather (MPad md a ba aa true) (map_shape (MPad md b bb ab true) sh) fill
         (gather (MPad md b bb ab true) sh fill src) i =
  gather (MPad md b bb ab true) (map_shape (MPad md a ba aa true) sh) fill
         (gather (MPad md a ba aa true) sh fill src) i.
Proof. exact @pad_axes_commute. Qed.
Print Assumptions C08_pad_axes_commute.

(* the gather is the same for every cell-wise payload (values, validity) *)
Theorem C08_mapped_same_for_data_and_validity : forall (A B : Type) (g : A -> B) m sh fill (src : idx -> A) i,
  gather m sh (g fill) (fun j => g (src j)) i = g (gather m sh fill src i).
Proof. exact @gather_natural. Qed.
Print Assumptions C08_mapped_same_for_data_and_validity.

Theorem C08_mapped_model : forall m v, wf v -> map_ok m (msh v) = true -> map_sem m v = OK (sem_map m v).
Proof. exact map_sem_ok. Qed.
Print Assumptions C08_mapped_model.

(* --- codecs *)
Theorem C08_roundtrip_vtk : forall v, wf v -> vtk_decode (msh v) (vtk_encode v) = OK v.
Proof. exact (fun v H => eq_trans (vtk_roundtrip v H) (f_equal OK (mtab_self v H))). Qed.
Print Assumptions C08_roundtrip_vtk.

Theorem C08_roundtrip_hdf5 : forall n nvdim vals cells, length cells = nprod n ->
  set_valid n nvdim vals (VArray n (map SB cells)) = OK (mkM n cells).
Proof. exact set_valid_bool_array. Qed.
Print Assumptions C08_roundtrip_hdf5.

(* --- a result's validity is its own *)
Theorem C08_own_partial : forall e, is_leaf (strip_pos e) = false -> eprov e = PFresh.
Proof. exact eprov_fresh. Qed.
Print Assumptions C08_own_partial.

Theorem C08_own_classification : forall e,
  eprov e = PFresh \/ exists k, strip_pos e = Leaf k /\ eprov e = PView k.
Proof. exact eprov_own. Qed.
Print Assumptions C08_own_classification.

(* faithful model of `__pos__` (`return self`): the full statement is false (known finding
   C08-pos-returns-self) *)
Theorem C08_own_refuted : exists e k, e <> Leaf k /\ eprov e = PView k.
Proof. exact eprov_pos_aliases. Qed.
Print Assumptions C08_own_refuted.

(* --- the setter *)
Theorem C08_setter_shape : forall n nvdim vals v m, set_valid n nvdim vals v = OK m -> msh m = n /\ wf m.
Proof. exact set_valid_shape. Qed.
Print Assumptions C08_setter_shape.

Theorem C08_setter_keeps_values : forall f v f', assign_valid f v = OK f' ->
  fvals f' = fvals f /\ fn f' = fn f /\ fnvdim f' = fnvdim f /\ msh (fvalid f') = fn f /\ wf (fvalid f').
Proof. exact assign_valid_keeps_values. Qed.
Print Assumptions C08_setter_keeps_values.

Theorem C08_setter_integer_mask : forall n nvdim vals zs, length zs = nprod n ->
  set_valid n nvdim vals (VArray n (map SI zs)) = OK (mkM n (map (fun z => negb (z =? 0)%Z) zs)).
Proof. exact set_valid_int_array. Qed.
Print Assumptions C08_setter_integer_mask.

Theorem C08_setter_own : forall p, setter_prov p = PFresh.
Proof. exact (fun p => eq_refl). Qed.
Print Assumptions C08_setter_own.

Theorem C08_setter_norm : forall n nvdim vals k, k < nprod n ->
  forall m, set_valid n nvdim vals VNorm = OK m ->
  nth k (mcells m) true = norm_valid (nth k (chunks nvdim (nprod n) vals) []).
Proof. exact set_valid_norm. Qed.
Print Assumptions C08_setter_norm.

Theorem C08_norm_threshold : forall atol v, norm_valid_at atol v = true <-> (atol * atol < sumsq v)%Q.
Proof. exact norm_valid_iff. Qed.
Print Assumptions C08_norm_threshold.

Theorem C08_norm_zero_vector_invalid : forall atol v, Forall (fun x => x == 0)%Q v -> (0 <= atol)%Q ->
  norm_valid_at atol v = false.
Proof. exact norm_valid_zero. Qed.
Print Assumptions C08_norm_zero_vector_invalid.

(* --- the 'norm' clause in the property's own words (stdlib reals): a cell is valid iff the Euclidean
       length of its value exceeds the absolute threshold *)
Theorem C08_sqrt_bridge : forall x a : R, (0 <= x)%R -> (0 <= a)%R -> ((sqrt x <= a)%R <-> (x <= a * a)%R).
Proof. exact sqrt_le_sq. Qed.
Print Assumptions C08_sqrt_bridge.

(* numpy.isclose(x, 0, rtol, atol): rtol * |0| = 0, only atol matters (formula of Prelude.isclose) *)
Theorem C08_isclose_zero_only_atol : forall rtol atol a : Q,
  isclose rtol atol a 0 = true <-> (Qabs a <= atol)%Q.
Proof. exact isclose_zero_Q. Qed.
Print Assumptions C08_isclose_zero_only_atol.

Theorem C08_isclose_zero_only_atol_R : forall rtol atol a : R,
  Risclose rtol atol a 0 <-> (Rabs a <= atol)%R.
Proof. exact Risclose_zero. Qed.
Print Assumptions C08_isclose_zero_only_atol_R.

Theorem C08_norm_valid_iff_length_exceeds_threshold : forall (atol : Q) (v : list Q), (0 <= atol)%Q ->
  (norm_valid_at atol v = true <-> (Q2R atol < sqrt (Rsumsq (map Q2R v)))%R).
Proof. exact norm_valid_length. Qed.
Print Assumptions C08_norm_valid_iff_length_exceeds_threshold.

Theorem C08_norm_invalid_iff_length_up_to_threshold : forall (atol : Q) (v : list Q), (0 <= atol)%Q ->
  (norm_valid_at atol v = false <-> (sqrt (Rsumsq (map Q2R v)) <= Q2R atol)%R).
Proof. exact norm_valid_false_length. Qed.
Print Assumptions C08_norm_invalid_iff_length_up_to_threshold.

(* = ~np.isclose(norm, 0) whatever rtol is *)
Theorem C08_norm_valid_is_not_isclose : forall (rtol : R) (atol : Q) (v : list Q), (0 <= atol)%Q ->
  (norm_valid_at atol v = true <-> ~ Risclose rtol (Q2R atol) (sqrt (Rsumsq (map Q2R v))) 0).
Proof. exact norm_valid_not_isclose. Qed.
Print Assumptions C08_norm_valid_is_not_isclose.

Example C08_norm_nonvacuous :
  (0 <= norm_atol)%Q /\ norm_valid [(3 # 1)%Q; (4 # 1)%Q] = true /\ norm_valid [0%Q; 0%Q] = false.
Proof. split; [unfold Qle; simpl; lia | split; reflexivity]. Qed.
Print Assumptions C08_norm_nonvacuous.
