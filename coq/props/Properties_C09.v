(* C09 — OVF files round-trip fields and follow the OVF 1.0/2.0 format.
   ONLY statements, each closed by [exact] of a lemma proved in proofs/, followed by
   Print Assumptions. *)
From DF Require Import Prelude Constants_gen Region Mesh Ovf C09_faults.
Open Scope Q_scope.

(* a binary file whose check value is not the one of its representation is rejected *)
Theorem C09_faults_check : forall (V : Type) (d : V) (rd : repr -> V -> V)
    (fl : ovf_file V) (side : option sidecar),
  is_binary (f_rep fl) = true ->
  (forall cv, f_check fl = Some cv -> ~ cv == check_value (f_rep fl)) ->
  is_ok (decode d rd fl side) = false.
Proof. exact bad_check_rejected. Qed.
Print Assumptions C09_faults_check.

(* a binary data block shorter than nodes*valuedim is rejected, whatever follows it *)
Theorem C09_faults_short : forall (V : Type) (d : V) (rd : repr -> V -> V)
    (fl : ovf_file V) (side : option sidecar),
  is_binary (f_rep fl) = true ->
  (length (f_payload fl) < announced fl)%nat ->
  is_ok (decode d rd fl side) = false.
Proof. exact short_block_rejected. Qed.
Print Assumptions C09_faults_short.

(* ... in particular every proper prefix of the data block of any file *)
Theorem C09_faults_every_truncation : forall (V : Type) (d : V) (rd : repr -> V -> V)
    (fl : ovf_file V) (side : option sidecar) (k : nat),
  is_binary (f_rep fl) = true ->
  (k < announced fl)%nat ->
  is_ok (decode d rd (mkFile (f_v2 fl) (f_meshunit fl) (f_base fl) (f_nodes fl) (f_step fl) (f_min fl)
                       (f_max fl) (f_valuedim fl) (f_labels fl) (f_units fl) (f_rep fl) (f_check fl)
                       (firstn k (f_payload fl)) (f_cols fl) (f_tail_ok fl)) side) = false.
Proof. exact every_truncation_rejected. Qed.
Print Assumptions C09_faults_every_truncation.

(* a full-length block that is not followed by the end-of-data marker is rejected *)
Theorem C09_faults_tail : forall (V : Type) (d : V) (rd : repr -> V -> V)
    (fl : ovf_file V) (side : option sidecar),
  is_binary (f_rep fl) = true -> f_tail_ok fl = false ->
  is_ok (decode d rd fl side) = false.
Proof. exact bad_tail_rejected. Qed.
Print Assumptions C09_faults_tail.
