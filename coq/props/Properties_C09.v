(* C09 — OVF files round-trip fields and follow the OVF 1.0/2.0 format.
   ONLY statements, each closed by [exact] of a lemma proved in proofs/, followed by
   Print Assumptions. *)
From DF Require Import Prelude Constants_gen Region Mesh Ovf C09_layout C09_codec C09_faults C09_mesh C09_roundtrip C09_sidecar CheckSound Check_C09 C09_sound.
Open Scope Q_scope.

(* a binary file whose check value is not the one of its representation is rejected *)
Theorem C09_faults_check : forall (V : Type) (d : V) (rd : repr -> V -> V)
    (fl : ovf_file V) (side : option sidecar),
  is_binary (f_rep fl) = true ->
  (forall cv, f_check fl = Some cv -> ~ cv == check_value (f_rep fl)) ->
  is_ok (decode d rd fl side) = false.
Proof. exact bad_check_rejected. Qed.
Print Assumptions C09_faults_check.

(* a binary data block shorter than nodes*valuedim is rejected, whatever follows it *)
Theorem C09_faults_short : forall (V : Type) (d : V) (rd : repr -> V -> V)
    (fl : ovf_file V) (side : option sidecar),
  is_binary (f_rep fl) = true ->
  (length (f_payload fl) < announced fl)%nat ->
  is_ok (decode d rd fl side) = false.
Proof. exact short_block_rejected. Qed.
Print Assumptions C09_faults_short.

(* ... in particular every proper prefix of the data block of any file *)
Theorem C09_faults_every_truncation : forall (V : Type) (d : V) (rd : repr -> V -> V)
    (fl : ovf_file V) (side : option sidecar) (k : nat),
  is_binary (f_rep fl) = true ->
  (k < announced fl)%nat ->
  is_ok (decode d rd (mkFile (f_v2 fl) (f_meshunit fl) (f_base fl) (f_nodes fl) (f_step fl) (f_min fl)
                       (f_max fl) (f_valuedim fl) (f_labels fl) (f_units fl) (f_rep fl) (f_check fl)
                       (firstn k (f_payload fl)) (f_cols fl) (f_tail_ok fl)) side) = false.
Proof. exact every_truncation_rejected. Qed.
Print Assumptions C09_faults_every_truncation.

(* a full-length block that is not followed by the end-of-data marker is rejected *)
Theorem C09_faults_tail : forall (V : Type) (d : V) (rd : repr -> V -> V)
    (fl : ovf_file V) (side : option sidecar),
  is_binary (f_rep fl) = true -> f_tail_ok fl = false ->
  is_ok (decode d rd fl side) = false.
Proof. exact bad_tail_rejected. Qed.
Print Assumptions C09_faults_tail.

(* ---------------------------------------------------------------- layout *)
(* "x fastest": flat[((k*ny + j)*nx + i)*nv + c] of the transposed array is component c of cell
   (i,j,k), for all shapes, for every element type *)
Theorem C09_layout : forall (V : Type) (d : V) (nx ny nz nv : nat) (a : list V) (i j k c : nat),
  (i < nx)%nat -> (j < ny)%nat -> (k < nz)%nat -> (c < nv)%nat ->
  nth (opos nx ny nv i j k c) (to_ovf_order d nx ny nz nv a) d = nth (cpos ny nz nv i j k c) a d.
Proof. exact to_ovf_order_nth. Qed.
Print Assumptions C09_layout.

Theorem C09_layout_length : forall (V : Type) (d : V) (nx ny nz nv : nat) (a : list V),
  length (to_ovf_order d nx ny nz nv a) = (nz * (ny * (nx * nv)))%nat.
Proof. exact to_ovf_order_length. Qed.
Print Assumptions C09_layout_length.

(* reshape + transpose back inverts the written order on every array of shape (nx,ny,nz,nv) *)
Theorem C09_layout_inverse : forall (V : Type) (d : V) (nx ny nz nv : nat) (a : list V),
  length a = (nx * (ny * (nz * nv)))%nat ->
  from_ovf_order d nx ny nz nv (to_ovf_order d nx ny nz nv a) = a.
Proof. exact from_to_ovf_order. Qed.
Print Assumptions C09_layout_inverse.

(* values: written through g (identity for bin8, float32 rounding for bin4, decimal text for txt),
   read through h; whatever follows the announced block is ignored.  With g = h = identity this is
   bit-identity of bin8 for every element type. *)
Theorem C09_roundtrip_values : forall (V : Type) (d : V) (nx ny nz nv : nat) (a : list V)
    (g h : V -> V) (extra : list V),
  length a = (nx * (ny * (nz * nv)))%nat ->
  map h (from_ovf_order d nx ny nz nv
           (firstn (nx * ny * nz * nv) (map g (to_ovf_order d nx ny nz nv a) ++ extra)))
  = map (fun v => h (g v)) a.
Proof. exact from_to_ovf_order_map. Qed.
Print Assumptions C09_roundtrip_values.

(* ---------------------------------------------------------------- writer *)
(* header of every file the writer produces: OVF 2.0, xbase = pmin + cell/2, stepsize = cell,
   nodes = n, min/max = region corners, valuedim, check value of the representation *)
Theorem C09_header : forall (V : Type) (d zero : V) (wr : repr -> V -> V)
    (f : ofield V) (rp : repr) (extend ss : bool) (fl : ovf_file V) (sc : option sidecar),
  encode d zero wr f rp extend ss = OK (fl, sc) ->
  let m := of_mesh f in
  f_v2 fl = true /\
  f_base fl = map2 (fun lo c => lo + c / 2) (pmin (reg m)) (cell m) /\
  f_step fl = cell m /\ f_nodes fl = n m /\
  f_min fl = pmin (reg m) /\ f_max fl = pmax (reg m) /\
  f_meshunit fl = hd ""%string (units (reg m)) /\
  f_valuedim fl = Some (Z.of_nat (if extend && (of_nvdim f =? 1)%nat then 3%nat else of_nvdim f)) /\
  f_rep fl = rp /\
  f_check fl = (match rp with RTxt => None | _ => Some (check_value rp) end) /\
  f_tail_ok fl = true.
Proof. exact encode_header. Qed.
Print Assumptions C09_header.

(* the data block of every written file is x fastest (extend_scalar off, or on for a vector
   field, where it is ignored) *)
Theorem C09_written_layout : forall (V : Type) (d zero : V) (wr : repr -> V -> V)
    (f : ofield V) (rp : repr) (extend ss : bool) (fl : ovf_file V) (sc : option sidecar),
  extend && (of_nvdim f =? 1)%nat = false ->
  encode d zero wr f rp extend ss = OK (fl, sc) ->
  exists nx ny nz, dims3 (of_mesh f) = Some (nx, ny, nz) /\
    length (f_payload fl) = (nz * (ny * (nx * of_nvdim f)))%nat /\
    forall i j k c, (i < nx)%nat -> (j < ny)%nat -> (k < nz)%nat -> (c < of_nvdim f)%nat ->
      nth (opos nx ny (of_nvdim f) i j k c) (f_payload fl) (wr rp d)
      = wr rp (nth (cpos ny nz (of_nvdim f) i j k c) (of_vals f) d).
Proof. exact written_layout. Qed.
Print Assumptions C09_written_layout.

(* extend_scalar=True is ignored for every field that is not scalar, in every representation *)
Theorem C09_extend_ignored_for_vectors : forall (V : Type) (d zero : V) (wr : repr -> V -> V)
    (f : ofield V) (rp : repr) (ss : bool),
  of_nvdim f <> 1%nat -> encode d zero wr f rp true ss = encode d zero wr f rp false ss.
Proof. exact extend_ignored. Qed.
Print Assumptions C09_extend_ignored_for_vectors.

(* ---------------------------------------------------------------- reader (own and foreign files) *)
(* every accepted file (OVF 1.0 or 2.0, any representation): component count from the header
   (3 for OVF 1.0) and cell (i,j,k), component c, is entry ((k*ny+j)*nx+i)*vd+c of the block *)
Theorem C09_foreign : forall (V : Type) (d : V) (rd : repr -> V -> V)
    (fl : ovf_file V) (side : option sidecar) (f' : ofield V),
  decode d rd fl side = OK f' ->
  of_nvdim f' = file_vd fl /\
  exists nx ny nz, dims3 (of_mesh f') = Some (nx, ny, nz) /\
    length (of_vals f') = (nx * (ny * (nz * file_vd fl)))%nat /\
    forall i j k c, (i < nx)%nat -> (j < ny)%nat -> (k < nz)%nat -> (c < file_vd fl)%nat ->
      nth (cpos ny nz (file_vd fl) i j k c) (of_vals f') (rd (f_rep fl) d)
      = rd (f_rep fl) (nth (opos nx ny (file_vd fl) i j k c) (f_payload fl) d).
Proof. exact decode_layout. Qed.
Print Assumptions C09_foreign.

Theorem C09_foreign_ovf1 : forall (V : Type) (d : V) (rd : repr -> V -> V)
    (fl : ovf_file V) (side : option sidecar) (f' : ofield V),
  f_v2 fl = false -> decode d rd fl side = OK f' -> of_nvdim f' = 3%nat.
Proof. exact decode_ovf1. Qed.
Print Assumptions C09_foreign_ovf1.

(* ---------------------------------------------------------------- labels *)
(* labels without spaces come back unchanged: underscores and every other character included;
   the only further guard is "no braces" (the reader removes { and } from every label) *)
Theorem C09_labels_partial : forall l : list string,
  Forall label_ok l ->
  map convert_label (map field_label l) = l.
Proof. exact labels_roundtrip. Qed.
Print Assumptions C09_labels_partial.

Example C09_labels_partial_nonvacuous :
  Forall label_ok ["m_x"; "a-b"; "_c"; "d_"; "e.f"]%string.
Proof. repeat constructor. Qed.
Print Assumptions C09_labels_partial_nonvacuous.

(* missing part of the full statement: a label containing a brace loses it ({a} -> a) *)
Theorem C09_labels_braces_refuted : exists f', wit_roundtrip ["{a}"; "b"]%string RBin8 false = OK f' /\
  of_vdims f' = Some ["a"; "b"]%string.
Proof. exact wit_braces_refuted. Qed.
Print Assumptions C09_labels_braces_refuted.

(* labels with underscore / non-word characters and extend_scalar=True on a vector field:
   complete round trip of the witness field *)
Theorem C09_underscore_extend_witness : exists f', wit_roundtrip ["m_x"; "a-b"]%string RBin8 true = OK f' /\
  of_vdims f' = Some ["m_x"; "a-b"]%string /\ of_nvdim f' = 2%nat /\ of_vals f' = [1; 2; 3; 4].
Proof. exact wit_underscore_ok. Qed.
Print Assumptions C09_underscore_extend_witness.

(* the same witness field with clean labels and extend_scalar off does round-trip completely *)
Example C09_roundtrip_nonvacuous : exists f', wit_roundtrip ["a"; "b"]%string RBin8 false = OK f' /\
  of_vdims f' = Some ["a"; "b"]%string /\ of_unit f' = Some "A/m"%string /\ of_nvdim f' = 2%nat /\
  n (of_mesh f') = [2; 1; 1]%Z /\ of_vals f' = [1; 2; 3; 4].
Proof. exact wit_ok. Qed.
Print Assumptions C09_roundtrip_nonvacuous.

(* ---------------------------------------------------------------- mesh recovery *)
(* the reader rebuilds the mesh with Mesh(region, cell=stepsize): for the stepsize the writer
   stores (edge / n, C09_header) it accepts and returns exactly the original cell counts, for
   every region, every n, every non-negative tolerance factor *)
Theorem C09_mesh_reconstructed : forall (r : region) (k0 k1 k2 : Z) (x0 y0 z0 x1 y1 z1 : Q),
  pmin r = [x0; y0; z0] -> pmax r = [x1; y1; z1] ->
  x0 < x1 -> y0 < y1 -> z0 < z1 -> (0 < k0)%Z -> (0 < k1)%Z -> (0 < k2)%Z -> 0 <= tf r ->
  mesh_by_cell r [cell_of x0 x1 k0; cell_of y0 y1 k1; cell_of z0 z1 k2]
  = OK (mkMesh r [k0; k1; k2] "" []).
Proof. exact reconstruct3. Qed.
Print Assumptions C09_mesh_reconstructed.

Example C09_mesh_reconstructed_nonvacuous :
  mesh_by_cell (reg wit_mesh) [cell_of 0 2 2; cell_of 0 1 1; cell_of 0 1 1] = OK wit_mesh.
Proof. vm_compute. reflexivity. Qed.
Print Assumptions C09_mesh_reconstructed_nonvacuous.

(* ================================================================ the composed round trip *)
(* For every well-formed 3-d field (wf_ofield: what the Region/Mesh/Field constructors establish,
   equal mesh units, nvdim >= 1, unique labels without spaces and braces for vector fields, a unit
   that is none or a non-empty string other than 'None' without white space, values of the right
   size), every representation, extend_scalar on or off, side-car written and read:
   the writer succeeds, the reader accepts what was written, and the field read back has the same
   corners (Leibniz equal, hence ==), mesh units, cell counts, subregions (names and corners, through
   the side-car), component count (3 for extend_scalar on a scalar field), labels (vector fields),
   unit, and every value v comes back as rd (wr v) - wr/rd being the value maps of the representation:
   identity for bin8 (bit-identical for every element type), float32 rounding for bin4, decimal
   text for txt (bounded by the harness).  An extended scalar comes back as (v, 0, 0) per cell. *)
Theorem C09_roundtrip : forall (V : Type) (d zero : V) (wr rd : repr -> V -> V)
    (f : ofield V) (rp : repr) (extend : bool),
  wf_ofield f ->
  let ext := extend && (of_nvdim f =? 1)%nat in
  exists fl sc f',
    encode d zero wr f rp extend true = OK (fl, sc) /\
    decode d rd fl sc = OK f' /\
    pmin (reg (of_mesh f')) = pmin (reg (of_mesh f)) /\
    pmax (reg (of_mesh f')) = pmax (reg (of_mesh f)) /\
    units (reg (of_mesh f')) = units (reg (of_mesh f)) /\
    n (of_mesh f') = n (of_mesh f) /\
    sidecar_of (of_mesh f') = sidecar_of (of_mesh f) /\
    of_nvdim f' = (if ext then 3%nat else of_nvdim f) /\
    ((2 <= of_nvdim f)%nat -> of_vdims f' = of_vdims f) /\
    of_unit f' = of_unit f /\
    of_vals f' = map (fun v => rd rp (wr rp v))
                     (if ext then extend_vals zero (of_vals f) else of_vals f).
Proof. exact roundtrip. Qed.
Print Assumptions C09_roundtrip.

Example C09_roundtrip_wf_nonvacuous : wf_ofield (wit_field ["a"; "b"]%string).
Proof. exact wit_wf. Qed.
Print Assumptions C09_roundtrip_wf_nonvacuous.

(* the writer's check value is the one the reader expects (both tables are read from io/ovf.py on
   every run: a change of either breaks this proof) *)
Theorem C09_check_value_accepted : forall r : repr, write_check_value r == check_value r.
Proof. exact write_check_agrees. Qed.
Print Assumptions C09_check_value_accepted.

(* units: the guard of C09_roundtrip in isolation ... *)
Theorem C09_unit_partial : forall (u : option string) (k : nat), unit_ok u -> (1 <= k)%nat ->
  read_unit (Some (flat_map words (repeat (unit_token u) k))) = u.
Proof. exact unit_roundtrip. Qed.
Print Assumptions C09_unit_partial.

Example C09_unit_partial_nonvacuous : unit_ok (Some "kg*m^2:s"%string) /\ unit_ok None.
Proof. split; [repeat split; discriminate | exact I]. Qed.
Print Assumptions C09_unit_partial_nonvacuous.

(* ... and the known finding C09-unit-whitespace: 'A / m' on two components is read back as no unit *)
Theorem C09_unit_whitespace_refuted :
  read_unit (Some (flat_map words (repeat (unit_token (Some "A / m"%string)) 2))) = None.
Proof. exact unit_whitespace_lost. Qed.
Print Assumptions C09_unit_whitespace_refuted.

(* ================================================================ every cut of a binary file *)
(* a cut inside the check value *)
Theorem C09_faults_no_check : forall (V : Type) (d : V) (rd : repr -> V -> V)
    (fl : ovf_file V) (side : option sidecar),
  is_binary (f_rep fl) = true -> f_check fl = None -> is_ok (decode d rd fl side) = false.
Proof. exact no_check_rejected. Qed.
Print Assumptions C09_faults_no_check.

(* every cut inside the data block: any prefix shorter than announced, with any (remaining) check
   value and anything behind it, is rejected *)
Theorem C09_faults_every_cut : forall (V : Type) (d : V) (rd : repr -> V -> V)
    (fl : ovf_file V) (side : option sidecar) (k : nat) (chk : option Q) (tail : bool),
  is_binary (f_rep fl) = true -> (k < announced fl)%nat ->
  is_ok (decode d rd (damaged fl chk (firstn k (f_payload fl)) tail) side) = false.
Proof. exact every_cut_rejected. Qed.
Print Assumptions C09_faults_every_cut.

(* every cut behind the data block that leaves the end-of-data marker in place (flag true; only
   later trailer bytes are lost): the same field.  A cut before the marker clears the flag: C09_faults_tail *)
Theorem C09_faults_trailer_cut_same : forall (V : Type) (d : V) (rd : repr -> V -> V)
    (fl : ovf_file V) (side : option sidecar) (f' : ofield V) (k : nat),
  is_binary (f_rep fl) = true -> decode d rd fl side = OK f' -> (announced fl <= k)%nat ->
  decode d rd (damaged fl (f_check fl) (firstn k (f_payload fl)) true) side = OK f'.
Proof. exact cut_in_trailer_same. Qed.
Print Assumptions C09_faults_trailer_cut_same.

Example C09_faults_trailer_nonvacuous : exists fl sc f',
  encode 0 0 idQ (wit_field ["a"; "b"]%string) RBin8 false true = OK (fl, sc) /\
  decode 0 idQ fl sc = OK f' /\ is_binary (f_rep fl) = true /\ announced fl = 4%nat.
Proof. exact wit_file_decodes. Qed.
Print Assumptions C09_faults_trailer_nonvacuous.

(* ================================================================ the side-car on disk *)
(* saving over an existing side-car leaves the saved field's own table (possibly empty), never the
   old one; without save_subregions the disk is untouched; on a fresh name the writer's side-car is
   this contract with nothing before *)
Theorem C09_sidecar_overwritten : forall old sc : sidecar, sidecar_after (Some old) true sc = Some sc.
Proof. exact sidecar_overwritten. Qed.
Print Assumptions C09_sidecar_overwritten.

Theorem C09_sidecar_not_saved : forall (before : option sidecar) (sc : sidecar),
  sidecar_after before false sc = before.
Proof. exact sidecar_not_saved. Qed.
Print Assumptions C09_sidecar_not_saved.

Theorem C09_sidecar_fresh : forall (V : Type) (d zero : V) (wr : repr -> V -> V)
    (f : ofield V) (rp : repr) (extend ss : bool) (fl : ovf_file V) (sc : option sidecar),
  encode d zero wr f rp extend ss = OK (fl, sc) ->
  sc = sidecar_after None ss (sidecar_of (of_mesh f)).
Proof. exact encode_sidecar_fresh. Qed.
Print Assumptions C09_sidecar_fresh.

(* the empty table written over an old side-car reads exactly like no side-car: with
   C09_roundtrip, a field without subregions saved over an older save comes back without any *)
Theorem C09_empty_sidecar_reads_none : forall (V : Type) (d : V) (rd : repr -> V -> V) (fl : ovf_file V),
  decode d rd fl (Some []) = decode d rd fl None.
Proof. exact empty_sidecar_reads_none. Qed.
Print Assumptions C09_empty_sidecar_reads_none.

(* ================================================================ soundness of the checker *)
(* check_C09 is no longer only read: an accepted case certifies that the OBSERVED output agrees with
   the model's value on the recorded input (field_agrees / file_agrees / sidecar_agrees: Leibniz
   equality on strings, integers, flags, labels, units; == on rationals compared exactly; within
   1e-9 relative for text values and inexact header numbers) *)
Theorem C09_check_read_sound : forall fl side o,
  check_C09 (CRead fl side (Some o)) = true ->
  exists mf, decode 0 rdQ fl side = OK mf /\ field_agrees (f_rep fl) mf o.
Proof. exact check_read_sound. Qed.
Print Assumptions C09_check_read_sound.

Theorem C09_check_read_refused_sound : forall fl side,
  check_C09 (CRead fl side None) = true -> is_ok (decode 0 rdQ fl side) = false.
Proof. exact check_read_refused_sound. Qed.
Print Assumptions C09_check_read_refused_sound.

Theorem C09_check_read_refusal_observed : forall fl side obs,
  check_C09 (CRead fl side obs) = true -> is_ok (decode 0 rdQ fl side) = false -> obs = None.
Proof. exact check_read_refusal_observed. Qed.
Print Assumptions C09_check_read_refusal_observed.

Theorem C09_check_write_sound : forall exact f rp extend ofl os,
  check_C09 (CWrite exact f rp extend (Some (ofl, os))) = true ->
  exists fld mf ms, build f = OK fld /\ encode 0 0 wrQ fld rp extend true = OK (mf, ms) /\
    file_agrees exact mf ofl /\ opt_rel sidecar_agrees ms os.
Proof. exact check_write_sound. Qed.
Print Assumptions C09_check_write_sound.

Theorem C09_check_write_refused_sound : forall exact f rp extend,
  check_C09 (CWrite exact f rp extend None) = true ->
  exists fld, build f = OK fld /\ is_ok (encode 0 0 wrQ fld rp extend true) = false.
Proof. exact check_write_refused_sound. Qed.
Print Assumptions C09_check_write_refused_sound.

Theorem C09_check_round_sound : forall f rp extend o,
  check_C09 (CRound f rp extend (Some o)) = true ->
  exists fld fl sc mf, build f = OK fld /\ encode 0 0 wrQ fld rp extend true = OK (fl, sc) /\
    decode 0 rdQ fl sc = OK mf /\ field_agrees rp mf o.
Proof. exact check_round_sound. Qed.
Print Assumptions C09_check_round_sound.

Theorem C09_check_sidecar_sound : forall before ss sc obs,
  check_C09 (CSidecar before ss sc obs) = true ->
  opt_rel sidecar_agrees (sidecar_after before ss sc) obs.
Proof. exact check_sidecar_sound. Qed.
Print Assumptions C09_check_sidecar_sound.

(* a whole shard: no failing index means every case was accepted *)
Theorem C09_shard_verdict : forall cases k,
  failing k (map check_C09 cases) = [] -> forall c, In c cases -> check_C09 c = true.
Proof. exact (failing_nil_all check_C09). Qed.
Print Assumptions C09_shard_verdict.

(* the checker's own Region / Mesh / Field constructor calls establish wf_mesh, and with the guards of
   C09_roundtrip stated on the RECORDED input they establish wf_ofield *)
Theorem C09_build_wf_mesh : forall f fld,
  build f = OK fld -> (length (i_p1 f) <= 10)%nat -> wf_mesh (of_mesh fld).
Proof. exact build_wf_mesh. Qed.
Print Assumptions C09_build_wf_mesh.

Theorem C09_build_wf_ofield : forall f fld a b c,
  build f = OK fld ->
  length (i_p1 f) = 3%nat -> all_same (i_units f) = true -> (1 <= i_nv f)%nat ->
  ((2 <= i_nv f)%nat -> exists l, i_vdims f = Some l /\ l <> [] /\ Forall label_ok l) ->
  unit_ok (i_unit f) ->
  i_n f = [a; b; c] ->
  length (i_vals f) = (Z.to_nat a * (Z.to_nat b * (Z.to_nat c * i_nv f)))%nat ->
  wf_ofield fld.
Proof. exact build_wf_ofield. Qed.
Print Assumptions C09_build_wf_ofield.

(* ---------------------------------------------------------------- transfer: the theorems on the observation *)
(* C09_faults_short / _tail / _check about the implementation's own answer: the damaged binary file
   was REFUSED (no field came back) *)
Theorem C09_accepted_short_refused : forall fl side obs,
  check_C09 (CRead fl side obs) = true ->
  is_binary (f_rep fl) = true -> (length (f_payload fl) < announced fl)%nat -> obs = None.
Proof. exact accepted_short_refused. Qed.
Print Assumptions C09_accepted_short_refused.

Theorem C09_accepted_bad_tail_refused : forall fl side obs,
  check_C09 (CRead fl side obs) = true ->
  is_binary (f_rep fl) = true -> f_tail_ok fl = false -> obs = None.
Proof. exact accepted_bad_tail_refused. Qed.
Print Assumptions C09_accepted_bad_tail_refused.

Theorem C09_accepted_bad_check_refused : forall fl side obs,
  check_C09 (CRead fl side obs) = true ->
  is_binary (f_rep fl) = true ->
  (forall cv, f_check fl = Some cv -> ~ cv == check_value (f_rep fl)) -> obs = None.
Proof. exact accepted_bad_check_refused. Qed.
Print Assumptions C09_accepted_bad_check_refused.

(* C09_foreign about the observed field: component count from the header and "x fastest" *)
Theorem C09_accepted_read_layout : forall fl side o,
  check_C09 (CRead fl side (Some o)) = true -> is_binary (f_rep fl) = true ->
  o_nv o = file_vd fl /\
  exists a b c, o_n o = [a; b; c] /\
    let nx := Z.to_nat a in let ny := Z.to_nat b in let nz := Z.to_nat c in
    length (o_vals o) = (nx * (ny * (nz * file_vd fl)))%nat /\
    forall i j k cc, (i < nx)%nat -> (j < ny)%nat -> (k < nz)%nat -> (cc < file_vd fl)%nat ->
      nth (cpos ny nz (file_vd fl) i j k cc) (o_vals o) 0
      == nth (opos nx ny (file_vd fl) i j k cc) (f_payload fl) 0.
Proof. exact accepted_read_layout. Qed.
Print Assumptions C09_accepted_read_layout.

(* C09_header about the observed file (exact regime) *)
Theorem C09_accepted_write_header : forall f rp extend ofl os,
  check_C09 (CWrite true f rp extend (Some (ofl, os))) = true ->
  exists fld, build f = OK fld /\
    f_v2 ofl = true /\ f_nodes ofl = i_n f /\ f_rep ofl = rp /\ f_tail_ok ofl = true /\
    f_valuedim ofl = Some (Z.of_nat (if extend && (i_nv f =? 1)%nat then 3%nat else i_nv f)) /\
    Forall2 Qeq (pmin (reg (of_mesh fld))) (f_min ofl) /\
    Forall2 Qeq (pmax (reg (of_mesh fld))) (f_max ofl) /\
    Forall2 Qeq (cell (of_mesh fld)) (f_step ofl) /\
    opt_rel Qeq (match rp with RTxt => None | _ => Some (check_value rp) end) (f_check ofl).
Proof. exact accepted_write_header. Qed.
Print Assumptions C09_accepted_write_header.

(* C09_roundtrip about the field the implementation read back (bin8, no scalar extension): the
   recorded values themselves, cell counts, component count, unit, subregions, labels *)
Theorem C09_accepted_roundtrip_bin8 : forall f extend o fld,
  check_C09 (CRound f RBin8 extend (Some o)) = true ->
  build f = OK fld -> wf_ofield fld ->
  extend && (i_nv f =? 1)%nat = false ->
  Forall2 Qeq (i_vals f) (o_vals o) /\ o_n o = i_n f /\ o_nv o = i_nv f /\ o_unit o = i_unit f /\
  sidecar_agrees (i_subs f) (o_subs o) /\
  ((2 <= i_nv f)%nat -> o_vdims o = of_vdims fld).
Proof. exact accepted_roundtrip_bin8. Qed.
Print Assumptions C09_accepted_roundtrip_bin8.

(* C09_sidecar_overwritten / _not_saved about the side-car found on disk *)
Theorem C09_accepted_sidecar_overwritten : forall old sc obs,
  check_C09 (CSidecar (Some old) true sc obs) = true ->
  exists o, obs = Some o /\ sidecar_agrees sc o.
Proof. exact accepted_sidecar_overwritten. Qed.
Print Assumptions C09_accepted_sidecar_overwritten.

Theorem C09_accepted_sidecar_untouched : forall sc obs,
  check_C09 (CSidecar None false sc obs) = true -> obs = None.
Proof. exact accepted_sidecar_untouched. Qed.
Print Assumptions C09_accepted_sidecar_untouched.

(* non-vacuity: concrete accepted cases, and the recorded input of the first is well formed *)
Example C09_accepted_roundtrip_instance : check_C09 (CRound wit_in RBin8 false (Some wit_obs)) = true.
Proof. exact accepted_roundtrip_instance. Qed.
Print Assumptions C09_accepted_roundtrip_instance.

Example C09_accepted_roundtrip_instance_wf : exists fld, build wit_in = OK fld /\ wf_ofield fld.
Proof. exact accepted_roundtrip_instance_wf. Qed.
Print Assumptions C09_accepted_roundtrip_instance_wf.

Example C09_accepted_short_instance :
  let fl := mkFile true "m"%string [1#2; 1#2; 1#2] [2; 1; 1]%Z [1; 1; 1] [0; 0; 0] [2; 1; 1]
                   (Some 1%Z) (Some ["field_x"%string]) (Some ["None"%string]) RBin8
                   (Some (check_value RBin8)) [5] 1 true in
  check_C09 (CRead fl None None) = true /\ is_binary (f_rep fl) = true /\
  (length (f_payload fl) < announced fl)%nat.
Proof. exact accepted_short_instance. Qed.
Print Assumptions C09_accepted_short_instance.

Example C09_accepted_sidecar_instance :
  check_C09 (CSidecar (Some [("old"%string, ([0], [1]))]) true [] (Some [])) = true.
Proof. exact accepted_sidecar_instance. Qed.
Print Assumptions C09_accepted_sidecar_instance.
