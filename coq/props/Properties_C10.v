(* C10 — HDF5 files preserve the complete state of a field.
   ONLY statements, each closed by [exact] of a lemma proved in proofs/C10_hdf5.v, followed by
   Print Assumptions.  The payload type V is arbitrary (the writer and the reader never compute
   with values); [conv] is what Field.__init__ does to a non-float real payload of a LEGACY file
   (astype float64; the reader of the current layout passes the stored dtype and keeps the payload).  [fstate] is the complete state: region corners with their int/float tag,
   dims, units, tolerance factor, n, bc, subregions (ordered, with corners and attributes),
   nvdim, labels, unit, data kind, values, validity. *)
From DF Require Import Prelude Region Mesh Hdf5 C10_hdf5 CheckSound Check_C10 C10_sound.
Open Scope Q_scope.

(* read (write f) is f; the only difference collected in [canon] is a representation tag:
   subregion corners carry the dtype kind of the table (their values are untouched) *)
Theorem C10_roundtrip : forall (V : Type) (conv : V -> V) (f : fstate V),
  wf_field f -> f_unit f <> Some none_marker ->
  decode conv (NewFile (encode f)) = OK (canon f).
Proof. exact (@roundtrip). Qed.
Print Assumptions C10_roundtrip.

(* attribute by attribute: everything the property lists comes back identical, for every
   dimension count, component count, corner typing, payload kind (float, complex, integer of any
   size - the values are never touched) and with or without labels / unit *)
Theorem C10_roundtrip_state : forall (V : Type) (conv : V -> V) (f : fstate V),
  wf_field f -> f_unit f <> Some none_marker ->
  exists g, decode conv (NewFile (encode f)) = OK g /\
    f_ck g = f_ck f /\ f_mesh g = f_mesh f /\ f_nvdim g = f_nvdim f /\ f_vdims g = f_vdims f /\
    f_unit g = f_unit f /\ f_vals g = f_vals f /\ f_valid g = f_valid f /\ f_dk g = f_dk f.
Proof. exact (@roundtrip_state). Qed.
Print Assumptions C10_roundtrip_state.

Example C10_roundtrip_nonvacuous :
  wf_field w_rich /\ f_unit w_rich <> Some none_marker /\ f_ck w_rich = KInt /\
  f_subk w_rich = [KInt; KFloat] /\ f_dk w_rich = DComplex.
Proof. exact w_rich_nonvacuous. Qed.
Print Assumptions C10_roundtrip_nonvacuous.

(* what the reader returns is a fixed point: writing it again and reading gives it back exactly
   (no drift over generations of files), and it is again a well-formed field *)
Theorem C10_second_generation : forall (V : Type) (conv : V -> V) (f : fstate V),
  wf_field f -> f_unit f <> Some none_marker ->
  wf_field (canon f) /\
  decode conv (NewFile (encode (canon f))) = OK (canon f).
Proof. exact (fun V conv f W U => conj (canon_wf f W) (second_generation conv f W U)). Qed.
Print Assumptions C10_second_generation.

(* the file determines the state: different fields never share a file *)
Theorem C10_file_determines_state : forall (V : Type) (conv : V -> V) (f1 f2 : fstate V),
  wf_field f1 -> wf_field f2 -> f_unit f1 <> Some none_marker -> f_unit f2 <> Some none_marker ->
  encode f1 = encode f2 -> canon f1 = canon f2.
Proof. exact (@encode_injective). Qed.
Print Assumptions C10_file_determines_state.

(* the Boolean test the correspondence checker evaluates on every in-domain case implies the
   hypothesis of the theorems above: the fields the library builds lie inside their domain *)
Theorem C10_wf_test_sound : forall (V : Type) (f : fstate V), wf_fieldb f = true -> wf_field f.
Proof. exact (@wf_fieldb_sound). Qed.
Print Assumptions C10_wf_test_sound.

(* legacy files only: integers up to 2^53 in magnitude survive the float64 conversion of the
   legacy reader (the current layout keeps every payload exactly, see above) *)
Theorem C10_int_payload_exact : forall z : Z, (Z.abs z <= 2 ^ 53)%Z -> round_f64 z = z.
Proof. exact round_f64_exact. Qed.
Print Assumptions C10_int_payload_exact.

(* the subregion table holds every corner exactly, whatever mix of integer- and float-typed
   region and subregion corners: its dtype is the join over all of them *)
Theorem C10_table_exact : forall (V : Type) (f : fstate V),
  wf_field f -> subs (f_mesh f) <> [] ->
  h_subs (encode f) =
  Some (map fst (subs (f_mesh f)),
        (table_kind (f_ck f) (f_subk f),
         map (fun s => pmin (snd s) ++ pmax (snd s)) (subs (f_mesh f)))).
Proof. exact (@table_exact). Qed.
Print Assumptions C10_table_exact.

(* … whereas a table typed after the region corners alone would turn 0.5 into 0 *)
Theorem C10_region_typed_table_truncates : cast KInt (1 # 2) == 0 /\ ~ cast KInt (1 # 2) == (1 # 2).
Proof. exact region_typed_table_truncates. Qed.
Print Assumptions C10_region_typed_table_truncates.

(* files in the legacy layout are read: corners in any order, default names / units /
   tolerance, no boundary condition, default labels, no unit, everything valid, the payload
   as stored (integers widened), subregions from the json side-car when there is one *)
Theorem C10_legacy : forall (V : Type) (conv : V -> V) (l : h5legacy V),
  Forall2 (fun a b => ~ a == b) (l_p1 l) (l_p2 l) -> (0 < length (l_p1 l))%nat ->
  length (l_n l) = length (l_p1 l) -> Forall (fun k => 0 < k)%Z (l_n l) ->
  (1 <= l_dim l)%Z -> l_shape l = l_n l ++ [l_dim l] ->
  match l_side l with None => True | Some items => Forall (wf_side (length (l_p1 l))) items end ->
  let r := legacy_region (l_p1 l) (l_p2 l) in
  decode conv (LegacyFile l) =
  OK (mkF (kjoin (l_ck1 l) (l_ck2 l))
          (mkMesh r (l_n l) "" (legacy_subs r (l_side l)))
          (match l_side l with None => [] | Some items => map sd_ck items end)
          (l_dim l) (default_vdims (l_dim l)) None (conv_dk (l_dk l))
          (conv_vals conv (l_dk l) (l_arr l))
          (repeat true (Z.to_nat (zprod (l_n l))))).
Proof. exact (@legacy_read). Qed.
Print Assumptions C10_legacy.

(* the pmin/pmax keyword path of Region.__init__ rejects corners that are not strictly ordered *)
Theorem C10_reader_rejects_unordered : forall (lo hi : list Q) ds us t,
  length lo = length hi -> forallb2 Qltb lo hi = false -> mk_region_minmax lo hi ds us t = Err ValueE.
Proof. exact mk_region_minmax_unordered. Qed.
Print Assumptions C10_reader_rejects_unordered.

Theorem C10_reader_refuses_other_types : forall (V : Type) (conv : V -> V) (h : h5new V),
  h_type h <> file_type -> decode conv (NewFile h) = Err ValueE.
Proof. exact (@decode_refuses_type). Qed.
Print Assumptions C10_reader_refuses_other_types.

Theorem C10_reader_refuses_other_versions : forall (V : Type) (conv : V -> V) (h : h5new V),
  h_type h = file_type -> h_version h <> file_version -> decode conv (NewFile h) = Err RuntimeE.
Proof. exact (@decode_refuses_version). Qed.
Print Assumptions C10_reader_refuses_other_versions.

(* ---- the one guard of C10_roundtrip that is not a constructor invariant is necessary ---- *)
(* without "unit is not the text None": the marker written for a missing unit collides
   (known finding C10-unit-marker) *)
Theorem C10_roundtrip_unit_marker_refuted :
  exists f : fstate Z, wf_field f /\
    exists g, decode round_f64 (NewFile (encode f)) = OK g /\ f_unit g <> f_unit f.
Proof. exact marker_refuted. Qed.
Print Assumptions C10_roundtrip_unit_marker_refuted.

(* ---- the two former limits, repaired in the reader (66ed56c8, 8f3270c2), now instances ---- *)
(* an int64 payload 2^53 + 1, which float64 cannot hold, comes back exactly, as an integer *)
Theorem C10_roundtrip_int_beyond_2p53 :
  wf_field w_bigint /\ decode round_f64 (NewFile (encode w_bigint)) = OK w_bigint /\
  round_f64 (2 ^ 53 + 1) <> (2 ^ 53 + 1)%Z.
Proof. exact bigint_kept. Qed.
Print Assumptions C10_roundtrip_int_beyond_2p53.

(* a label-less 3-vector stays label-less *)
Theorem C10_roundtrip_absent_labels :
  wf_field w_nolabels /\ f_vdims w_nolabels = None /\ f_nvdim w_nolabels = 3%Z /\
  decode round_f64 (NewFile (encode w_nolabels)) = OK w_nolabels.
Proof. exact nolabels_kept. Qed.
Print Assumptions C10_roundtrip_absent_labels.

(* ---- the tie, proved: soundness of the correspondence checker.  A case of a shard that evaluates
   to true certifies the relations below between the OBSERVED file / read-back state and the
   model's.  The relations ([h5new_sim], [fstate_sim], [back_rel], proofs/C10_sound.v) are Leibniz
   equality on every attribute except: rationals are compared by value (Qeq); the int/float tag of
   SUBREGION corners (f_subk, the table's kind) is not compared; the data kind is compared only as
   real versus complex. *)
Theorem C10_check_round_sound : forall dom f file back,
  check_C10 (CRound dom f (Some file) back) = true ->
  h5new_sim (encode f) file /\ back_rel (decode cval_conv (NewFile file)) back.
Proof. exact check_round_sound. Qed.
Print Assumptions C10_check_round_sound.
Theorem C10_check_round_domain_sound : forall f file back,
  check_C10 (CRound true f (Some file) back) = true ->
  wf_field f /\ exists b, back = Some b /\ fstate_sim (canon f) b.
Proof. exact check_round_domain_sound. Qed.
Print Assumptions C10_check_round_domain_sound.
Theorem C10_check_round_nofile : forall dom f back, check_C10 (CRound dom f None back) = false.
Proof. exact check_round_nofile. Qed.
Print Assumptions C10_check_round_nofile.
Theorem C10_check_read_sound : forall file back,
  check_C10 (CRead file back) = true -> back_rel (decode cval_conv file) back.
Proof. exact check_read_sound. Qed.
Print Assumptions C10_check_read_sound.
(* a whole shard: no failing index means every case was accepted *)
Theorem C10_shard_verdict : forall cases k,
  failing k (map check_C10 cases) = [] -> forall c, In c cases -> check_C10 c = true.
Proof. exact (failing_nil_all check_C10). Qed.
Print Assumptions C10_shard_verdict.
(* both hypotheses of C10_roundtrip are ESTABLISHED by an accepted in-domain case (the in_domain
   flag set by the harness is not trusted for them): well-formedness by the evaluated test, and the
   unit guard because a marker unit would come back absent and differ from [canon f] *)
Theorem C10_accepted_in_domain : forall f file back,
  check_C10 (CRound true f (Some file) back) = true -> wf_field f /\ f_unit f <> Some none_marker.
Proof. exact accepted_in_domain. Qed.
Print Assumptions C10_accepted_in_domain.
(* transfer of C10_roundtrip / C10_roundtrip_state: the state the implementation read back is the
   model's read (write f), and attribute by attribute it is the field that was written *)
Theorem C10_accepted_roundtrip : forall f file back,
  check_C10 (CRound true f (Some file) back) = true ->
  exists b, back = Some b /\
    (exists g, decode cval_conv (NewFile (encode f)) = OK g /\ fstate_sim g b) /\
    f_ck b = f_ck f /\ mesh_sim (f_mesh f) (f_mesh b) /\ f_nvdim b = f_nvdim f /\
    f_vdims b = f_vdims f /\ f_unit b = f_unit f /\ f_vals b = f_vals f /\ f_valid b = f_valid f /\
    is_complex (f_dk b) = is_complex (f_dk f).
Proof. exact accepted_roundtrip. Qed.
Print Assumptions C10_accepted_roundtrip.
(* transfer of C10_second_generation: the observed read-back state is (related to) a well-formed
   fixed point of write-then-read *)
Theorem C10_accepted_second_generation : forall f file back,
  check_C10 (CRound true f (Some file) back) = true ->
  exists b, back = Some b /\ fstate_sim (canon f) b /\ wf_field (canon f) /\
    decode cval_conv (NewFile (encode (canon f))) = OK (canon f).
Proof. exact accepted_second_generation. Qed.
Print Assumptions C10_accepted_second_generation.
(* transfer of C10_table_exact: the subregion table of the OBSERVED file names the subregions in
   order and holds every corner exactly *)
Theorem C10_accepted_table_exact : forall f file back,
  check_C10 (CRound true f (Some file) back) = true -> subs (f_mesh f) <> [] ->
  exists names k rows, h_subs file = Some (names, (k, rows)) /\
    names = map fst (subs (f_mesh f)) /\
    Forall2 (Forall2 Qeq) (map (fun s => pmin (snd s) ++ pmax (snd s)) (subs (f_mesh f))) rows.
Proof. exact accepted_table_exact. Qed.
Print Assumptions C10_accepted_table_exact.
Theorem C10_accepted_file_header : forall dom f file back,
  check_C10 (CRound dom f (Some file) back) = true ->
  h_type file = file_type /\ h_version file = file_version /\
  h_shape file = n (f_mesh f) ++ [f_nvdim f] /\ h_arr file = f_vals f /\ h_valid file = f_valid f.
Proof. exact accepted_file_header. Qed.
Print Assumptions C10_accepted_file_header.
(* transfer of the refusal theorems: the implementation raised *)
Theorem C10_accepted_refused_type : forall h back,
  check_C10 (CRead (NewFile h) back) = true -> h_type h <> file_type -> back = None.
Proof. exact accepted_refused_type. Qed.
Print Assumptions C10_accepted_refused_type.
Theorem C10_accepted_refused_version : forall h back,
  check_C10 (CRead (NewFile h) back) = true -> h_type h = file_type -> h_version h <> file_version ->
  back = None.
Proof. exact accepted_refused_version. Qed.
Print Assumptions C10_accepted_refused_version.
(* transfer of C10_legacy: what the implementation read from a legacy file *)
Theorem C10_accepted_legacy : forall (l : h5legacy cval) back,
  check_C10 (CRead (LegacyFile l) back) = true ->
  Forall2 (fun a b => ~ a == b) (l_p1 l) (l_p2 l) -> (0 < length (l_p1 l))%nat ->
  length (l_n l) = length (l_p1 l) -> Forall (fun k => 0 < k)%Z (l_n l) ->
  (1 <= l_dim l)%Z -> l_shape l = l_n l ++ [l_dim l] ->
  match l_side l with None => True | Some items => Forall (wf_side (length (l_p1 l))) items end ->
  let r := legacy_region (l_p1 l) (l_p2 l) in
  exists b, back = Some b /\
    fstate_sim (mkF (kjoin (l_ck1 l) (l_ck2 l))
                    (mkMesh r (l_n l) "" (legacy_subs r (l_side l)))
                    (match l_side l with None => [] | Some items => map sd_ck items end)
                    (l_dim l) (default_vdims (l_dim l)) None (conv_dk (l_dk l))
                    (conv_vals cval_conv (l_dk l) (l_arr l))
                    (repeat true (Z.to_nat (zprod (l_n l))))) b.
Proof. exact accepted_legacy. Qed.
Print Assumptions C10_accepted_legacy.
(* non-vacuity: concrete accepted cases *)
Example C10_accepted_round_instance :
  check_C10 (CRound true (ex_field [KFloat] DFloat ex_vals) (Some (ex_file DFloat ex_vals))
                    (Some (ex_field [KFloat] DFloat ex_vals))) = true.
Proof. exact accepted_round_instance. Qed.
Print Assumptions C10_accepted_round_instance.
(* how coarse an accepted case is: the integer / floating kind of the payload (read back, and of
   the written dataset) and the int / float tag of subregion corners are NOT certified *)
Example C10_coarse_data_kind_instance :
  let f := ex_field [KFloat] DInt ex_ivals in
  let b := ex_field [KFloat] DFloat ex_ivals in
  check_C10 (CRound true f (Some (ex_file DInt ex_ivals)) (Some b)) = true /\
  f_dk b <> f_dk (canon f).
Proof. exact coarse_data_kind_instance. Qed.
Print Assumptions C10_coarse_data_kind_instance.
Example C10_coarse_subregion_kind_instance :
  let f := ex_field [KFloat] DFloat ex_vals in
  let b := ex_field [KInt] DFloat ex_vals in
  check_C10 (CRound true f (Some (ex_file DFloat ex_vals)) (Some b)) = true /\
  f_subk b <> f_subk (canon f).
Proof. exact coarse_subregion_kind_instance. Qed.
Print Assumptions C10_coarse_subregion_kind_instance.
