(* C10 — HDF5 files preserve the complete state of a field. *)
From DF Require Import Prelude Region Mesh Hdf5 C10_hdf5.
Open Scope Q_scope.

Theorem C10_int_payload_exact (z : Z) : (Z.abs z < 2 ^ 53)%Z -> round_f64 z = z.
Proof. exact (round_f64_small z). Qed.
Print Assumptions C10_int_payload_exact.
