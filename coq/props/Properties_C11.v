(* C11 — Field FFTs are the discrete Fourier transform at the k-mesh's frequencies.
   ONLY statements, each closed by [exact] of a lemma proved in proofs/, followed by
   Print Assumptions.  Bookkeeping (which bin / which frequency every array position and k-cell
   holds, meshes, names) is proved for the model of the code, for every size; the DFT itself
   (scipy's) is an abstract transform over any commutative ring with a root of unity w
   (hypotheses: w^n = 1 and sum_k w^(d k) = 0 for 0 < d < n). *)
From DF Require Import Prelude Constants_gen Region Mesh Fft C11_shift C11_kmesh C11_names C11_dft C11_dftn C11_arrange C11_shape C11_mesh C11_imesh C11_roundtrip Check_C11 CheckSound C11_sound.
From Coq Require Import ZArithRing.
Open Scope Q_scope.

(* ---------------------------------------------------------------- shifts *)
(* ifftshift undoes fftshift (and vice versa) for every size *)
Theorem C11_shift_inverse : forall n j : Z, (0 < n)%Z -> (0 <= j < n)%Z ->
  fftshift_src n (ifftshift_src n j) = j /\ ifftshift_src n (fftshift_src n j) = j.
Proof. exact (fun n j Hn Hj => conj (fftshift_ifftshift n j Hn Hj) (ifftshift_fftshift n j Hn Hj)). Qed.
Print Assumptions C11_shift_inverse.

(* they are not interchangeable for odd sizes (>= 3): applying fftshift twice, or fftshift in
   place of ifftshift, moves every entry; for even sizes they coincide *)
Theorem C11_shift_not_interchangeable : forall n j : Z, (3 <= n)%Z -> (n mod 2 = 1)%Z -> (0 <= j < n)%Z ->
  fftshift_src n (fftshift_src n j) <> j /\ fftshift_src n j <> ifftshift_src n j.
Proof. exact shifts_differ_odd. Qed.
Print Assumptions C11_shift_not_interchangeable.
Example C11_shift_not_interchangeable_nonvacuous : (3 <= 5)%Z /\ (5 mod 2 = 1)%Z /\ (0 <= 4 < 5)%Z.
Proof. exact (conj (Zle_bool_imp_le 3 5 eq_refl) (conj eq_refl (conj (Zle_bool_imp_le 0 4 eq_refl) eq_refl))). Qed.
Print Assumptions C11_shift_not_interchangeable_nonvacuous.

Theorem C11_shift_even_agree : forall n j : Z, (0 < n)%Z -> (n mod 2 = 0)%Z ->
  fftshift_src n j = ifftshift_src n j.
Proof. exact shifts_agree_even. Qed.
Print Assumptions C11_shift_even_agree.

(* ---------------------------------------------------------------- which bin a position holds *)
(* position j of a shifted axis holds the DFT bin (j - n//2) mod n, whose signed frequency
   index (numpy's fftfreq ordering) is j - n//2: bins run from -(n//2) to (n-1)//2 in order *)
Theorem C11_array_bin : forall n j : Z, (0 < n)%Z -> (0 <= j < n)%Z ->
  (0 <= src_axis false n j < n)%Z /\
  src_axis false n j = ((j - n / 2) mod n)%Z /\
  fftfreq_bin n (src_axis false n j) = (j - n / 2)%Z.
Proof.
  exact (fun n j Hn Hj => conj (fftshift_src_range n j Hn)
                               (conj (fftshift_src_is_bin_mod n j) (fftfreq_bin_shift n j Hn Hj))).
Qed.
Print Assumptions C11_array_bin.

(* ---------------------------------------------------------------- k-mesh centres *)
(* full transform (and every axis but the last of the real one), n >= 2: n cells, centre j is
   (j - n//2)/(n cell) = the fftfreq value of the bin that fftshift puts at position j *)
Theorem C11_kcentres : forall (n : Z) (c : Q) (j : Z), (2 <= n)%Z -> 0 < c -> (0 <= j < n)%Z ->
  thd3 (kaxis false n c) = n /\
  kcentre false n c j == inject_Z (j - n / 2) / (inject_Z n * c) /\
  kcentre false n c j == nth (Z.to_nat (fftshift_src n j)) (fftfreq n c) 0.
Proof. exact kcentres_full. Qed.
Print Assumptions C11_kcentres.
Example C11_kcentres_nonvacuous : (2 <= 5)%Z /\ 0 < (1 # 2) /\ (0 <= 3 < 5)%Z.
Proof. exact (conj (Zle_bool_imp_le 2 5 eq_refl) (conj eq_refl (conj (Zle_bool_imp_le 0 3 eq_refl) eq_refl))). Qed.
Print Assumptions C11_kcentres_nonvacuous.

(* last axis of the real transform: n//2+1 cells, centre j is j/(n cell) = rfftfreq[j]
   (the non-negative half, unshifted) *)
Theorem C11_kcentres_real : forall (n : Z) (c : Q) (j : Z), (2 <= n)%Z -> 0 < c -> (0 <= j <= n / 2)%Z ->
  thd3 (kaxis true n c) = (n / 2 + 1)%Z /\
  kcentre true n c j == inject_Z j / (inject_Z n * c) /\
  kcentre true n c j == nth (Z.to_nat j) (rfftfreq n c) 0.
Proof. exact kcentres_real. Qed.
Print Assumptions C11_kcentres_real.

(* single-cell axis: one k-cell of size 1/cell centred at the only DFT frequency, 0 *)
Theorem C11_kcentre_single_cell : forall (b : bool) (c : Q), 0 < c ->
  thd3 (kaxis b 1 c) = 1%Z /\ kcentre b 1 c 0 == 0 /\
  cell_of (fst3 (kaxis b 1 c)) (snd3 (kaxis b 1 c)) 1 == 1 / c.
Proof. exact kcentre_single. Qed.
Print Assumptions C11_kcentre_single_cell.

(* ---------------------------------------------------------------- inverse mesh *)
(* Mesh.ifftn after Mesh.fftn, per axis, given the original count (always known except for
   the last axis of the real transform): original count, original cell size, centred at 0 *)
Theorem C11_inverse_mesh_axis : forall (rl : bool) (n : Z) (c : Q), (1 <= n)%Z -> 0 < c ->
  let ka := kaxis rl n c in
  let ck := cell_of (fst3 ka) (snd3 ka) (thd3 ka) in
  exists lo hi, iaxis n ck = Some (lo, hi, n) /\ lo < hi /\ cell_of lo hi n == c /\
    lo - (1 # 2) * (lo + hi) == - (hi - (1 # 2) * (lo + hi)) /\
    (hi - (1 # 2) * (lo + hi)) - (lo - (1 # 2) * (lo + hi)) == inject_Z n * c.
Proof. exact axis_roundtrip. Qed.
Print Assumptions C11_inverse_mesh_axis.

(* ---------------------------------------------------------------- real half, zero bin *)
(* position t of the real transform's last axis holds the same bin as position
   ifftshift_src n t of the full, shifted transform *)
Theorem C11_real_half : forall n t : Z, (0 < n)%Z -> (0 <= t < n)%Z ->
  src_axis false n (ifftshift_src n t) = src_axis true n t.
Proof. exact real_half_position. Qed.
Print Assumptions C11_real_half.

(* the zero-frequency bin sits at position n//2 of a shifted axis and 0 of the real last axis ... *)
Theorem C11_zero_bin_position : forall n : Z, (0 < n)%Z ->
  src_axis false n (n / 2) = 0%Z /\ src_axis true n 0 = 0%Z.
Proof. exact zero_bin_position. Qed.
Print Assumptions C11_zero_bin_position.

(* ... and bin 0 of the DFT is the plain sum (any commutative ring, any w) *)
Theorem C11_zero_bin : forall (K : Type) (k0 k1 : K) (kadd kmul ksub : K -> K -> K) (kopp : K -> K),
  ring_theory k0 k1 kadd kmul ksub kopp eq ->
  forall (w : K) (n : nat) (x : nat -> K),
  dft k0 k1 kadd kmul w n x 0 = ksum k0 kadd n x.
Proof. exact dft_zero_bin. Qed.
Print Assumptions C11_zero_bin.

(* ---------------------------------------------------------------- linearity, per component *)
Theorem C11_linear : forall (K : Type) (k0 k1 : K) (kadd kmul ksub : K -> K -> K) (kopp : K -> K),
  ring_theory k0 k1 kadd kmul ksub kopp eq ->
  forall (w : K) (n : nat) (a b : K) (x y : nat -> K) (k : nat),
  dft k0 k1 kadd kmul w n (fun j => kadd (kmul a (x j)) (kmul b (y j))) k
  = kadd (kmul a (dft k0 k1 kadd kmul w n x k)) (kmul b (dft k0 k1 kadd kmul w n y k)).
Proof. exact dft_linear. Qed.
Print Assumptions C11_linear.

(* any number of axes (the transform iterated along the axes, one root per axis, any shape):
   linear, and the all-zero bin is the plain sum over all cells *)
Theorem C11_linear_nd : forall (K : Type) (k0 k1 : K) (kadd kmul ksub : K -> K -> K) (kopp : K -> K),
  ring_theory k0 k1 kadd kmul ksub kopp eq ->
  forall (ws : list K) (ns : list nat) (a b : K) (x y : list nat -> K) (k : list nat),
  dftn k0 k1 kadd kmul ws ns (fun i => kadd (kmul a (x i)) (kmul b (y i))) k
  = kadd (kmul a (dftn k0 k1 kadd kmul ws ns x k)) (kmul b (dftn k0 k1 kadd kmul ws ns y k)).
Proof. exact dftn_linear. Qed.
Print Assumptions C11_linear_nd.

Theorem C11_zero_bin_nd : forall (K : Type) (k0 k1 : K) (kadd kmul ksub : K -> K -> K) (kopp : K -> K),
  ring_theory k0 k1 kadd kmul ksub kopp eq ->
  forall (ws : list K) (ns : list nat) (x : list nat -> K), length ws = length ns ->
  dftn k0 k1 kadd kmul ws ns x (repeat 0%nat (length ns)) = ksumn k0 kadd ns x.
Proof. exact dftn_zero_bin. Qed.
Print Assumptions C11_zero_bin_nd.

(* the arrangement into the returned array is a re-indexing that commutes with every cell-wise
   map (component extraction, scaling): transforms act per component *)
Theorem C11_per_component : forall (V W : Type) (f : V -> W) (d : V) (real : bool) (ns : list Z) (bins : list V),
  arrange (f d) real ns (map f bins) = map f (arrange d real ns bins).
Proof. exact @arrange_map. Qed.
Print Assumptions C11_per_component.

(* ---------------------------------------------------------------- inversion of the DFT *)
(* sum_k X[k] w^(-r k) = n x[r] and DFT(sum_m X[m] w^(-r m))[k] = n X[k]: the inverse transform
   (1/n) sum_k X[k] w^(-r k) is a two-sided inverse wherever n is invertible *)
Theorem C11_inverse : forall (K : Type) (k0 k1 : K) (kadd kmul ksub : K -> K -> K) (kopp : K -> K),
  ring_theory k0 k1 kadd kmul ksub kopp eq ->
  forall (w : K) (n : nat), (1 <= n)%nat ->
  kpow k1 kmul w n = k1 ->
  (forall d, (0 < d < n)%nat -> ksum k0 kadd n (fun k => kpow k1 kmul w (d * k)) = k0) ->
  (forall (x : nat -> K) (r : nat), (r < n)%nat ->
     ksum k0 kadd n (fun k => kmul (dft k0 k1 kadd kmul w n x k) (kpow k1 kmul (winv k1 kmul w n) (r * k)))
     = kmul (x r) (ofnat k0 k1 kadd n)) /\
  (forall (X : nat -> K) (k : nat), (k < n)%nat ->
     dft k0 k1 kadd kmul w n (fun r => ksum k0 kadd n (fun m => kmul (X m) (kpow k1 kmul (winv k1 kmul w n) (r * m)))) k
     = kmul (X k) (ofnat k0 k1 kadd n)).
Proof.
  exact (fun K k0 k1 kadd kmul ksub kopp KR w n Hn Hroot Horth =>
           conj (dft_inverse K k0 k1 kadd kmul ksub kopp KR w n Hn Hroot Horth)
                (dft_inverse_r K k0 k1 kadd kmul ksub kopp KR w n Hn Hroot Horth)).
Qed.
Print Assumptions C11_inverse.
(* the hypotheses are satisfiable: Z with w = -1, n = 2 *)
Example C11_inverse_nonvacuous :
  (1 <= 2)%nat /\ kpow 1%Z Z.mul (-1)%Z 2 = 1%Z /\
  (forall d, (0 < d < 2)%nat -> ksum 0%Z Z.add 2 (fun k => kpow 1%Z Z.mul (-1)%Z (d * k)) = 0%Z).
Proof.
  exact (conj (le_S 1 1 (le_n 1)) (conj eq_refl
    (fun d H => match d as d' return (0 < d' < 2)%nat -> ksum 0%Z Z.add 2 (fun k => kpow 1%Z Z.mul (-1)%Z (d' * k)) = 0%Z with
                | 1%nat => fun _ => eq_refl
                | O => fun H' => match Nat.lt_irrefl 0 (proj1 H') with end
                | S (S m) => fun H' => match Nat.lt_irrefl 2 (Nat.le_lt_trans 2 (S (S m)) 2 (le_n_S 1 (S m) (le_n_S 0 m (Nat.le_0_l m))) (proj2 H')) with end
                end H))).
Qed.
Print Assumptions C11_inverse_nonvacuous.

(* bins n-k and k are transforms with w and w^-1: the half spectrum 0..n//2 determines the rest
   for data fixed by conjugation (the real transform) *)
Theorem C11_mirror : forall (K : Type) (k0 k1 : K) (kadd kmul ksub : K -> K -> K) (kopp : K -> K),
  ring_theory k0 k1 kadd kmul ksub kopp eq ->
  forall (w : K) (n : nat), (1 <= n)%nat -> kpow k1 kmul w n = k1 ->
  forall (x : nat -> K) (k : nat), (0 < k <= n)%nat ->
  dft k0 k1 kadd kmul w n x (n - k) = ksum k0 kadd n (fun j => kmul (x j) (kpow k1 kmul (winv k1 kmul w n) (j * k))).
Proof. exact dft_mirror. Qed.
Print Assumptions C11_mirror.

(* ---------------------------------------------------------------- n-d inversion of the DFT *)
(* any number of axes, any shape, one root per axis: ifftn o fftn = N id and fftn o ifftn = N id
   (N = product of the axis lengths) *)
Theorem C11_inverse_nd : forall (K : Type) (k0 k1 : K) (kadd kmul ksub : K -> K -> K) (kopp : K -> K),
  ring_theory k0 k1 kadd kmul ksub kopp eq ->
  forall (ws : list K) (ns r : list nat), roots k0 k1 kadd kmul ws ns r ->
  (forall x : list nat -> K,
     dftn k0 k1 kadd kmul (winvs k1 kmul ws ns) ns (fun k => dftn k0 k1 kadd kmul ws ns x k) r
     = kmul (x r) (prodn k0 k1 kadd kmul ns)) /\
  (forall X : list nat -> K,
     dftn k0 k1 kadd kmul ws ns (fun k => dftn k0 k1 kadd kmul (winvs k1 kmul ws ns) ns X k) r
     = kmul (X r) (prodn k0 k1 kadd kmul ns)).
Proof.
  exact (fun K k0 k1 kadd kmul ksub kopp KR ws ns r H =>
           conj (fun x => dftn_inverse K k0 k1 kadd kmul ksub kopp KR ws ns r x H)
                (fun X => dftn_inverse_r K k0 k1 kadd kmul ksub kopp KR ws ns r X H)).
Qed.
Print Assumptions C11_inverse_nd.
Example C11_inverse_nd_nonvacuous : roots 0%Z 1%Z Z.add Z.mul [(-1)%Z; (-1)%Z] [2%nat; 2%nat] [1%nat; 0%nat].
Proof. exact roots_nonvacuous. Qed.
Print Assumptions C11_inverse_nd_nonvacuous.

(* ---------------------------------------------------------------- arrays: inverse o forward *)
(* the shifts of the inverse transforms undo those of the forward ones on every axis (all axes,
   resp. axes[:-1] for the real kind), for every shape incl. odd sizes: un-arranging the array of
   fftn / rfftn gives back the natural-order (half) spectrum *)
Theorem C11_shifts_cancel_nd : forall (V : Type) (d : V) (real : bool) (ns : list Z) (bins : list V),
  Forall (fun k => (1 <= k)%Z) ns ->
  unarrange d real (kshape real ns) (arrange d real ns bins) = half_spectrum d real ns bins.
Proof. exact @unarrange_arrange. Qed.
Print Assumptions C11_shifts_cancel_nd.

(* with scipy's transforms as parameters (F forward, Gc / Gr its complex / real inverse):
   Field.ifftn (Field.fftn x) = x, and Field.irfftn (Field.rfftn x, shape = original counts) = x
   for every last-axis size, odd ones included *)
Theorem C11_inverse_field : forall (V : Type) (d : V) (F Gc Gr : list Z -> list V -> list V) (isreal : list V -> Prop),
  (forall ns x, length x = Z.to_nat (zprod ns) -> length (F ns x) = Z.to_nat (zprod ns)) ->
  (forall ns x, length x = Z.to_nat (zprod ns) -> Gc ns (F ns x) = x) ->
  (forall ns x, length x = Z.to_nat (zprod ns) -> isreal x -> Gr ns (half_spectrum d true ns (F ns x)) = x) ->
  forall (ns : list Z) (x : list V), Forall (fun k => (1 <= k)%Z) ns -> length x = Z.to_nat (zprod ns) ->
  field_ifftn Gc d (kshape false ns) (field_fftn F d false ns x) = x /\
  (isreal x -> field_irfftn Gr d ns (kshape true ns) (field_fftn F d true ns x) = x).
Proof.
  exact (fun V d F Gc Gr isreal HF HGc HGr ns x Hp Hl =>
           conj (ifftn_fftn V d F Gc HF HGc ns x Hp Hl)
                (irfftn_rfftn V d F Gr isreal HGr ns x Hp Hl)).
Qed.
Print Assumptions C11_inverse_field.
Example C11_inverse_field_nonvacuous :
  let F := fun (_ : list Z) (x : list unit) => x in
  let Gc := fun (_ : list Z) (y : list unit) => y in
  let Gr := fun (ns : list Z) (_ : list unit) => repeat tt (Z.to_nat (zprod ns)) in
  (forall ns x, length x = Z.to_nat (zprod ns) -> length (F ns x) = Z.to_nat (zprod ns)) /\
  (forall ns x, length x = Z.to_nat (zprod ns) -> Gc ns (F ns x) = x) /\
  (forall ns x, length x = Z.to_nat (zprod ns) -> True -> Gr ns (half_spectrum tt true ns (F ns x)) = x).
Proof. exact field_hyps_nonvacuous. Qed.
Print Assumptions C11_inverse_field_nonvacuous.

(* ---------------------------------------------------------------- real half, n-d *)
(* the real transform's array is the non-negative-frequency half of the full one along the last
   axis: position t holds what fftn's array holds at t with its last entry moved to
   ifftshift_src n t (frequency t mod n); all other axes are shifted alike *)
Theorem C11_real_half_nd : forall (V : Type) (d : V) (ns : list Z) (bins : list V),
  Forall (fun k => (1 <= k)%Z) ns ->
  arrange d true ns bins =
  map (fun t => nth (Z.to_nat (ravel_c ns (to_full ns t))) (arrange d false ns bins) d)
      (indices_c (kshape true ns)).
Proof. exact @real_half_nd. Qed.
Print Assumptions C11_real_half_nd.

(* ---------------------------------------------------------------- Mesh.fftn, all axes *)
(* on every well-formed mesh Mesh.fftn succeeds; counts = n (last: n//2+1 for the real kind),
   reciprocal names and units, and along every axis the k-region is exactly the k-axis
   [kaxis (rfft && last) n cell] whose cell centres C11_kcentres / _real / _single_cell locate
   (p1 < p2 on every axis, so min/max leave them in place) *)
Theorem C11_mesh_fftn : forall (m : mesh) (rfft : bool), wf_mesh m ->
  let ax := axes rfft (last_flags (length (n m))) (n m) (cell m) in
  exists km, mesh_fftn m rfft = OK km /\
    n km = kshape rfft (n m) /\
    dims (reg km) = map kdim (dims (reg m)) /\ units (reg km) = map kunit (units (reg m)) /\
    pmin (reg km) = map2 Qmin (map fst3 ax) (map snd3 ax) /\
    pmax (reg km) = map2 Qmax (map fst3 ax) (map snd3 ax) /\
    Forall2 Qlt (map fst3 ax) (map snd3 ax) /\ length ax = length (n m) /\ tf (reg km) = tf (reg m).
Proof. exact mesh_fftn_ok. Qed.
Print Assumptions C11_mesh_fftn.
Example C11_mesh_fftn_nonvacuous :
  wf_mesh (mkMesh (mkRegion [0; 0] [4; 3] ["x"%string; "y"%string] ["m"%string; "m"%string] (1 # 1000)) [4%Z; 3%Z] "" []).
Proof. exact wf_mesh_nonvacuous. Qed.
Print Assumptions C11_mesh_fftn_nonvacuous.

(* ---------------------------------------------------------------- Mesh.ifftn, all axes *)
(* on every well-formed mesh with an accepted shape s (entries >= 1) whose names stay distinct
   after stripping "k_", Mesh.ifftn succeeds: counts = s, stripped names/units, and every axis
   (after min/max ordering and recentring, [fin]) is symmetric about the origin with extent
   1/kcell, i.e. cell = 1/(s * kcell) *)
Theorem C11_mesh_ifftn : forall (k : mesh) (rfft : bool) (sh : shape_arg) (s : list Z), wf_mesh k ->
  ifft_shape (n k) rfft sh = OK s -> length s = length (n k) -> Forall (fun j => (1 <= j)%Z) s ->
  NoDup (map unkdim (dims (reg k))) ->
  exists m' axl, mesh_ifftn k rfft sh = OK m' /\
    n m' = s /\
    dims (reg m') = map unkdim (dims (reg k)) /\ units (reg m') = map unkunit (units (reg k)) /\
    pmin (reg m') = map (fun a => fst (fin a)) axl /\ pmax (reg m') = map (fun a => snd (fin a)) axl /\
    Forall2 (fun a p => thd3 a = fst p /\ fst (fin a) == - snd (fin a) /\
                        snd (fin a) - fst (fin a) == 1 / snd p) axl (combine s (cell k)).
Proof. exact mesh_ifftn_ok. Qed.
Print Assumptions C11_mesh_ifftn.
Example C11_mesh_ifftn_nonvacuous :
  let k := mkMesh (mkRegion [0; 0] [4; 3] ["k_x"%string; "k_y"%string] ["m"%string; "m"%string] (1 # 1000)) [4%Z; 2%Z] "" [] in
  wf_mesh k /\ ifft_shape (n k) true (ShList [4; 3]%Z) = OK [4; 3]%Z /\ length [4; 3]%Z = length (n k) /\
  Forall (fun j => (1 <= j)%Z) [4; 3]%Z /\ NoDup (map unkdim (dims (reg k))).
Proof. exact mesh_ifftn_hyps_nonvacuous. Qed.
Print Assumptions C11_mesh_ifftn_nonvacuous.

(* Mesh.ifftn (Mesh.fftn m), all axes, every well-formed mesh, both kinds (the real kind given
   the original counts, odd sizes included): both calls succeed; original counts, dimension
   names and units; every axis centred at the origin with extent 1/kcell (= n * cell by
   C11_inverse_mesh_axis) *)
Theorem C11_mesh_roundtrip : forall (m : mesh) (rfft : bool), wf_mesh m ->
  exists km m' axl, mesh_fftn m rfft = OK km /\
    mesh_ifftn km rfft (if rfft then ShList (n m) else ShNone) = OK m' /\
    n m' = n m /\ dims (reg m') = dims (reg m) /\ units (reg m') = units (reg m) /\
    pmin (reg m') = map (fun a => fst (fin a)) axl /\ pmax (reg m') = map (fun a => snd (fin a)) axl /\
    Forall2 (fun a p => thd3 a = fst p /\ fst (fin a) == - snd (fin a) /\
                        snd (fin a) - fst (fin a) == 1 / snd p) axl (combine (n m) (cell km)).
Proof. exact mesh_roundtrip. Qed.
Print Assumptions C11_mesh_roundtrip.

(* ---------------------------------------------------------------- shape validation *)
(* an explicit shape is accepted iff it has the mesh's length, equals the counts on all axes but
   the last, and shape[-1]//2 + 1 = n[-1]; it is then used unchanged *)
Theorem C11_ifft_shape : forall (ns : list Z) (rfft : bool) (s : list Z),
  (ifft_shape ns rfft (ShList s) = OK s <->
   length s = length ns /\ removelast s = removelast ns /\ (zlast s / 2 + 1 = zlast ns)%Z) /\
  (is_ok (ifft_shape ns rfft (ShList s)) = true -> ifft_shape ns rfft (ShList s) = OK s).
Proof. exact ifft_shape_accepts. Qed.
Print Assumptions C11_ifft_shape.

(* the original counts always pass for the k-mesh of the real transform (odd sizes too) and are
   the default when the last count is even or 1 *)
Theorem C11_ifft_shape_original : forall ns : list Z, ns <> [] ->
  ifft_shape (kshape true ns) true (ShList ns) = OK ns /\
  (((zlast ns mod 2 = 0)%Z \/ zlast ns = 1%Z) -> (1 <= zlast ns)%Z ->
   ifft_shape (kshape true ns) true ShNone = OK ns).
Proof. exact ifft_shape_original. Qed.
Print Assumptions C11_ifft_shape_original.
Example C11_ifft_shape_original_nonvacuous : [4%Z; 5%Z] <> [] /\ ((zlast [4; 6] mod 2 = 0)%Z /\ (1 <= zlast [4; 6])%Z).
Proof. exact shape_original_nonvacuous. Qed.
Print Assumptions C11_ifft_shape_original_nonvacuous.

(* ---------------------------------------------------------------- names *)
(* reciprocal dimension names, units and component labels are undone by the inverse transforms *)
Theorem C11_names : forall ds us vs : list string,
  map unkdim (map kdim ds) = ds /\ map unkunit (map kunit us) = us /\
  map unft_label (map ft_label vs) = vs.
Proof. exact names_roundtrip. Qed.
Print Assumptions C11_names.

(* labels and the label -> axis mapping are renamed consistently (ft_ / k_) and come back *)
Theorem C11_rename_roundtrip : forall (vs : list string) (mp : list (string * string)),
  rename false (Some vs) mp =
    (Some (map ft_label vs),
     flat_map (fun v => match assoc v mp with Some d => [(ft_label v, kdim d)] | None => [] end) vs) /\
  (let r := rename false (Some vs) mp in
   rename true (fst r) (snd r) =
   (Some vs, flat_map (fun v => match assoc v mp with Some d => [(v, d)] | None => [] end) vs)).
Proof. exact (fun vs mp => conj (rename_forward vs mp) (rename_roundtrip vs mp)). Qed.
Print Assumptions C11_rename_roundtrip.

(* ---- the tie, proved for the exact comparisons: an accepted shard case certifies that the OBSERVED
   labels / mapping (resp. counts, dimension names and units of the observed k-mesh) are the model's *)
Theorem C11_check_names_sound : forall inverse vd mp v' m',
  check_C11 (CNames inverse vd mp (Some (v', m'))) = true ->
  rename_checked inverse vd mp = OK (v', m').
Proof. exact check_names_sound. Qed.
Print Assumptions C11_check_names_sound.
Theorem C11_check_names_reject_sound : forall inverse vd mp,
  check_C11 (CNames inverse vd mp None) = true -> exists e, rename_checked inverse vd mp = Err e.
Proof. exact check_names_reject_sound. Qed.
Print Assumptions C11_check_names_reject_sound.
Theorem C11_check_kmesh_sound : forall p1 p2 n_ ds us rfft lo hi k ds' us',
  check_C11 (CMeshF p1 p2 n_ ds us rfft (Some (lo, hi, k, ds', us'))) = true ->
  exists m km, build p1 p2 n_ ds us = OK m /\ mesh_fftn m rfft = OK km /\
    n km = k /\ dims (reg km) = ds' /\ units (reg km) = us'.
Proof. exact check_meshf_sound. Qed.
Print Assumptions C11_check_kmesh_sound.
Theorem C11_check_spectrum_sound : forall real n_ bins arr,
  check_C11 (CArr real n_ bins arr) = true ->
  Z.of_nat (length bins) = zprod n_ /\
  Forall2 (Forall2 (cplx_near (rel_tol * l1 bins))) (arrange [] real n_ bins) arr /\
  Forall2 (Forall2 (cplx_near (rel_tol * l1 bins)))
          (unarrange [] real (kshape real n_) arr) (half_spectrum [] real n_ bins).
Proof. exact check_arr_sound. Qed.
Print Assumptions C11_check_spectrum_sound.
Theorem C11_shard_verdict : forall cases k,
  failing k (map check_C11 cases) = [] -> forall c, In c cases -> check_C11 c = true.
Proof. exact (failing_nil_all check_C11). Qed.
Print Assumptions C11_shard_verdict.
(* transfer of C11_mesh_fftn: the checker's own constructor call establishes wf_mesh, and the OBSERVED
   k-mesh has the counts kshape (real half on the last axis), the reciprocal dimension names and units *)
Theorem C11_accepted_kmesh : forall p1 p2 n_ ds us rfft lo hi k ds' us',
  check_C11 (CMeshF p1 p2 n_ ds us rfft (Some (lo, hi, k, ds', us'))) = true ->
  exists m, Check_C11.build p1 p2 n_ ds us = OK m /\ wf_mesh m /\
    k = kshape rfft (n m) /\
    ds' = map kdim (dims (reg m)) /\
    us' = map kunit (units (reg m)).
Proof. exact accepted_kmesh. Qed.
Print Assumptions C11_accepted_kmesh.
