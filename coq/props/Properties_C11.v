(* C11 — Field FFTs are the discrete Fourier transform at the k-mesh's frequencies.
   ONLY statements, each closed by [exact] of a lemma proved in proofs/, followed by
   Print Assumptions. *)
From DF Require Import Prelude Constants_gen Region Mesh Fft C11_shift.

(* ifftshift undoes fftshift (and vice versa) for every size *)
Theorem C11_shift_inverse : forall n j : Z, (0 < n)%Z -> (0 <= j < n)%Z ->
  fftshift_src n (ifftshift_src n j) = j /\ ifftshift_src n (fftshift_src n j) = j.
Proof. exact (fun n j Hn Hj => conj (fftshift_ifftshift n j Hn Hj) (ifftshift_fftshift n j Hn Hj)). Qed.
Print Assumptions C11_shift_inverse.
