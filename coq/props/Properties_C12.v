(* C12 - quarter-turn rotations: theorem statements only (proofs in proofs/C12_*.v). *)
From DF Require Import Prelude FieldK NDArray Region Mesh Rotate90 C12_rot.
Open Scope Q_scope.

Theorem C12_turn_mod4 : forall k : Z, zturn (k mod 4) = zturn k.
Proof. exact zturn_mod4. Qed.
Print Assumptions C12_turn_mod4.
