(* C12 - quarter-turn rotations move values, vectors, validity and geometry together.
   Statements only; proofs in proofs/C12_rot.v, C12_cov.v, C12_field.v, C12_inplace.v. *)
From Coq Require Import Qcanon.
From DF Require Import Prelude Constants_gen FieldK NDArray Region Mesh Rotate90 C12_rot C12_cov C12_field C12_inplace C12_compose C12_compose2 C12_link C12_examples C12_bc ListLemmas CheckSound Check_C12 C12_sound.
Open Scope Q_scope.

(* --- covariance, geometry: for every cell i of a well-formed mesh, the centre of cell
   rot_index i of the rotated mesh is R + Q (centre i - R), coordinate by coordinate (any
   dimension, any axis pair, any integer k, any reference point, both forms).  Pins numpy's
   rot90 orientation (rot_index, see C12_covariance_cells) against the corner rotation. *)
Theorem C12_covariance_geometry :
  forall ip m a b k ref m' R i1 i2 (sh : list nat) (i : idx) j,
  wf_mesh m -> n m = map Z.of_nat sh ->
  mesh_rotate90 ip m a b k ref = OK m' ->
  rot_reference (reg m) ref = OK R -> dim2index (reg m) a = OK i1 -> dim2index (reg m) b = OK i2 ->
  length i = length sh -> (forall j, (j < length sh)%nat -> (nth j i 0 < nth j sh 0)%nat) ->
  (j < length sh)%nat ->
  centre_coord m' (map Z.of_nat (rot_index sh i1 i2 k i)) j ==
  nth j (rot_pt (fst (qturn k)) (snd (qturn k)) i1 i2 R (centre m (map Z.of_nat i))) 0.
Proof. exact centre_covariant. Qed.
Print Assumptions C12_covariance_geometry.

(* --- covariance, cells: numpy.rot90 (flip/transpose composition) puts the entry of source
   index i at target index rot_index i; the target index is in range of the rotated shape *)
Theorem C12_covariance_cells :
  forall (V : Type) (sh : list nat) (a b : nat) (k : Z) (f : idx -> V) (i : idx),
  a <> b -> (a < length i)%nat -> (b < length i)%nat -> length sh = length i ->
  (nth a i 0 < nth a sh 0)%nat -> (nth b i 0 < nth b sh 0)%nat ->
  rot90 sh a b k f (rot_index sh a b k i) = f i.
Proof. exact @rot90_at. Qed.
Print Assumptions C12_covariance_cells.

Theorem C12_target_in_range :
  forall sh a b k i j,
  a <> b -> (a < length i)%nat -> (b < length i)%nat -> length sh = length i ->
  (forall j, (j < length i)%nat -> (nth j i 0 < nth j sh 0)%nat) -> (j < length i)%nat ->
  (nth j (rot_index sh a b k i) 0 < nth j (rot90_shape sh a b k) 0)%nat.
Proof. exact rot_index_inrange. Qed.
Print Assumptions C12_target_in_range.

(* --- validity moves with the cells *)
Theorem C12_covariance_validity :
  forall K ip (f : field K) a b k ref g i1 i2 (i : idx),
  wf_mesh (fmesh f) -> field_rotate90 K ip f a b k ref = OK g ->
  dim2index (reg (fmesh f)) a = OK i1 -> dim2index (reg (fmesh f)) b = OK i2 ->
  length i = length (fshape f) -> (forall j, (j < length i)%nat -> (nth j i 0 < nth j (fshape f) 0)%nat) ->
  fvalid g (rot_index (fshape f) i1 i2 k i) = fvalid f i.
Proof. exact validity_covariant. Qed.
Print Assumptions C12_covariance_validity.

(* --- values: what Field.rotate90 stores (for every field of values K) *)
Theorem C12_field_structure :
  forall K ip (f : field K) a b k ref g,
  field_rotate90 K ip f a b k ref = OK g ->
  exists m' i1 i2, mesh_rotate90 ip (fmesh f) a b k ref = OK m' /\
    dim2index (reg (fmesh f)) a = OK i1 /\ dim2index (reg (fmesh f)) b = OK i2 /\
    fmesh g = m' /\ nvdim g = nvdim f /\ vdims g = vdims f /\ vmap g = vmap f /\
    fvalid g = rot90 (fshape f) i1 i2 k (fvalid f) /\
    ((nvdim f <= 1)%nat -> fval g = rot90 (fshape f ++ [nvdim f]) i1 i2 k (fval f)) /\
    ((1 < nvdim f)%nat -> exists v1 v2,
        comp_of (vdims f) (vmap f) a = OK v1 /\ comp_of (vdims f) (vmap f) b = OK v2 /\
        fval g = rot_comp K (fst (kturn K k)) (snd (kturn K k)) v1 v2
                   (rot90 (fshape f ++ [nvdim f]) i1 i2 k (fval f))).
Proof. exact field_rotate90_inv. Qed.
Print Assumptions C12_field_structure.

(* the two mapped components get the quarter turn ... *)
Theorem C12_components_rotated_first :
  forall (K : FOps) (c s : K) v1 v2 (f : idx -> K) base, v1 <> v2 ->
  rot_comp K c s v1 v2 f (base ++ [v1]) = fsub (fmul c (f (base ++ [v1]))) (fmul s (f (base ++ [v2]))).
Proof. exact rot_comp_first. Qed.
Print Assumptions C12_components_rotated_first.

Theorem C12_components_rotated_second :
  forall (K : FOps) (c s : K) v1 v2 (f : idx -> K) base,
  rot_comp K c s v1 v2 f (base ++ [v2]) = fadd (fmul s (f (base ++ [v1]))) (fmul c (f (base ++ [v2]))).
Proof. exact rot_comp_second. Qed.
Print Assumptions C12_components_rotated_second.

(* ... scalars and unmapped components are unchanged *)
Theorem C12_unmapped_components_unchanged :
  forall (K : FOps) (c s : K) v1 v2 (f : idx -> K) base comp,
  comp <> v1 -> comp <> v2 -> rot_comp K c s v1 v2 f (base ++ [comp]) = f (base ++ [comp]).
Proof. exact rot_comp_other. Qed.
Print Assumptions C12_unmapped_components_unchanged.

(* --- metadata: n and units swapped iff k odd; dims, component names and mapping kept *)
Theorem C12_metadata :
  forall K ip (f : field K) a b k ref g i1 i2,
  field_rotate90 K ip f a b k ref = OK g ->
  dim2index (reg (fmesh f)) a = OK i1 -> dim2index (reg (fmesh f)) b = OK i2 ->
  n (fmesh g) = (if Z.odd k then swap_nth 0%Z i1 i2 (n (fmesh f)) else n (fmesh f)) /\
  units (reg (fmesh g)) = (if Z.odd k then swap_nth ""%string i1 i2 (units (reg (fmesh f))) else units (reg (fmesh f))) /\
  dims (reg (fmesh g)) = dims (reg (fmesh f)) /\
  nvdim g = nvdim f /\ vdims g = vdims f /\ vmap g = vmap f.
Proof. exact rotate90_metadata. Qed.
Print Assumptions C12_metadata.

(* --- rotation by k and by k mod 4 agree, at every level, in both forms *)
Theorem C12_mod4_region : forall ip r a b k ref,
  region_rotate90 ip r a b (k mod 4) ref = region_rotate90 ip r a b k ref.
Proof. exact region_rotate90_mod4. Qed.
Print Assumptions C12_mod4_region.

Theorem C12_mod4_mesh : forall ip m a b k ref,
  mesh_rotate90 ip m a b (k mod 4) ref = mesh_rotate90 ip m a b k ref.
Proof. exact mesh_rotate90_mod4. Qed.
Print Assumptions C12_mod4_mesh.

Theorem C12_mod4_field : forall K ip (f : field K) a b k ref,
  field_rotate90 K ip f a b (k mod 4) ref = field_rotate90 K ip f a b k ref.
Proof. exact field_rotate90_mod4. Qed.
Print Assumptions C12_mod4_field.

(* --- the three levels rotate consistently: the field's mesh is the rotated mesh, whose region
   is the rotated region (same axes, k, reference, form) *)
Theorem C12_consistent_mesh_region : forall ip m a b k ref m',
  mesh_rotate90 ip m a b k ref = OK m' ->
  exists r' i1 i2, region_rotate90 ip (reg m) a b k ref = OK r' /\
    dim2index (reg m) a = OK i1 /\ dim2index (reg m) b = OK i2 /\
    reg m' = r' /\ n m' = rot_n k i1 i2 (n m) /\ bc m' = rot_bc k a b (bc m).
Proof. exact mesh_rotate90_inv. Qed.
Print Assumptions C12_consistent_mesh_region.

(* --- a vector field without the component-to-axis mapping for a or b is refused *)
Theorem C12_refuse_unmapped : forall K ip (f : field K) a b k ref,
  (1 < nvdim f)%nat -> rlookup a (vmap f) = None \/ rlookup b (vmap f) = None ->
  is_ok (field_rotate90 K ip f a b k ref) = false.
Proof. exact field_refuse_unmapped. Qed.
Print Assumptions C12_refuse_unmapped.

Theorem C12_unmapped_means_no_entry : forall dim vm,
  rlookup dim vm = None <-> forall kv, In kv vm -> snd kv <> dim.
Proof. exact rlookup_none. Qed.
Print Assumptions C12_unmapped_means_no_entry.

(* --- the hypotheses of the covariance theorems are satisfiable (a 4 x 2 mesh with units m, s;
   k = -1 about (1,2) copying, k = 7 about the centre in place; cell (3,1)) *)
Example C12_covariance_nonvacuous :
  wf_mesh m0 /\ n m0 = map Z.of_nat [4; 2]%nat /\
  is_ok (mesh_rotate90 false m0 "x" "y" (-1) (Some [1; 2])) = true /\
  is_ok (mesh_rotate90 true m0 "y" "x" 7 None) = true /\
  rot_reference (reg m0) (Some [1; 2]) = OK [1; 2] /\
  dim2index (reg m0) "x" = OK 0%nat /\ dim2index (reg m0) "y" = OK 1%nat /\
  (forall j, (j < 2)%nat -> (nth j [3; 1]%nat 0 < nth j [4; 2]%nat 0)%nat).
Proof. exact m0_instance. Qed.
Print Assumptions C12_covariance_nonvacuous.

(* --- the in-place form of Region.rotate90 produces exactly what the copying form returns
   (corners after min/max, swapped units, same rejections), for every well-formed region *)
Theorem C12_inplace_eq_copy_region : forall r a b k ref, wf_region r ->
  region_rotate90 true r a b k ref = region_rotate90 false r a b k ref.
Proof. exact region_inplace_eq_copy. Qed.
Print Assumptions C12_inplace_eq_copy_region.

(* ====== phase 2: composition, reverse turn, four turns, link to C01 ====== *)

(* the exact quarter-turn matrix of k1 + k2 is the product of the matrices of k1 and k2 *)
Theorem C12_turn_sum : forall k1 k2, zturn (k1 + k2) = zmul (zturn k1) (zturn k2).
Proof. exact zturn_add. Qed.
Print Assumptions C12_turn_sum.

(* a rotated well-formed region is well-formed (pmin < pmax, lengths, distinct dims) *)
Theorem C12_region_wellformed : forall ip r a b k ref r',
  wf_region r -> region_rotate90 ip r a b k ref = OK r' -> wf_region r'.
Proof. exact region_rotate90_wf. Qed.
Print Assumptions C12_region_wellformed.

(* corners of the rotated region, axis by axis, for every k (the box is the image of the box) *)
Theorem C12_region_box : forall ip r a b k ref r' R i1 i2,
  wf_region r -> region_rotate90 ip r a b k ref = OK r' ->
  rot_reference r ref = OK R -> dim2index r a = OK i1 -> dim2index r b = OK i2 ->
  i1 <> i2 /\ (i1 < length (pmin r))%nat /\ (i2 < length (pmin r))%nat /\
  length (pmin r') = length (pmin r) /\ length (pmax r') = length (pmin r) /\
  dims r' = dims r /\ units r' = rot_units k i1 i2 (units r) /\ tf r' = tf r /\
  forall j, (j < length (pmin r))%nat ->
    nth j (pmin r') 0 == fst (rbox k i1 i2 j R (pmin r) (pmax r)) /\
    nth j (pmax r') 0 == snd (rbox k i1 i2 j R (pmin r) (pmax r)).
Proof. exact region_rot_desc. Qed.
Print Assumptions C12_region_box.

(* k1 then k2 is k1 + k2 (same reference argument; default reference: the centre is a fixed point);
   any mix of copying and in-place forms *)
Theorem C12_compose_region : forall ip ip' ip'' r a b k1 k2 ref r1 r2 r3,
  wf_region r -> region_rotate90 ip r a b k1 ref = OK r1 -> region_rotate90 ip' r1 a b k2 ref = OK r2 ->
  region_rotate90 ip'' r a b (k1 + k2) ref = OK r3 ->
  (forall j, (j < length (pmin r))%nat ->
     nth j (pmin r2) 0 == nth j (pmin r3) 0 /\ nth j (pmax r2) 0 == nth j (pmax r3) 0) /\
  length (pmin r2) = length (pmin r3) /\ dims r2 = dims r3 /\ units r2 = units r3 /\ tf r2 = tf r3.
Proof. exact region_compose. Qed.
Print Assumptions C12_compose_region.

(* a turn followed by its reverse is the identity *)
Theorem C12_inverse_region : forall ip ip' r a b k ref r1 r2,
  wf_region r -> region_rotate90 ip r a b k ref = OK r1 -> region_rotate90 ip' r1 a b (- k) ref = OK r2 ->
  (forall j, (j < length (pmin r))%nat ->
     nth j (pmin r2) 0 == nth j (pmin r) 0 /\ nth j (pmax r2) 0 == nth j (pmax r) 0) /\
  length (pmin r2) = length (pmin r) /\ dims r2 = dims r /\ units r2 = units r /\ tf r2 = tf r.
Proof. exact region_turn_reverse. Qed.
Print Assumptions C12_inverse_region.

(* four quarter turns are the identity *)
Theorem C12_four_turns_region : forall ipa ipb ipc ipd r a b ref r1 r2 r3 r4,
  wf_region r -> region_rotate90 ipa r a b 1 ref = OK r1 -> region_rotate90 ipb r1 a b 1 ref = OK r2 ->
  region_rotate90 ipc r2 a b 1 ref = OK r3 -> region_rotate90 ipd r3 a b 1 ref = OK r4 ->
  (forall j, (j < length (pmin r))%nat ->
     nth j (pmin r4) 0 == nth j (pmin r) 0 /\ nth j (pmax r4) 0 == nth j (pmax r) 0) /\
  length (pmin r4) = length (pmin r) /\ dims r4 = dims r /\ units r4 = units r /\ tf r4 = tf r.
Proof. exact region_four_turns. Qed.
Print Assumptions C12_four_turns_region.

Example C12_compose_nonvacuous :
  wf_region (reg m0) /\
  exists r1 r2 r3 r4,
    region_rotate90 false (reg m0) "x" "y" 1 None = OK r1 /\ region_rotate90 true r1 "x" "y" 1 None = OK r2 /\
    region_rotate90 false r2 "x" "y" 1 None = OK r3 /\ region_rotate90 true r3 "x" "y" 1 None = OK r4 /\
    (exists s, region_rotate90 true r1 "x" "y" (-1) None = OK s) /\
    (exists s, region_rotate90 false (reg m0) "x" "y" (1 + 1) None = OK s).
Proof. exact compose_instance. Qed.
Print Assumptions C12_compose_nonvacuous.

(* the default reference: a quarter turn about the centre keeps the centre, so the reference read
   after the region was turned in place is == the one read before (mesh in-place path) *)
Theorem C12_centre_fixed : forall ip r a b k r',
  wf_region r -> region_rotate90 ip r a b k None = OK r' ->
  forall j, (j < length (pmin r))%nat -> nth j (center r') 0 == nth j (center r) 0.
Proof. exact center_fixed. Qed.
Print Assumptions C12_centre_fixed.

(* mesh level: cell counts and units compose by parity *)
Theorem C12_compose_n : forall k1 k2 i1 i2 (ns : list Z),
  i1 <> i2 -> (i1 < length ns)%nat -> (i2 < length ns)%nat ->
  rot_n k2 i1 i2 (rot_n k1 i1 i2 ns) = rot_n (k1 + k2) i1 i2 ns.
Proof. exact rot_n_add. Qed.
Print Assumptions C12_compose_n.

Theorem C12_compose_units : forall k1 k2 i1 i2 us,
  i1 <> i2 -> (i1 < length us)%nat -> (i2 < length us)%nat ->
  rot_units k2 i1 i2 (rot_units k1 i1 i2 us) = rot_units (k1 + k2) i1 i2 us.
Proof. exact rot_units_add. Qed.
Print Assumptions C12_compose_units.

(* arrays (data and validity): rot90 by k1 then by k2 on the rotated shape is rot90 by k1 + k2 *)
Theorem C12_compose_cells : forall (V : Type) (sh : list nat) (a b : nat) (k1 k2 : Z) (f : idx -> V) (i : idx),
  a <> b -> (a < length i)%nat -> (b < length i)%nat -> length sh = length i ->
  (nth a i 0 < nth a (rot90_shape sh a b (k1 + k2)) 0)%nat ->
  (nth b i 0 < nth b (rot90_shape sh a b (k1 + k2)) 0)%nat ->
  rot90 (rot90_shape sh a b k1) a b k2 (rot90 sh a b k1 f) i = rot90 sh a b (k1 + k2) f i.
Proof. exact @rot90_compose. Qed.
Print Assumptions C12_compose_cells.

Theorem C12_inverse_cells : forall (V : Type) (sh : list nat) (a b : nat) (k : Z) (f : idx -> V) (i : idx),
  a <> b -> (a < length i)%nat -> (b < length i)%nat -> length sh = length i ->
  (nth a i 0 < nth a sh 0)%nat -> (nth b i 0 < nth b sh 0)%nat ->
  rot90 (rot90_shape sh a b k) a b (- k) (rot90 sh a b k f) i = f i.
Proof. exact @rot90_reverse. Qed.
Print Assumptions C12_inverse_cells.

Theorem C12_four_turns_cells : forall (V : Type) (sh : list nat) (a b : nat) (f : idx -> V) (i : idx),
  a <> b -> (a < length i)%nat -> (b < length i)%nat -> length sh = length i ->
  (nth a i 0 < nth a sh 0)%nat -> (nth b i 0 < nth b sh 0)%nat ->
  let s1 := rot90_shape sh a b 1 in let s2 := rot90_shape s1 a b 1 in let s3 := rot90_shape s2 a b 1 in
  rot90 s3 a b 1 (rot90 s2 a b 1 (rot90 s1 a b 1 (rot90 sh a b 1 f))) i = f i.
Proof. exact @rot90_four_turns. Qed.
Print Assumptions C12_four_turns_cells.

(* vector components, for every field of values: turn k1 then k2 is turn k1 + k2; a net multiple
   of four is the identity *)
Theorem C12_compose_components : forall (K : FOps), FLaws K ->
  forall k1 k2 v1 v2 (f : idx -> K) base comp, v1 <> v2 ->
  rot_comp K (fst (kturn K k2)) (snd (kturn K k2)) v1 v2
    (rot_comp K (fst (kturn K k1)) (snd (kturn K k1)) v1 v2 f) (base ++ [comp])
  = rot_comp K (fst (kturn K (k1 + k2))) (snd (kturn K (k1 + k2))) v1 v2 f (base ++ [comp]).
Proof. exact rot_comp_compose. Qed.
Print Assumptions C12_compose_components.

Theorem C12_identity_components : forall (K : FOps), FLaws K ->
  forall k v1 v2 (f : idx -> K) base comp, (k mod 4 = 0)%Z -> v1 <> v2 ->
  rot_comp K (fst (kturn K k)) (snd (kturn K k)) v1 v2 f (base ++ [comp]) = f (base ++ [comp]).
Proof. exact rot_comp_zero. Qed.
Print Assumptions C12_identity_components.

(* the rotated mesh is well-formed, and (link to C01) its point2index at the centre of the target
   cell - which is R + Q (centre i - R) - returns rot_index i *)
Theorem C12_mesh_wellformed : forall ip m a b k ref m' (sh : list nat),
  wf_mesh m -> n m = map Z.of_nat sh -> (forall j, (j < length sh)%nat -> (0 < nth j sh 0)%nat) ->
  mesh_rotate90 ip m a b k ref = OK m' -> wf_mesh m'.
Proof. exact mesh_rotate90_wf. Qed.
Print Assumptions C12_mesh_wellformed.

Theorem C12_covariance_point2index : forall ip m a b k ref m' R i1 i2 (sh : list nat) (i : idx),
  wf_mesh m -> n m = map Z.of_nat sh ->
  mesh_rotate90 ip m a b k ref = OK m' ->
  rot_reference (reg m) ref = OK R -> dim2index (reg m) a = OK i1 -> dim2index (reg m) b = OK i2 ->
  length i = length sh -> (forall j, (j < length sh)%nat -> (nth j i 0 < nth j sh 0)%nat) ->
  let t := map Z.of_nat (rot_index sh i1 i2 k i) in
  exists P, index2point m' t = OK P /\ point2index m' P = OK t /\ length P = length sh /\
    forall j, (j < length sh)%nat ->
      nth j P 0 == nth j (rot_pt (fst (qturn k)) (snd (qturn k)) i1 i2 R (centre m (map Z.of_nat i))) 0.
Proof. exact point2index_covariant. Qed.
Print Assumptions C12_covariance_point2index.

(* ====== periodicity (bc) turns with the cells; in-place == copy for mesh and field ====== *)

(* the mesh record after the turn: region, n and bc (letters of the two in-plane axes exchanged for
   odd k) - see C12_consistent_mesh_region; as a SET of periodic axes: a letter c is periodic after
   the turn iff its preimage under the axis exchange was periodic before (odd k), unchanged for
   even k; one-letter axis names (the only ones bc can hold) *)
Theorem C12_periodicity_turns_with_cells : forall k ca cb s c, bc_keyword s = false ->
  char_in c (rot_bc k (String ca EmptyString) (String cb EmptyString) s)
  = char_in (if Z.odd k then sigma ca cb c else c) s.
Proof. exact periodicity_turns. Qed.
Print Assumptions C12_periodicity_turns_with_cells.

Theorem C12_bc_keyword_kept : forall k a b s, bc_keyword s = true -> rot_bc k a b s = s.
Proof. exact keyword_kept. Qed.
Print Assumptions C12_bc_keyword_kept.

(* k1 then k2 is k1 + k2 on bc (hence four turns / turn and reverse restore bc, with
   C12_compose_n, C12_compose_units, C12_compose_region for the rest of the mesh record) *)
Theorem C12_compose_bc : forall k1 k2 ca cb s,
  let a := String ca EmptyString in let b := String cb EmptyString in
  bc_keyword s = false -> bc_keyword (bc_swap a b s) = false ->
  rot_bc k2 a b (rot_bc k1 a b s) = rot_bc (k1 + k2) a b s.
Proof. exact rot_bc_add. Qed.
Print Assumptions C12_compose_bc.

Example C12_compose_bc_nonvacuous :
  bc_keyword "zx" = false /\ bc_keyword (bc_swap "x" "y" "zx") = false /\
  rot_bc 3 "x" "y" "zx" = "zy"%string /\ rot_bc 2 "x" "y" "zx" = "zx"%string /\
  rot_bc (-1) "x" "y" "neumann" = "neumann"%string.
Proof. repeat split; reflexivity. Qed.
Print Assumptions C12_compose_bc_nonvacuous.

(* the in-place form equals the copying form (whole mesh record incl. subregions and bc; whole
   field): both read the default reference from the mesh as it is before the turn *)
Theorem C12_inplace_eq_copy_mesh : forall m a b k ref,
  wf_region (reg m) -> (forall ns, In ns (subs m) -> wf_region (snd ns)) ->
  mesh_rotate90 true m a b k ref = mesh_rotate90 false m a b k ref.
Proof. exact mesh_inplace_eq_copy. Qed.
Print Assumptions C12_inplace_eq_copy_mesh.

Theorem C12_inplace_eq_copy_field : forall K (f : field K) a b k ref,
  wf_region (reg (fmesh f)) -> (forall ns, In ns (subs (fmesh f)) -> wf_region (snd ns)) ->
  field_rotate90 K true f a b k ref = field_rotate90 K false f a b k ref.
Proof. exact field_inplace_eq_copy. Qed.
Print Assumptions C12_inplace_eq_copy_field.

(* ====== the tie, proved: a shard case that check_C12 evaluates to true certifies that the OBSERVED
   output of Region / Mesh / Field .rotate90 is the model's value on the recorded input.
   region_obs / mesh_obs e: corners within e (Qabs (model - observed) <= e) of the model's, dims and
   units equal; cell counts equal; subregions by name and corners; bc the same set of periodic
   axes.  e = tol ex * geom_scale: 0 in the exact regime, 1e-13 * largest coordinate otherwise.
   in_mesh / in_field: the mesh / field record the checker builds from the recorded input. ====== *)
Theorem C12_check_region_sound : forall ex ip p1 p2 ds us a b k ref o,
  check_C12 (CRegion ex ip p1 p2 ds us a b k ref (Some o)) = true ->
  exists r, region_rotate90 ip (mk_reg p1 p2 ds us) a b k ref = OK r /\
            region_obs (tol ex * geom_scale p1 p2 ref) r o.
Proof. exact check_region_sound. Qed.
Print Assumptions C12_check_region_sound.

(* exact regime: corners by equality *)
Theorem C12_check_region_exact_sound : forall ip p1 p2 ds us a b k ref omin omax ods ous,
  check_C12 (CRegion true ip p1 p2 ds us a b k ref (Some (omin, omax, ods, ous))) = true ->
  exists r, region_rotate90 ip (mk_reg p1 p2 ds us) a b k ref = OK r /\
            Forall2 Qeq (pmin r) omin /\ Forall2 Qeq (pmax r) omax /\ dims r = ods /\ units r = ous.
Proof. exact check_region_exact_sound. Qed.
Print Assumptions C12_check_region_exact_sound.

Theorem C12_check_region_reject_sound : forall ex ip p1 p2 ds us a b k ref,
  check_C12 (CRegion ex ip p1 p2 ds us a b k ref None) = true ->
  exists e, region_rotate90 ip (mk_reg p1 p2 ds us) a b k ref = Err e.
Proof. exact check_region_reject_sound. Qed.
Print Assumptions C12_check_region_reject_sound.

Theorem C12_check_mesh_sound : forall ex ip p1 p2 ds us ns sbs bcs a b k ref o,
  check_C12 (CMesh ex ip p1 p2 ds us ns sbs bcs a b k ref (Some o)) = true ->
  exists m', mesh_rotate90 ip (in_mesh p1 p2 ds us ns sbs bcs) a b k ref = OK m' /\
             mesh_obs (tol ex * geom_scale p1 p2 ref) m' o.
Proof. exact check_mesh_sound. Qed.
Print Assumptions C12_check_mesh_sound.

Theorem C12_check_mesh_reject_sound : forall ex ip p1 p2 ds us ns sbs bcs a b k ref,
  check_C12 (CMesh ex ip p1 p2 ds us ns sbs bcs a b k ref None) = true ->
  exists e, mesh_rotate90 ip (in_mesh p1 p2 ds us ns sbs bcs) a b k ref = Err e.
Proof. exact check_mesh_reject_sound. Qed.
Print Assumptions C12_check_mesh_reject_sound.

(* values, validity, labels and mapping by equality in both regimes; geometry as for the mesh *)
Theorem C12_check_field_sound :
  forall ex ip p1 p2 ds us ns sbs bcs nv vals valid vds vm a b k ref om ovals ovalid ovds ovm,
  check_C12 (CField ex ip p1 p2 ds us ns sbs bcs nv vals valid vds vm a b k ref
               (Some (om, ovals, ovalid, ovds, ovm))) = true ->
  length vals = nprod (znat ns ++ [nv]) /\ length valid = nprod (znat ns) /\
  exists g, field_rotate90 QcOps ip (in_field p1 p2 ds us ns sbs bcs nv vals valid vds vm) a b k ref = OK g /\
    mesh_obs (tol ex * geom_scale p1 p2 ref) (fmesh g) om /\
    qcl ovals = to_list (fshape g ++ [nv]) (fval g) /\
    ovalid = to_list (fshape g) (fvalid g) /\
    vdims g = ovds /\ vmap g = ovm.
Proof. exact check_field_sound. Qed.
Print Assumptions C12_check_field_sound.

Theorem C12_check_field_reject_sound :
  forall ex ip p1 p2 ds us ns sbs bcs nv vals valid vds vm a b k ref,
  check_C12 (CField ex ip p1 p2 ds us ns sbs bcs nv vals valid vds vm a b k ref None) = true ->
  exists e, field_rotate90 QcOps ip (in_field p1 p2 ds us ns sbs bcs nv vals valid vds vm) a b k ref = Err e.
Proof. exact check_field_reject_sound. Qed.
Print Assumptions C12_check_field_reject_sound.

(* a whole shard: no failing index means every case was accepted *)
Theorem C12_shard_verdict : forall cases k,
  failing k (map check_C12 cases) = [] -> forall c, In c cases -> check_C12 c = true.
Proof. exact (failing_nil_all check_C12). Qed.
Print Assumptions C12_shard_verdict.

(* the checker builds its input records without going through the constructors; their
   well-formedness (the hypothesis of the theorems above) is decided by a boolean test *)
Theorem C12_input_wf_region : forall p1 p2 ds us ns,
  wf_inputb p1 p2 ds us ns = true -> wf_region (mk_reg p1 p2 ds us).
Proof. exact wf_inputb_region. Qed.
Print Assumptions C12_input_wf_region.

Theorem C12_input_wf_mesh : forall p1 p2 ds us ns sbs bcs,
  wf_inputb p1 p2 ds us ns = true -> wf_mesh (in_mesh p1 p2 ds us ns sbs bcs).
Proof. exact wf_inputb_mesh. Qed.
Print Assumptions C12_input_wf_mesh.

(* ====== transfer: the C12 theorems stated about the OBSERVED output ====== *)

(* C12_region_box on the observation (exact regime): the observed corners are the rotated box,
   axis by axis, the observed units are the exchanged ones *)
Theorem C12_accepted_region_box : forall ip p1 p2 ds us a b k ref omin omax ods ous R i1 i2,
  check_C12 (CRegion true ip p1 p2 ds us a b k ref (Some (omin, omax, ods, ous))) = true ->
  wf_region (mk_reg p1 p2 ds us) ->
  rot_reference (mk_reg p1 p2 ds us) ref = OK R ->
  dim2index (mk_reg p1 p2 ds us) a = OK i1 -> dim2index (mk_reg p1 p2 ds us) b = OK i2 ->
  length omin = length p1 /\ length omax = length p1 /\
  ods = ds /\ ous = rot_units k i1 i2 us /\
  forall j, (j < length p1)%nat ->
    nth j omin 0 == fst (rbox k i1 i2 j R p1 p2) /\
    nth j omax 0 == snd (rbox k i1 i2 j R p1 p2).
Proof. exact accepted_region_box. Qed.
Print Assumptions C12_accepted_region_box.

(* C12_region_wellformed on the observation: observed pmin < observed pmax on every axis *)
Theorem C12_accepted_region_ordered : forall ip p1 p2 ds us a b k ref omin omax ods ous,
  check_C12 (CRegion true ip p1 p2 ds us a b k ref (Some (omin, omax, ods, ous))) = true ->
  wf_region (mk_reg p1 p2 ds us) ->
  length omin = length omax /\ forall j, (j < length omin)%nat -> nth j omin 0 < nth j omax 0.
Proof. exact accepted_region_ordered. Qed.
Print Assumptions C12_accepted_region_ordered.

(* C12_inplace_eq_copy_region on two observations: the in-place call and the copying call, both
   accepted on the same input, were observed to produce the same region *)
Theorem C12_accepted_inplace_eq_copy :
  forall p1 p2 ds us a b k ref omin omax ods ous omin' omax' ods' ous',
  check_C12 (CRegion true true p1 p2 ds us a b k ref (Some (omin, omax, ods, ous))) = true ->
  check_C12 (CRegion true false p1 p2 ds us a b k ref (Some (omin', omax', ods', ous'))) = true ->
  wf_region (mk_reg p1 p2 ds us) ->
  Forall2 Qeq omin omin' /\ Forall2 Qeq omax omax' /\ ods = ods' /\ ous = ous'.
Proof. exact accepted_inplace_eq_copy. Qed.
Print Assumptions C12_accepted_inplace_eq_copy.

(* C12_metadata on the observation (either regime, no well-formedness needed) *)
Theorem C12_accepted_field_metadata :
  forall ex ip p1 p2 ds us ns sbs bcs nv vals valid vds vm a b k ref
         omin omax ods ous ons osubs obc ovals ovalid ovds ovm i1 i2,
  check_C12 (CField ex ip p1 p2 ds us ns sbs bcs nv vals valid vds vm a b k ref
               (Some ((omin, omax, ods, ous, ons, osubs, obc), ovals, ovalid, ovds, ovm))) = true ->
  dim2index (mk_reg p1 p2 ds us) a = OK i1 -> dim2index (mk_reg p1 p2 ds us) b = OK i2 ->
  ons = (if Z.odd k then swap_nth 0%Z i1 i2 ns else ns) /\
  ous = (if Z.odd k then swap_nth ""%string i1 i2 us else us) /\
  ods = ds /\ ovds = vds /\ ovm = vm.
Proof. exact accepted_field_metadata. Qed.
Print Assumptions C12_accepted_field_metadata.

(* C12_covariance_validity on the observation: the observed validity (C-order list, read on the
   rotated shape) of target cell rot_index i is the recorded validity of source cell i *)
Theorem C12_accepted_field_validity :
  forall ex ip p1 p2 ds us ns sbs bcs nv vals valid vds vm a b k ref om ovals ovalid ovds ovm i1 i2 (i : idx),
  check_C12 (CField ex ip p1 p2 ds us ns sbs bcs nv vals valid vds vm a b k ref
               (Some (om, ovals, ovalid, ovds, ovm))) = true ->
  wf_mesh (in_mesh p1 p2 ds us ns sbs bcs) ->
  dim2index (mk_reg p1 p2 ds us) a = OK i1 -> dim2index (mk_reg p1 p2 ds us) b = OK i2 ->
  inb (znat ns) i = true ->
  of_list true (rot90_shape (znat ns) i1 i2 k) ovalid (rot_index (znat ns) i1 i2 k i)
  = of_list true (znat ns) valid i.
Proof. exact accepted_field_validity. Qed.
Print Assumptions C12_accepted_field_validity.

(* C12_covariance_cells on the observation, scalar fields: the observed value of target cell
   rot_index i is the recorded value of source cell i *)
Theorem C12_accepted_field_cells_scalar :
  forall ex ip p1 p2 ds us ns sbs bcs nv vals valid vds vm a b k ref om ovals ovalid ovds ovm i1 i2 (i : idx) c,
  check_C12 (CField ex ip p1 p2 ds us ns sbs bcs nv vals valid vds vm a b k ref
               (Some (om, ovals, ovalid, ovds, ovm))) = true ->
  wf_mesh (in_mesh p1 p2 ds us ns sbs bcs) ->
  dim2index (mk_reg p1 p2 ds us) a = OK i1 -> dim2index (mk_reg p1 p2 ds us) b = OK i2 ->
  (nv <= 1)%nat -> inb (znat ns) i = true -> (c < nv)%nat ->
  of_list 0%Qc (rot90_shape (znat ns) i1 i2 k ++ [nv]) (qcl ovals) (rot_index (znat ns) i1 i2 k i ++ [c])
  = of_list 0%Qc (znat ns ++ [nv]) (qcl vals) (i ++ [c]).
Proof. exact accepted_field_cells_scalar. Qed.
Print Assumptions C12_accepted_field_cells_scalar.

(* C12_covariance_cells + C12_components_rotated_* + C12_unmapped_components_unchanged on the
   observation, vector fields: at target cell rot_index i the two mapped components are the exact
   quarter turn of the two recorded components of source cell i, the others are the recorded ones *)
Theorem C12_accepted_field_cells_vector :
  forall ex ip p1 p2 ds us ns sbs bcs nv vals valid vds vm a b k ref om ovals ovalid ovds ovm i1 i2 v1 v2 (i : idx),
  check_C12 (CField ex ip p1 p2 ds us ns sbs bcs nv vals valid vds vm a b k ref
               (Some (om, ovals, ovalid, ovds, ovm))) = true ->
  wf_mesh (in_mesh p1 p2 ds us ns sbs bcs) ->
  dim2index (mk_reg p1 p2 ds us) a = OK i1 -> dim2index (mk_reg p1 p2 ds us) b = OK i2 ->
  (1 < nv)%nat -> comp_of vds vm a = OK v1 -> comp_of vds vm b = OK v2 ->
  inb (znat ns) i = true ->
  let src := of_list 0%Qc (znat ns ++ [nv]) (qcl vals) in
  let tgt := of_list 0%Qc (rot90_shape (znat ns) i1 i2 k ++ [nv]) (qcl ovals) in
  let t := rot_index (znat ns) i1 i2 k i in
  let co := fst (kturn QcOps k) in let si := snd (kturn QcOps k) in
  ((v2 < nv)%nat -> tgt (t ++ [v2]) = (si * src (i ++ [v1]) + co * src (i ++ [v2]))%Qc) /\
  ((v1 < nv)%nat -> v1 <> v2 -> tgt (t ++ [v1]) = (co * src (i ++ [v1]) - si * src (i ++ [v2]))%Qc) /\
  (forall c, (c < nv)%nat -> c <> v1 -> c <> v2 -> tgt (t ++ [c]) = src (i ++ [c])).
Proof. exact accepted_field_cells_vector. Qed.
Print Assumptions C12_accepted_field_cells_vector.

(* the hypotheses are satisfiable: concrete accepted cases (a 2 x 2 two-component field with one
   invalid cell, k = 1 about the centre; the region in place and copying, k = -1 about (1, 2);
   a rejected call with coinciding axes) *)
Example C12_accepted_field_instance :
  check_C12 (CField true false [0; 0] [8; 4] ["x"; "y"]%string ["m"; "s"]%string [2; 2]%Z [] ""%string
               2 [1; 2; 3; 4; 5; 6; 7; 8] [true; false; true; true]
               ["vx"; "vy"]%string [("vx", "x"); ("vy", "y")]%string "x" "y" 1 None
               (Some (([2; -2], [6; 6], ["x"; "y"]%string, ["s"; "m"]%string, [2; 2]%Z, [], ""%string),
                      [-4; 3; -8; 7; -2; 1; -6; 5], [false; true; true; true],
                      ["vx"; "vy"]%string, [("vx", "x"); ("vy", "y")]%string))) = true /\
  wf_inputb [0; 0] [8; 4] ["x"; "y"]%string ["m"; "s"]%string [2; 2]%Z = true /\
  dim2index (mk_reg [0; 0] [8; 4] ["x"; "y"]%string ["m"; "s"]%string) "x" = OK 0%nat /\
  dim2index (mk_reg [0; 0] [8; 4] ["x"; "y"]%string ["m"; "s"]%string) "y" = OK 1%nat /\
  comp_of ["vx"; "vy"]%string [("vx", "x"); ("vy", "y")]%string "x" = OK 0%nat /\
  comp_of ["vx"; "vy"]%string [("vx", "x"); ("vy", "y")]%string "y" = OK 1%nat.
Proof. exact accepted_field_instance. Qed.
Print Assumptions C12_accepted_field_instance.

Example C12_accepted_region_instance :
  check_C12 (CRegion true true [0; 0] [8; 4] ["x"; "y"]%string ["m"; "s"]%string "x" "y" (-1) (Some [1; 2])
               (Some ([-1; -5], [3; 3], ["x"; "y"]%string, ["s"; "m"]%string))) = true /\
  check_C12 (CRegion true false [0; 0] [8; 4] ["x"; "y"]%string ["m"; "s"]%string "x" "y" (-1) (Some [1; 2])
               (Some ([-1; -5], [3; 3], ["x"; "y"]%string, ["s"; "m"]%string))) = true /\
  wf_inputb [0; 0] [8; 4] ["x"; "y"]%string ["m"; "s"]%string [2; 2]%Z = true /\
  rot_reference (mk_reg [0; 0] [8; 4] ["x"; "y"]%string ["m"; "s"]%string) (Some [1; 2]) = OK [1; 2].
Proof. exact accepted_region_instance. Qed.
Print Assumptions C12_accepted_region_instance.

Example C12_accepted_reject_instance :
  check_C12 (CRegion true false [0; 0] [8; 4] ["x"; "y"]%string ["m"; "s"]%string "x" "x" 1 None None) = true.
Proof. exact accepted_reject_instance. Qed.
Print Assumptions C12_accepted_reject_instance.
