(* C13 — geometric invariants and in-place == copy after any transformation history.
   ONLY statements closed by [exact], each followed by Print Assumptions.
   Inv = region: pmin < pmax, equal lengths, unique dims; mesh: that + n positive of the right length +
   every subregion carries the mesh's dims / units / tolerance and consists of whole cells j1..j2-1 of
   the mesh lattice on every axis (on_cells); field: that + array shape n ++ [nvdim], validity shape n.
   All statements hold for every argument value (valid, degenerate, malformed) and every history. *)
From DF Require Import Prelude Constants_gen Region Mesh Subregions History C13_region C13_mesh C13_history
  ListLemmas CheckSound Check_C13 C13_sound.
Open Scope Q_scope.

(* a rejected step leaves the state of the history as it was (any root object) *)
Theorem C13_reject_unchanged : forall (s : hstate) (io : bool * hop),
  is_ok (step (fst io) (snd io) s) = false -> apply_step s io = s.
Proof. exact reject_unchanged. Qed.
Print Assumptions C13_reject_unchanged.

(* one step, any arguments (valid, degenerate, malformed): the in-place path (own edge test, direct
   assignment) and the copying path (constructor) accept the same calls and produce the same region *)
Theorem C13_inplace_eq_copy_step : forall (o : hop) (r : region), wf_region r ->
  rstep true o r = rstep false o r.
Proof. exact rstep_inplace_eq_copy. Qed.
Print Assumptions C13_inplace_eq_copy_step.

(* an accepted step keeps pmin < pmax, the lengths, the unique dims *)
Theorem C13_inv_step : forall (ip : bool) (o : hop) (r r' : region), wf_region r ->
  rstep ip o r = OK r' -> wf_region r'.
Proof. exact rstep_inv. Qed.
Print Assumptions C13_inv_step.

Theorem C13_step_keeps_dims : forall (ip : bool) (o : hop) (r r' : region), wf_region r ->
  rstep ip o r = OK r' -> dims r' = dims r /\ tf r' = tf r /\ length (pmin r') = length (pmin r).
Proof. exact rstep_keeps. Qed.
Print Assumptions C13_step_keeps_dims.

(* ---------- every root (region, mesh with subregions, field), every history ---------- *)
(* the invariant holds after any sequence of steps, any mix of forms, rejected steps skipped *)
Theorem C13_inv_reachable : forall (h : list (bool * hop)) (s : hstate), Inv s -> Inv (run h s).
Proof. exact inv_reachable. Qed.
Print Assumptions C13_inv_reachable.

(* one step: the copying path (constructors, subregion setter, array-shape test) accepts the same calls
   as the in-place path and returns the same state *)
Theorem C13_inplace_eq_copy_any_root : forall (o : hop) (s : hstate), Inv s -> step false o s = step true o s.
Proof. exact step_forms. Qed.
Print Assumptions C13_inplace_eq_copy_any_root.

(* the final state of a history does not depend on which form each step used *)
Theorem C13_inplace_eq_copy : forall (ops : list hop) (f1 f2 : list bool) (s : hstate),
  Inv s -> length f1 = length ops -> length f2 = length ops ->
  run (combine f1 ops) s = run (combine f2 ops) s.
Proof. exact forms_irrelevant. Qed.
Print Assumptions C13_inplace_eq_copy.

(* mesh step: region + subregions + n keep the lattice invariant ... *)
Theorem C13_mesh_inv_step : forall (ip : bool) (o : hop) (m m' : mesh),
  inv_mesh m -> mstep ip o m = OK m' -> inv_mesh m'.
Proof. exact mstep_inv. Qed.
Print Assumptions C13_mesh_inv_step.

(* ... because region and subregion are mapped, axis by axis, by one affine map x -> al*x + be read from
   one source axis (the other axis of an odd quarter turn), and n is read from the same source axis *)
Theorem C13_affine_axes : forall (o : hop) (r s : region) (p1 p2 : list Q) (us : list string)
    (q1 q2 : list Q) (vs : list string) (ns : list Z),
  wf_region r -> wf_region s -> length (pmin s) = length (pmin r) -> dims s = dims r -> units s = units r ->
  prep o r = OK (p1, p2, us) -> prep (sub_op o (center r)) s = OK (q1, q2, vs) ->
  length ns = length (pmin r) ->
  vs = us /\ forall j, (j < length (pmin r))%nat -> exists sg al be, (sg < length (pmin r))%nat /\
     nth j (hnew_n o r ns) 1%Z = nth sg ns 1%Z /\ axis_rel j sg al be p1 p2 r /\ axis_rel j sg al be q1 q2 s.
Proof. exact prep_pair. Qed.
Print Assumptions C13_affine_axes.

(* subregions made of whole cells pass the copying form's setter (value in region, whole number of cells,
   aligned) for every non-negative alignment tolerance: the bridge to C14's set_subregions_tol *)
Theorem C13_whole_cells_accepted : forall (tol : Q) (m : mesh) (s : region),
  0 <= tol -> wf_mesh m -> inv_sub m s -> sub_ok tol m s = true.
Proof. exact whole_cells_accepted. Qed.
Print Assumptions C13_whole_cells_accepted.

(* cell * n = edges on every axis of every reachable mesh, cells positive *)
Theorem C13_cell_times_n : forall (m : mesh) (a : nat), inv_mesh m -> (a < length (pmin (reg m)))%nat ->
  0 < nth a (cell m) 0 /\
  inject_Z (nth a (n m) 1%Z) * nth a (cell m) 0 == nth a (pmax (reg m)) 0 - nth a (pmin (reg m)) 0.
Proof. exact cell_times_n_inv. Qed.
Print Assumptions C13_cell_times_n.

(* field step keeps array shape n ++ [nvdim] and validity shape n *)
Theorem C13_field_inv_step : forall (ip : bool) (o : hop) (f f' : fstate),
  inv_field f -> fstep ip o f = OK f' -> inv_field f'.
Proof. exact fstep_inv. Qed.
Print Assumptions C13_field_inv_step.

(* a vector field without a mapped component for one of the two axes refuses the quarter turn in both
   forms (and, by C13_reject_unchanged, the state is untouched) *)
Theorem C13_field_unmapped_refused : forall (ip : bool) (a1 a2 : string) (k : karg) (ref : rarg)
    (f : fstate) (a b : nat),
  dim2index a1 (reg (fmesh f)) = OK a -> dim2index a2 (reg (fmesh f)) = OK b -> (1 < fnvdim f)%Z ->
  nth a (frmap f) None = None \/ nth b (frmap f) None = None ->
  fstep ip (HRot a1 a2 k ref) f = Err RuntimeE.
Proof. exact fstep_unmapped_refused. Qed.
Print Assumptions C13_field_unmapped_refused.

(* documented maps: translation adds the vector (always accepted) *)
Theorem C13_affine_translate : forall (ip : bool) (w : list Q) (r : region), wf_region r ->
  length w = ndim r ->
  rstep ip (HTranslate (VSeq (map EReal w))) r =
  OK (mkRegion (map2 Qplus (pmin r) w) (map2 Qplus (pmax r) w) (dims r) (units r) (tf r)).
Proof. exact translate_adds. Qed.
Print Assumptions C13_affine_translate.

(* scaling, per axis: both raw corners are R + s*(x - R) ... *)
Theorem C13_affine_scale_axis : forall R s lo hi : Q,
  hscale_lo R lo s == R + s * (lo - R) /\
  hscale_hi (hscale_lo R lo s) (hi - lo) s == R + s * (hi - R).
Proof. exact scale_axis. Qed.
Print Assumptions C13_affine_scale_axis.

(* ... and the new edge vanishes (step refused by both forms) exactly for a zero factor *)
Theorem C13_scale_degenerate_iff : forall R s lo hi : Q, lo < hi ->
  (hscale_hi (hscale_lo R lo s) (hi - lo) s - hscale_lo R lo s == 0 <-> s == 0).
Proof. exact scale_edge_zero. Qed.
Print Assumptions C13_scale_degenerate_iff.

Example C13_scale_degenerate_iff_nonvacuous : (0 : Q) < 4.
Proof. reflexivity. Qed.
Print Assumptions C13_scale_degenerate_iff_nonvacuous.

(* a quarter turn about a point keeps that point: the default reference of Mesh.rotate90 may be read
   before or after the region is turned *)
Theorem C13_rot_center_fixed : forall (a b : nat) (k : Z) (ra rb : Q) (p : list Q),
  nth a p 0 == ra -> nth b p 0 == rb -> forall j, nth j (hrot_pt a b k ra rb p) 0 == nth j p 0.
Proof. exact rot_fixed. Qed.
Print Assumptions C13_rot_center_fixed.

(* non-vacuity: a concrete region satisfies the invariant; negative factor in place re-orders the corners,
   zero factor is refused by both forms, an odd quarter turn swaps the units *)
Example C13_nonvacuous :
  wf_region demo_region /\
  (exists r', rstep true (HScale (VScalar (-(1))) (RSeq [EReal 0; EReal 0; EReal 0])) demo_region = OK r' /\
     qlist_eqb (pmin r') [-(4); -(2); -(1)] = true /\ qlist_eqb (pmax r') [0; 0; 0] = true) /\
  is_ok (rstep true (HScale (VScalar 0) RNone) demo_region) = false /\
  is_ok (rstep false (HScale (VScalar 0) RNone) demo_region) = false /\
  (exists r', rstep true (HRot "x" "y" (KInt 1) RNone) demo_region = OK r' /\
     units r' = ["nm"%string; "m"%string; "s"%string] /\
     qlist_eqb (pmin r') [1; -(1); 0] = true /\ qlist_eqb (pmax r') [3; 3; 1] = true).
Proof. exact demo_steps. Qed.
Print Assumptions C13_nonvacuous.

(* non-vacuity for mesh and field roots: a 4x2x1 mesh with two whole-cell subregions and a 3-component
   field satisfy Inv; an odd quarter turn in place followed by a negative per-axis scaling in the copying
   form is accepted (n swapped, both subregions kept); a zero factor is refused by both forms; the field's
   shapes follow n *)
Example C13_nonvacuous_mesh_field :
  Inv (SField demo_field) /\ Inv (SMesh demo_mesh) /\
  (exists m', mstep true (HRot "x" "y" (KInt 1) RNone) demo_mesh = OK m' /\ n m' = [2; 4; 1]%Z /\
     exists m'', mstep false (HScale (VSeq [EReal (-(2)); EReal 1; EReal (1 # 2)]) (RSeq [EReal 0; EReal 0; EReal 0])) m' = OK m'' /\
       n m'' = [2; 4; 1]%Z /\ length (subs m'') = 2%nat) /\
  is_ok (mstep true (HScale (VScalar 0) RNone) demo_mesh) = false /\
  is_ok (mstep false (HScale (VScalar 0) RNone) demo_mesh) = false /\
  (exists f', fstep true (HRot "x" "y" (KInt 3) RNone) demo_field = OK f' /\
     fashape f' = [2; 4; 1; 3]%Z /\ fvshape f' = [2; 4; 1]%Z).
Proof. exact demo_history. Qed.
Print Assumptions C13_nonvacuous_mesh_field.

(* ---------- soundness of the correspondence checker check_C13, and transfer to the observations ----------
   ostate_rel exact sc a b: names, units, n, array shapes identical; coordinates equal as rationals
   (exact = true) or within c13_tol * sc (exact = false).  steps_rel is the step-by-step specification:
   for each recorded step, acceptance and the resulting state of BOTH forms are the model's. *)
Theorem C13_check_sound : forall (s0 : hstate) (obs0 : ostate) (steps : list c13_step),
  check_C13 (C13Case s0 obs0 steps) = true ->
  ostate_eqv (observe s0) obs0 /\ steps_rel false s0 steps.
Proof. exact check_C13_sound. Qed.
Print Assumptions C13_check_sound.

(* first step, not a quarter turn, against the model's own step function (the checker's Qred between
   steps is invisible): both forms accept or refuse as the model does, observed states equal the model's *)
Theorem C13_check_first_step_sound : forall (s0 : hstate) (obs0 : ostate) (ip : bool) (o : hop)
    (oi oc : option ostate) (t : list c13_step),
  check_C13 (C13Case s0 obs0 ((ip, o, oi, oc) :: t)) = true -> is_rot o = false ->
  ostate_eqv (observe s0) obs0 /\ outcome_eqv (step true o s0) oi /\ outcome_eqv (step false o s0) oc.
Proof. exact check_C13_first_step_sound. Qed.
Print Assumptions C13_check_first_step_sound.

(* the state the checker carries (normalised after every accepted step) keeps the invariant *)
Theorem C13_checker_trajectory_inv : forall (s : hstate) (io : bool * hop), Inv s -> Inv (napply s io).
Proof. exact napply_inv. Qed.
Print Assumptions C13_checker_trajectory_inv.

(* a whole shard: no failing index means every case was accepted *)
Theorem C13_shard_verdict : forall cases k,
  failing k (map check_C13 cases) = [] -> forall c, In c cases -> check_C13 c = true.
Proof. exact (failing_nil_all check_C13). Qed.
Print Assumptions C13_shard_verdict.

(* transfer of C13_inplace_eq_copy_any_root: along an accepted history from a state with the invariant,
   what the in-place form left behind and what the copying form returned agree at every step - both
   refused, or both accepted with equal observables (until the first quarter turn) / equal names, units,
   n, shapes and lengths (afterwards).  A statement about the recorded observations only. *)
Theorem C13_accepted_forms_agree : forall (s0 : hstate) (obs0 : ostate) (steps : list c13_step),
  check_C13 (C13Case s0 obs0 steps) = true -> Inv s0 -> obs_all forms_agree false steps.
Proof. exact accepted_forms_agree. Qed.
Print Assumptions C13_accepted_forms_agree.

(* transfer of C13_inv_reachable: every observed state along an accepted history (either form) has
   unique dims, consistent lengths, positive n and, in the exact regime, pmin < pmax on every axis *)
Theorem C13_accepted_obs_invariant : forall (s0 : hstate) (obs0 : ostate) (steps : list c13_step),
  check_C13 (C13Case s0 obs0 steps) = true -> Inv s0 ->
  obs_wf true obs0 /\ obs_all both_wf false steps.
Proof. exact accepted_obs_invariant. Qed.
Print Assumptions C13_accepted_obs_invariant.

(* Inv s0 is not tested by check_C13; it is decidable by evaluation *)
Theorem C13_invb_sound : forall s : hstate, invb s = true -> Inv s.
Proof. exact invb_sound. Qed.
Print Assumptions C13_invb_sound.

Theorem C13_accepted_forms_agree_dec : forall (s0 : hstate) (obs0 : ostate) (steps : list c13_step),
  check_C13 (C13Case s0 obs0 steps) = true -> invb s0 = true -> obs_all forms_agree false steps.
Proof. exact accepted_forms_agree_dec. Qed.
Print Assumptions C13_accepted_forms_agree_dec.

(* non-vacuity: a concrete accepted history on the demo mesh (translate; zero factor refused by both forms;
   odd quarter turn with the in-place observation off by 1e-12), its initial state passes invb, and a
   record with one corner of the copying form off by one is not accepted *)
Example C13_accepted_instance : check_C13 demo_case = true /\ invb (SMesh demo_mesh) = true.
Proof. exact (conj accepted_instance (proj1 invb_instance)). Qed.
Print Assumptions C13_accepted_instance.

Example C13_rejected_instance :
  check_C13 (C13Case (SMesh demo_mesh) demo_obs0
    [ (true, HTranslate (VSeq [EReal (1 # 2); EReal 0; EReal (-(2))]), Some demo_obs1,
       Some (mkO (demo_or [3 # 2; 0; -(2)] [9 # 2; 2; -(1)] demo_us) [4; 2; 1]%Z (o_subs demo_obs1) [] [])) ]) = false.
Proof. exact rejected_instance. Qed.
Print Assumptions C13_rejected_instance.
