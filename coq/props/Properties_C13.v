(* C13 — geometric invariants and in-place == copy after any transformation history.
   ONLY statements closed by [exact], each followed by Print Assumptions. *)
From DF Require Import Prelude Constants_gen Region Mesh Subregions History C13_region.
Open Scope Q_scope.

(* a rejected step leaves the state of the history as it was *)
Theorem C13_reject_unchanged : forall (s : hstate) (io : bool * hop),
  is_ok (step (fst io) (snd io) s) = false -> apply_step s io = s.
Proof. exact reject_unchanged. Qed.
Print Assumptions C13_reject_unchanged.
