(* C13 — geometric invariants and in-place == copy after any transformation history.
   ONLY statements closed by [exact], each followed by Print Assumptions.
   Region-level statements are complete (all argument values, all histories, induction over the step
   list).  Mesh / field roots: the executable model (History.v: mstep, fstep, inv_mesh, inv_field) is
   tied to the code by the correspondence; their history theorems are not proved yet (see _partial). *)
From DF Require Import Prelude Constants_gen Region Mesh Subregions History C13_region.
Open Scope Q_scope.

(* a rejected step leaves the state of the history as it was (any root object) *)
Theorem C13_reject_unchanged : forall (s : hstate) (io : bool * hop),
  is_ok (step (fst io) (snd io) s) = false -> apply_step s io = s.
Proof. exact reject_unchanged. Qed.
Print Assumptions C13_reject_unchanged.

(* one step, any arguments (valid, degenerate, malformed): the in-place path (own edge test, direct
   assignment) and the copying path (constructor) accept the same calls and produce the same region *)
Theorem C13_inplace_eq_copy_step : forall (o : hop) (r : region), wf_region r ->
  rstep true o r = rstep false o r.
Proof. exact rstep_inplace_eq_copy. Qed.
Print Assumptions C13_inplace_eq_copy_step.

(* an accepted step keeps pmin < pmax, the lengths, the unique dims *)
Theorem C13_inv_step : forall (ip : bool) (o : hop) (r r' : region), wf_region r ->
  rstep ip o r = OK r' -> wf_region r'.
Proof. exact rstep_inv. Qed.
Print Assumptions C13_inv_step.

Theorem C13_step_keeps_dims : forall (ip : bool) (o : hop) (r r' : region), wf_region r ->
  rstep ip o r = OK r' -> dims r' = dims r /\ tf r' = tf r /\ length (pmin r') = length (pmin r).
Proof. exact rstep_keeps. Qed.
Print Assumptions C13_step_keeps_dims.

(* histories of any length on a region, any mix of forms, rejected steps skipped *)
Theorem C13_inv_reachable_partial : forall (h : list (bool * hop)) (r : region),
  wf_region r -> Inv (run h (SRegion r)).
Proof. exact inv_reachable_region. Qed.
Print Assumptions C13_inv_reachable_partial.

(* the final state does not depend on which form each step used *)
Theorem C13_inplace_eq_copy_partial : forall (ops : list hop) (f1 f2 : list bool) (r : region),
  wf_region r -> length f1 = length ops -> length f2 = length ops ->
  run (combine f1 ops) (SRegion r) = run (combine f2 ops) (SRegion r).
Proof. exact forms_irrelevant_region. Qed.
Print Assumptions C13_inplace_eq_copy_partial.

(* documented maps: translation adds the vector (always accepted) *)
Theorem C13_affine_translate : forall (ip : bool) (w : list Q) (r : region), wf_region r ->
  length w = ndim r ->
  rstep ip (HTranslate (VSeq (map EReal w))) r =
  OK (mkRegion (map2 Qplus (pmin r) w) (map2 Qplus (pmax r) w) (dims r) (units r) (tf r)).
Proof. exact translate_adds. Qed.
Print Assumptions C13_affine_translate.

(* scaling, per axis: both raw corners are R + s*(x - R) ... *)
Theorem C13_affine_scale_axis : forall R s lo hi : Q,
  hscale_lo R lo s == R + s * (lo - R) /\
  hscale_hi (hscale_lo R lo s) (hi - lo) s == R + s * (hi - R).
Proof. exact scale_axis. Qed.
Print Assumptions C13_affine_scale_axis.

(* ... and the new edge vanishes (step refused by both forms) exactly for a zero factor *)
Theorem C13_scale_degenerate_iff : forall R s lo hi : Q, lo < hi ->
  (hscale_hi (hscale_lo R lo s) (hi - lo) s - hscale_lo R lo s == 0 <-> s == 0).
Proof. exact scale_edge_zero. Qed.
Print Assumptions C13_scale_degenerate_iff.

Example C13_scale_degenerate_iff_nonvacuous : (0 : Q) < 4.
Proof. reflexivity. Qed.

(* a quarter turn about a point keeps that point: the default reference of Mesh.rotate90 may be read
   before or after the region is turned *)
Theorem C13_rot_center_fixed : forall (a b : nat) (k : Z) (ra rb : Q) (p : list Q),
  nth a p 0 == ra -> nth b p 0 == rb -> forall j, nth j (hrot_pt a b k ra rb p) 0 == nth j p 0.
Proof. exact rot_fixed. Qed.
Print Assumptions C13_rot_center_fixed.

(* non-vacuity: a concrete region satisfies the invariant; negative factor in place re-orders the corners,
   zero factor is refused by both forms, an odd quarter turn swaps the units *)
Example C13_nonvacuous :
  wf_region demo_region /\
  (exists r', rstep true (HScale (VScalar (-(1))) (RSeq [EReal 0; EReal 0; EReal 0])) demo_region = OK r' /\
     qlist_eqb (pmin r') [-(4); -(2); -(1)] = true /\ qlist_eqb (pmax r') [0; 0; 0] = true) /\
  is_ok (rstep true (HScale (VScalar 0) RNone) demo_region) = false /\
  is_ok (rstep false (HScale (VScalar 0) RNone) demo_region) = false /\
  (exists r', rstep true (HRot "x" "y" (KInt 1) RNone) demo_region = OK r' /\
     units r' = ["nm"%string; "m"%string; "s"%string] /\
     qlist_eqb (pmin r') [1; -(1); 0] = true /\ qlist_eqb (pmax r') [3; 3; 1] = true).
Proof. exact demo_steps. Qed.
