(* C14 — Subregions always stay inside, aligned with and measured in cells of their mesh.
   ONLY statements, each closed by [exact] of a lemma proved in proofs/, followed by
   Print Assumptions. *)
From DF Require Import Prelude Constants_gen Region Mesh Subregions
  C01_axis C14_setter C14_lattice C14_axis C14_sel C14_findings.
Open Scope Q_scope.

(* ---------- the setter ---------- *)
(* accepted iff every candidate passes the inside / whole-cell / lattice tests *)
Theorem C14_accept_iff : forall (tol : Q) (m : mesh) (l : list (string * region)),
  is_ok (set_subregions_tol tol m l) = true <-> Forall (fun nr => sub_ok tol m (snd nr) = true) l.
Proof. exact accept_iff. Qed.
Print Assumptions C14_accept_iff.

(* rejected candidates leave the previous dictionary (and the whole mesh) in place *)
Theorem C14_rejected_keeps_previous : forall (tol : Q) (m : mesh) (l : list (string * region)),
  is_ok (set_subregions_tol tol m l) = false -> assign_tol tol m l = m.
Proof. exact rejected_keeps. Qed.
Print Assumptions C14_rejected_keeps_previous.

(* accepted candidates are held in order with their own corners and the mesh's dims / units / tolerance *)
Theorem C14_accepted_recreated : forall (tol : Q) (m : mesh) (l : list (string * region)),
  is_ok (set_subregions_tol tol m l) = true ->
  let m' := assign_tol tol m l in
  reg m' = reg m /\ n m' = n m /\ bc m' = bc m /\
  map fst (subs m') = map fst l /\
  map (fun nr => pmin (snd nr)) (subs m') = map (fun nr => pmin (snd nr)) l /\
  map (fun nr => pmax (snd nr)) (subs m') = map (fun nr => pmax (snd nr)) l /\
  Forall (fun nr => dims (snd nr) = dims (reg m) /\ units (snd nr) = units (reg m) /\
                    tf (snd nr) = tf (reg m)) (subs m').
Proof. exact accepted_holds. Qed.
Print Assumptions C14_accepted_recreated.

(* ---------- the remainder test (shared by is_aligned and the whole-cell test) ---------- *)
(* passes iff the length is within the tolerance of a whole number of cells *)
Theorem C14_remainder_test : forall tol c e : Q, 0 < c ->
  bad_rem tol c e = false <-> exists k : Z, Qabs (e - inject_Z k * c) <= tol.
Proof. exact bad_rem_false_iff. Qed.
Print Assumptions C14_remainder_test.

(* ---------- Mesh.is_aligned ---------- *)
(* aligned iff the cell sizes agree (numpy.allclose, rtol 1e-5, atol = tolerance) and both corner
   differences are whole numbers of cells up to the tolerance, on every axis *)
Theorem C14_aligned_iff : forall (m o : mesh), wf_mesh m ->
  length (pmin (reg o)) = length (pmin (reg m)) -> length (pmax (reg o)) = length (pmin (reg m)) ->
  forall tol : Q,
  is_aligned_tol tol m o = true <->
  (length (cell m) = length (cell o) /\
   forall a, (a < length (pmin (reg m)))%nat ->
     Qabs (nth a (cell m) 0 - nth a (cell o) 0) <= tol + align_rtol * Qabs (nth a (cell o) 0)) /\
  (forall a, (a < length (pmin (reg m)))%nat ->
     near_multiple tol (nth a (cell m) 0) (Qabs (nth a (pmin (reg m)) 0 - nth a (pmin (reg o)) 0))) /\
  (forall a, (a < length (pmin (reg m)))%nat ->
     near_multiple tol (nth a (cell m) 0) (Qabs (nth a (pmax (reg m)) 0 - nth a (pmax (reg o)) 0))).
Proof. exact aligned_iff. Qed.
Print Assumptions C14_aligned_iff.

(* the hypothesis the criterion needs to mean "whole cells": with 2*tolerance < cell the number of
   cells is unique and a half-cell shift is rejected ... *)
Theorem C14_aligned_whole_cells_unique : forall (tol c e : Q) (k1 k2 : Z), 0 < c -> 2 * tol < c ->
  Qabs (e - inject_Z k1 * c) <= tol -> Qabs (e - inject_Z k2 * c) <= tol -> k1 = k2.
Proof. exact near_multiple_unique. Qed.
Print Assumptions C14_aligned_whole_cells_unique.

Theorem C14_half_cell_shift_rejected : forall (tol c : Q) (j : Z), 0 < c -> 0 <= tol -> 2 * tol < c ->
  bad_rem tol c (inject_Z j * c + c / 2) = true.
Proof. exact half_cell_off. Qed.
Print Assumptions C14_half_cell_shift_rejected.

Example C14_half_cell_shift_rejected_nonvacuous : 0 < 1 /\ 0 <= align_tol /\ 2 * align_tol < 1.
Proof. unfold align_tol, Constants_gen.align_tolerance_default. repeat split; lra. Qed.
Print Assumptions C14_half_cell_shift_rejected_nonvacuous.

Theorem C14_whole_cells_pass : forall (tol c : Q) (k : Z), 0 < c -> 0 <= tol ->
  bad_rem tol c (inject_Z k * c) = false.
Proof. exact whole_cells_pass. Qed.
Print Assumptions C14_whole_cells_pass.

(* ... and without it the test is blind: every offset passes (cells <= 2e-12 with the default 1e-12) *)
Theorem C14_blind_below_two_tolerances : forall tol c e : Q, c <= 2 * tol -> bad_rem tol c e = false.
Proof. exact blind_when_tol_half_cell. Qed.
Print Assumptions C14_blind_below_two_tolerances.

(* "aligned exactly when the origins differ by whole cells" is therefore refuted by the faithful model:
   1e-12 cells, origin shifted by half a cell, reported aligned; the shifted box is attached
   (known finding C14-abs-tolerance) *)
Theorem C14_aligned_exact_refuted :
  exists m o : mesh, wf_mesh m /\ wf_mesh o /\ is_aligned m o = true /\
    nth 0 (cell m) 0 == nth 0 (cell o) 0 /\
    nth 0 (pmin (reg o)) 0 - nth 0 (pmin (reg m)) 0 == (1 # 2) * nth 0 (cell m) 0.
Proof. exact aligned_exact_refuted. Qed.
Print Assumptions C14_aligned_exact_refuted.

Theorem C14_setter_exact_refuted :
  exists (m : mesh) (r : region), wf_mesh m /\
    is_ok (set_subregions m [("a"%string, r)]) = true /\
    nth 0 (pmin r) 0 - nth 0 (pmin (reg m)) 0 == (1 # 2) * nth 0 (cell m) 0.
Proof. exact setter_refuted. Qed.
Print Assumptions C14_setter_exact_refuted.

(* ---------- subregions made of whole cells of the mesh (one axis) ---------- *)
(* a box that consists of the cells j1 .. j2-1 passes all three tests of the setter for every
   tolerance setting, is counted as j2-j1 cells, and its extracted mesh has the parent's cell
   (mesh[name]: region = the subregion by construction, cell = parent cell) *)
Theorem C14_partial_accept_and_extract_axis : forall (lo hi : Q) (k : Z), lo < hi -> (0 < k)%Z ->
  forall slo shi : Q, ax_inv lo hi k slo shi ->
  forall rtol atol tolc tol : Q, 0 <= rtol -> 0 <= atol -> 0 <= tolc -> 0 <= tol ->
  let c := (hi - lo) / inject_Z k in
  contains1 rtol atol lo hi slo = true /\ contains1 rtol atol lo hi shi = true /\
  contains1 rtol atol slo shi (slo + c) = true /\
  bad_rem tolc c (shi - slo) = false /\
  (exists j : Z, (0 < j <= k)%Z /\ Qround_half_even ((shi - slo) / c) = j /\ (shi - slo) / inject_Z j == c) /\
  off_lattice tol c (lo - slo) = false /\ off_lattice tol c (hi - shi) = false.
Proof. exact exact_accepted. Qed.
Print Assumptions C14_partial_accept_and_extract_axis.

Example C14_ax_inv_nonvacuous : ax_inv 0 4 4 1 3.
Proof. exists 1%Z, 3%Z. split; [lia|]. split; reflexivity. Qed.
Print Assumptions C14_ax_inv_nonvacuous.

(* the whole-cell form is preserved by every affine map x -> a*x + b with a <> 0 applied to mesh and
   subregion alike, corners re-ordered: translate (a = 1), scale about a reference point
   (a = factor, b = ref*(1 - factor), also negative factors), the axis maps of rotate90 (a = +-1) *)
Theorem C14_partial_inv_preserved_axis : forall (lo hi : Q) (k : Z), lo < hi -> (0 < k)%Z ->
  forall slo shi : Q, ax_inv lo hi k slo shi ->
  forall a b : Q, ~ a == 0 ->
  ax_inv (Qmin (a * lo + b) (a * hi + b)) (Qmax (a * lo + b) (a * hi + b)) k
         (Qmin (a * slo + b) (a * shi + b)) (Qmax (a * slo + b) (a * shi + b)).
Proof. exact affine_inv. Qed.
Print Assumptions C14_partial_inv_preserved_axis.

(* ---------- range selection (one axis) ---------- *)
(* with the bounds Mesh.sel computes (centres of the first / last selected cell -/+ half a cell) a
   subregion of cells j1..j2-1 is kept iff it shares a cell with the selected cells i1..i2 *)
Theorem C14_partial_sel_exact_axis : forall (lo hi : Q) (k : Z), lo < hi -> (0 < k)%Z ->
  forall (slo shi : Q) (j1 j2 : Z), (0 <= j1 /\ j1 < j2 /\ j2 <= k)%Z ->
  slo == lo + inject_Z j1 * ((hi - lo) / inject_Z k) ->
  shi == lo + inject_Z j2 * ((hi - lo) / inject_Z k) ->
  forall i1 i2 : Z, (0 <= i1 /\ i1 <= i2 /\ i2 < k)%Z ->
  keeps lo hi k slo shi i1 i2 = true <-> (Z.max j1 i1 < Z.min j2 (i2 + 1))%Z.
Proof. exact sel_keeps_iff. Qed.
Print Assumptions C14_partial_sel_exact_axis.

(* a range ending exactly on a face of the subregion does not keep a sliver of it *)
Theorem C14_sel_face_dropped : forall (lo hi : Q) (k : Z), lo < hi -> (0 < k)%Z ->
  forall (slo shi : Q) (j1 j2 : Z), (0 <= j1 /\ j1 < j2 /\ j2 <= k)%Z ->
  slo == lo + inject_Z j1 * ((hi - lo) / inject_Z k) ->
  shi == lo + inject_Z j2 * ((hi - lo) / inject_Z k) ->
  forall i1 i2 : Z, (0 <= i1 /\ i1 <= i2 /\ i2 < k)%Z ->
  j2 = i1 \/ j1 = (i2 + 1)%Z -> keeps lo hi k slo shi i1 i2 = false.
Proof. exact sel_face_dropped. Qed.
Print Assumptions C14_sel_face_dropped.

(* what is kept is clipped to whole cells of the selected mesh (same cell size, i2+1-i1 cells) *)
Theorem C14_partial_sel_clip_axis : forall (lo hi : Q) (k : Z), lo < hi -> (0 < k)%Z ->
  forall (slo shi : Q) (j1 j2 : Z), (0 <= j1 /\ j1 < j2 /\ j2 <= k)%Z ->
  slo == lo + inject_Z j1 * ((hi - lo) / inject_Z k) ->
  shi == lo + inject_Z j2 * ((hi - lo) / inject_Z k) ->
  forall i1 i2 : Z, (0 <= i1 /\ i1 <= i2 /\ i2 < k)%Z ->
  keeps lo hi k slo shi i1 i2 = true ->
  let c := (hi - lo) / inject_Z k in
  let min_val := lo + (inject_Z i1 + (1 # 2)) * c - (1 # 2) * c in
  let max_val := lo + (inject_Z i2 + (1 # 2)) * c + (1 # 2) * c in
  ax_inv min_val max_val (i2 + 1 - i1) (Qmax min_val slo) (Qmin max_val shi).
Proof. exact sel_clip_inv. Qed.
Print Assumptions C14_partial_sel_clip_axis.

Example C14_sel_nonvacuous : keeps 0 4 4 1 3 2 3 = true /\ keeps 0 4 4 1 3 3 3 = false.
Proof. split; vm_compute; reflexivity. Qed.
Print Assumptions C14_sel_nonvacuous.
