(* C14 — Subregions always stay inside, aligned with and measured in cells of their mesh.
   ONLY statements, each closed by [exact] of a lemma proved in proofs/, followed by
   Print Assumptions. *)
From DF Require Import Prelude Constants_gen Region Mesh Subregions C14_setter.
Open Scope Q_scope.

(* the setter accepts a dictionary iff every candidate passes the inside / whole-cell / lattice tests *)
Theorem C14_accept_iff_tests : forall (tol : Q) (m : mesh) (l : list (string * region)),
  is_ok (set_subregions_tol tol m l) = true <-> Forall (fun nr => sub_ok tol m (snd nr) = true) l.
Proof. exact accept_iff. Qed.
Print Assumptions C14_accept_iff_tests.

(* rejected candidates leave the previous dictionary (and the whole mesh) in place *)
Theorem C14_rejected_keeps_previous : forall (tol : Q) (m : mesh) (l : list (string * region)),
  is_ok (set_subregions_tol tol m l) = false -> assign_tol tol m l = m.
Proof. exact rejected_keeps. Qed.
Print Assumptions C14_rejected_keeps_previous.

(* accepted candidates are held in order with their own corners and the mesh's dims / units *)
Theorem C14_accepted_recreated : forall (tol : Q) (m : mesh) (l : list (string * region)),
  is_ok (set_subregions_tol tol m l) = true ->
  let m' := assign_tol tol m l in
  reg m' = reg m /\ n m' = n m /\ bc m' = bc m /\
  map fst (subs m') = map fst l /\
  map (fun nr => pmin (snd nr)) (subs m') = map (fun nr => pmin (snd nr)) l /\
  map (fun nr => pmax (snd nr)) (subs m') = map (fun nr => pmax (snd nr)) l /\
  Forall (fun nr => dims (snd nr) = dims (reg m) /\ units (snd nr) = units (reg m) /\
                    tf (snd nr) = tf (reg m)) (subs m').
Proof. exact accepted_holds. Qed.
Print Assumptions C14_accepted_recreated.
