(* C14 — Subregions always stay inside, aligned with and measured in cells of their mesh.
   ONLY statements, each closed by [exact] of a lemma proved in proofs/, followed by
   Print Assumptions. *)
From DF Require Import Prelude Constants_gen Region Mesh Subregions
  C01_axis C14_setter C14_lattice C14_axis C14_sel C14_findings Check_C14 C14_sound.
Open Scope Q_scope.

(* ---------- the setter ---------- *)
(* accepted iff every candidate passes the inside / whole-cell / lattice tests *)
Theorem C14_accept_iff : forall (tol : Q) (m : mesh) (l : list (string * region)),
  is_ok (set_subregions_tol tol m l) = true <-> Forall (fun nr => sub_ok tol m (snd nr) = true) l.
Proof. exact accept_iff. Qed.
Print Assumptions C14_accept_iff.

(* rejected candidates leave the previous dictionary (and the whole mesh) in place *)
Theorem C14_rejected_keeps_previous : forall (tol : Q) (m : mesh) (l : list (string * region)),
  is_ok (set_subregions_tol tol m l) = false -> assign_tol tol m l = m.
Proof. exact rejected_keeps. Qed.
Print Assumptions C14_rejected_keeps_previous.

(* accepted candidates are held in order with their own corners and the mesh's dims / units / tolerance *)
Theorem C14_accepted_recreated : forall (tol : Q) (m : mesh) (l : list (string * region)),
  is_ok (set_subregions_tol tol m l) = true ->
  let m' := assign_tol tol m l in
  reg m' = reg m /\ n m' = n m /\ bc m' = bc m /\
  map fst (subs m') = map fst l /\
  map (fun nr => pmin (snd nr)) (subs m') = map (fun nr => pmin (snd nr)) l /\
  map (fun nr => pmax (snd nr)) (subs m') = map (fun nr => pmax (snd nr)) l /\
  Forall (fun nr => dims (snd nr) = dims (reg m) /\ units (snd nr) = units (reg m) /\
                    tf (snd nr) = tf (reg m)) (subs m').
Proof. exact accepted_holds. Qed.
Print Assumptions C14_accepted_recreated.

(* ---------- the remainder test (shared by is_aligned and the whole-cell test) ---------- *)
(* passes iff the length is within the tolerance of a whole number of cells *)
Theorem C14_remainder_test : forall tol c e : Q, 0 < c ->
  bad_rem tol c e = false <-> exists k : Z, Qabs (e - inject_Z k * c) <= tol.
Proof. exact bad_rem_false_iff. Qed.
Print Assumptions C14_remainder_test.

(* ---------- Mesh.is_aligned ---------- *)
(* aligned iff the cell sizes agree (numpy.allclose, rtol 1e-5, atol = tolerance) and both corner
   differences are whole numbers of cells up to the tolerance, on every axis *)
Theorem C14_aligned_iff : forall (m o : mesh), wf_mesh m ->
  length (pmin (reg o)) = length (pmin (reg m)) -> length (pmax (reg o)) = length (pmin (reg m)) ->
  forall tol : Q,
  is_aligned_tol tol m o = true <->
  (length (cell m) = length (cell o) /\
   forall a, (a < length (pmin (reg m)))%nat ->
     Qabs (nth a (cell m) 0 - nth a (cell o) 0) <= tol + align_rtol * Qabs (nth a (cell o) 0)) /\
  (forall a, (a < length (pmin (reg m)))%nat ->
     near_multiple tol (nth a (cell m) 0) (Qabs (nth a (pmin (reg m)) 0 - nth a (pmin (reg o)) 0))) /\
  (forall a, (a < length (pmin (reg m)))%nat ->
     near_multiple tol (nth a (cell m) 0) (Qabs (nth a (pmax (reg m)) 0 - nth a (pmax (reg o)) 0))).
Proof. exact aligned_iff. Qed.
Print Assumptions C14_aligned_iff.

(* the hypothesis the criterion needs to mean "whole cells": with 2*tolerance < cell the number of
   cells is unique and a half-cell shift is rejected ... *)
Theorem C14_aligned_whole_cells_unique : forall (tol c e : Q) (k1 k2 : Z), 0 < c -> 2 * tol < c ->
  Qabs (e - inject_Z k1 * c) <= tol -> Qabs (e - inject_Z k2 * c) <= tol -> k1 = k2.
Proof. exact near_multiple_unique. Qed.
Print Assumptions C14_aligned_whole_cells_unique.

Theorem C14_half_cell_shift_rejected : forall (tol c : Q) (j : Z), 0 < c -> 0 <= tol -> 2 * tol < c ->
  bad_rem tol c (inject_Z j * c + c / 2) = true.
Proof. exact half_cell_off. Qed.
Print Assumptions C14_half_cell_shift_rejected.

Example C14_half_cell_shift_rejected_nonvacuous : 0 < 1 /\ 0 <= align_tol /\ 2 * align_tol < 1.
Proof. unfold align_tol, Constants_gen.align_tolerance_default. repeat split; lra. Qed.
Print Assumptions C14_half_cell_shift_rejected_nonvacuous.

Theorem C14_whole_cells_pass : forall (tol c : Q) (k : Z), 0 < c -> 0 <= tol ->
  bad_rem tol c (inject_Z k * c) = false.
Proof. exact whole_cells_pass. Qed.
Print Assumptions C14_whole_cells_pass.

(* ... and without it the test is blind: every offset passes (cells <= 2e-12 with the default 1e-12) *)
Theorem C14_blind_below_two_tolerances : forall tol c e : Q, c <= 2 * tol -> bad_rem tol c e = false.
Proof. exact blind_when_tol_half_cell. Qed.
Print Assumptions C14_blind_below_two_tolerances.

(* "aligned exactly when the origins differ by whole cells" is therefore refuted by the faithful model:
   1e-12 cells, origin shifted by half a cell, reported aligned; the shifted box is attached
   (known finding C14-abs-tolerance) *)
Theorem C14_aligned_exact_refuted :
  exists m o : mesh, wf_mesh m /\ wf_mesh o /\ is_aligned m o = true /\
    nth 0 (cell m) 0 == nth 0 (cell o) 0 /\
    nth 0 (pmin (reg o)) 0 - nth 0 (pmin (reg m)) 0 == (1 # 2) * nth 0 (cell m) 0.
Proof. exact aligned_exact_refuted. Qed.
Print Assumptions C14_aligned_exact_refuted.

Theorem C14_setter_exact_refuted :
  exists (m : mesh) (r : region), wf_mesh m /\
    is_ok (set_subregions m [("a"%string, r)]) = true /\
    nth 0 (pmin r) 0 - nth 0 (pmin (reg m)) 0 == (1 # 2) * nth 0 (cell m) 0.
Proof. exact setter_refuted. Qed.
Print Assumptions C14_setter_exact_refuted.

(* ---------- subregions made of whole cells of the mesh (one axis) ---------- *)
(* a box that consists of the cells j1 .. j2-1 passes all three tests of the setter for every
   tolerance setting, is counted as j2-j1 cells, and its extracted mesh has the parent's cell
   (mesh[name]: region = the subregion by construction, cell = parent cell) *)
Theorem C14_partial_accept_and_extract_axis : forall (lo hi : Q) (k : Z), lo < hi -> (0 < k)%Z ->
  forall slo shi : Q, ax_inv lo hi k slo shi ->
  forall rtol atol tolc tol : Q, 0 <= rtol -> 0 <= atol -> 0 <= tolc -> 0 <= tol ->
  let c := (hi - lo) / inject_Z k in
  contains1 rtol atol lo hi slo = true /\ contains1 rtol atol lo hi shi = true /\
  contains1 rtol atol slo shi (slo + c) = true /\
  bad_rem tolc c (shi - slo) = false /\
  (exists j : Z, (0 < j <= k)%Z /\ Qround_half_even ((shi - slo) / c) = j /\ (shi - slo) / inject_Z j == c) /\
  off_lattice tol c (lo - slo) = false /\ off_lattice tol c (hi - shi) = false.
Proof. exact exact_accepted. Qed.
Print Assumptions C14_partial_accept_and_extract_axis.

Example C14_ax_inv_nonvacuous : ax_inv 0 4 4 1 3.
Proof. exists 1%Z, 3%Z. split; [lia|]. split; reflexivity. Qed.
Print Assumptions C14_ax_inv_nonvacuous.

(* the whole-cell form is preserved by every affine map x -> a*x + b with a <> 0 applied to mesh and
   subregion alike, corners re-ordered: translate (a = 1), scale about a reference point
   (a = factor, b = ref*(1 - factor), also negative factors), the axis maps of rotate90 (a = +-1) *)
Theorem C14_partial_inv_preserved_axis : forall (lo hi : Q) (k : Z), lo < hi -> (0 < k)%Z ->
  forall slo shi : Q, ax_inv lo hi k slo shi ->
  forall a b : Q, ~ a == 0 ->
  ax_inv (Qmin (a * lo + b) (a * hi + b)) (Qmax (a * lo + b) (a * hi + b)) k
         (Qmin (a * slo + b) (a * shi + b)) (Qmax (a * slo + b) (a * shi + b)).
Proof. exact affine_inv. Qed.
Print Assumptions C14_partial_inv_preserved_axis.

(* ---------- range selection (one axis) ---------- *)
(* with the bounds Mesh.sel computes (centres of the first / last selected cell -/+ half a cell) a
   subregion of cells j1..j2-1 is kept iff it shares a cell with the selected cells i1..i2 *)
Theorem C14_partial_sel_exact_axis : forall (lo hi : Q) (k : Z), lo < hi -> (0 < k)%Z ->
  forall (slo shi : Q) (j1 j2 : Z), (0 <= j1 /\ j1 < j2 /\ j2 <= k)%Z ->
  slo == lo + inject_Z j1 * ((hi - lo) / inject_Z k) ->
  shi == lo + inject_Z j2 * ((hi - lo) / inject_Z k) ->
  forall i1 i2 : Z, (0 <= i1 /\ i1 <= i2 /\ i2 < k)%Z ->
  keeps lo hi k slo shi i1 i2 = true <-> (Z.max j1 i1 < Z.min j2 (i2 + 1))%Z.
Proof. exact sel_keeps_iff. Qed.
Print Assumptions C14_partial_sel_exact_axis.

(* a range ending exactly on a face of the subregion does not keep a sliver of it *)
Theorem C14_sel_face_dropped : forall (lo hi : Q) (k : Z), lo < hi -> (0 < k)%Z ->
  forall (slo shi : Q) (j1 j2 : Z), (0 <= j1 /\ j1 < j2 /\ j2 <= k)%Z ->
  slo == lo + inject_Z j1 * ((hi - lo) / inject_Z k) ->
  shi == lo + inject_Z j2 * ((hi - lo) / inject_Z k) ->
  forall i1 i2 : Z, (0 <= i1 /\ i1 <= i2 /\ i2 < k)%Z ->
  j2 = i1 \/ j1 = (i2 + 1)%Z -> keeps lo hi k slo shi i1 i2 = false.
Proof. exact sel_face_dropped. Qed.
Print Assumptions C14_sel_face_dropped.

(* what is kept is clipped to whole cells of the selected mesh (same cell size, i2+1-i1 cells) *)
Theorem C14_partial_sel_clip_axis : forall (lo hi : Q) (k : Z), lo < hi -> (0 < k)%Z ->
  forall (slo shi : Q) (j1 j2 : Z), (0 <= j1 /\ j1 < j2 /\ j2 <= k)%Z ->
  slo == lo + inject_Z j1 * ((hi - lo) / inject_Z k) ->
  shi == lo + inject_Z j2 * ((hi - lo) / inject_Z k) ->
  forall i1 i2 : Z, (0 <= i1 /\ i1 <= i2 /\ i2 < k)%Z ->
  keeps lo hi k slo shi i1 i2 = true ->
  let c := (hi - lo) / inject_Z k in
  let min_val := lo + (inject_Z i1 + (1 # 2)) * c - (1 # 2) * c in
  let max_val := lo + (inject_Z i2 + (1 # 2)) * c + (1 # 2) * c in
  ax_inv min_val max_val (i2 + 1 - i1) (Qmax min_val slo) (Qmin max_val shi).
Proof. exact sel_clip_inv. Qed.
Print Assumptions C14_partial_sel_clip_axis.

Example C14_sel_nonvacuous : keeps 0 4 4 1 3 2 3 = true /\ keeps 0 4 4 1 3 3 3 = false.
Proof. split; vm_compute; reflexivity. Qed.
Print Assumptions C14_sel_nonvacuous.

(* ---------- the tie, proved: a shard case that evaluates to true certifies that the OBSERVED
   output is the model's value on the recorded input (exact regime: equal decisions, == corners;
   either regime: see the *_any_regime statements) ---------- *)
(* the meshes the checker builds from recorded inputs are well-formed *)
Theorem C14_checker_mesh_wf : forall p1 p2 ns m, mesh_of p1 p2 ns = OK m -> (length p1 <= 10)%nat ->
  wf_mesh m /\ length (pmin (reg m)) = length p1 /\ length (pmax (reg m)) = length p1.
Proof. exact mesh_of_wf. Qed.
Print Assumptions C14_checker_mesh_wf.
Theorem C14_checker_state_wf : forall s m, build_state s = OK m -> 0 <= s_tf s -> wf_mesh m.
Proof. exact build_state_wf. Qed.
Print Assumptions C14_checker_state_wf.

Theorem C14_check_aligned_sound : forall p1 p2 n1 q1 q2 n2 tol obs,
  check_C14 (CAligned true p1 p2 n1 q1 q2 n2 tol obs) = true ->
  exists m o, mesh_of p1 p2 n1 = OK m /\ mesh_of q1 q2 n2 = OK o /\ obs = is_aligned_tol tol m o.
Proof. exact check_aligned_sound. Qed.
Print Assumptions C14_check_aligned_sound.

Theorem C14_check_setter_sound : forall s cands obs_acc obs_subs,
  check_C14 (CSetter true s cands obs_acc obs_subs) = true ->
  exists m l, build_state s = OK m /\ mapres cand_region cands = OK l /\
    obs_acc = is_ok (set_subregions_tol align_tol m l) /\
    subs_rel true (scales m) (subs (assign_tol align_tol m l)) obs_subs.
Proof. exact check_setter_sound. Qed.
Print Assumptions C14_check_setter_sound.

Theorem C14_check_transform_sound : forall s inplace o obs,
  check_C14 (CTransform true s inplace o obs) = true ->
  exists m, build_state s = OK m /\ res_rel (transform_tol align_tol inplace o m) obs.
Proof. exact check_transform_sound. Qed.
Print Assumptions C14_check_transform_sound.

Theorem C14_check_sel_plane_sound : forall s a v obs,
  check_C14 (CSelPlane true s a v obs) = true ->
  exists m, build_state s = OK m /\ res_rel (sel_plane_tol align_tol m a v) obs.
Proof. exact check_sel_plane_sound. Qed.
Print Assumptions C14_check_sel_plane_sound.

Theorem C14_check_sel_range_sound : forall s a x1 x2 obs,
  check_C14 (CSelRange true s a x1 x2 obs) = true ->
  exists m, build_state s = OK m /\ res_rel (sel_range_tol align_tol m a x1 x2) obs.
Proof. exact check_sel_range_sound. Qed.
Print Assumptions C14_check_sel_range_sound.

Theorem C14_check_named_sound_any_regime : forall exact s name obs,
  check_C14 (CNamed exact s name obs) = true ->
  exists m, build_state s = OK m /\
    match obs with
    | Some o => exists sm, named m name = OK sm /\ mesh_rel exact sm o
    | None => is_ok (named m name) = false
    end.
Proof. exact check_named_sound. Qed.
Print Assumptions C14_check_named_sound_any_regime.

Theorem C14_check_persist_h5_sound : forall s obs,
  check_C14 (CPersistH5 true s obs) = true ->
  exists m, build_state s = OK m /\
    res_rel (h5_load_tol align_tol (mkMesh (reg m) (n m) (bc m) []) (h5_rows (subs m))) obs.
Proof. exact check_persist_h5_sound. Qed.
Print Assumptions C14_check_persist_h5_sound.

Theorem C14_check_persist_json_sound : forall src dst obs_acc obs_subs,
  check_C14 (CPersistJson true src dst obs_acc obs_subs) = true ->
  exists ms md, build_state src = OK ms /\ build_state dst = OK md /\
    obs_acc = is_ok (json_load_tol align_tol md (subs ms)) /\
    subs_rel true (scales md)
      (match json_load_tol align_tol md (subs ms) with OK m' => subs m' | Err _ => subs md end) obs_subs.
Proof. exact check_persist_json_sound. Qed.
Print Assumptions C14_check_persist_json_sound.

(* either regime: decisions are certified where the model's answer is the same at tolerance -/+ the
   rounding allowance; corners within 1e-9 of the axis scale (mesh_rel false / subs_rel false) *)
Theorem C14_check_aligned_sound_any_regime : forall exact p1 p2 n1 q1 q2 n2 tol obs,
  check_C14 (CAligned exact p1 p2 n1 q1 q2 n2 tol obs) = true ->
  exists m o, mesh_of p1 p2 n1 = OK m /\ mesh_of q1 q2 n2 = OK o /\
    let d := delta exact (reg_coords (reg m) ++ reg_coords (reg o)) in
    (is_aligned_tol (tol - d) m o = is_aligned_tol (tol + d) m o -> obs = is_aligned_tol (tol - d) m o).
Proof. exact check_aligned_sound_gen. Qed.
Print Assumptions C14_check_aligned_sound_any_regime.

Theorem C14_check_setter_sound_any_regime : forall exact s cands obs_acc obs_subs,
  check_C14 (CSetter exact s cands obs_acc obs_subs) = true ->
  exists m l, build_state s = OK m /\ mapres cand_region cands = OK l /\
    let d := delta exact (reg_coords (reg m) ++ subs_coords l) in
    (is_ok (set_subregions_tol (align_tol - d) m l) = is_ok (set_subregions_tol (align_tol + d) m l) ->
     obs_acc = is_ok (set_subregions_tol (align_tol - d) m l)) /\
    subs_rel exact (scales m)
      (if obs_acc then map (fun nr => (fst nr, recreate m (snd nr))) l else subs m) obs_subs.
Proof. exact check_setter_sound_gen. Qed.
Print Assumptions C14_check_setter_sound_any_regime.

Theorem C14_check_sel_plane_sound_any_regime : forall exact s a v obs,
  check_C14 (CSelPlane exact s a v obs) = true ->
  exists m, build_state s = OK m /\
    let d := delta exact (reg_coords (reg m)) in
    res_rel_tol exact (sel_plane_tol (align_tol - d) m a v) (sel_plane_tol (align_tol + d) m a v) obs.
Proof. exact check_sel_plane_sound_gen. Qed.
Print Assumptions C14_check_sel_plane_sound_any_regime.

Theorem C14_check_sel_range_sound_any_regime : forall exact s a x1 x2 obs,
  check_C14 (CSelRange exact s a x1 x2 obs) = true ->
  exists m, build_state s = OK m /\
    let d := delta exact (reg_coords (reg m)) in
    res_rel_tol exact (sel_range_tol (align_tol - d) m a x1 x2) (sel_range_tol (align_tol + d) m a x1 x2) obs.
Proof. exact check_sel_range_sound_gen. Qed.
Print Assumptions C14_check_sel_range_sound_any_regime.

Theorem C14_check_persist_h5_sound_any_regime : forall exact s obs,
  check_C14 (CPersistH5 exact s obs) = true ->
  exists m, build_state s = OK m /\
    let d := delta exact (reg_coords (reg m)) in
    let m0 := mkMesh (reg m) (n m) (bc m) [] in
    res_rel_tol exact (h5_load_tol (align_tol - d) m0 (h5_rows (subs m)))
                      (h5_load_tol (align_tol + d) m0 (h5_rows (subs m))) obs.
Proof. exact check_persist_h5_sound_gen. Qed.
Print Assumptions C14_check_persist_h5_sound_any_regime.

Theorem C14_check_transform_sound_any_regime : forall exact s inplace o ob,
  check_C14 (CTransform exact s inplace o (Some ob)) = true ->
  exists m, build_state s = OK m /\
    let d0 := delta exact (reg_coords (reg m) ++ op_coords o) in
    let d := delta exact (reg_coords (reg m) ++ op_coords o ++
                          res_coords (transform_tol (align_tol + d0) true o m)) in
    res_rel_tol exact (transform_tol (align_tol - d) inplace o m) (transform_tol (align_tol + d) inplace o m) (Some ob).
Proof. exact check_transform_sound_gen. Qed.
Print Assumptions C14_check_transform_sound_any_regime.

(* the name -> box comparison is onto when the model's names are distinct (a dictionary):
   the observed names are distinct too and every OBSERVED entry is one of the model's *)
Theorem C14_subs_rel_onto : forall exact sc l o, subs_rel exact sc l o -> NoDup (map fst l) ->
  NoDup (map (fun ob : sub_obs => fst (fst ob)) o) /\
  forall ob, In ob o -> exists nr, In nr l /\ sub_rel exact sc nr ob.
Proof. exact subs_rel_onto. Qed.
Print Assumptions C14_subs_rel_onto.

(* a whole shard: no failing index means every case was accepted *)
Theorem C14_shard_verdict : forall cases k,
  failing k (map check_C14 cases) = [] -> forall c, In c cases -> check_C14 c = true.
Proof. exact shard_verdict. Qed.
Print Assumptions C14_shard_verdict.

(* ---------- transfer: the theorems above, stated about the OBSERVED outputs ---------- *)
(* C14_accept_iff + C14_rejected_keeps_previous + C14_accepted_recreated on the observed decision and
   the observed table of the subregions setter *)
Theorem C14_accepted_setter_transfer : forall s cands obs_acc obs_subs,
  check_C14 (CSetter true s cands obs_acc obs_subs) = true ->
  exists m l, build_state s = OK m /\ mapres cand_region cands = OK l /\
    (obs_acc = true <-> Forall (fun nr => sub_ok align_tol m (snd nr) = true) l) /\
    (obs_acc = false -> subs_rel true (scales m) (subs m) obs_subs) /\
    (obs_acc = true ->
       length obs_subs = length l /\
       forall nr, In nr l -> exists ob, In ob obs_subs /\
         fst (fst ob) = fst nr /\
         Forall2 Qeq (pmin (snd nr)) (fst (snd (fst ob))) /\
         Forall2 Qeq (pmax (snd nr)) (snd (snd (fst ob))) /\
         fst (snd ob) = dims (reg m) /\ snd (snd ob) = units (reg m)).
Proof. exact accepted_setter_transfer. Qed.
Print Assumptions C14_accepted_setter_transfer.

(* C14_aligned_iff on the observed answer of Mesh.is_aligned; well-formedness comes from the constructors *)
Theorem C14_accepted_aligned_transfer : forall p1 p2 n1 q1 q2 n2 tol obs,
  check_C14 (CAligned true p1 p2 n1 q1 q2 n2 tol obs) = true ->
  (length p1 <= 10)%nat -> length q1 = length p1 ->
  exists m o, mesh_of p1 p2 n1 = OK m /\ mesh_of q1 q2 n2 = OK o /\ wf_mesh m /\ wf_mesh o /\
    (obs = true <->
     (length (cell m) = length (cell o) /\
      forall a, (a < length (pmin (reg m)))%nat ->
        Qabs (nth a (cell m) 0 - nth a (cell o) 0) <= tol + align_rtol * Qabs (nth a (cell o) 0)) /\
     (forall a, (a < length (pmin (reg m)))%nat ->
        near_multiple tol (nth a (cell m) 0) (Qabs (nth a (pmin (reg m)) 0 - nth a (pmin (reg o)) 0))) /\
     (forall a, (a < length (pmin (reg m)))%nat ->
        near_multiple tol (nth a (cell m) 0) (Qabs (nth a (pmax (reg m)) 0 - nth a (pmax (reg o)) 0)))).
Proof. exact accepted_aligned_transfer. Qed.
Print Assumptions C14_accepted_aligned_transfer.

(* mesh[name]: the observed mesh has the corners, dims and units of the named subregion and its
   cell count measured in cells of the parent; it carries no subregions *)
Theorem C14_accepted_named_transfer : forall s name o,
  check_C14 (CNamed true s name (Some o)) = true ->
  exists m r, build_state s = OK m /\ lookup name (subs m) = Some r /\
    Forall2 Qeq (pmin r) (o_pmin o) /\ Forall2 Qeq (pmax r) (o_pmax o) /\
    o_n o = map2 (fun e x => Qround_half_even (e / x)) (edges r) (cell m) /\
    o_dims o = dims r /\ o_units o = units r /\ o_subs o = [].
Proof. exact accepted_named_transfer. Qed.
Print Assumptions C14_accepted_named_transfer.

(* non-vacuity: concrete accepted cases *)
Example C14_accepted_aligned_instance :
  check_C14 (CAligned true [0; 0] [4; 2] [4; 2]%Z [1; 0] [3; 1] [2; 1]%Z (1 # 1000000000000) true) = true.
Proof. exact accepted_aligned_instance. Qed.
Print Assumptions C14_accepted_aligned_instance.
Example C14_rejected_aligned_instance :
  check_C14 (CAligned true [0] [4] [4]%Z [1 # 2] [5 # 2] [2]%Z (1 # 1000000000000) false) = true.
Proof. exact rejected_aligned_instance. Qed.
Print Assumptions C14_rejected_aligned_instance.
Example C14_accepted_setter_instance :
  check_C14 (CSetter true (mkSt [0] [4] [4]%Z (1 # 1000000000000) ["x"%string] ["m"%string] [])
               [("a"%string, ([1], [3]), 1 # 1000000000000)] true
               [("a"%string, ([1], [3]), (["x"%string], ["m"%string]))]) = true.
Proof. exact accepted_setter_instance. Qed.
Print Assumptions C14_accepted_setter_instance.
Example C14_rejected_setter_instance :
  check_C14 (CSetter true (mkSt [0] [4] [4]%Z (1 # 1000000000000) ["x"%string] ["m"%string]
                                [("old"%string, ([0], [2]))])
               [("a"%string, ([1 # 2], [3]), 1 # 1000000000000)] false
               [("old"%string, ([0], [2]), (["x"%string], ["m"%string]))]) = true.
Proof. exact rejected_setter_instance. Qed.
Print Assumptions C14_rejected_setter_instance.
Example C14_accepted_named_instance :
  check_C14 (CNamed true (mkSt [0] [4] [4]%Z (1 # 1000000000000) ["x"%string] ["m"%string]
                               [("a"%string, ([1], [3]))]) "a"
               (Some (mkObs [1] [3] [2]%Z ["x"%string] ["m"%string] []))) = true.
Proof. exact accepted_named_instance. Qed.
Print Assumptions C14_accepted_named_instance.
