(* C15 — Setting a norm rescales non-zero vectors only; orientation is the unit field.
   Statements only.  K is an arbitrary field (FLaws K); the length n of a cell enters through its
   defining equation n*n = sum of squares ("squared form"), so these statements hold for the reals
   with n = sqrt(..) (the *_R corollaries) and for the executable rational instance with n = qsqrt(..). *)
From Coq Require Import Qcanon.
From DF Require Import Prelude FieldK NDArray Region Mesh Norm C15_cell.

(* --- the setter on one cell: v' = (t/|v|) v, squared length t^2, parallel to v --- *)
Theorem C15_set_scaling : forall (K : FOps), FLaws K -> forall (is0 : K -> bool) (n t : K) (v : list K),
  is0 n = false -> n <> f0 K -> set_cell is0 n t v = map (fmul (fdiv t n)) v.
Proof. exact set_cell_scaling. Qed.
Print Assumptions C15_set_scaling.

Theorem C15_set_length_sq : forall (K : FOps), FLaws K -> forall (is0 : K -> bool) (n t : K) (v : list K),
  fmul n n = sumsq K v -> n <> f0 K -> is0 n = false ->
  sumsq K (set_cell is0 n t v) = fmul t t.
Proof. exact set_cell_sumsq. Qed.
Print Assumptions C15_set_length_sq.

Theorem C15_zero_stays_zero : forall (K : FOps), FLaws K -> forall (is0 : K -> bool) (n t : K) (v : list K),
  Forall (fun x => x = f0 K) v -> set_cell is0 n t v = zeros v.
Proof. exact set_cell_zero. Qed.
Print Assumptions C15_zero_stays_zero.
