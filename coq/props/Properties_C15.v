(* C15 — Setting a norm rescales non-zero vectors only; orientation is the unit field.
   Statements only.

   Layer 1 (closed under the global context): K is an arbitrary field (FLaws K); the length n of
   a cell enters through its defining equation n*n = sum of squares ("squared form"), the zero tests
   of the code are arbitrary Boolean functions constrained only where the statement needs it.
   Layer 2 (Coq.Reals axioms): K := R, n := sqrt (sum of squares) — the property as worded.
   Layer 3: the executable instance (Qc, exact partial rational root qsqrt) meets the hypotheses of
   layer 1, and qsqrt is the real square root where defined (bridge). *)
From DF Require Import Prelude FieldK NDArray Region Mesh Norm C15_cell C15_qsqrt C15_real C15_exec Check_C15 CheckSound C15_sound.
From Coq Require Import Qcanon Reals.

(* ===== layer 1: any field, squared form ===== *)

(* the setter on one cell: v' = (t/|v|) v *)
Theorem C15_set_scaling : forall (K : FOps), FLaws K -> forall (is0 : K -> bool) (n t : K) (v : list K),
  is0 n = false -> n <> f0 K -> set_cell is0 n t v = map (fmul (fdiv t n)) v.
Proof. exact set_cell_scaling. Qed.
Print Assumptions C15_set_scaling.

(* |v'|^2 = t^2 *)
Theorem C15_set_length_sq : forall (K : FOps), FLaws K -> forall (is0 : K -> bool) (n t : K) (v : list K),
  fmul n n = sumsq K v -> n <> f0 K -> is0 n = false ->
  sumsq K (set_cell is0 n t v) = fmul t t.
Proof. exact set_cell_sumsq. Qed.
Print Assumptions C15_set_length_sq.

(* v' parallel to v: every 2x2 minor of (v'; v) vanishes *)
Theorem C15_set_parallel : forall (K : FOps), FLaws K -> forall (is0 : K -> bool) (n t : K) (v : list K) i j,
  is0 n = false -> n <> f0 K ->
  fmul (nth i (set_cell is0 n t v) (f0 K)) (nth j v (f0 K))
  = fmul (nth j (set_cell is0 n t v) (f0 K)) (nth i v (f0 K)).
Proof. exact set_cell_parallel. Qed.
Print Assumptions C15_set_parallel.

(* a zero cell stays zero whatever the target, the computed length and the zero test are *)
Theorem C15_zero_stays_zero : forall (K : FOps), FLaws K -> forall (is0 : K -> bool) (n t : K) (v : list K),
  Forall (fun x => x = f0 K) v -> set_cell is0 n t v = zeros v.
Proof. exact set_cell_zero. Qed.
Print Assumptions C15_zero_stays_zero.

(* target zero ("zero in places") makes the cell zero – which then stays zero *)
Theorem C15_target_zero : forall (K : FOps), FLaws K -> forall (is0 : K -> bool) (n : K) (v : list K),
  set_cell is0 n (f0 K) v = zeros v.
Proof. exact set_cell_target_zero. Qed.
Print Assumptions C15_target_zero.

(* two assignments in a row: only the direction of the first survives *)
Theorem C15_set_twice : forall (K : FOps), FLaws K -> forall (is0 : K -> bool) (n t n' t' : K) (v : list K),
  is0 n = false -> n <> f0 K -> is0 n' = false -> n' <> f0 K ->
  set_cell is0 n' t' (set_cell is0 n t v) = map (fmul (fmul (fdiv t' n') (fdiv t n))) v.
Proof. exact set_cell_twice. Qed.
Print Assumptions C15_set_twice.

(* orientation: unit length (squared) outside the threshold, zero inside *)
Theorem C15_orientation_unit_sq : forall (K : FOps), FLaws K -> forall (close0 : K -> bool) (n : K) (v : list K),
  fmul n n = sumsq K v -> n <> f0 K -> close0 n = false ->
  sumsq K (unit_cell close0 n v) = f1 K.
Proof. exact unit_cell_sumsq. Qed.
Print Assumptions C15_orientation_unit_sq.

Theorem C15_orientation_zero : forall (K : FOps) (close0 : K -> bool) (n : K) (v : list K),
  close0 n = true -> unit_cell close0 n v = zeros v.
Proof. exact unit_cell_small. Qed.
Print Assumptions C15_orientation_zero.

(* orientation times norm reproduces the field (outside the threshold; inside it gives zero) *)
Theorem C15_orientation_times_norm : forall (K : FOps), FLaws K -> forall (close0 : K -> bool) (n : K) (v : list K),
  close0 n = false -> n <> f0 K -> scale_cell n (unit_cell close0 n v) = v.
Proof. exact unit_times_norm. Qed.
Print Assumptions C15_orientation_times_norm.

Theorem C15_orientation_times_norm_below_threshold : forall (K : FOps), FLaws K ->
  forall (close0 : K -> bool) (n : K) (v : list K),
  close0 n = true -> scale_cell n (unit_cell close0 n v) = zeros v.
Proof. exact unit_times_norm_small. Qed.
Print Assumptions C15_orientation_times_norm_below_threshold.

(* --- field level: metadata and cell-wise action (any K, any length function) --- *)
Theorem C15_norm_field : forall (K : FOps) (nrm : list K -> K) (f : field K),
  f_mesh (norm_field nrm f) = f_mesh f /\ f_nvdim (norm_field nrm f) = 1%nat /\
  f_unit (norm_field nrm f) = f_unit f /\ f_valid (norm_field nrm f) = f_valid f /\
  f_arr (norm_field nrm f) = map (fun v => [nrm v]) (f_arr f).
Proof. exact norm_field_meta. Qed.
Print Assumptions C15_norm_field.

Theorem C15_orientation_field : forall (K : FOps) (nrm : list K -> K) (close0 : K -> bool) (f : field K),
  f_mesh (orientation nrm close0 f) = f_mesh f /\ f_nvdim (orientation nrm close0 f) = f_nvdim f /\
  f_valid (orientation nrm close0 f) = f_valid f /\
  f_arr (orientation nrm close0 f) = map (fun v => unit_cell close0 (nrm v) v) (f_arr f).
Proof. exact orientation_meta. Qed.
Print Assumptions C15_orientation_field.

Theorem C15_set_norm_keeps_metadata : forall (K : FOps) (nrm : list K -> K) (is0 : K -> bool) (f f' : field K) s,
  set_norm nrm is0 f s = OK f' ->
  exists ts, spec_values (f_mesh f) s = OK ts /\
    f_mesh f' = f_mesh f /\ f_nvdim f' = f_nvdim f /\ f_unit f' = f_unit f /\ f_valid f' = f_valid f /\
    f_arr f' = map2 (fun v t => set_cell is0 (nrm v) t v) (f_arr f) ts.
Proof. exact set_norm_ok. Qed.
Print Assumptions C15_set_norm_keeps_metadata.

Theorem C15_set_norm_cellwise : forall (K : FOps) (nrm : list K -> K) (is0 : K -> bool) (f f' : field K) s ts j,
  set_norm nrm is0 f s = OK f' -> spec_values (f_mesh f) s = OK ts ->
  (j < length (f_arr f))%nat -> (j < length ts)%nat ->
  nth j (f_arr f') [] = set_cell is0 (nrm (nth j (f_arr f) [])) (nth j ts (f0 K)) (nth j (f_arr f) []).
Proof. exact set_norm_cellwise. Qed.
Print Assumptions C15_set_norm_cellwise.

(* the three kinds of norm specification: constant, per-cell array, function of the cell centre *)
Theorem C15_spec_constant : forall (K : FOps) m (t : K) ts j,
  spec_values m (NConst t) = OK ts -> length ts = ncells m /\ ((j < ncells m)%nat -> nth j ts (f0 K) = t).
Proof. exact spec_values_const. Qed.
Print Assumptions C15_spec_constant.

Theorem C15_spec_array : forall (K : FOps) m (l ts : list K),
  spec_values m (NArr l) = OK ts -> ts = l /\ length l = ncells m.
Proof. exact spec_values_arr. Qed.
Print Assumptions C15_spec_array.

Theorem C15_spec_array_wrong_size_rejected : forall (K : FOps) m (l : list K),
  length l <> ncells m -> spec_values m (NArr l) = Err ValueE.
Proof. exact spec_values_arr_rejects. Qed.
Print Assumptions C15_spec_array_wrong_size_rejected.

Theorem C15_spec_function : forall (K : FOps) m (g : list Q -> K) ts j,
  spec_values m (NFun g) = OK ts ->
  length ts = length (indices (shape m)) /\
  ((j < length (indices (shape m)))%nat -> nth j ts (f0 K) = g (centre m (nth j (indices (shape m)) []))).
Proof. exact spec_values_fun. Qed.
Print Assumptions C15_spec_function.

(* --- later value updates do not re-apply an earlier norm --- *)
Theorem C15_not_sticky : forall (K : FOps) (nrm : list K -> K) (is0 close0 : K -> bool) (f f' : field K) os a,
  run_ops nrm is0 close0 f (os ++ [OUpdate a]) = OK f' -> f_arr f' = a.
Proof. exact not_sticky. Qed.
Print Assumptions C15_not_sticky.

Theorem C15_update_forgets_history : forall (K : FOps) (nrm : list K -> K) (is0 close0 : K -> bool)
  (f g g' : field K) os a,
  run_ops nrm is0 close0 f os = OK g -> update_values g a = OK g' ->
  exists f', update_values f a = OK f' /\ f_arr f' = f_arr g'.
Proof. exact update_forgets_history. Qed.
Print Assumptions C15_update_forgets_history.

(* --- in-place writes into field.array: lengths are never stale --- *)
Theorem C15_no_stale_lengths : forall (K : FOps) (nrm : list K -> K) (is0 close0 : K -> bool)
  (f f' : field K) os g,
  run_ops nrm is0 close0 f (os ++ [OWrite g]) = OK f' ->
  exists f1, run_ops nrm is0 close0 f os = OK f1 /\ f_arr f' = g (f_arr f1) /\
    f_arr (norm_field nrm f') = map (fun v => [nrm v]) (g (f_arr f1)) /\
    f_arr (orientation nrm close0 f') = map (fun v => unit_cell close0 (nrm v) v) (g (f_arr f1)) /\
    f_valid f' = f_valid f1.
Proof. exact no_stale_lengths. Qed.
Print Assumptions C15_no_stale_lengths.

Theorem C15_set_norm_after_write : forall (K : FOps) (nrm : list K -> K) (is0 close0 : K -> bool)
  (f f' : field K) os g s,
  run_ops nrm is0 close0 f (os ++ [OWrite g; OSetNorm s]) = OK f' ->
  exists f1 ts, run_ops nrm is0 close0 f os = OK f1 /\ spec_values (f_mesh f1) s = OK ts /\
    f_arr f' = map2 (fun v t => set_cell is0 (nrm v) t v) (g (f_arr f1)) ts.
Proof. exact set_norm_after_write. Qed.
Print Assumptions C15_set_norm_after_write.

(* --- constructor order: values, then norm, then validity --- *)
Theorem C15_constructor_order : forall (K : FOps) (nrm : list K -> K) (is0 close0 : K -> bool) m nvdim u a ns vs,
  nvdim <> 0%nat ->
  Norm.mk_field nrm is0 close0 m nvdim u a ns vs
  = run_ops nrm is0 close0 (blank K m nvdim u) (init_ops K a ns vs).
Proof. exact mk_field_as_ops. Qed.
Print Assumptions C15_constructor_order.

Theorem C15_constructor_validity_after_norm : forall (K : FOps) (nrm : list K -> K) (is0 close0 : K -> bool)
  m nvdim u a ns (f : field K),
  Norm.mk_field nrm is0 close0 m nvdim u a ns VNorm = OK f ->
  f_valid f = map (fun v => negb (close0 (nrm v))) (f_arr f).
Proof. exact mk_field_valid_after_norm. Qed.
Print Assumptions C15_constructor_validity_after_norm.

Theorem C15_constructor_without_norm_verbatim : forall (K : FOps) (nrm : list K -> K) (is0 close0 : K -> bool)
  m nvdim u a vs (f : field K),
  Norm.mk_field nrm is0 close0 m nvdim u a None vs = OK f ->
  f_arr f = a /\ f_mesh f = m /\ f_unit f = u /\ f_nvdim f = nvdim.
Proof. exact mk_field_values. Qed.
Print Assumptions C15_constructor_without_norm_verbatim.

(* ===== layer 2: the reals, Euclidean length = sqrt (sum of squares) ===== *)
Open Scope R_scope.

Theorem C15_length_zero_iff_R : forall v : list R, Rnorm v = 0 <-> Forall (fun x => x = 0) v.
Proof. exact Rnorm_zero_iff. Qed.
Print Assumptions C15_length_zero_iff_R.

Theorem C15_scalar_norm_is_abs_R : forall x : R, Rnorm [x] = Rabs x.
Proof. exact Rnorm_scalar. Qed.
Print Assumptions C15_scalar_norm_is_abs_R.

(* every cell, every target: zero stays zero; non-zero gets length |t| and v' = (t/|v|) v *)
Theorem C15_set_length_R : forall (t : R) (v : list R),
  (Forall (fun x => x = 0) v /\ set_cell (K:=RK) Ris0 (Rnorm v) t v = zeros (K:=RK) v) \/
  (~ Forall (fun x => x = 0) v /\ Rnorm (set_cell (K:=RK) Ris0 (Rnorm v) t v) = Rabs t /\
   set_cell (K:=RK) Ris0 (Rnorm v) t v = map (Rmult (t / Rnorm v)) v).
Proof. exact set_cell_R_total. Qed.
Print Assumptions C15_set_length_R.

(* direction: positive factor, and the unit vector is unchanged *)
Theorem C15_set_direction_R : forall (t : R) (v : list R),
  Rnorm v <> 0 ->
  set_cell (K:=RK) Ris0 (Rnorm v) t v = map (Rmult (t / Rnorm v)) v /\ (0 < t -> 0 < t / Rnorm v).
Proof. exact set_direction_R. Qed.
Print Assumptions C15_set_direction_R.

Theorem C15_set_keeps_unit_vector_R : forall (t : R) (v : list R),
  0 < t -> Rnorm v <> 0 ->
  map (fun x => x / Rnorm (set_cell (K:=RK) Ris0 (Rnorm v) t v)) (set_cell (K:=RK) Ris0 (Rnorm v) t v)
  = map (fun x => x / Rnorm v) v.
Proof. exact set_keeps_unit_vector. Qed.
Print Assumptions C15_set_keeps_unit_vector_R.

(* the whole field after `f.norm = s` (constant, array or function), cell j *)
Theorem C15_set_norm_field_R : forall (f f' : field RK) s ts j,
  set_norm (K:=RK) Rnorm Ris0 f s = OK f' -> spec_values (f_mesh f) s = OK ts ->
  (j < length (f_arr f))%nat -> (j < length ts)%nat ->
  let v := nth j (f_arr f) [] in let v' := nth j (f_arr f') [] in let t := nth j ts 0 in
  (Forall (fun x => x = 0) v /\ v' = zeros (K:=RK) v) \/
  (~ Forall (fun x => x = 0) v /\ Rnorm v' = Rabs t /\ v' = map (Rmult (t / Rnorm v)) v).
Proof. exact set_norm_field_R. Qed.
Print Assumptions C15_set_norm_field_R.

(* orientation: unit length above the absolute threshold, zero up to it; times norm = field *)
Theorem C15_orientation_unit_R : forall (atol : R) (v : list R),
  0 <= atol -> atol < Rnorm v -> Rnorm (unit_cell (K:=RK) (Rclose0 atol) (Rnorm v) v) = 1.
Proof. exact orientation_unit_R. Qed.
Print Assumptions C15_orientation_unit_R.

Theorem C15_orientation_zero_R : forall (atol : R) (v : list R),
  Rnorm v <= atol -> unit_cell (K:=RK) (Rclose0 atol) (Rnorm v) v = zeros (K:=RK) v.
Proof. exact orientation_zero_R. Qed.
Print Assumptions C15_orientation_zero_R.

Theorem C15_orientation_times_norm_R : forall (atol : R) (v : list R),
  0 <= atol -> atol < Rnorm v ->
  scale_cell (K:=RK) (Rnorm v) (unit_cell (K:=RK) (Rclose0 atol) (Rnorm v) v) = v.
Proof. exact orientation_times_norm_R. Qed.
Print Assumptions C15_orientation_times_norm_R.

Theorem C15_orientation_field_R : forall (atol : R) (f : field RK) j,
  0 <= atol -> (j < length (f_arr f))%nat ->
  let v := nth j (f_arr f) [] in
  let o := nth j (f_arr (orientation (K:=RK) Rnorm (Rclose0 atol) f)) [] in
  (atol < Rnorm v -> Rnorm o = 1 /\ scale_cell (K:=RK) (Rnorm v) o = v) /\
  (Rnorm v <= atol -> o = zeros (K:=RK) v).
Proof. exact orientation_field_R. Qed.
Print Assumptions C15_orientation_field_R.

Close Scope R_scope.

(* ===== layer 3: the exact rational root and the executable instance ===== *)
Open Scope Q_scope.

Theorem C15_qsqrt_sound : forall x y : Q, qsqrt x = Some y -> y * y == x /\ 0 <= y.
Proof. exact qsqrt_spec. Qed.
Print Assumptions C15_qsqrt_sound.

Theorem C15_qsqrt_complete : forall y : Q, 0 <= y -> exists y', qsqrt (y * y) = Some y' /\ y' == y.
Proof. exact qsqrt_complete. Qed.
Print Assumptions C15_qsqrt_complete.

Theorem C15_qsqrt_is_sqrt : forall x y : Q, qsqrt x = Some y -> Q2R y = sqrt (Q2R x).
Proof. exact qsqrt_bridge. Qed.
Print Assumptions C15_qsqrt_is_sqrt.

Close Scope Q_scope.

(* where the root is defined the executable length satisfies the defining equation … *)
Theorem C15_exec_length_spec : forall v : list Qc,
  qc_nrm_defined v = true -> Qcmult (qc_nrm v) (qc_nrm v) = sumsq QcOps v.
Proof. exact qc_nrm_spec. Qed.
Print Assumptions C15_exec_length_spec.

(* … so the squared-form theorems apply to what the correspondence shards execute *)
Theorem C15_exec_set_length : forall (v : list Qc) (t : Qc),
  qc_nrm_defined v = true -> qc_nrm v <> Q2Qc 0 ->
  sumsq QcOps (set_cell (K:=QcOps) qc_is0 (qc_nrm v) t v) = Qcmult t t.
Proof. exact exec_set_length. Qed.
Print Assumptions C15_exec_set_length.

(* histories of assignments stay inside the domain of the exact root *)
Theorem C15_exec_defined_after_set : forall (v : list Qc) (t : Qc),
  qc_nrm_defined v = true -> qc_nrm v <> Q2Qc 0 ->
  qc_nrm_defined (set_cell (K:=QcOps) qc_is0 (qc_nrm v) t v) = true.
Proof. exact exec_defined_after_set. Qed.
Print Assumptions C15_exec_defined_after_set.

(* the checker's single pass returns exactly the model's run_ops *)
Theorem C15_checker_runs_model : forall (f : field QcOps) os,
  snd (run_def f os) = run_ops (K:=QcOps) qc_nrm qc_is0 qc_close0 f os.
Proof. exact run_def_snd. Qed.
Print Assumptions C15_checker_runs_model.

(* ===== non-vacuity ===== *)
Example C15_hypotheses_nonvacuous :
  Qcmult (qc_nrm w_v) (qc_nrm w_v) = sumsq QcOps w_v /\ qc_nrm w_v <> Q2Qc 0 /\
  qc_is0 (qc_nrm w_v) = false /\ qc_close0 (qc_nrm w_v) = false.
Proof. exact w_hyps. Qed.
Print Assumptions C15_hypotheses_nonvacuous.

Example C15_set_nonvacuous :
  qclist_eqb (set_cell (K:=QcOps) qc_is0 (qc_nrm w_v) (qc 10) w_v) (qcl [6; 8; 0]%Q) = true.
Proof. exact w_set. Qed.
Print Assumptions C15_set_nonvacuous.

Example C15_threshold_nonvacuous :
  qclist_eqb (unit_cell (K:=QcOps) qc_close0 (qc_nrm w_tiny) w_tiny) (qcl [0; 0]%Q) = true /\
  qclist_eqb (set_cell (K:=QcOps) qc_is0 (qc_nrm w_tiny) (qc 5) w_tiny) (qcl [3; 4]%Q) = true.
Proof. exact w_tiny_orient. Qed.
Print Assumptions C15_threshold_nonvacuous.

Example C15_history_nonvacuous :
  match run_ops (K:=QcOps) qc_nrm qc_is0 qc_close0
          (mkField (K:=QcOps) w_mesh 2 None [true; true] [qcl [3; 4]%Q; qcl [0; 0]%Q])
          [OSetNorm (@NConst QcOps (qc 10)); @OUpdate QcOps [qcl [0; 2]%Q; qcl [5; 12]%Q]] with
  | OK f => forallb2 qclist_eqb (f_arr f) [qcl [0; 2]%Q; qcl [5; 12]%Q]
  | Err _ => false
  end = true.
Proof. exact w_history. Qed.
Print Assumptions C15_history_nonvacuous.

Example C15_threshold_is_binary64_1e_8 :
  Qle_bool (Qabs (orient_atol - (1 # 100000000))) (1 # 1000000000000000000000000) = true
  /\ Qden orient_atol = (2 ^ 78)%positive.
Proof. exact w_atol. Qed.
Print Assumptions C15_threshold_is_binary64_1e_8.

Example C15_qsqrt_partial_nonvacuous : (qsqrt 2 = None /\ qsqrt (9 # 4) = Some (3 # 2))%Q.
Proof. exact w_qsqrt_partial. Qed.
Print Assumptions C15_qsqrt_partial_nonvacuous.

(* ===== checker soundness and transfer: the theorems above, stated about the OBSERVED outputs ===== *)
Open Scope Q_scope.

(* an accepted history case: the model run succeeds and the observed array / validity / norm field /
   orientation field are its values (verbatim data: equal; quotients: within 1e-13 of the cell's size;
   lengths: within 1e-15 resp. 1e-13 relative) *)
Theorem C15_check_history_sound : forall p1 p2 n_ nvdim unit_ vals norm0 v0 ops o,
  check_C15 (CHist p1 p2 n_ nvdim unit_ vals norm0 v0 ops (Some o)) = true ->
  exists m f,
    build p1 p2 n_ = OK m /\ nvdim <> 0%nat /\
    run_ops (K:=QcOps) qc_nrm qc_is0 qc_close0 (blank QcOps m nvdim unit_) (model_ops nvdim vals norm0 v0 ops) = OK f /\
    all_defined f = true /\
    (if approx_of norm0 ops
     then Forall2 (cell_within tolx) (f_arr f) (cells_of nvdim (o_arr o))
     else f_arr f = map qcl (cells_of nvdim (o_arr o))) /\
    o_valid o = f_valid f /\
    Forall2 (fun v x => Qabs (this (qc_nrm v) - x)
                        <= (if approx_of norm0 ops then tolx else tolu) * this (qc_nrm v))
            (f_arr f) (o_norm o) /\
    o_norm_nvdim o = 1%nat /\ o_norm_n o = n m /\
    Forall2 Qeq (pmin (reg m)) (o_norm_pmin o) /\ Forall2 Qeq (pmax (reg m)) (o_norm_pmax o) /\
    o_norm_unit o = unit_ /\ o_norm_valid o = o_valid o /\
    Forall2 (cell_within tolx) (map (fun v => unit_cell (K:=QcOps) qc_close0 (qc_nrm v) v) (f_arr f))
            (cells_of nvdim (o_orient o)) /\
    o_orient_nvdim o = nvdim /\ o_orient_valid o = o_valid o.
Proof. exact check_hist_sound. Qed.
Print Assumptions C15_check_history_sound.

(* an accepted "raised" case: the model history fails too *)
Theorem C15_check_history_raises_sound : forall p1 p2 n_ nvdim unit_ vals norm0 v0 ops,
  check_C15 (CHist p1 p2 n_ nvdim unit_ vals norm0 v0 ops None) = true ->
  exists m, build p1 p2 n_ = OK m /\
    (nvdim = 0%nat \/
     exists e, run_ops (K:=QcOps) qc_nrm qc_is0 qc_close0 (blank QcOps m nvdim unit_)
                       (model_ops nvdim vals norm0 v0 ops) = Err e).
Proof. exact check_hist_raises_sound. Qed.
Print Assumptions C15_check_history_raises_sound.

(* an accepted relational case (arbitrary binary64 vectors), per cell *)
Theorem C15_check_relational_sound : forall nvdim vals ts obs_norm obs_set obs_orient,
  check_C15 (CRel nvdim vals ts obs_norm obs_set obs_orient) = true ->
  nvdim <> 0%nat /\
  length (cells_of nvdim vals) = length ts /\ length obs_norm = length ts /\
  length (cells_of nvdim obs_set) = length ts /\ length (cells_of nvdim obs_orient) = length ts /\
  forall j, (j < length ts)%nat ->
    let v := nth j (cells_of nvdim vals) [] in
    let x := nth j obs_norm 0 in
    let vset := nth j (cells_of nvdim obs_set) [] in
    0 <= x /\ Qabs (x * x - sumsq_q v) <= 2 * tolr * sumsq_q v /\
    (sumsq_q v == 0 -> Forall (fun c => c == 0) vset /\ length vset = length v).
Proof. exact check_rel_sound. Qed.
Print Assumptions C15_check_relational_sound.

(* a whole shard: no failing index means every case was accepted *)
Theorem C15_shard_verdict : forall cases k,
  failing k (map check_C15 cases) = [] -> forall c, In c cases -> check_C15 c = true.
Proof. exact (failing_nil_all check_C15). Qed.
Print Assumptions C15_shard_verdict.

(* transfer of C15_not_sticky: whatever norm was given to the constructor or assigned earlier, the array
   OBSERVED after update_field_values is the data that was passed in *)
Theorem C15_accepted_not_sticky : forall p1 p2 n_ nvdim unit_ vals norm0 v0 os vals' o,
  check_C15 (CHist p1 p2 n_ nvdim unit_ vals norm0 v0 (os ++ [PUpdate vals']) (Some o)) = true ->
  map qcl (cells_of nvdim (o_arr o)) = map qcl (cells_of nvdim vals').
Proof. exact accepted_not_sticky. Qed.
Print Assumptions C15_accepted_not_sticky.

(* transfer of C15_constructor_order / C15_constructor_validity_after_norm / C15_constructor_without_norm_verbatim:
   with valid="norm" and no norm argument the OBSERVED array is the input and the OBSERVED validity mask is the
   threshold decision on the exact lengths of the OBSERVED array *)
Theorem C15_accepted_constructor_validity : forall p1 p2 n_ nvdim unit_ vals o,
  check_C15 (CHist p1 p2 n_ nvdim unit_ vals None VNorm [] (Some o)) = true ->
  map qcl (cells_of nvdim (o_arr o)) = map qcl (cells_of nvdim vals) /\
  o_valid o = map (fun v => negb (qc_close0 (qc_nrm v))) (map qcl (cells_of nvdim (o_arr o))).
Proof. exact accepted_constructor_validity. Qed.
Print Assumptions C15_accepted_constructor_validity.

(* transfer of C15_norm_field / C15_exec_length_spec (verbatim data): the OBSERVED norm field has one component,
   the field's unit and validity, and every OBSERVED length is within 1e-15 relative of the non-negative number
   whose square is the exact sum of squares of the OBSERVED cell *)
Theorem C15_accepted_norm_getter : forall p1 p2 n_ nvdim unit_ vals norm0 v0 ops o,
  check_C15 (CHist p1 p2 n_ nvdim unit_ vals norm0 v0 ops (Some o)) = true ->
  approx_of norm0 ops = false ->
  o_norm_nvdim o = 1%nat /\ o_norm_unit o = unit_ /\ o_norm_valid o = o_valid o /\
  Forall2 (fun (v : list Qc) (x : Q) =>
             exists l : Qc, Qcmult l l = sumsq QcOps v /\ 0 <= this l /\ Qabs (this l - x) <= tolu * this l)
          (map qcl (cells_of nvdim (o_arr o))) (o_norm o).
Proof. exact accepted_norm_getter. Qed.
Print Assumptions C15_accepted_norm_getter.

(* transfer of C15_orientation_zero / C15_orientation_unit_sq / C15_orientation_times_norm (verbatim data):
   a cell of the OBSERVED array whose exact length is within the isclose threshold has an exactly zero OBSERVED
   orientation; any other cell's OBSERVED orientation is within 1e-13 of a vector u with |u|^2 = 1, u * |v| = v *)
Theorem C15_accepted_orientation : forall p1 p2 n_ nvdim unit_ vals norm0 v0 ops o,
  check_C15 (CHist p1 p2 n_ nvdim unit_ vals norm0 v0 ops (Some o)) = true ->
  approx_of norm0 ops = false ->
  o_orient_nvdim o = nvdim /\ o_orient_valid o = o_valid o /\
  Forall2 (fun (v : list Qc) (oc : list Q) =>
             (qc_close0 (qc_nrm v) = true -> Forall (fun b => b == 0) oc) /\
             (qc_close0 (qc_nrm v) = false ->
              exists u : list Qc, sumsq QcOps u = f1 QcOps /\ scale_cell (K:=QcOps) (qc_nrm v) u = v /\
                                  cell_within tolx u oc))
          (map qcl (cells_of nvdim (o_arr o))) (cells_of nvdim (o_orient o)).
Proof. exact accepted_orientation. Qed.
Print Assumptions C15_accepted_orientation.

(* non-vacuity: recorded cases the checker accepts *)
Example C15_accepted_history_instance :
  check_C15 (CHist [(0 # 1)] [(2 # 1)] [2%Z] 1%nat (Some "T"%string) [(0 # 1); (3 # 1)]
               (Some (SConst (5 # 1))) VNorm []
               (Some (mkObs [(0 # 1); (5 # 1)] [false; true] [(0 # 1); (5 # 1)] 1%nat [2%Z] [(0 # 1)] [(2 # 1)]
                            (Some "T"%string) [false; true] [(0 # 1); (1 # 1)] 1%nat [false; true]))) = true.
Proof. exact accepted_hist_instance. Qed.
Print Assumptions C15_accepted_history_instance.

Example C15_accepted_not_sticky_instance :
  check_C15 (CHist [(27 # 4)] [(29 # 4)] [1%Z] 1%nat (Some "T"%string) [((-50) # 1)] None VNorm
               ([PSetNorm (SConst (3 # 524288)); PWrite (WSlice 0%nat 1%nat [((-33) # 1)])] ++ [PUpdate [(1664 # 1)]])
               (Some (mkObs [(1664 # 1)] [true] [(1664 # 1)] 1%nat [1%Z] [(27 # 4)] [(29 # 4)]
                            (Some "T"%string) [true] [(1 # 1)] 1%nat [true]))) = true.
Proof. exact accepted_not_sticky_instance. Qed.
Print Assumptions C15_accepted_not_sticky_instance.

Example C15_accepted_constructor_validity_instance :
  check_C15 (CHist [((-59) # 4)] [((-27) # 2)] [2%Z] 1%nat None [(0 # 1); (10 # 1)] None VNorm []
               (Some (mkObs [(0 # 1); (10 # 1)] [false; true] [(0 # 1); (10 # 1)] 1%nat [2%Z] [((-59) # 4)] [((-27) # 2)]
                            None [false; true] [(0 # 1); (1 # 1)] 1%nat [false; true]))) = true.
Proof. exact accepted_constructor_validity_instance. Qed.
Print Assumptions C15_accepted_constructor_validity_instance.

Example C15_accepted_relational_instance :
  check_C15 (CRel 3%nat [(0 # 1); (0 # 1); (0 # 1)] [(2670395447938201 # 590295810358705651712)] [(0 # 1)]
                  [(0 # 1); (0 # 1); (0 # 1)] [(0 # 1); (0 # 1); (0 # 1)]) = true.
Proof. exact accepted_rel_instance. Qed.
Print Assumptions C15_accepted_relational_instance.
Close Scope Q_scope.
