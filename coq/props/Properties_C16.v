(* C16 — VTK output puts each value in the grid cell a VTK reader finds at that position.
   ONLY statements, each closed by [exact] of a lemma proved in proofs/, followed by
   Print Assumptions. *)
From DF Require Import Prelude Constants_gen Region Mesh Subregions Vtk C16_layout.

Theorem C16_add_then_lookup : forall (A : Type) (name : string) (a : A) (l : list (string * A)),
  lookup_array name (add_array name a l) = Some a.
Proof. exact @lookup_add_same. Qed.
Print Assumptions C16_add_then_lookup.
