(* C16 — VTK output puts each value in the grid cell a VTK reader finds at that position.
   ONLY statements, each closed by [exact] of a lemma proved in proofs/, followed by
   Print Assumptions.  V is an arbitrary type of values (hence the reals), nrm an arbitrary
   norm function, wr an arbitrary per-representation storage map: nothing but positions matters. *)
From DF Require Import Prelude Constants_gen Region Mesh Subregions Vtk C16_layout C16_locate.
Open Scope Q_scope.

(* Clause 1 (all sizes, all 3-d meshes, 1..any components, any labels that are not reserved):
   the grid has the mesh vertices as coordinates; for every p of the half-open region the cell a
   VTK consumer locates at p (id = i + nx*(j + ny*k), the VTK numbering) is the mesh cell
   point2index assigns to p, and the grid carries there the field value, the norm, the validity
   flag and every component scalar of that mesh cell. *)
Theorem C16_locate : forall (V : Type) (d : V) (nrm : list V -> V) (vone vzero : V)
  (x0 y0 z0 x1 y1 z1 tf_ : Q) (ds us : list string) (kx ky kz : Z) (bc_ : string)
  (subs_ : list (string * region)) (nv : nat) (vd : option (list string)) (vals : list V)
  (valid : list bool) (px py pz : Q),
  x0 < x1 -> y0 < y1 -> z0 < z1 -> (0 < kx)%Z -> (0 < ky)%Z -> (0 < kz)%Z -> 0 <= tf_ ->
  ((1 < nv)%nat -> exists l, vd = Some l /\ length l = nv) ->
  (forall l, vd = Some l -> Forall (fun s => reserved s = false) l) ->
  x0 <= px /\ px < x1 -> y0 <= py /\ py < y1 -> z0 <= pz /\ pz < z1 ->
  let m := mkMesh (mkRegion [x0; y0; z0] [x1; y1; z1] ds us tf_) [kx; ky; kz] bc_ subs_ in
  let f := mkVF m nv vd vals valid in
  let ny := Z.to_nat ky in let nz := Z.to_nat kz in
  exists g iz jz kz_,
    to_vtk d nrm vone vzero f = OK g /\ g_coords g = vertices m /\
    g_dims g = [kx + 1; ky + 1; kz + 1]%Z /\
    point2index m [px; py; pz] = OK [iz; jz; kz_] /\
    let i := Z.to_nat iz in let j := Z.to_nat jz in let k := Z.to_nat kz_ in
    let id := cell_id (Z.to_nat kx) ny i j k in
    locate g [px; py; pz] = Some id /\
    cell_tuple d g "field" id = Some (tuple_at d ny nz nv vals i j k) /\
    cell_tuple d g "norm" id = Some [nrm (tuple_at d ny nz nv vals i j k)] /\
    cell_tuple d g "valid" id = Some [if nth (cpos ny nz 1 i j k 0) valid false then vone else vzero] /\
    forall l c, (1 < nv)%nat -> vd = Some l -> NoDup l -> (c < nv)%nat ->
      cell_tuple d g (nth c l ""%string) id = Some [nth (cpos ny nz nv i j k c) vals d].
Proof. exact locate_carries. Qed.
Print Assumptions C16_locate.

Example C16_locate_nonvacuous :
  exists g, to_vtk 0 (fun l => hd 0 l) 1 0
      (mkVF (mkMesh (mkRegion [0; 0; 0] [2; 1; 1] ["x"; "y"; "z"]%string ["m"; "m"; "m"]%string (1 # 1000)) [2; 1; 1]%Z ""%string [])
            1%nat None [5; 7] [true; false]) = OK g /\
    locate g [3 # 2; 1 # 2; 1 # 2] = Some 1%nat /\ cell_tuple 0 g "field" 1 = Some [7].
Proof. exact locate_carries_nonvacuous. Qed.
Print Assumptions C16_locate_nonvacuous.

(* one axis: the vertex interval holding p is the cell of point2index (C01's p2i1) *)
Theorem C16_locate_axis : forall (lo hi : Q) (k : Z) (p : Q),
  lo < hi -> (0 < k)%Z -> lo <= p -> p < hi ->
  find_interval (vertices_axis lo hi k) p = Some (Z.to_nat (p2i1 lo (cell_of lo hi k) k p)).
Proof. exact locate_axis. Qed.
Print Assumptions C16_locate_axis.

(* the flattening after transpose((2,1,0,3)): component c of cell (i,j,k) is element c of VTK
   tuple i + nx*(j + ny*k) -- for every shape *)
Theorem C16_layout : forall (V : Type) (d : V) (nx ny nz nv : nat) (a : list V) (i j k c : nat),
  (i < nx)%nat -> (j < ny)%nat -> (k < nz)%nat -> (c < nv)%nat ->
  nth (vpos nx ny nv i j k c) (vtk_order d nx ny nz nv a) d = nth (cpos ny nz nv i j k c) a d.
Proof. exact vtk_order_nth. Qed.
Print Assumptions C16_layout.

(* Clause 2, payload: the reader's reshape/transpose undoes the writer's for every shape; a value
   comes back as [wr v], wr = what the representation does to one number (identity for binary
   and XML, ten-significant-digit rounding for text) *)
Theorem C16_roundtrip_values : forall (V : Type) (d : V) (wr : V -> V) (nx ny nz nv : nat) (a : list V)
  (i j k c : nat),
  (i < nx)%nat -> (j < ny)%nat -> (k < nz)%nat -> (c < nv)%nat ->
  nth (cpos ny nz nv i j k c) (from_vtk_order d nx ny nz nv (map wr (vtk_order d nx ny nz nv a))) d
  = wr (nth (cpos ny nz nv i j k c) a d).
Proof. exact transpose_roundtrip. Qed.
Print Assumptions C16_roundtrip_values.

Theorem C16_roundtrip_shape : forall (V : Type) (d : V) (nx ny nz nv : nat) (p : list V),
  length (from_vtk_order d nx ny nz nv p) = (nx * ny * nz * nv)%nat.
Proof. exact from_vtk_order_length. Qed.
Print Assumptions C16_roundtrip_shape.

(* arrays are found again under their names; AddArray replaces an array of the same name (the
   mechanism behind the known finding C16-label-field) *)
Theorem C16_add_then_lookup : forall (A : Type) (name : string) (a : A) (l : list (string * A)),
  lookup_array name (add_array name a l) = Some a.
Proof. exact @lookup_add_same. Qed.
Print Assumptions C16_add_then_lookup.

Theorem C16_add_keeps_others : forall (A : Type) (name name' : string) (a : A) (l : list (string * A)),
  name <> name' -> lookup_array name (add_array name' a l) = lookup_array name l.
Proof. exact @lookup_add_other. Qed.
Print Assumptions C16_add_keeps_others.

(* Clause 3, legacy point-data files: for an axis with at least two points at the cell centres
   of [lo,hi] / k the legacy reader recovers the cell size and both corners; values are taken
   one per cell in file order (x fastest) *)
Theorem C16_legacy_axis : forall (lo hi : Q) (k : Z), lo < hi -> (2 <= k)%Z ->
  let c := cell_of lo hi k in
  let cs := cells_axis lo hi k in
  length cs = Z.to_nat k /\
  legacy_cell cs == c /\ hd 0 cs - legacy_cell cs * (1 # 2) == lo /\
  (hd 0 cs - legacy_cell cs * (1 # 2)) + inject_Z k * legacy_cell cs == hi.
Proof. exact legacy_axis. Qed.
Print Assumptions C16_legacy_axis.

Theorem C16_legacy_values : forall (V : Type) (d : V) (rows : list (list V)) (nx ny nz dim i j k c : nat),
  (i < nx)%nat -> (j < ny)%nat -> (k < nz)%nat -> (c < dim)%nat ->
  nth (cpos ny nz dim i j k c)
      (tab nx (fun i => tab ny (fun j => tab nz (fun k =>
         map (fun c => nth c (nth (cell_id nx ny i j k) rows []) d) (seq 0 dim))))) d
  = nth c (nth (cell_id nx ny i j k) rows []) d.
Proof. exact legacy_values. Qed.
Print Assumptions C16_legacy_values.
