(* C16 — VTK output puts each value in the grid cell a VTK reader finds at that position.
   ONLY statements, each closed by [exact] of a lemma proved in proofs/, followed by
   Print Assumptions.  V is an arbitrary type of values (hence the reals), nrm an arbitrary
   norm function, wr an arbitrary per-representation storage map: nothing but positions matters. *)
From DF Require Import Prelude Constants_gen Region Mesh Subregions Vtk C16_layout C16_locate.
From DF Require Import C16_roundtrip C16_sidecar C16_legacy C16_witness CheckSound Check_C16 C16_sound.
Open Scope Q_scope.

(* Clause 1 (all sizes, all 3-d meshes, 1..any components, any labels that are not reserved):
   the grid has the mesh vertices as coordinates; for every p of the half-open region the cell a
   VTK consumer locates at p (id = i + nx*(j + ny*k), the VTK numbering) is the mesh cell
   point2index assigns to p, and the grid carries there the field value, the norm, the validity
   flag and every component scalar of that mesh cell. *)
Theorem C16_locate : forall (V : Type) (d : V) (nrm : list V -> V) (vone vzero : V)
  (x0 y0 z0 x1 y1 z1 tf_ : Q) (ds us : list string) (kx ky kz : Z) (bc_ : string)
  (subs_ : list (string * region)) (nv : nat) (vd : option (list string)) (vals : list V)
  (valid : list bool) (px py pz : Q),
  x0 < x1 -> y0 < y1 -> z0 < z1 -> (0 < kx)%Z -> (0 < ky)%Z -> (0 < kz)%Z -> 0 <= tf_ ->
  ((1 < nv)%nat -> exists l, vd = Some l /\ length l = nv) ->
  (forall l, vd = Some l -> Forall (fun s => reserved s = false) l) ->
  x0 <= px /\ px < x1 -> y0 <= py /\ py < y1 -> z0 <= pz /\ pz < z1 ->
  let m := mkMesh (mkRegion [x0; y0; z0] [x1; y1; z1] ds us tf_) [kx; ky; kz] bc_ subs_ in
  let f := mkVF m nv vd vals valid in
  let ny := Z.to_nat ky in let nz := Z.to_nat kz in
  exists g iz jz kz_,
    to_vtk d nrm vone vzero f = OK g /\ g_coords g = vertices m /\
    g_dims g = [kx + 1; ky + 1; kz + 1]%Z /\
    point2index m [px; py; pz] = OK [iz; jz; kz_] /\
    let i := Z.to_nat iz in let j := Z.to_nat jz in let k := Z.to_nat kz_ in
    let id := cell_id (Z.to_nat kx) ny i j k in
    locate g [px; py; pz] = Some id /\
    cell_tuple d g "field" id = Some (tuple_at d ny nz nv vals i j k) /\
    cell_tuple d g "norm" id = Some [nrm (tuple_at d ny nz nv vals i j k)] /\
    cell_tuple d g "valid" id = Some [if nth (cpos ny nz 1 i j k 0) valid false then vone else vzero] /\
    forall l c, (1 < nv)%nat -> vd = Some l -> NoDup l -> (c < nv)%nat ->
      cell_tuple d g (nth c l ""%string) id = Some [nth (cpos ny nz nv i j k c) vals d].
Proof. exact locate_carries. Qed.
Print Assumptions C16_locate.

Example C16_locate_nonvacuous :
  exists g, to_vtk 0 (fun l => hd 0 l) 1 0
      (mkVF (mkMesh (mkRegion [0; 0; 0] [2; 1; 1] ["x"; "y"; "z"]%string ["m"; "m"; "m"]%string (1 # 1000)) [2; 1; 1]%Z ""%string [])
            1%nat None [5; 7] [true; false]) = OK g /\
    locate g [3 # 2; 1 # 2; 1 # 2] = Some 1%nat /\ cell_tuple 0 g "field" 1 = Some [7].
Proof. exact locate_carries_nonvacuous. Qed.
Print Assumptions C16_locate_nonvacuous.

(* one axis: the vertex interval holding p is the cell of point2index (C01's p2i1) *)
Theorem C16_locate_axis : forall (lo hi : Q) (k : Z) (p : Q),
  lo < hi -> (0 < k)%Z -> lo <= p -> p < hi ->
  find_interval (vertices_axis lo hi k) p = Some (Z.to_nat (p2i1 lo (cell_of lo hi k) k p)).
Proof. exact locate_axis. Qed.
Print Assumptions C16_locate_axis.

(* the flattening after transpose((2,1,0,3)): component c of cell (i,j,k) is element c of VTK
   tuple i + nx*(j + ny*k) -- for every shape *)
Theorem C16_layout : forall (V : Type) (d : V) (nx ny nz nv : nat) (a : list V) (i j k c : nat),
  (i < nx)%nat -> (j < ny)%nat -> (k < nz)%nat -> (c < nv)%nat ->
  nth (vpos nx ny nv i j k c) (vtk_order d nx ny nz nv a) d = nth (cpos ny nz nv i j k c) a d.
Proof. exact vtk_order_nth. Qed.
Print Assumptions C16_layout.

(* Clause 2, payload: the reader's reshape/transpose undoes the writer's for every shape; a value
   comes back as [wr v], wr = what the representation does to one number (identity for binary
   and XML, ten-significant-digit rounding for text) *)
Theorem C16_roundtrip_values : forall (V : Type) (d : V) (wr : V -> V) (nx ny nz nv : nat) (a : list V)
  (i j k c : nat),
  (i < nx)%nat -> (j < ny)%nat -> (k < nz)%nat -> (c < nv)%nat ->
  nth (cpos ny nz nv i j k c) (from_vtk_order d nx ny nz nv (map wr (vtk_order d nx ny nz nv a))) d
  = wr (nth (cpos ny nz nv i j k c) a d).
Proof. exact transpose_roundtrip. Qed.
Print Assumptions C16_roundtrip_values.

Theorem C16_roundtrip_shape : forall (V : Type) (d : V) (nx ny nz nv : nat) (p : list V),
  length (from_vtk_order d nx ny nz nv p) = (nx * ny * nz * nv)%nat.
Proof. exact from_vtk_order_length. Qed.
Print Assumptions C16_roundtrip_shape.

(* arrays are found again under their names; AddArray replaces an array of the same name (the
   mechanism behind the known finding C16-label-field) *)
Theorem C16_add_then_lookup : forall (A : Type) (name : string) (a : A) (l : list (string * A)),
  lookup_array name (add_array name a l) = Some a.
Proof. exact @lookup_add_same. Qed.
Print Assumptions C16_add_then_lookup.

Theorem C16_add_keeps_others : forall (A : Type) (name name' : string) (a : A) (l : list (string * A)),
  name <> name' -> lookup_array name (add_array name' a l) = lookup_array name l.
Proof. exact @lookup_add_other. Qed.
Print Assumptions C16_add_keeps_others.

(* Clause 3, legacy point-data files: for an axis with at least two points at the cell centres
   of [lo,hi] / k the legacy reader recovers the cell size and both corners; values are taken
   one per cell in file order (x fastest) *)
Theorem C16_legacy_axis : forall (lo hi : Q) (k : Z), lo < hi -> (2 <= k)%Z ->
  let c := cell_of lo hi k in
  let cs := cells_axis lo hi k in
  length cs = Z.to_nat k /\
  legacy_cell cs == c /\ hd 0 cs - legacy_cell cs * (1 # 2) == lo /\
  (hd 0 cs - legacy_cell cs * (1 # 2)) + inject_Z k * legacy_cell cs == hi.
Proof. exact legacy_axis. Qed.
Print Assumptions C16_legacy_axis.

Theorem C16_legacy_values : forall (V : Type) (d : V) (rows : list (list V)) (nx ny nz dim i j k c : nat),
  (i < nx)%nat -> (j < ny)%nat -> (k < nz)%nat -> (c < dim)%nat ->
  nth (cpos ny nz dim i j k c)
      (tab nx (fun i => tab ny (fun j => tab nz (fun k =>
         map (fun c => nth c (nth (cell_id nx ny i j k) rows []) d) (seq 0 dim))))) d
  = nth c (nth (cell_id nx ny i j k) rows []) d.
Proof. exact legacy_values. Qed.
Print Assumptions C16_legacy_values.

(* Clause 2, end to end (every 3-d mesh, every size, 1..any components, any value type, any norm):
   reading the stored form of to_vtk f gives back n, the corners through the coordinate storage map
   cw (==; identity for binary/XML, a ten-digit map for text -- guard: the stored corners keep their
   order), the values through the value storage map wr, the validity mask, the labels
   (guards = complements of the known findings: a scalar's label is not stored, no label is
   'field'/'valid'/'norm'), and -- when the subregion setter of the read-back mesh accepts the
   side-car (C14's subject; automatic failure otherwise, cf. C16_txt_subregions_refuted) -- the
   saved subregions with unchanged names and corners. *)
Theorem C16_roundtrip (V : Type) (d : V) (nrm : list V -> V) (vone vzero : V) (vtruth : V -> bool)
  (cw : vrep -> Q -> Q) (wr : vrep -> V -> V) (r : vrep)
  (x0 y0 z0 x1 y1 z1 tf_ : Q) (ds us : list string) (kx ky kz : Z) (bc_ : string)
  (subs_ : list (string * region)) (nv : nat) (vd : option (list string)) (vals : list V)
  (valid : list bool) (L : list string) :
  (forall a b, a == b -> cw r a == cw r b) ->
  vtruth (wr r vone) = true -> vtruth (wr r vzero) = false ->
  (0 < kx)%Z -> (0 < ky)%Z -> (0 < kz)%Z ->
  cw r x0 < cw r x1 -> cw r y0 < cw r y1 -> cw r z0 < cw r z1 ->
  (1 <= nv)%nat ->
  ((1 < nv)%nat -> vd = Some L /\ length L = nv) -> ((nv <= 1)%nat -> L = []) ->
  nodupb L = true -> Forall (fun s => reserved s = false) L ->
  length vals = (Z.to_nat kx * Z.to_nat ky * Z.to_nat kz * nv)%nat ->
  length valid = (Z.to_nat kx * Z.to_nat ky * Z.to_nat kz)%nat ->
  let m := mkMesh (mkRegion [x0; y0; z0] [x1; y1; z1] ds us tf_) [kx; ky; kz] bc_ subs_ in
  let f := mkVF m nv vd vals valid in
  let labels := if (1 <? nv)%nat then Some L else None in
  exists g a0 a1 a2 b0 b1 b2,
    to_vtk d nrm vone vzero f = OK g /\
    (a0 == cw r x0 /\ a1 == cw r y0 /\ a2 == cw r z0) /\
    (b0 == cw r x1 /\ b1 == cw r y1 /\ b2 == cw r z1) /\
    let mr := read_mesh kx ky kz a0 a1 a2 b0 b1 b2 in
    (* no side-car *)
    from_vtk d vtruth (store cw wr r g) None = OK (mkVF mr nv labels (map (wr r) vals) valid) /\
    (* side-car accepted by the subregion setter of the read-back mesh *)
    (forall s m', json_load_tol align_tol mr s = OK m' -> Forall well_ordered s ->
       from_vtk d vtruth (store cw wr r g) (Some s) = OK (mkVF m' nv labels (map (wr r) vals) valid) /\
       reg m' = reg mr /\ n m' = [kx; ky; kz] /\ map corners (subs m') = map corners s) /\
    (* side-car rejected by it: the whole read fails *)
    (forall s, is_ok (json_load_tol align_tol mr s) = false ->
       is_ok (from_vtk d vtruth (store cw wr r g) (Some s)) = false).
Proof.
  exact (@roundtrip_full V d nrm vone vzero vtruth cw wr r x0 y0 z0 x1 y1 z1 tf_ ds us kx ky kz bc_ subs_
           nv vd vals valid L).
Qed.
Print Assumptions C16_roundtrip.

Example C16_roundtrip_nonvacuous :
  w_summary (w_trip wq_id (w_field 2 (Some ["p"; "q"]%string) w_vals2 [w_sub]) (Some [w_sub]))
  = Some ([3; 1; 2]%Z, 2%nat, Some ["p"; "q"]%string, w_vals2, [true; false; true; true; false; true], ["s"%string]).
Proof. exact roundtrip_nonvacuous. Qed.
Print Assumptions C16_roundtrip_nonvacuous.

(* Clause 3 as one theorem: a legacy point-data file whose coordinates are the cell centres of a mesh
   with at least two cells per axis is read with that cell size, those corners (==), that n, one
   value per cell in x-fastest file order, every cell valid. *)
Theorem C16_legacy (V : Type) (d : V) (x0 y0 z0 x1 y1 z1 : Q) (kx ky kz : Z) (vec : bool) (rows : list (list V)) :
  x0 < x1 -> y0 < y1 -> z0 < z1 -> (2 <= kx)%Z -> (2 <= ky)%Z -> (2 <= kz)%Z ->
  let nx := Z.to_nat kx in let ny := Z.to_nat ky in let nz := Z.to_nat kz in
  let dim := if vec then 3%nat else 1%nat in
  (nx * ny * nz <= length rows)%nat ->
  forallb (fun row => (length row =? dim)%nat) (firstn (nx * ny * nz) rows) = true ->
  exists f', from_legacy d (mkLegacy [cells_axis x0 x1 kx; cells_axis y0 y1 ky; cells_axis z0 z1 kz] vec rows) None = OK f' /\
    n (vf_mesh f') = [kx; ky; kz] /\
    (exists a0 a1 a2 b0 b1 b2, pmin (reg (vf_mesh f')) = [a0; a1; a2] /\ pmax (reg (vf_mesh f')) = [b0; b1; b2] /\
        a0 == x0 /\ a1 == y0 /\ a2 == z0 /\ b0 == x1 /\ b1 == y1 /\ b2 == z1) /\
    legacy_cell (cells_axis x0 x1 kx) == cell_of x0 x1 kx /\
    legacy_cell (cells_axis y0 y1 ky) == cell_of y0 y1 ky /\
    legacy_cell (cells_axis z0 z1 kz) == cell_of z0 z1 kz /\
    vf_nv f' = dim /\ length (vf_vals f') = (nx * ny * nz * dim)%nat /\
    (forall i j k c, (i < nx)%nat -> (j < ny)%nat -> (k < nz)%nat -> (c < dim)%nat ->
       nth (cpos ny nz dim i j k c) (vf_vals f') d = nth c (nth (cell_id nx ny i j k) rows []) d) /\
    vf_valid f' = repeat true (nx * ny * nz).
Proof. exact (@legacy V d x0 y0 z0 x1 y1 z1 kx ky kz vec rows). Qed.
Print Assumptions C16_legacy.

Example C16_legacy_nonvacuous :
  exists f', from_legacy 0 (mkLegacy [cells_axis 0 2 2; cells_axis 0 3 3; cells_axis 1 2 2] false
                                     [[1]; [2]; [3]; [4]; [5]; [6]; [7]; [8]; [9]; [10]; [11]; [12]]) None = OK f' /\
    n (vf_mesh f') = [2; 3; 2]%Z /\ nth (cpos 3 2 1 1 2 0 0) (vf_vals f') 0 = 6.
Proof. exact legacy_nonvacuous. Qed.
Print Assumptions C16_legacy_nonvacuous.

(* Refutation witnesses, only for the known findings: outside the guards of C16_roundtrip the
   faithful model loses what the implementation loses. *)
Theorem C16_scalar_label_refuted :
  exists f f', w_trip wq_id f None = OK f' /\ vf_vdims f = Some ["s"%string] /\ vf_vdims f' = None.
Proof. exact scalar_label_refuted. Qed.
Print Assumptions C16_scalar_label_refuted.

Theorem C16_label_field_refuted :
  exists f g f', to_vtk 0 wq_norm 1 0 f = OK g /\ vf_vdims f = Some ["field"; "b"]%string /\
    option_map fst (lookup_array "field" (g_cell g)) = Some 2%nat /\ length (g_cell g) = 4%nat /\
    w_trip wq_id f None = OK f' /\ vf_vdims f' = Some ["x"; "y"]%string.
Proof. exact label_field_refuted. Qed.
Print Assumptions C16_label_field_refuted.

Theorem C16_txt_keeps_ten_digits : forall rp x, Qabs (wq_txt rp x - x) <= (1 # 2000000000) * Qabs x.
Proof. exact txt_keeps_ten_digits. Qed.
Print Assumptions C16_txt_keeps_ten_digits.

Theorem C16_txt_subregions_refuted :
  exists f side, is_ok (w_trip wq_id f side) = true /\ is_ok (w_trip wq_txt f side) = false /\
    side = Some (subs (vf_mesh f)) /\ subs (vf_mesh f) <> [].
Proof. exact txt_subregions_refuted. Qed.
Print Assumptions C16_txt_subregions_refuted.

(* ---------- checker soundness: an accepted case certifies the relation between the OBSERVED output
   and the model's value (relations grid_sim / fld_sim / res_sim are spelled out in proofs/C16_sound.v:
   Leibniz equality on integers, strings, flags; Qeq on numbers in the exact regime; distance bounds in
   the scale regime and for text; stored norm v against the sum of squares s: 0 <= v, v*v == s) ---------- *)
Theorem C16_check_grid_sound : forall exact pyth p1 p2 n_ nv vd vals valid obs probes,
  check_C16 (CGrid exact pyth p1 p2 n_ nv vd vals valid obs probes) = true ->
  exists f, mkfield p1 p2 n_ [] nv vd vals valid = OK f /\
    res_sim (grid_sim false exact pyth) (q_to_vtk f) obs /\
    forall g pr mid, q_to_vtk f = OK g -> In pr probes -> strictly_inside g (fst pr) = Some mid ->
      fst (snd pr) = Z.of_nat mid /\ snd (snd pr) = Z.of_nat mid.
Proof. exact check_grid_sound. Qed.
Print Assumptions C16_check_grid_sound.

Theorem C16_check_round_sound : forall exact pyth rep p1 p2 n_ nv vd vals valid subs_ save_sub stale file obs,
  check_C16 (CRound exact pyth rep p1 p2 n_ nv vd vals valid subs_ save_sub stale file obs) = true ->
  exists f, mkfield p1 p2 n_ subs_ nv vd vals valid = OK f /\
    match q_write f rep save_sub, file with
    | OK (g, side), Some o =>
        grid_sim (is_txt rep) exact pyth g o /\
        res_sim (fld_sim true)
          (q_from_vtk (to_grid o)
             (sidecar_after (option_map (map (mk_sub (vf_mesh f))) stale) save_sub (subs (vf_mesh f)))) obs
    | Err _, None => obs = None
    | _, _ => False
    end.
Proof. exact check_round_sound. Qed.
Print Assumptions C16_check_round_sound.

Theorem C16_check_read_sound : forall g side obs,
  check_C16 (CRead g side obs) = true ->
  res_sim (fld_sim true) (q_from_vtk (to_grid g) (option_map (map (mk_sub m0)) side)) obs.
Proof. exact check_read_sound. Qed.
Print Assumptions C16_check_read_sound.

(* the left disjunct is the known finding C16-legacy-far-single-point (scale regime only) *)
Theorem C16_check_legacy_sound : forall exact coords vec rows side obs,
  check_C16 (CLegacy exact coords vec rows side obs) = true ->
  (exact = false /\ far_single coords = true /\ obs = None) \/
  res_sim (fld_sim exact) (q_from_legacy (mkLegacy coords vec rows) (option_map (map (mk_sub m0)) side)) obs.
Proof. exact check_legacy_sound. Qed.
Print Assumptions C16_check_legacy_sound.

Theorem C16_check_both_sound : forall a b,
  check_C16 (CBoth a b) = true -> check_C16 a = true /\ check_C16 b = true.
Proof. exact check_both_sound. Qed.
Print Assumptions C16_check_both_sound.

(* a whole shard: no failing index means every case was accepted *)
Theorem C16_shard_verdict : forall cases k,
  failing k (map check_C16 cases) = [] -> forall c, In c cases -> check_C16 c = true.
Proof. exact (failing_nil_all check_C16). Qed.
Print Assumptions C16_shard_verdict.

(* the field the model reader returns has a 3-d region, so the corner comparison of fld_sim (which
   runs over the axes of the model region) covers every axis of the three-coordinate observation *)
Theorem C16_read_back_mesh : forall g side f, q_from_vtk g side = OK f ->
  n (vf_mesh f) = map (fun k => k - 1)%Z (g_dims g) /\
  length (pmin (reg (vf_mesh f))) = 3%nat /\ length (pmax (reg (vf_mesh f))) = 3%nat.
Proof. exact from_vtk_mesh. Qed.
Print Assumptions C16_read_back_mesh.

(* ---------- transfer: the C16 theorems stated about the OBSERVED output ---------- *)
(* Clause 1 (C16_locate) on the grid Field.to_vtk returned, exact regime: the cell a VTK consumer locates
   at p in the OBSERVED vertex coordinates is the mesh cell of p, the OBSERVED field / valid arrays hold
   there that cell's value and flag, the OBSERVED norm there is the non-negative root of the sum of squares *)
Theorem C16_accepted_grid_locate : forall pyth (x0 y0 z0 x1 y1 z1 : Q) (kx ky kz : Z) (nv : nat)
  (vd : option (list string)) (vals : list Q) (valid : list bool) ods ocs oarrs probes (px py pz : Q),
  x0 < x1 -> y0 < y1 -> z0 < z1 -> (0 < kx)%Z -> (0 < ky)%Z -> (0 < kz)%Z ->
  ((1 < nv)%nat -> exists l, vd = Some l /\ length l = nv) ->
  (forall l, vd = Some l -> Forall (fun s => reserved s = false) l) ->
  x0 <= px /\ px < x1 -> y0 <= py /\ py < y1 -> z0 <= pz /\ pz < z1 ->
  check_C16 (CGrid true pyth [x0; y0; z0] [x1; y1; z1] [kx; ky; kz] nv vd vals valid
                   (Some (ods, ocs, oarrs)) probes) = true ->
  let m := mesh3 x0 y0 z0 x1 y1 z1 kx ky kz in
  let ny := Z.to_nat ky in let nz := Z.to_nat kz in
  ods = [kx + 1; ky + 1; kz + 1]%Z /\ Forall2 (Forall2 Qeq) (vertices m) ocs /\
  exists iz jz kz_,
    point2index m [px; py; pz] = OK [iz; jz; kz_] /\
    let i := Z.to_nat iz in let j := Z.to_nat jz in let k := Z.to_nat kz_ in
    let id := cell_id (Z.to_nat kx) ny i j k in
    q_locate (to_grid (ods, ocs, oarrs)) [px; py; pz] = Some id /\
    (exists nc ol, lookup_array "field" oarrs = Some (nc, ol) /\
       Forall2 Qeq (tuple_at 0 ny nz nv vals i j k) (tuple_of 0 (nc, ol) id)) /\
    (exists nc ol, lookup_array "valid" oarrs = Some (nc, ol) /\
       Forall2 Qeq [if nth (cpos ny nz 1 i j k 0) valid false then 1 else 0] (tuple_of 0 (nc, ol) id)) /\
    (exists ol, lookup_array "norm" oarrs = Some (1%nat, ol) /\
       0 <= nth id ol 0 /\
       (pyth = true -> nth id ol 0 * nth id ol 0 == sumsq (tuple_at 0 ny nz nv vals i j k))).
Proof. exact accepted_grid_locate. Qed.
Print Assumptions C16_accepted_grid_locate.

Example C16_accepted_grid_instance :
  check_C16 (CGrid true true [0; 0; 0] [2; 1; 1] [2; 1; 1]%Z 1 None [5; -7] [true; false]
     (Some ([3; 2; 2]%Z, [[0; 1; 2]; [0; 1]; [0; 1]],
            [("norm"%string, (1%nat, [5; 7])); ("field"%string, (1%nat, [5; -7]));
             ("valid"%string, (1%nat, [1; 0]))]))
     [([3 # 2; 1 # 2; 1 # 2], (1, 1)%Z)]) = true.
Proof. exact accepted_grid_instance. Qed.
Print Assumptions C16_accepted_grid_instance.

(* Clause 3 (C16_legacy) on the field the implementation's legacy reader returned *)
Theorem C16_accepted_legacy : forall (x0 y0 z0 x1 y1 z1 : Q) (kx ky kz : Z) (vec : bool) (rows : list (list Q)) obs,
  x0 < x1 -> y0 < y1 -> z0 < z1 -> (2 <= kx)%Z -> (2 <= ky)%Z -> (2 <= kz)%Z ->
  let nx := Z.to_nat kx in let ny := Z.to_nat ky in let nz := Z.to_nat kz in
  let dim := if vec then 3%nat else 1%nat in
  (nx * ny * nz <= length rows)%nat ->
  forallb (fun row => (length row =? dim)%nat) (firstn (nx * ny * nz) rows) = true ->
  check_C16 (CLegacy true [cells_axis x0 x1 kx; cells_axis y0 y1 ky; cells_axis z0 z1 kz] vec rows None obs) = true ->
  exists lo0 lo1 lo2 hi0 hi1 hi2 vd vals sb,
    obs = Some ([lo0; lo1; lo2], [hi0; hi1; hi2], [kx; ky; kz], dim, vd, vals, repeat true (nx * ny * nz), sb) /\
    lo0 == x0 /\ lo1 == y0 /\ lo2 == z0 /\ hi0 == x1 /\ hi1 == y1 /\ hi2 == z1 /\
    length vals = (nx * ny * nz * dim)%nat /\
    forall i j k c, (i < nx)%nat -> (j < ny)%nat -> (k < nz)%nat -> (c < dim)%nat ->
      nth (cpos ny nz dim i j k c) vals 0 == nth c (nth (cell_id nx ny i j k) rows []) 0.
Proof. exact accepted_legacy. Qed.
Print Assumptions C16_accepted_legacy.

Example C16_accepted_legacy_instance :
  check_C16 (CLegacy true [cells_axis 0 2 2; cells_axis 0 3 3; cells_axis 1 2 2] false
                     [[1]; [2]; [3]; [4]; [5]; [6]; [7]; [8]; [9]; [10]; [11]; [12]] None
     (Some ([0; 0; 1], [2; 3; 2], [2; 3; 2]%Z, 1%nat, None, [1; 7; 3; 9; 5; 11; 2; 8; 4; 10; 6; 12],
            repeat true 12, []))) = true.
Proof. exact accepted_legacy_instance. Qed.
Print Assumptions C16_accepted_legacy_instance.

(* Clause 2, the mesh, on the observation: the written file has n + 1 points per axis and the field read
   back from it has the n that was written (every representation, both regimes, any side-car state) *)
Theorem C16_accepted_round_n : forall exact pyth rep p1 p2 n_ nv vd vals valid subs_ save_sub stale
  ods ocs oarrs lo hi ns nv' vd' vals' valid' sb,
  check_C16 (CRound exact pyth rep p1 p2 n_ nv vd vals valid subs_ save_sub stale
                    (Some (ods, ocs, oarrs)) (Some (lo, hi, ns, nv', vd', vals', valid', sb))) = true ->
  ods = map (fun k => k + 1)%Z n_ /\ ns = n_.
Proof. exact accepted_round_n. Qed.
Print Assumptions C16_accepted_round_n.

Theorem C16_accepted_read_n : forall ods ocs oarrs side lo hi ns nv vd vals valid sb,
  check_C16 (CRead (ods, ocs, oarrs) side (Some (lo, hi, ns, nv, vd, vals, valid, sb))) = true ->
  ns = map (fun k => k - 1)%Z ods.
Proof. exact accepted_read_n. Qed.
Print Assumptions C16_accepted_read_n.
