(* C17 — xarray export/import is lossless and uses cell centres as coordinates.
   ONLY statements, each closed by [exact] of a lemma proved in proofs/, followed by
   Print Assumptions. *)
From DF Require Import Prelude Constants_gen Region Mesh Xarray C17_xarray.
Open Scope Q_scope.

(* the exported attributes, coordinate units, data, dtype, dimension names *)
Theorem C17_export_attrs : forall (f : field) (u : option string),
  let xa := to_xarray f u in
  let m := fmesh f in
  a_cell xa = Some (cell m) /\ a_pmin xa = Some (pmin (reg m)) /\ a_pmax xa = Some (pmax (reg m)) /\
  a_nvdim xa = Some (fnvdim f) /\ a_tf xa = Some (tf (reg m)) /\
  a_units xa = pick_unit u (funit f) /\
  xcunits xa = map (@Some string) (units (reg m)) /\
  xdata xa = fdata f /\ xdtype xa = fdtype f /\
  ((1 < fnvdim f)%Z -> xdims xa = dims (reg m) ++ [vdims_name] /\ xshape xa = n m ++ [fnvdim f] /\
                        xvdims xa = fvdims f) /\
  ((fnvdim f <= 1)%Z -> xdims xa = dims (reg m) /\ xshape xa = n m /\ xvdims xa = None).
Proof. exact export_attrs. Qed.
Print Assumptions C17_export_attrs.

(* the exported spatial coordinates are the C01 cell centres pmin + (j + 1/2) * cell, n per axis *)
Theorem C17_export_centres : forall (f : field) (u : option string), wf_field f ->
  let m := fmesh f in
  xcoords (to_xarray f u) = cells m /\
  length (cells m) = length (pmin (reg m)) /\
  forall a, (a < length (pmin (reg m)))%nat ->
    length (nth a (cells m) []) = Z.to_nat (nth a (n m) 1%Z) /\
    forall j, (0 <= j < nth a (n m) 1%Z)%Z ->
      nth (Z.to_nat j) (nth a (cells m) []) 0 ==
      nth a (pmin (reg m)) 0 + (inject_Z j + (1 # 2)) * nth a (cell m) 0.
Proof. exact export_centres. Qed.
Print Assumptions C17_export_centres.

Example C17_wf_field_nonvacuous : wf_field ex_vector /\ wf_field ex_scalar_labelled.
Proof. exact (conj ex_vector_wf ex_scalar_wf). Qed.
Print Assumptions C17_wf_field_nonvacuous.

(* import (export f) is accepted and returns the same mesh (corners, names, units, tolerance, n),
   component count, dtype tag and values, for every well-formed field of any size; the labels
   come back for vector fields and for unlabelled scalar fields.  (The field's own unit is not
   restored: the imported field has unit None.) *)
Theorem C17_roundtrip_partial : forall (f : field) (u : option string), wf_field f ->
  exists g, from_xarray (to_xarray f u) = OK g /\ field_same f g /\ funit g = None /\
            ((1 < fnvdim f)%Z \/ fvdims f = None -> fvdims g = fvdims f).
Proof. exact roundtrip. Qed.
Print Assumptions C17_roundtrip_partial.

(* the missing part of the full statement is false of the faithful model: a labelled scalar
   field loses its label (known finding C17-scalar-label-lost) *)
Theorem C17_roundtrip_scalar_label_refuted :
  exists f g, wf_field f /\ from_xarray (to_xarray f None) = OK g /\ fvdims g <> fvdims f.
Proof. exact roundtrip_scalar_label_refuted. Qed.
Print Assumptions C17_roundtrip_scalar_label_refuted.

(* rejections *)
Theorem C17_reject_missing_nvdim : forall xa : dataarray,
  a_nvdim xa = None -> from_xarray xa = Err KeyE.
Proof. exact reject_no_nvdim. Qed.
Print Assumptions C17_reject_missing_nvdim.

Theorem C17_reject_missing_component_axis : forall (xa : dataarray) (k : Z),
  a_nvdim xa = Some k -> (1 < k)%Z -> ~ In vdims_name (xdims xa) -> is_ok (from_xarray xa) = false.
Proof. exact reject_no_vdims_axis. Qed.
Print Assumptions C17_reject_missing_component_axis.

(* uneven spacing beyond numpy.allclose(diff, mean, atol=0): some spacing differs from the mean
   spacing by more than 1e-5 of it *)
Theorem C17_reject_uneven : forall (xa : dataarray) (v : list Q) (d : Q),
  In v (xcoords xa) -> In d (diffs v) ->
  np_atol + np_rtol * Qabs (qmean (diffs v)) < Qabs (d - qmean (diffs v)) ->
  is_ok (from_xarray xa) = false.
Proof. exact reject_uneven. Qed.
Print Assumptions C17_reject_uneven.

Theorem C17_reject_single_cell_without_cell : forall (xa : dataarray) (v : list Q),
  a_cell xa = None -> In v (xcoords xa) -> (length v < 2)%nat -> is_ok (from_xarray xa) = false.
Proof. exact reject_single_cell_no_cell. Qed.
Print Assumptions C17_reject_single_cell_without_cell.

(* attribute-free reconstruction, one axis, any number k >= 2 of evenly spaced coordinates
   x0 + j*c: the spacing test passes, the cell is the mean spacing (== c), the corners lie half a
   cell beyond the outermost centres, and Mesh(region, cell) counts k cells.  (The n-d assembly of
   these per-axis facts goes through by_cell_axes / mk_region_axes exactly as in the round trip; it
   is exercised by the correspondence cases 'even-coords', 'int-coords', 'dropped-coords', 'raw'.) *)
Theorem C17_rebuild_axis : forall (x0 c : Q) (k : Z), 0 < c -> (2 <= k)%Z ->
  let v := map (fun j => x0 + inject_Z j * c) (ziota 0 (Z.to_nat k)) in
  evenly 1 v = true /\
  exists c', mean_spacing v = Some c' /\ c' == c /\
    let p1 := hd 0 v - c' / 2 in
    let p2 := last v 0 + c' / 2 in
    p1 == x0 - c / 2 /\ p2 == x0 + (inject_Z k - 1) * c + c / 2 /\
    p1 < p2 /\ inject_Z k * c' == p2 - p1 /\ Qround_half_even ((p2 - p1) / c') = k.
Proof. exact rebuild_axis. Qed.
Print Assumptions C17_rebuild_axis.

(* Mesh(region, cell) accepts, with n = ks, every cell list that divides the edges exactly
   (any number of axes); used by both the round trip and the reconstruction *)
Theorem C17_mesh_by_cell_exact : forall (r : region) (ks : list Z) (cs : list Q),
  axes (pmin r) (pmax r) ks cs -> pmin r <> [] -> 0 <= tf r ->
  mesh_by_cell r cs = OK (mkMesh r ks "" []).
Proof. exact by_cell_axes. Qed.
Print Assumptions C17_mesh_by_cell_exact.
