(* C17 — xarray export/import is lossless and uses cell centres as coordinates.
   ONLY statements, each closed by [exact] of a lemma proved in proofs/, followed by
   Print Assumptions. *)
From DF Require Import Prelude Constants_gen Region Mesh Xarray C17_xarray C17_rebuild Check_C17 C17_check.
Open Scope Q_scope.

(* the exported attributes, coordinate units, data, dtype, dimension names *)
Theorem C17_export_attrs : forall (f : field) (u : option string),
  let xa := to_xarray f u in
  let m := fmesh f in
  a_cell xa = Some (cell m) /\ a_pmin xa = Some (pmin (reg m)) /\ a_pmax xa = Some (pmax (reg m)) /\
  a_nvdim xa = Some (fnvdim f) /\ a_tf xa = Some (tf (reg m)) /\
  a_units xa = pick_unit u (funit f) /\
  xcunits xa = map (@Some string) (units (reg m)) /\
  xdata xa = fdata f /\ xdtype xa = fdtype f /\
  ((1 < fnvdim f)%Z -> xdims xa = dims (reg m) ++ [vdims_name] /\ xshape xa = n m ++ [fnvdim f] /\
                        xvdims xa = fvdims f) /\
  ((fnvdim f <= 1)%Z -> xdims xa = dims (reg m) /\ xshape xa = n m /\ xvdims xa = None).
Proof. exact export_attrs. Qed.
Print Assumptions C17_export_attrs.

(* the exported spatial coordinates are the C01 cell centres pmin + (j + 1/2) * cell, n per axis *)
Theorem C17_export_centres : forall (f : field) (u : option string), wf_field f ->
  let m := fmesh f in
  xcoords (to_xarray f u) = cells m /\
  length (cells m) = length (pmin (reg m)) /\
  forall a, (a < length (pmin (reg m)))%nat ->
    length (nth a (cells m) []) = Z.to_nat (nth a (n m) 1%Z) /\
    forall j, (0 <= j < nth a (n m) 1%Z)%Z ->
      nth (Z.to_nat j) (nth a (cells m) []) 0 ==
      nth a (pmin (reg m)) 0 + (inject_Z j + (1 # 2)) * nth a (cell m) 0.
Proof. exact export_centres. Qed.
Print Assumptions C17_export_centres.

Example C17_wf_field_nonvacuous : wf_field ex_vector /\ wf_field ex_scalar_labelled.
Proof. exact (conj ex_vector_wf ex_scalar_wf). Qed.
Print Assumptions C17_wf_field_nonvacuous.

(* import (export f) is accepted and returns the same mesh (corners, names, units, tolerance, n),
   component count, dtype tag and values, for every well-formed field of any size; the labels
   come back for vector fields and for unlabelled scalar fields.  (The field's own unit is not
   restored: the imported field has unit None.) *)
Theorem C17_roundtrip_partial : forall (f : field) (u : option string), wf_field f ->
  exists g, from_xarray (to_xarray f u) = OK g /\ field_same f g /\ funit g = None /\
            ((1 < fnvdim f)%Z \/ fvdims f = None -> fvdims g = fvdims f).
Proof. exact roundtrip. Qed.
Print Assumptions C17_roundtrip_partial.

(* the missing part of the full statement is false of the faithful model: a labelled scalar
   field loses its label (known finding C17-scalar-label-lost) *)
Theorem C17_roundtrip_scalar_label_refuted :
  exists f g, wf_field f /\ from_xarray (to_xarray f None) = OK g /\ fvdims g <> fvdims f.
Proof. exact roundtrip_scalar_label_refuted. Qed.
Print Assumptions C17_roundtrip_scalar_label_refuted.

(* rejections *)
Theorem C17_reject_missing_nvdim : forall xa : dataarray,
  a_nvdim xa = None -> from_xarray xa = Err KeyE.
Proof. exact reject_no_nvdim. Qed.
Print Assumptions C17_reject_missing_nvdim.

Theorem C17_reject_missing_component_axis : forall (xa : dataarray) (k : Z),
  a_nvdim xa = Some k -> (1 < k)%Z -> ~ In vdims_name (xdims xa) -> is_ok (from_xarray xa) = false.
Proof. exact reject_no_vdims_axis. Qed.
Print Assumptions C17_reject_missing_component_axis.

(* uneven spacing beyond numpy.allclose(diff, mean, atol=0): some spacing differs from the mean
   spacing by more than 1e-5 of it *)
Theorem C17_reject_uneven : forall (xa : dataarray) (v : list Q) (d : Q),
  In v (xcoords xa) -> In d (diffs v) ->
  np_atol + np_rtol * Qabs (qmean (diffs v)) < Qabs (d - qmean (diffs v)) ->
  is_ok (from_xarray xa) = false.
Proof. exact reject_uneven. Qed.
Print Assumptions C17_reject_uneven.

Theorem C17_reject_single_cell_without_cell : forall (xa : dataarray) (v : list Q),
  a_cell xa = None -> In v (xcoords xa) -> (length v < 2)%nat -> is_ok (from_xarray xa) = false.
Proof. exact reject_single_cell_no_cell. Qed.
Print Assumptions C17_reject_single_cell_without_cell.

(* attribute-free reconstruction, one axis, any number k >= 2 of evenly spaced coordinates
   x0 + j*c: the spacing test passes, the cell is the mean spacing (== c), the corners lie half a
   cell beyond the outermost centres, and Mesh(region, cell) counts k cells.  (The n-d assembly of
   these per-axis facts goes through by_cell_axes / mk_region_axes exactly as in the round trip; it
   is exercised by the correspondence cases 'even-coords', 'int-coords', 'dropped-coords', 'raw'.) *)
Theorem C17_rebuild_axis : forall (x0 c : Q) (k : Z), 0 < c -> (2 <= k)%Z ->
  let v := map (fun j => x0 + inject_Z j * c) (ziota 0 (Z.to_nat k)) in
  evenly 1 v = true /\
  exists c', mean_spacing v = Some c' /\ c' == c /\
    let p1 := hd 0 v - c' / 2 in
    let p2 := last v 0 + c' / 2 in
    p1 == x0 - c / 2 /\ p2 == x0 + (inject_Z k - 1) * c + c / 2 /\
    p1 < p2 /\ inject_Z k * c' == p2 - p1 /\ Qround_half_even ((p2 - p1) / c') = k.
Proof. exact rebuild_axis. Qed.
Print Assumptions C17_rebuild_axis.

(* Mesh(region, cell) accepts, with n = ks, every cell list that divides the edges exactly
   (any number of axes); used by both the round trip and the reconstruction *)
Theorem C17_mesh_by_cell_exact : forall (r : region) (ks : list Z) (cs : list Q),
  axes (pmin r) (pmax r) ks cs -> pmin r <> [] -> 0 <= tf r ->
  mesh_by_cell r cs = OK (mkMesh r ks "" []).
Proof. exact by_cell_axes. Qed.
Print Assumptions C17_mesh_by_cell_exact.

Example C17_axes_nonvacuous : axes [0] [4] [4%Z] [1].
Proof. exact ex_axes. Qed.
Print Assumptions C17_axes_nonvacuous.

(* every accepted import, any number of axes, any attribute subset, in terms of the effective
   quantities of the model: eff_cell (the cell attribute wins over the mean spacing), eff_p1 /
   eff_p2 (the pmin / pmax attribute wins over  first - cell/2  /  last + cell/2, where cell is
   the EFFECTIVE cell), eff_units (coordinate units only if every axis has them), eff_tf.
   Acceptance = the effective cell divides the effective edges exactly ([axes]). *)
Theorem C17_import_accepts : forall (xa : dataarray) (k : Z) (cs : list Q) (ks : list Z) (vd : option (list string)),
  a_nvdim xa = Some k -> (1 <= k)%Z -> ((1 < k)%Z -> In vdims_name (xdims xa)) ->
  forallb (evenly 1) (xcoords xa) = true ->
  eff_cell xa = OK cs ->
  axes (eff_p1 xa cs) (eff_p2 xa cs) ks cs -> ks <> [] ->
  length (geo_dims xa) = length ks -> nodupb (geo_dims xa) = true ->
  match all_some (xcunits xa) with Some u => length u = length ks | None => True end ->
  set_vdims k (xvdims xa) = OK vd -> shape_ok xa k ks = true ->
  from_xarray xa =
  OK (mkField (mkMesh (mkRegion (eff_p1 xa cs) (eff_p2 xa cs) (geo_dims xa)
                                (eff_units xa (length ks)) (eff_tf xa)) ks "" [])
              k vd (xdtype xa) None (xdata xa)).
Proof. exact import_accepts. Qed.
Print Assumptions C17_import_accepts.

(* attribute-free reconstruction, all axes at once: coordinates x0_a + j*c_a (j < k_a, k_a >= 2,
   c_a > 0) and no cell/pmin/pmax attributes give the mesh with corners x0_a - c_a/2 and
   x0_a + (k_a - 1/2)*c_a, n = k, the data, dtype, labels unchanged *)
Theorem C17_rebuild : forall (xa : dataarray) (k : Z) (x0s cs : list Q) (ks : list Z) (vd : option (list string)),
  a_nvdim xa = Some k -> (1 <= k)%Z -> ((1 < k)%Z -> In vdims_name (xdims xa)) ->
  a_cell xa = None -> a_pmin xa = None -> a_pmax xa = None ->
  xcoords xa = prog_coords x0s cs ks ->
  x0s <> [] -> length cs = length x0s -> length ks = length x0s ->
  Forall (fun c => 0 < c) cs -> Forall (fun k => 2 <= k)%Z ks ->
  length (geo_dims xa) = length ks -> nodupb (geo_dims xa) = true ->
  match all_some (xcunits xa) with Some u => length u = length ks | None => True end ->
  set_vdims k (xvdims xa) = OK vd -> shape_ok xa k ks = true ->
  exists g, from_xarray xa = OK g /\
    Forall2 Qeq (pmin (reg (fmesh g))) (map2 (fun x0 c => x0 - c / 2) x0s cs) /\
    Forall2 Qeq (pmax (reg (fmesh g))) (map3 (fun x0 c k => x0 + (inject_Z k - (1 # 2)) * c) x0s cs ks) /\
    n (fmesh g) = ks /\ dims (reg (fmesh g)) = geo_dims xa /\
    units (reg (fmesh g)) = eff_units xa (length ks) /\ tf (reg (fmesh g)) = eff_tf xa /\
    fnvdim g = k /\ fvdims g = vd /\ fdtype g = xdtype xa /\ fdata g = xdata xa.
Proof. exact rebuild_nd. Qed.
Print Assumptions C17_rebuild.

Example C17_rebuild_nonvacuous : exists g, from_xarray ex_raw = OK g /\
  Forall2 Qeq (pmin (reg (fmesh g))) [0 - 1 / 2; 1 - (1 # 2) / 2] /\ n (fmesh g) = [2%Z; 3%Z].
Proof. exact ex_raw_rebuild. Qed.
Print Assumptions C17_rebuild_nonvacuous.

(* the eight subsets of {cell, pmin, pmax}: a present attribute is used verbatim; an absent corner
   is taken half an effective cell beyond the outermost coordinate; an absent cell is the mean
   spacing (needs >= 2 coordinates on every axis) *)
Theorem C17_import_with_cell_pmin_pmax : forall (xa : dataarray) (k : Z) (cs p q : list Q) (ks : list Z) (vd : option (list string)),
  a_nvdim xa = Some k ->
  (1 <= k)%Z ->
  ((1 < k)%Z -> In vdims_name (xdims xa)) ->
  forallb (evenly 1) (xcoords xa) = true ->
  a_cell xa = Some cs ->
  a_pmin xa = Some p ->
  a_pmax xa = Some q ->
  axes p q ks cs ->
  ks <> [] ->
  length (geo_dims xa) = length ks ->
  nodupb (geo_dims xa) = true ->
  match all_some (xcunits xa) with Some u => length u = length ks | None => True end ->
  set_vdims k (xvdims xa) = OK vd ->
  shape_ok xa k ks = true ->
  from_xarray xa =
  OK (mkField (mkMesh (mkRegion p q (geo_dims xa)
                                (eff_units xa (length ks)) (eff_tf xa)) ks "" [])
              k vd (xdtype xa) None (xdata xa)).
Proof. exact import_with_cell_pmin_pmax. Qed.
Print Assumptions C17_import_with_cell_pmin_pmax.

Theorem C17_import_with_cell_pmin : forall (xa : dataarray) (k : Z) (cs p : list Q) (ks : list Z) (vd : option (list string)),
  a_nvdim xa = Some k ->
  (1 <= k)%Z ->
  ((1 < k)%Z -> In vdims_name (xdims xa)) ->
  forallb (evenly 1) (xcoords xa) = true ->
  a_cell xa = Some cs ->
  a_pmin xa = Some p ->
  a_pmax xa = None ->
  axes p (map2 (fun v cc => last v 0 + cc / 2) (xcoords xa) cs) ks cs ->
  ks <> [] ->
  length (geo_dims xa) = length ks ->
  nodupb (geo_dims xa) = true ->
  match all_some (xcunits xa) with Some u => length u = length ks | None => True end ->
  set_vdims k (xvdims xa) = OK vd ->
  shape_ok xa k ks = true ->
  from_xarray xa =
  OK (mkField (mkMesh (mkRegion p (map2 (fun v cc => last v 0 + cc / 2) (xcoords xa) cs) (geo_dims xa)
                                (eff_units xa (length ks)) (eff_tf xa)) ks "" [])
              k vd (xdtype xa) None (xdata xa)).
Proof. exact import_with_cell_pmin. Qed.
Print Assumptions C17_import_with_cell_pmin.

Theorem C17_import_with_cell_pmax : forall (xa : dataarray) (k : Z) (cs q : list Q) (ks : list Z) (vd : option (list string)),
  a_nvdim xa = Some k ->
  (1 <= k)%Z ->
  ((1 < k)%Z -> In vdims_name (xdims xa)) ->
  forallb (evenly 1) (xcoords xa) = true ->
  a_cell xa = Some cs ->
  a_pmin xa = None ->
  a_pmax xa = Some q ->
  axes (map2 (fun v cc => hd 0 v - cc / 2) (xcoords xa) cs) q ks cs ->
  ks <> [] ->
  length (geo_dims xa) = length ks ->
  nodupb (geo_dims xa) = true ->
  match all_some (xcunits xa) with Some u => length u = length ks | None => True end ->
  set_vdims k (xvdims xa) = OK vd ->
  shape_ok xa k ks = true ->
  from_xarray xa =
  OK (mkField (mkMesh (mkRegion (map2 (fun v cc => hd 0 v - cc / 2) (xcoords xa) cs) q (geo_dims xa)
                                (eff_units xa (length ks)) (eff_tf xa)) ks "" [])
              k vd (xdtype xa) None (xdata xa)).
Proof. exact import_with_cell_pmax. Qed.
Print Assumptions C17_import_with_cell_pmax.

Theorem C17_import_with_cell : forall (xa : dataarray) (k : Z) (cs : list Q) (ks : list Z) (vd : option (list string)),
  a_nvdim xa = Some k ->
  (1 <= k)%Z ->
  ((1 < k)%Z -> In vdims_name (xdims xa)) ->
  forallb (evenly 1) (xcoords xa) = true ->
  a_cell xa = Some cs ->
  a_pmin xa = None ->
  a_pmax xa = None ->
  axes (map2 (fun v cc => hd 0 v - cc / 2) (xcoords xa) cs) (map2 (fun v cc => last v 0 + cc / 2) (xcoords xa) cs) ks cs ->
  ks <> [] ->
  length (geo_dims xa) = length ks ->
  nodupb (geo_dims xa) = true ->
  match all_some (xcunits xa) with Some u => length u = length ks | None => True end ->
  set_vdims k (xvdims xa) = OK vd ->
  shape_ok xa k ks = true ->
  from_xarray xa =
  OK (mkField (mkMesh (mkRegion (map2 (fun v cc => hd 0 v - cc / 2) (xcoords xa) cs) (map2 (fun v cc => last v 0 + cc / 2) (xcoords xa) cs) (geo_dims xa)
                                (eff_units xa (length ks)) (eff_tf xa)) ks "" [])
              k vd (xdtype xa) None (xdata xa)).
Proof. exact import_with_cell. Qed.
Print Assumptions C17_import_with_cell.

Theorem C17_import_with_pmin_pmax : forall (xa : dataarray) (k : Z) (cs p q : list Q) (ks : list Z) (vd : option (list string)),
  a_nvdim xa = Some k ->
  (1 <= k)%Z ->
  ((1 < k)%Z -> In vdims_name (xdims xa)) ->
  forallb (evenly 1) (xcoords xa) = true ->
  a_cell xa = None ->
  existsb (Z.eqb 1) (removelast (xshape xa)) = false ->
  all_some (map mean_spacing (xcoords xa)) = Some cs ->
  a_pmin xa = Some p ->
  a_pmax xa = Some q ->
  axes p q ks cs ->
  ks <> [] ->
  length (geo_dims xa) = length ks ->
  nodupb (geo_dims xa) = true ->
  match all_some (xcunits xa) with Some u => length u = length ks | None => True end ->
  set_vdims k (xvdims xa) = OK vd ->
  shape_ok xa k ks = true ->
  from_xarray xa =
  OK (mkField (mkMesh (mkRegion p q (geo_dims xa)
                                (eff_units xa (length ks)) (eff_tf xa)) ks "" [])
              k vd (xdtype xa) None (xdata xa)).
Proof. exact import_with_pmin_pmax. Qed.
Print Assumptions C17_import_with_pmin_pmax.

Theorem C17_import_with_pmin : forall (xa : dataarray) (k : Z) (cs p : list Q) (ks : list Z) (vd : option (list string)),
  a_nvdim xa = Some k ->
  (1 <= k)%Z ->
  ((1 < k)%Z -> In vdims_name (xdims xa)) ->
  forallb (evenly 1) (xcoords xa) = true ->
  a_cell xa = None ->
  existsb (Z.eqb 1) (removelast (xshape xa)) = false ->
  all_some (map mean_spacing (xcoords xa)) = Some cs ->
  a_pmin xa = Some p ->
  a_pmax xa = None ->
  axes p (map2 (fun v cc => last v 0 + cc / 2) (xcoords xa) cs) ks cs ->
  ks <> [] ->
  length (geo_dims xa) = length ks ->
  nodupb (geo_dims xa) = true ->
  match all_some (xcunits xa) with Some u => length u = length ks | None => True end ->
  set_vdims k (xvdims xa) = OK vd ->
  shape_ok xa k ks = true ->
  from_xarray xa =
  OK (mkField (mkMesh (mkRegion p (map2 (fun v cc => last v 0 + cc / 2) (xcoords xa) cs) (geo_dims xa)
                                (eff_units xa (length ks)) (eff_tf xa)) ks "" [])
              k vd (xdtype xa) None (xdata xa)).
Proof. exact import_with_pmin. Qed.
Print Assumptions C17_import_with_pmin.

Theorem C17_import_with_pmax : forall (xa : dataarray) (k : Z) (cs q : list Q) (ks : list Z) (vd : option (list string)),
  a_nvdim xa = Some k ->
  (1 <= k)%Z ->
  ((1 < k)%Z -> In vdims_name (xdims xa)) ->
  forallb (evenly 1) (xcoords xa) = true ->
  a_cell xa = None ->
  existsb (Z.eqb 1) (removelast (xshape xa)) = false ->
  all_some (map mean_spacing (xcoords xa)) = Some cs ->
  a_pmin xa = None ->
  a_pmax xa = Some q ->
  axes (map2 (fun v cc => hd 0 v - cc / 2) (xcoords xa) cs) q ks cs ->
  ks <> [] ->
  length (geo_dims xa) = length ks ->
  nodupb (geo_dims xa) = true ->
  match all_some (xcunits xa) with Some u => length u = length ks | None => True end ->
  set_vdims k (xvdims xa) = OK vd ->
  shape_ok xa k ks = true ->
  from_xarray xa =
  OK (mkField (mkMesh (mkRegion (map2 (fun v cc => hd 0 v - cc / 2) (xcoords xa) cs) q (geo_dims xa)
                                (eff_units xa (length ks)) (eff_tf xa)) ks "" [])
              k vd (xdtype xa) None (xdata xa)).
Proof. exact import_with_pmax. Qed.
Print Assumptions C17_import_with_pmax.

Theorem C17_import_with_no_geometry_attrs : forall (xa : dataarray) (k : Z) (cs : list Q) (ks : list Z) (vd : option (list string)),
  a_nvdim xa = Some k ->
  (1 <= k)%Z ->
  ((1 < k)%Z -> In vdims_name (xdims xa)) ->
  forallb (evenly 1) (xcoords xa) = true ->
  a_cell xa = None ->
  existsb (Z.eqb 1) (removelast (xshape xa)) = false ->
  all_some (map mean_spacing (xcoords xa)) = Some cs ->
  a_pmin xa = None ->
  a_pmax xa = None ->
  axes (map2 (fun v cc => hd 0 v - cc / 2) (xcoords xa) cs) (map2 (fun v cc => last v 0 + cc / 2) (xcoords xa) cs) ks cs ->
  ks <> [] ->
  length (geo_dims xa) = length ks ->
  nodupb (geo_dims xa) = true ->
  match all_some (xcunits xa) with Some u => length u = length ks | None => True end ->
  set_vdims k (xvdims xa) = OK vd ->
  shape_ok xa k ks = true ->
  from_xarray xa =
  OK (mkField (mkMesh (mkRegion (map2 (fun v cc => hd 0 v - cc / 2) (xcoords xa) cs) (map2 (fun v cc => last v 0 + cc / 2) (xcoords xa) cs) (geo_dims xa)
                                (eff_units xa (length ks)) (eff_tf xa)) ks "" [])
              k vd (xdtype xa) None (xdata xa)).
Proof. exact import_with_no_geometry_attrs. Qed.
Print Assumptions C17_import_with_no_geometry_attrs.

(* the single-cell rule, positively: with the cell attribute a one-coordinate axis is imported *)
Example C17_import_with_cell_nonvacuous : exists g, from_xarray ex_single = OK g /\
  pmin (reg (fmesh g)) = [5 - 2 / 2] /\ pmax (reg (fmesh g)) = [5 + 2 / 2] /\ n (fmesh g) = [1%Z].
Proof. exact ex_single_import. Qed.
Print Assumptions C17_import_with_cell_nonvacuous.

(* soundness of the correspondence checker, exact regime: a case that evaluates to true certifies
   that the recorded implementation output equals the model's (rationals up to ==, everything else
   Leibniz); a passing rejection case certifies that the model rejects even with the tightened
   spacing tolerance *)
Theorem C17_check_export_sound : forall p1 p2 ds us tf_ n_ k vd dt un data unit_arg obs,
  check_C17 (CExport true p1 p2 ds us tf_ n_ k vd dt un data unit_arg obs) = true ->
  exists f, build_field p1 p2 ds us tf_ n_ k vd dt un data = OK f /\ da_eqv (to_xarray f unit_arg) obs.
Proof. exact check_export_sound. Qed.
Print Assumptions C17_check_export_sound.

Theorem C17_check_import_sound : forall xa g,
  check_C17 (CImport true xa (Some g)) = true ->
  exists f, from_xarray_f fac_loose xa = OK f /\ field_eqv f g.
Proof. exact check_import_sound. Qed.
Print Assumptions C17_check_import_sound.

Theorem C17_check_import_reject_sound : forall exact xa,
  check_C17 (CImport exact xa None) = true -> is_ok (from_xarray_f fac_strict xa) = false.
Proof. exact check_import_reject_sound. Qed.
Print Assumptions C17_check_import_reject_sound.

Theorem C17_check_round_sound : forall p1 p2 ds us tf_ n_ k vd dt un data g,
  check_C17 (CRound true p1 p2 ds us tf_ n_ k vd dt un data (Some g)) = true ->
  exists f f', build_field p1 p2 ds us tf_ n_ k vd dt un data = OK f /\
               from_xarray_f fac_loose (to_xarray f None) = OK f' /\ field_eqv f' g.
Proof. exact check_round_sound. Qed.
Print Assumptions C17_check_round_sound.

(* the bracket ties the checker's two evaluations to from_xarray itself: whatever the model accepts is
   accepted unchanged with the loosened tolerance, and an acceptance with the tightened tolerance is
   an acceptance of the model (so a passing rejection case never contradicts from_xarray) *)
Theorem C17_check_bracket : forall (xa : dataarray) (g : field),
  (from_xarray xa = OK g -> from_xarray_f fac_loose xa = OK g) /\
  (from_xarray_f fac_strict xa = OK g -> from_xarray xa = OK g).
Proof. exact bracket. Qed.
Print Assumptions C17_check_bracket.
