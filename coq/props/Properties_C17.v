(* C17 — xarray export/import is lossless and uses cell centres as coordinates.
   ONLY statements, each closed by [exact] of a lemma proved in proofs/, followed by
   Print Assumptions. *)
From DF Require Import Prelude Constants_gen Region Mesh Xarray C17_xarray.
Open Scope Q_scope.

(* the exported attributes, coordinate units, data, dtype, dimension names *)
Theorem C17_export_attrs : forall (f : field) (u : option string),
  let xa := to_xarray f u in
  let m := fmesh f in
  a_cell xa = Some (cell m) /\ a_pmin xa = Some (pmin (reg m)) /\ a_pmax xa = Some (pmax (reg m)) /\
  a_nvdim xa = Some (fnvdim f) /\ a_tf xa = Some (tf (reg m)) /\
  a_units xa = pick_unit u (funit f) /\
  xcunits xa = map (@Some string) (units (reg m)) /\
  xdata xa = fdata f /\ xdtype xa = fdtype f /\
  ((1 < fnvdim f)%Z -> xdims xa = dims (reg m) ++ [vdims_name] /\ xshape xa = n m ++ [fnvdim f] /\
                        xvdims xa = fvdims f) /\
  ((fnvdim f <= 1)%Z -> xdims xa = dims (reg m) /\ xshape xa = n m /\ xvdims xa = None).
Proof. exact export_attrs. Qed.
Print Assumptions C17_export_attrs.
