(* C18 — arbitrary rotations (FieldRotator).  ONLY statements, each closed by [exact].
   [rnd] is the representation hook of the model (see model/Rotator.v); theorems that speak about
   values are stated for every hook with rnd x == x (identity, Qred). *)
From DF Require Import Prelude Rotator C18_machine C18_geom C18_field.
Open Scope Q_scope.

(* clear_rotation restores the original field (and the identity rotation) after any history *)
Theorem C18_clear_restores : forall rnd nv perm orig choose_n ops,
  run rnd nv perm orig choose_n (ops ++ [OClear]) = St mid orig.
Proof. exact clear_restores. Qed.
Print Assumptions C18_clear_restores.

(* after any history ending with a rotation the field is F(original, accumulated matrix): it does not
   depend on the intermediate fields or on the resolutions chosen on the way *)
Theorem C18_compose : forall rnd nv perm orig choose_n ops M nopt,
  let R := acc_rot rnd mid (ops ++ [ORot M nopt]) in
  run rnd nv perm orig choose_n (ops ++ [ORot M nopt]) =
  St R (rotated_field rnd nv perm orig R (match nopt with Some n => n | None => choose_n R end)).
Proof. exact run_field. Qed.
Print Assumptions C18_compose.

(* each new rotation multiplies the accumulated matrix from the left *)
Theorem C18_left_multiplication : forall rnd ops M nopt a,
  acc_rot rnd a (ops ++ [ORot M nopt]) = mmul rnd M (acc_rot rnd a ops).
Proof. exact acc_rot_last. Qed.
Print Assumptions C18_left_multiplication.

(* ... so that later rotations are applied after earlier ones *)
Theorem C18_compose_in_order : forall rnd, (forall x, rnd x == x) -> forall ops, no_clear ops -> forall v,
  veq (mapply rnd (acc_rot rnd mid ops) v) (apply_steps rnd ops v).
Proof. exact compose_in_order. Qed.
Print Assumptions C18_compose_in_order.

Example C18_compose_in_order_nonvacuous :
  no_clear [ORot (M3 (V3 0 (-1) 0) (V3 1 0 0) (V3 0 0 1)) None; ORot mid (Some (N3 1 2 3))].
Proof. exact I. Qed.

(* the evaluation order used by the checker is the model's function *)
Theorem C18_fast_eval_is_model : forall rnd nv perm orig R n',
  rotated_val_fast rnd nv perm orig R n' = rotated_val rnd nv perm orig R n'.
Proof. exact rotated_val_fast_eq. Qed.
Print Assumptions C18_fast_eval_is_model.

(* bounding box: per axis the new region has the old centre, contains the image of every corner
   (centre + R (1/2 s o edges), s a sign vector) and each of its two faces is touched by one *)
Theorem C18_bbox : forall rnd, (forall x, rnd x == x) -> forall R f,
  vx (f_pmin f) <= vx (f_pmax f) -> vy (f_pmin f) <= vy (f_pmax f) -> vz (f_pmin f) <= vz (f_pmax f) ->
  axis_bbox (r0 R) (vx (centre f)) (vx (new_pmin rnd R f)) (vx (new_pmax rnd R f)) (edges f) /\
  axis_bbox (r1 R) (vy (centre f)) (vy (new_pmin rnd R f)) (vy (new_pmax rnd R f)) (edges f) /\
  axis_bbox (r2 R) (vz (centre f)) (vz (new_pmin rnd R f)) (vz (new_pmax rnd R f)) (edges f).
Proof. exact bbox. Qed.
Print Assumptions C18_bbox.

Example C18_bbox_nonvacuous : let f := Fld (V3 0 0 0) (V3 4 2 1) (N3 4 2 1) (fun _ _ _ _ => 0) in
  vx (f_pmin f) <= vx (f_pmax f) /\ vy (f_pmin f) <= vy (f_pmax f) /\ vz (f_pmin f) <= vz (f_pmax f).
Proof. cbn. repeat split; discriminate. Qed.

(* rowimg is the component of the rotated corner *)
Theorem C18_corner_image : forall rnd, (forall x, rnd x == x) -> forall R c s e,
  veq (vadd c (mapply rnd R (vscale (1 # 2) (V3 (vx s * vx e) (vy s * vy e) (vz s * vz e)))))
      (V3 (vx c + rowimg (r0 R) s e) (vy c + rowimg (r1 R) s e) (vz c + rowimg (r2 R) s e)).
Proof. exact corner_image. Qed.
Print Assumptions C18_corner_image.

(* linear interpolation reproduces affine functions (hence linear scalar fields between the first and
   last cell centres, where the eight surrounding grid values are cell values) *)
Theorem C18_interp_affine : forall rnd, (forall x, rnd x == x) -> forall gx gy gz W x y z ax ay az b,
  let i := fst (locate rnd gx x) in let j := fst (locate rnd gy y) in let k := fst (locate rnd gz z) in
  ~ nth (S i) gx 0 - nth i gx 0 == 0 -> ~ nth (S j) gy 0 - nth j gy 0 == 0 -> ~ nth (S k) gz 0 - nth k gz 0 == 0 ->
  (forall a b' c, (a = i \/ a = S i) -> (b' = j \/ b' = S j) -> (c = k \/ c = S k) ->
     W a b' c == ax * nth a gx 0 + ay * nth b' gy 0 + az * nth c gz 0 + b) ->
  interp3 rnd W (locate rnd gx x) (locate rnd gy y) (locate rnd gz z) == ax * x + ay * y + az * z + b.
Proof. exact interp3_affine. Qed.
Print Assumptions C18_interp_affine.

(* a cell of the rotated field carries R^ applied to the interpolation of the original components
   (rotating first and interpolating afterwards, as the code does, is the same) *)
Theorem C18_interior_value : forall rnd, (forall x, rnd x == x) -> forall gx gy gz n R perm (a : arr) p c,
  interp_at rnd gx gy gz n (rot_arr rnd 3 R perm a) p c ==
  rot_comp rnd R perm (fun e => interp_at rnd gx gy gz n a p e) c.
Proof. exact interp_at_rotates. Qed.
Print Assumptions C18_interior_value.

Theorem C18_scalar_value : forall rnd gx gy gz n R perm (a : arr) p c,
  interp_at rnd gx gy gz n (rot_arr rnd 1 R perm a) p c = interp_at rnd gx gy gz n a p c.
Proof. exact interp_at_scalar. Qed.
Print Assumptions C18_scalar_value.

(* uniform fields: the interpolant is the uniform value everywhere inside the interpolator's box, so the
   rotated field carries R^ v there *)
Theorem C18_uniform : forall rnd, (forall x, rnd x == x) -> forall gx gy gz n (v : nat -> Q) p c,
  inb1 gx (vx p) && inb1 gy (vy p) && inb1 gz (vz p) = true ->
  interp_at rnd gx gy gz n (fun _ _ _ e => v e) p c == v c.
Proof. exact interp_at_uniform. Qed.
Print Assumptions C18_uniform.

(* zero outside *)
Theorem C18_outside_zero : forall rnd gx gy gz n (a : arr) p c,
  (vx p < hd 0 gx \/ last gx 0 < vx p) \/ (vy p < hd 0 gy \/ last gy 0 < vy p) \/ (vz p < hd 0 gz \/ last gz 0 < vz p) ->
  interp_at rnd gx gy gz n a p c = 0.
Proof. exact outside_zero. Qed.
Print Assumptions C18_outside_zero.

(* the component mapped to axis d receives sum_e R_de * (component mapped to axis e) *)
Theorem C18_permuted_mapping : forall rnd, (forall x, rnd x == x) -> forall R perm v d,
  is_perm3 perm -> (d < 3)%nat ->
  rot_comp rnd R perm v (nth d perm 0%nat) ==
  vnth (mrow R d) 0 * v (nth 0 perm 0%nat) + vnth (mrow R d) 1 * v (nth 1 perm 0%nat) + vnth (mrow R d) 2 * v (nth 2 perm 0%nat).
Proof. exact permuted_mapping. Qed.
Print Assumptions C18_permuted_mapping.

Theorem C18_mapping_is_permutation : forall mapping perm, length mapping = 3%nat ->
  forallb (fun m => match m with Some _ => true | None => false end) mapping = true ->
  ordered_idx mapping = Some perm -> is_perm3 perm.
Proof. exact ordered_idx_perm. Qed.
Print Assumptions C18_mapping_is_permutation.

Example C18_mapping_nonvacuous : ordered_idx [Some 2; Some 0; Some 1]%nat = Some [1; 2; 0]%nat.
Proof. reflexivity. Qed.

(* accepted exactly: 3-d mesh, scalar, or 3-vector whose every component is mapped to a dimension and
   whose every dimension carries a component *)
Theorem C18_refuse : forall nvdim ndim mapping,
  rotator_accepts nvdim ndim mapping = true <->
  ndim = 3%nat /\
  (nvdim = 1%nat \/
   (nvdim = 3%nat /\ (forall m, In m mapping -> m <> None) /\ exists perm, ordered_idx mapping = Some perm)).
Proof. exact accepts_iff. Qed.
Print Assumptions C18_refuse.

(* the same on the field the state machine stores (materialised rotated array, edge padding): every cell
   of a rotated 3-vector field carries R^ applied to the interpolant of the original components at the
   back-rotated centre; scalar fields carry the interpolant itself *)
Theorem C18_rotated_field_value : forall rnd, (forall x, rnd x == x) -> forall perm orig R n' i j k c,
  (1 <= n0 (f_n orig))%nat -> (1 <= n1 (f_n orig))%nat -> (1 <= n2 (f_n orig))%nat -> (c < 3)%nat ->
  let g := grids rnd orig in
  rotated_val rnd 3 perm orig R n' i j k c ==
  rot_comp rnd R perm
    (fun e => interp_at rnd (fst (fst g)) (snd (fst g)) (snd g) (f_n orig) (f_val orig) (back_pos rnd orig R n' i j k) e) c.
Proof. exact rotated_val_spec. Qed.
Print Assumptions C18_rotated_field_value.

Theorem C18_rotated_field_scalar : forall rnd, (forall x, rnd x == x) -> forall perm orig R n' i j k,
  (1 <= n0 (f_n orig))%nat -> (1 <= n1 (f_n orig))%nat -> (1 <= n2 (f_n orig))%nat ->
  let g := grids rnd orig in
  rotated_val rnd 1 perm orig R n' i j k 0%nat ==
  interp_at rnd (fst (fst g)) (snd (fst g)) (snd g) (f_n orig) (f_val orig) (back_pos rnd orig R n' i j k) 0%nat.
Proof. exact rotated_val_scalar. Qed.
Print Assumptions C18_rotated_field_scalar.
