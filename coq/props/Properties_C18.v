(* C18 — arbitrary rotations (FieldRotator).  ONLY statements, each closed by [exact].
   [rnd] is the representation hook of the model (see model/Rotator.v); theorems that speak about
   values are stated for every hook with rnd x == x (identity, Qred). *)
From DF Require Import Prelude Rotator C18_machine.
Open Scope Q_scope.

(* clear_rotation restores the original field (and the identity rotation) after any history *)
Theorem C18_clear_restores : forall rnd nv perm orig choose_n ops,
  run rnd nv perm orig choose_n (ops ++ [OClear]) = St mid orig.
Proof. exact clear_restores. Qed.
Print Assumptions C18_clear_restores.

(* after any history ending with a rotation the field is F(original, accumulated matrix): it does not
   depend on the intermediate fields or on the resolutions chosen on the way *)
Theorem C18_compose : forall rnd nv perm orig choose_n ops M nopt,
  let R := acc_rot rnd mid (ops ++ [ORot M nopt]) in
  run rnd nv perm orig choose_n (ops ++ [ORot M nopt]) =
  St R (rotated_field rnd nv perm orig R (match nopt with Some n => n | None => choose_n R end)).
Proof. exact run_field. Qed.
Print Assumptions C18_compose.

(* each new rotation multiplies the accumulated matrix from the left *)
Theorem C18_left_multiplication : forall rnd ops M nopt a,
  acc_rot rnd a (ops ++ [ORot M nopt]) = mmul rnd M (acc_rot rnd a ops).
Proof. exact acc_rot_last. Qed.
Print Assumptions C18_left_multiplication.

(* ... so that later rotations are applied after earlier ones *)
Theorem C18_compose_in_order : forall rnd, (forall x, rnd x == x) -> forall ops, no_clear ops -> forall v,
  veq (mapply rnd (acc_rot rnd mid ops) v) (apply_steps rnd ops v).
Proof. exact compose_in_order. Qed.
Print Assumptions C18_compose_in_order.

Example C18_compose_in_order_nonvacuous :
  no_clear [ORot (M3 (V3 0 (-1) 0) (V3 1 0 0) (V3 0 0 1)) None; ORot mid (Some (N3 1 2 3))].
Proof. exact I. Qed.
