(* C18 — arbitrary rotations (FieldRotator).  ONLY statements, each closed by [exact].
   [rnd] is the representation hook of the model (see model/Rotator.v); theorems that speak about
   values are stated for every hook with rnd x == x (identity, Qred). *)
From DF Require Import Prelude FieldK NDArray Rotate90.
From DF Require Import Rotator C18_machine C18_geom C18_field C18_bracket C18_quarter C18_nadm C18_c12 C18_gap Check_C18 CheckSound C18_sound.
Open Scope Q_scope.

(* clear_rotation restores the original field (and the identity rotation) after any history *)
Theorem C18_clear_restores : forall rnd nv perm orig choose_n ops,
  run rnd nv perm orig choose_n (ops ++ [OClear]) = St mid orig.
Proof. exact clear_restores. Qed.
Print Assumptions C18_clear_restores.

(* after any history ending with a rotation the field is F(original, accumulated matrix): it does not
   depend on the intermediate fields or on the resolutions chosen on the way *)
Theorem C18_compose : forall rnd nv perm orig choose_n ops M nopt, op_accepted (ORot M nopt) = true ->
  let R := acc_rot rnd mid (ops ++ [ORot M nopt]) in
  run rnd nv perm orig choose_n (ops ++ [ORot M nopt]) =
  St R (rotated_field rnd nv perm orig R (match nopt with Some n => n | None => choose_n R end)).
Proof. exact run_field. Qed.
Print Assumptions C18_compose.

(* each new rotation multiplies the accumulated matrix from the left *)
Theorem C18_left_multiplication : forall rnd ops M nopt a, op_accepted (ORot M nopt) = true ->
  acc_rot rnd a (ops ++ [ORot M nopt]) = mmul rnd M (acc_rot rnd a ops).
Proof. exact acc_rot_last. Qed.
Print Assumptions C18_left_multiplication.

(* a refused rotate() call (unknown method, malformed arguments, unsuitable n) is the identity on the
   state: field and accumulated rotation stay what they were *)
Theorem C18_refused_step_is_identity : forall rnd nv perm orig choose_n s o,
  op_accepted o = false -> step rnd nv perm orig choose_n s o = s.
Proof. exact refused_step_identity. Qed.
Print Assumptions C18_refused_step_is_identity.

Example C18_refused_nonvacuous :
  op_accepted ORefused = false /\ op_accepted (ORot mid (Some (N3 0 1 1))) = false /\
  op_accepted (ORot mid (Some (N3 2 1 1))) = true.
Proof. repeat split. Qed.
Print Assumptions C18_refused_nonvacuous.

(* ... so refused calls can be erased from any history (composition theorem for histories with refused
   steps: C18_compose / C18_clear_restores apply to the accepted calls) *)
Theorem C18_refused_steps_erasable : forall rnd nv perm orig choose_n ops,
  run rnd nv perm orig choose_n ops = run rnd nv perm orig choose_n (filter op_accepted ops).
Proof. exact refused_steps_erasable. Qed.
Print Assumptions C18_refused_steps_erasable.

Theorem C18_refused_rotation_not_composed : forall rnd ops a,
  acc_rot rnd a ops = acc_rot rnd a (filter op_accepted ops).
Proof. exact acc_rot_erasable. Qed.
Print Assumptions C18_refused_rotation_not_composed.

(* ... so that later rotations are applied after earlier ones (refused calls in between are skipped) *)
Theorem C18_compose_in_order : forall rnd, (forall x, rnd x == x) -> forall ops, no_clear ops -> forall v,
  veq (mapply rnd (acc_rot rnd mid ops) v) (apply_steps rnd ops v).
Proof. exact compose_in_order. Qed.
Print Assumptions C18_compose_in_order.

Example C18_compose_in_order_nonvacuous :
  no_clear [ORot (M3 (V3 0 (-1) 0) (V3 1 0 0) (V3 0 0 1)) None; ORefused; ORot mid (Some (N3 1 2 3))].
Proof. exact I. Qed.
Print Assumptions C18_compose_in_order_nonvacuous.

(* the evaluation order used by the checker is the model's function *)
Theorem C18_fast_eval_is_model : forall rnd nv perm orig R n',
  rotated_val_fast rnd nv perm orig R n' = rotated_val rnd nv perm orig R n'.
Proof. exact rotated_val_fast_eq. Qed.
Print Assumptions C18_fast_eval_is_model.

(* bounding box: per axis the new region has the old centre, contains the image of every corner
   (centre + R (1/2 s o edges), s a sign vector) and each of its two faces is touched by one *)
Theorem C18_bbox : forall rnd, (forall x, rnd x == x) -> forall R f,
  vx (f_pmin f) <= vx (f_pmax f) -> vy (f_pmin f) <= vy (f_pmax f) -> vz (f_pmin f) <= vz (f_pmax f) ->
  axis_bbox (r0 R) (vx (centre f)) (vx (new_pmin rnd R f)) (vx (new_pmax rnd R f)) (edges f) /\
  axis_bbox (r1 R) (vy (centre f)) (vy (new_pmin rnd R f)) (vy (new_pmax rnd R f)) (edges f) /\
  axis_bbox (r2 R) (vz (centre f)) (vz (new_pmin rnd R f)) (vz (new_pmax rnd R f)) (edges f).
Proof. exact bbox. Qed.
Print Assumptions C18_bbox.

Example C18_bbox_nonvacuous : let f := Fld (V3 0 0 0) (V3 4 2 1) (N3 4 2 1) (fun _ _ _ _ => 0) in
  vx (f_pmin f) <= vx (f_pmax f) /\ vy (f_pmin f) <= vy (f_pmax f) /\ vz (f_pmin f) <= vz (f_pmax f).
Proof. cbn. repeat split; discriminate. Qed.
Print Assumptions C18_bbox_nonvacuous.

(* rowimg is the component of the rotated corner *)
Theorem C18_corner_image : forall rnd, (forall x, rnd x == x) -> forall R c s e,
  veq (vadd c (mapply rnd R (vscale (1 # 2) (V3 (vx s * vx e) (vy s * vy e) (vz s * vz e)))))
      (V3 (vx c + rowimg (r0 R) s e) (vy c + rowimg (r1 R) s e) (vz c + rowimg (r2 R) s e)).
Proof. exact corner_image. Qed.
Print Assumptions C18_corner_image.

(* linear interpolation reproduces affine functions (hence linear scalar fields between the first and
   last cell centres, where the eight surrounding grid values are cell values) *)
Theorem C18_interp_affine : forall rnd, (forall x, rnd x == x) -> forall gx gy gz W x y z ax ay az b,
  let i := fst (locate rnd gx x) in let j := fst (locate rnd gy y) in let k := fst (locate rnd gz z) in
  ~ nth (S i) gx 0 - nth i gx 0 == 0 -> ~ nth (S j) gy 0 - nth j gy 0 == 0 -> ~ nth (S k) gz 0 - nth k gz 0 == 0 ->
  (forall a b' c, (a = i \/ a = S i) -> (b' = j \/ b' = S j) -> (c = k \/ c = S k) ->
     W a b' c == ax * nth a gx 0 + ay * nth b' gy 0 + az * nth c gz 0 + b) ->
  interp3 rnd W (locate rnd gx x) (locate rnd gy y) (locate rnd gz z) == ax * x + ay * y + az * z + b.
Proof. exact interp3_affine. Qed.
Print Assumptions C18_interp_affine.

(* a cell of the rotated field carries R^ applied to the interpolation of the original components
   (rotating first and interpolating afterwards, as the code does, is the same) *)
Theorem C18_interior_value : forall rnd, (forall x, rnd x == x) -> forall gx gy gz n R perm (a : arr) p c,
  interp_at rnd gx gy gz n (rot_arr rnd 3 R perm a) p c ==
  rot_comp rnd R perm (fun e => interp_at rnd gx gy gz n a p e) c.
Proof. exact interp_at_rotates. Qed.
Print Assumptions C18_interior_value.

Theorem C18_scalar_value : forall rnd gx gy gz n R perm (a : arr) p c,
  interp_at rnd gx gy gz n (rot_arr rnd 1 R perm a) p c = interp_at rnd gx gy gz n a p c.
Proof. exact interp_at_scalar. Qed.
Print Assumptions C18_scalar_value.

(* uniform fields: the interpolant is the uniform value everywhere inside the interpolator's box, so the
   rotated field carries R^ v there *)
Theorem C18_uniform : forall rnd, (forall x, rnd x == x) -> forall gx gy gz n (v : nat -> Q) p c,
  inb1 gx (vx p) && inb1 gy (vy p) && inb1 gz (vz p) = true ->
  interp_at rnd gx gy gz n (fun _ _ _ e => v e) p c == v c.
Proof. exact interp_at_uniform. Qed.
Print Assumptions C18_uniform.

(* zero outside *)
Theorem C18_outside_zero : forall rnd gx gy gz n (a : arr) p c,
  (vx p < hd 0 gx \/ last gx 0 < vx p) \/ (vy p < hd 0 gy \/ last gy 0 < vy p) \/ (vz p < hd 0 gz \/ last gz 0 < vz p) ->
  interp_at rnd gx gy gz n a p c = 0.
Proof. exact outside_zero. Qed.
Print Assumptions C18_outside_zero.

(* the component mapped to axis d receives sum_e R_de * (component mapped to axis e) *)
Theorem C18_permuted_mapping : forall rnd, (forall x, rnd x == x) -> forall R perm v d,
  is_perm3 perm -> (d < 3)%nat ->
  rot_comp rnd R perm v (nth d perm 0%nat) ==
  vnth (mrow R d) 0 * v (nth 0 perm 0%nat) + vnth (mrow R d) 1 * v (nth 1 perm 0%nat) + vnth (mrow R d) 2 * v (nth 2 perm 0%nat).
Proof. exact permuted_mapping. Qed.
Print Assumptions C18_permuted_mapping.

Theorem C18_mapping_is_permutation : forall mapping perm, length mapping = 3%nat ->
  forallb (fun m => match m with Some _ => true | None => false end) mapping = true ->
  ordered_idx mapping = Some perm -> is_perm3 perm.
Proof. exact ordered_idx_perm. Qed.
Print Assumptions C18_mapping_is_permutation.

Example C18_mapping_nonvacuous : ordered_idx [Some 2; Some 0; Some 1]%nat = Some [1; 2; 0]%nat.
Proof. reflexivity. Qed.
Print Assumptions C18_mapping_nonvacuous.

(* accepted exactly: 3-d mesh, scalar, or 3-vector whose every component is mapped to a dimension and
   whose every dimension carries a component *)
Theorem C18_refuse : forall nvdim ndim mapping,
  rotator_accepts nvdim ndim mapping = true <->
  ndim = 3%nat /\
  (nvdim = 1%nat \/
   (nvdim = 3%nat /\ (forall m, In m mapping -> m <> None) /\ exists perm, ordered_idx mapping = Some perm)).
Proof. exact accepts_iff. Qed.
Print Assumptions C18_refuse.

(* the same on the field the state machine stores (materialised rotated array, edge padding): every cell
   of a rotated 3-vector field carries R^ applied to the interpolant of the original components at the
   back-rotated centre; scalar fields carry the interpolant itself *)
Theorem C18_rotated_field_value : forall rnd, (forall x, rnd x == x) -> forall perm orig R n' i j k c,
  (1 <= n0 (f_n orig))%nat -> (1 <= n1 (f_n orig))%nat -> (1 <= n2 (f_n orig))%nat -> (c < 3)%nat ->
  let g := grids rnd orig in
  rotated_val rnd 3 perm orig R n' i j k c ==
  rot_comp rnd R perm
    (fun e => interp_at rnd (fst (fst g)) (snd (fst g)) (snd g) (f_n orig) (f_val orig) (back_pos rnd orig R n' i j k) e) c.
Proof. exact rotated_val_spec. Qed.
Print Assumptions C18_rotated_field_value.

Theorem C18_rotated_field_scalar : forall rnd, (forall x, rnd x == x) -> forall perm orig R n' i j k,
  (1 <= n0 (f_n orig))%nat -> (1 <= n1 (f_n orig))%nat -> (1 <= n2 (f_n orig))%nat ->
  let g := grids rnd orig in
  rotated_val rnd 1 perm orig R n' i j k 0%nat ==
  interp_at rnd (fst (fst g)) (snd (fst g)) (snd g) (f_n orig) (f_val orig) (back_pos rnd orig R n' i j k) 0%nat.
Proof. exact rotated_val_scalar. Qed.
Print Assumptions C18_rotated_field_scalar.

(* ================= phase 2 ================= *)

(* the interval search on the rotator's grid (guard points at pmin - 1e-9 cell and pmax + 1e-9 cell around
   the cell centres): a point at least one cell inside the region is bracketed by two neighbouring cell
   CENTRES, the weight is the normalised distance from the lower one, the padded index is the cell index *)
Theorem C18_locate_brackets : forall rnd, (forall x, rnd x == x) -> forall lo hi ctr n x,
  lo < hi -> (1 <= n)%nat -> one_cell_inside lo hi n (x + ctr) ->
  exists a t, brackets lo hi n a (x + ctr) t /\
    fst (locate rnd (grid1 rnd lo hi ctr n) x) = S a /\ snd (locate rnd (grid1 rnd lo hi ctr n) x) == t /\
    pad1 n (S a) = a /\ pad1 n (S (S a)) = S a /\ inb1 (grid1 rnd lo hi ctr n) x = true.
Proof. exact one_cell_axis. Qed.
Print Assumptions C18_locate_brackets.

Example C18_one_cell_inside_nonvacuous : 0 < 4 /\ (1 <= 4)%nat /\ one_cell_inside 0 4 4 (0 + 2).
Proof. unfold one_cell_inside. cbn. repeat split; (discriminate || lia). Qed.
Print Assumptions C18_one_cell_inside_nonvacuous.

(* the interpolator at such a point IS the linear interpolation between the eight neighbouring cell centres
   (no hypothesis on the surrounding values any more) *)
Theorem C18_interior_is_trilinear : forall rnd, (forall x, rnd x == x) -> forall orig (A : arr) p, wf_fld orig ->
  let lo := f_pmin orig in let hi := f_pmax orig in let n := f_n orig in let ctr := centre orig in
  let g := grids rnd orig in
  one_cell_inside (vx lo) (vx hi) (n0 n) (vx p + vx ctr) ->
  one_cell_inside (vy lo) (vy hi) (n1 n) (vy p + vy ctr) ->
  one_cell_inside (vz lo) (vz hi) (n2 n) (vz p + vz ctr) ->
  exists a b d tx ty tz,
    brackets (vx lo) (vx hi) (n0 n) a (vx p + vx ctr) tx /\
    brackets (vy lo) (vy hi) (n1 n) b (vy p + vy ctr) ty /\
    brackets (vz lo) (vz hi) (n2 n) d (vz p + vz ctr) tz /\
    forall e, interp_at rnd (fst (fst g)) (snd (fst g)) (snd g) n A p e == trilin A a b d tx ty tz e.
Proof. exact interp_at_interior. Qed.
Print Assumptions C18_interior_is_trilinear.

Example C18_wf_fld_nonvacuous : wf_fld (Fld (V3 0 0 0) (V3 4 2 1) (N3 4 2 1) (fun _ _ _ _ => 0)).
Proof. unfold wf_fld. cbn. repeat split; (reflexivity || lia). Qed.
Print Assumptions C18_wf_fld_nonvacuous.

(* C18 in the property's words: a target cell whose back-rotated centre lies at least one cell inside the
   original region carries R^ applied to the linear interpolation of the original (scalar: the interpolant) *)
Theorem C18_interior_value_property : forall rnd, (forall x, rnd x == x) -> forall perm orig R n' i j k, wf_fld orig ->
  let lo := f_pmin orig in let hi := f_pmax orig in let n := f_n orig in let ctr := centre orig in
  let p := back_pos rnd orig R n' i j k in
  one_cell_inside (vx lo) (vx hi) (n0 n) (vx p + vx ctr) ->
  one_cell_inside (vy lo) (vy hi) (n1 n) (vy p + vy ctr) ->
  one_cell_inside (vz lo) (vz hi) (n2 n) (vz p + vz ctr) ->
  exists a b d tx ty tz,
    brackets (vx lo) (vx hi) (n0 n) a (vx p + vx ctr) tx /\
    brackets (vy lo) (vy hi) (n1 n) b (vy p + vy ctr) ty /\
    brackets (vz lo) (vz hi) (n2 n) d (vz p + vz ctr) tz /\
    (forall c, (c < 3)%nat ->
       rotated_val rnd 3 perm orig R n' i j k c == Rotator.rot_comp rnd R perm (trilin (f_val orig) a b d tx ty tz) c) /\
    rotated_val rnd 1 perm orig R n' i j k 0%nat == trilin (f_val orig) a b d tx ty tz 0%nat.
Proof. exact rotated_cell_interior. Qed.
Print Assumptions C18_interior_value_property.

(* linear scalar fields are reproduced exactly: the rotated field carries the affine function evaluated at the
   back-rotated position P = centre + R^T (y - centre) *)
Theorem C18_linear_scalar_reproduced : forall rnd, (forall x, rnd x == x) -> forall perm orig R n' i j k al be ga de,
  wf_fld orig ->
  let lo := f_pmin orig in let hi := f_pmax orig in let n := f_n orig in let ctr := centre orig in
  let p := back_pos rnd orig R n' i j k in
  one_cell_inside (vx lo) (vx hi) (n0 n) (vx p + vx ctr) ->
  one_cell_inside (vy lo) (vy hi) (n1 n) (vy p + vy ctr) ->
  one_cell_inside (vz lo) (vz hi) (n2 n) (vz p + vz ctr) ->
  (forall i j k, (i < n0 n)%nat -> (j < n1 n)%nat -> (k < n2 n)%nat ->
      f_val orig i j k 0%nat == al * cpt (vx lo) (vx hi) (n0 n) i + be * cpt (vy lo) (vy hi) (n1 n) j +
                                ga * cpt (vz lo) (vz hi) (n2 n) k + de) ->
  rotated_val rnd 1 perm orig R n' i j k 0%nat ==
  al * (vx p + vx ctr) + be * (vy p + vy ctr) + ga * (vz p + vz ctr) + de.
Proof. exact linear_scalar_reproduced. Qed.
Print Assumptions C18_linear_scalar_reproduced.

(* a target centre that back-rotates exactly onto the centre of source cell (a,b,d) carries R^ of that cell *)
Theorem C18_node_value : forall rnd, (forall x, rnd x == x) -> forall perm orig R n' i j k a b d, wf_fld orig ->
  let lo := f_pmin orig in let hi := f_pmax orig in let n := f_n orig in let ctr := centre orig in
  let p := back_pos rnd orig R n' i j k in
  (a < n0 n)%nat -> (b < n1 n)%nat -> (d < n2 n)%nat ->
  vx p == cpt (vx lo) (vx hi) (n0 n) a - vx ctr ->
  vy p == cpt (vy lo) (vy hi) (n1 n) b - vy ctr ->
  vz p == cpt (vz lo) (vz hi) (n2 n) d - vz ctr ->
  (forall c, (c < 3)%nat -> rotated_val rnd 3 perm orig R n' i j k c == Rotator.rot_comp rnd R perm (f_val orig a b d) c) /\
  rotated_val rnd 1 perm orig R n' i j k 0%nat == f_val orig a b d 0%nat.
Proof. exact rotated_cell_on_node. Qed.
Print Assumptions C18_node_value.

(* ---- quarter turn x -> y (about z), the exact signed permutation matrix, vs the lattice rotation of C12 ---- *)
(* every target centre (i,j,k) of the mesh with swapped n back-rotates onto source centre (j, n1-1-i, k) *)
Theorem C18_quarter_turn_positions : forall rnd, (forall x, rnd x == x) -> forall orig i j k, wf_fld orig ->
  let n := f_n orig in let lo := f_pmin orig in let hi := f_pmax orig in let ctr := centre orig in
  (i < n1 n)%nat -> (j < n0 n)%nat ->
  let p := back_pos rnd orig Rz1 (N3 (n1 n) (n0 n) (n2 n)) i j k in
  vx p == cpt (vx lo) (vx hi) (n0 n) j - vx ctr /\
  vy p == cpt (vy lo) (vy hi) (n1 n) (n1 n - 1 - i) - vy ctr /\
  vz p == cpt (vz lo) (vz hi) (n2 n) k - vz ctr.
Proof. exact quarter_z1_pos. Qed.
Print Assumptions C18_quarter_turn_positions.

(* values = Field.rotate90's numpy.rot90 index map + 2x2 rotation of the two mapped components (Rotate90.v) *)
Theorem C18_quarter_turn : forall rnd, (forall x, rnd x == x) -> forall perm orig i j k c, wf_fld orig -> is_perm3 perm ->
  let n := f_n orig in
  (i < n1 n)%nat -> (j < n0 n)%nat -> (k < n2 n)%nat -> (c < 3)%nat ->
  rotated_val rnd 3 perm orig Rz1 (N3 (n1 n) (n0 n) (n2 n)) i j k c ==
  Rotate90.rot_comp QOps (fst (kturn QOps 1)) (snd (kturn QOps 1)) (nth 0 perm 0%nat) (nth 1 perm 0%nat)
    (rot90 [n0 n; n1 n; n2 n; 3%nat] 0 1 1 (arr_idx (f_val orig))) [i; j; k; c].
Proof. exact quarter_turn_z1_vector. Qed.
Print Assumptions C18_quarter_turn.

Example C18_quarter_turn_nonvacuous : is_perm3 [2; 0; 1]%nat.
Proof. cbn. tauto. Qed.
Print Assumptions C18_quarter_turn_nonvacuous.

Theorem C18_quarter_turn_scalar : forall rnd, (forall x, rnd x == x) -> forall perm orig i j k, wf_fld orig ->
  let n := f_n orig in
  (i < n1 n)%nat -> (j < n0 n)%nat -> (k < n2 n)%nat ->
  rotated_val rnd 1 perm orig Rz1 (N3 (n1 n) (n0 n) (n2 n)) i j k 0%nat ==
  rot90 [n0 n; n1 n; n2 n; 1%nat] 0 1 1 (arr_idx (f_val orig)) [i; j; k; 0%nat].
Proof. exact quarter_turn_z1_scalar. Qed.
Print Assumptions C18_quarter_turn_scalar.

(* region = Region.rotate90: min / max of the two corners rotated about the centre *)
Theorem C18_quarter_turn_region : forall rnd, (forall x, rnd x == x) -> forall orig, wf_fld orig ->
  let ctr := centre orig in
  let cl := [vx ctr; vy ctr; vz ctr] in
  let P1 := rot_pt (fst (qturn 1)) (snd (qturn 1)) 0 1 cl [vx (f_pmin orig); vy (f_pmin orig); vz (f_pmin orig)] in
  let P2 := rot_pt (fst (qturn 1)) (snd (qturn 1)) 0 1 cl [vx (f_pmax orig); vy (f_pmax orig); vz (f_pmax orig)] in
  let lo' := new_pmin rnd Rz1 orig in let hi' := new_pmax rnd Rz1 orig in
  (vx lo' == Qmin (nth 0 P1 0) (nth 0 P2 0) /\ vy lo' == Qmin (nth 1 P1 0) (nth 1 P2 0) /\ vz lo' == Qmin (nth 2 P1 0) (nth 2 P2 0)) /\
  (vx hi' == Qmax (nth 0 P1 0) (nth 0 P2 0) /\ vy hi' == Qmax (nth 1 P1 0) (nth 1 P2 0) /\ vz hi' == Qmax (nth 2 P1 0) (nth 2 P2 0)).
Proof. exact quarter_turn_z1_region. Qed.
Print Assumptions C18_quarter_turn_region.

(* cubic cells: the swapped n of Mesh.rotate90 is an admissible default resolution (exactly: slack 0) *)
Theorem C18_quarter_turn_n : forall rnd, (forall x, rnd x == x) -> forall orig h, wf_fld orig -> 0 < h ->
  vx (cellv orig) == h -> vy (cellv orig) == h -> vz (cellv orig) == h ->
  let n := f_n orig in
  n_adm rnd 0 Rz1 orig (N3 (n1 n) (n0 n) (n2 n)) = true /\
  rot_n 1 0 1 [Z.of_nat (n0 n); Z.of_nat (n1 n); Z.of_nat (n2 n)] =
    [Z.of_nat (n1 n); Z.of_nat (n0 n); Z.of_nat (n2 n)].
Proof. exact quarter_turn_z1_n. Qed.
Print Assumptions C18_quarter_turn_n.

(* ---- the default resolution ---- *)
(* whenever the cube root a of dV/vol is rational the checked relation IS the code's formula:
   n is a nearest integer of E / (L a) (up to the slack) *)
Theorem C18_n_adm_is_round : forall slack a dV vol E L n,
  0 <= slack -> 0 < a -> cube a * vol == dV -> 0 < vol -> 0 < L -> 0 <= E -> 0 <= qnat n - (1 # 2) - slack ->
  (n_adm1 slack dV vol E L n = true <->
   (1 <= n)%nat /\ qnat n - (1 # 2) - slack <= E / (L * a) /\ E / (L * a) <= qnat n + (1 # 2) + slack).
Proof. exact n_adm1_iff. Qed.
Print Assumptions C18_n_adm_is_round.

Example C18_n_adm_is_round_nonvacuous :
  0 <= 0 /\ 0 < 1 /\ cube 1 * 1 == 1 /\ 0 < 1 /\ 0 <= 3 /\ 0 <= qnat 3 - (1 # 2) - 0 /\ n_adm1 0 1 1 3 1 3 = true.
Proof. cbn. repeat split; (discriminate || reflexivity). Qed.
Print Assumptions C18_n_adm_is_round_nonvacuous.

(* irrational cube root: the admitted n is consistent with EVERY rational bracket a1 <= cbrt(dV/vol) <= a2 *)
Theorem C18_n_adm_brackets : forall dV vol E L n,
  0 < vol -> 0 < L -> 0 <= E -> 0 <= dV -> n_adm1 0 dV vol E L n = true ->
  (forall a1, 0 < a1 -> cube a1 * vol <= dV -> (qnat n - (1 # 2)) * L * a1 <= E) /\
  (forall a2, 0 < a2 -> dV <= cube a2 * vol -> E <= (qnat n + (1 # 2)) * L * a2).
Proof. exact n_adm1_brackets. Qed.
Print Assumptions C18_n_adm_brackets.

(* ---- the evaluation hook of the checker ---- *)
(* one interpolation step under a hook with relative error eta: weight off by delta, inputs off by eps,
   data bounded by V  =>  result off by at most (1+eta)(eps + 2 delta V) + eta V *)
Theorem C18_rounding_step : forall (rnd' : Q -> Q) eta, 0 <= eta -> (forall y, Qabs (rnd' y - y) <= eta * Qabs y) ->
  forall t t' a a' b b' delta eps V,
  0 <= t' -> t' <= 1 -> Qabs (t' - t) <= delta -> Qabs (a' - a) <= eps -> Qabs (b' - b) <= eps ->
  Qabs a <= V -> Qabs b <= V -> 0 <= t -> t <= 1 ->
  Qabs (lerp rnd' t' a' b' - ((1 - t) * a + t * b)) <= (1 + eta) * (eps + delta * (2 * V)) + eta * V.
Proof. exact lerp_gap. Qed.
Print Assumptions C18_rounding_step.

Example C18_rounding_step_nonvacuous : forall y, Qabs ((fun x => x) y - y) <= 0 * Qabs y.
Proof. intro y. cbv beta. setoid_replace (y - y) with 0 by ring. cbn. rewrite Qmult_0_l. apply Qle_refl. Qed.
Print Assumptions C18_rounding_step_nonvacuous.

(* ================= the tie, proved: soundness of the correspondence checker =================
   A case of a shard that evaluates to true certifies that the OBSERVED output of FieldRotator is the
   model's value on the recorded inputs.  [Check_C18.rnd] (= rnd_bits 44) is the hook the checker evaluates
   the model with; the statements below are about the model under THAT hook, so they combine with the
   theorems above that hold for every hook (state machine, refusal, zero fill, default resolution). *)

(* refusal verdicts are compared literally *)
Theorem C18_check_refuse_sound : forall nvdim ndim mapping accepted,
  check_C18 (CRefuse nvdim ndim mapping accepted) = true ->
  accepted = rotator_accepts nvdim ndim mapping.
Proof. exact check_refuse_sound. Qed.
Print Assumptions C18_check_refuse_sound.

(* transfer of C18_refuse: the observed verdict itself *)
Theorem C18_observed_refuse : forall nvdim ndim mapping accepted,
  check_C18 (CRefuse nvdim ndim mapping accepted) = true ->
  (accepted = true <->
   ndim = 3%nat /\
   (nvdim = 1%nat \/
    (nvdim = 3%nat /\ (forall m, In m mapping -> m <> None) /\ exists perm, ordered_idx mapping = Some perm))).
Proof. exact accepted_refuse_iff. Qed.
Print Assumptions C18_observed_refuse.

Example C18_observed_refuse_nonvacuous :
  check_C18 (CRefuse 3 3 [Some 2; Some 0; Some 1]%nat true) = true /\
  check_C18 (CRefuse 3 3 [Some 0; Some 0; Some 1]%nat false) = true.
Proof. exact accepted_refuse_instance. Qed.
Print Assumptions C18_observed_refuse_nonvacuous.

(* no accepted rotation since the last clear_rotation(): n, corner points and values are compared exactly
   with the original field *)
Theorem C18_check_cleared_sound : forall pmin pmax n nv perm vals ops obs_n obs_pmin obs_pmax obs_vals,
  check_C18 (CRot pmin pmax n nv perm vals ops obs_n obs_pmin obs_pmax obs_vals) = true ->
  last_rot ops None = None ->
  length vals = (ncells n * nv)%nat /\ length obs_vals = (ncells obs_n * nv)%nat /\
  obs_n = n /\ veq pmin obs_pmin /\ veq pmax obs_pmax /\
  Forall2 Qeq (fld_list nv (orig_of pmin pmax n nv vals)) obs_vals.
Proof. exact check_cleared_sound. Qed.
Print Assumptions C18_check_cleared_sound.

(* ... and the observed value list is the recorded input list, entry by entry *)
Theorem C18_observed_cleared_values : forall pmin pmax n nv perm vals ops obs_n obs_pmin obs_pmax obs_vals,
  check_C18 (CRot pmin pmax n nv perm vals ops obs_n obs_pmin obs_pmax obs_vals) = true ->
  last_rot ops None = None ->
  obs_n = n /\ veq pmin obs_pmin /\ veq pmax obs_pmax /\ Forall2 Qeq vals obs_vals.
Proof. exact accepted_clear_values. Qed.
Print Assumptions C18_observed_cleared_values.

(* transfer of C18_clear_restores: the observation after any history ending with clear_rotation() *)
Theorem C18_observed_clear_restores : forall pmin pmax n nv perm vals ops obs_n obs_pmin obs_pmax obs_vals,
  check_C18 (CRot pmin pmax n nv perm vals (ops ++ [OClear]) obs_n obs_pmin obs_pmax obs_vals) = true ->
  obs_n = n /\ veq pmin obs_pmin /\ veq pmax obs_pmax /\
  Forall2 Qeq (fld_list nv (orig_of pmin pmax n nv vals)) obs_vals.
Proof. exact accepted_clear_restores. Qed.
Print Assumptions C18_observed_clear_restores.

Example C18_observed_clear_restores_nonvacuous :
  check_C18 (CRot (V3 0 0 0) (V3 2 1 1) (N3 2 1 1) 1 [0; 1; 2]%nat [1; 2]
                  ([ORot (M3 (V3 0 (-1) 0) (V3 1 0 0) (V3 0 0 1)) None] ++ [OClear])
                  (N3 2 1 1) (V3 0 0 0) (V3 2 1 1) [1; 2]) = true.
Proof. exact accepted_clear_instance. Qed.
Print Assumptions C18_observed_clear_restores_nonvacuous.

(* the state the checker compares a rotated observation with: accumulated matrix of the accepted calls, field
   F(original, that matrix) at the observed resolution (explicit n: taken over literally; default: n_adm) *)
Theorem C18_check_rotated_state : forall pmin pmax n nv perm vals ops obs_n obs_pmin obs_pmax obs_vals nopt,
  check_C18 (CRot pmin pmax n nv perm vals ops obs_n obs_pmin obs_pmax obs_vals) = true ->
  last_rot ops None = Some nopt ->
  let orig := orig_of pmin pmax n nv vals in
  let R := acc_rot Check_C18.rnd mid ops in
  match nopt with Some ne => ne = obs_n | None => n_adm Check_C18.rnd n_slack R orig obs_n = true end /\
  run Check_C18.rnd nv perm orig (fun _ => obs_n) ops = St R (rotated_field Check_C18.rnd nv perm orig R obs_n).
Proof. exact check_rotated_state. Qed.
Print Assumptions C18_check_rotated_state.

(* region within 1e-9 of the coordinate scale, every value entry within 1e-9 of the value scale of the model's
   (band cells: alternatively of the zero fill / the value at the clamped point) *)
Theorem C18_check_rotated_sound : forall pmin pmax n nv perm vals ops obs_n obs_pmin obs_pmax obs_vals nopt,
  check_C18 (CRot pmin pmax n nv perm vals ops obs_n obs_pmin obs_pmax obs_vals) = true ->
  last_rot ops None = Some nopt ->
  let orig := orig_of pmin pmax n nv vals in
  let R := acc_rot Check_C18.rnd mid ops in
  length vals = (ncells n * nv)%nat /\ length obs_vals = (ncells obs_n * nv)%nat /\
  vwithin (rel_tol * cscale_of pmin pmax) (new_pmin Check_C18.rnd R orig) obs_pmin /\
  vwithin (rel_tol * cscale_of pmin pmax) (new_pmax Check_C18.rnd R orig) obs_pmax /\
  match nopt with Some ne => ne = obs_n | None => n_adm Check_C18.rnd n_slack R orig obs_n = true end /\
  forall i j k c, (i < n0 obs_n)%nat -> (j < n1 obs_n)%nat -> (k < n2 obs_n)%nat -> (c < nv)%nat ->
    cell_rel nv perm orig R obs_n (rel_tol * vscale_of vals) i j k c
             (arr_of_list obs_n nv obs_vals i j k c).
Proof. exact check_rotated_sound. Qed.
Print Assumptions C18_check_rotated_sound.

(* transfer of C18_compose / C18_left_multiplication: the observation after a history ending with an accepted
   rotate(M) is that of F(original, M * accumulated matrix of the earlier accepted calls) *)
Theorem C18_observed_compose : forall pmin pmax n nv perm vals ops M nopt obs_n obs_pmin obs_pmax obs_vals,
  op_accepted (ORot M nopt) = true ->
  check_C18 (CRot pmin pmax n nv perm vals (ops ++ [ORot M nopt]) obs_n obs_pmin obs_pmax obs_vals) = true ->
  let orig := orig_of pmin pmax n nv vals in
  let R := mmul Check_C18.rnd M (acc_rot Check_C18.rnd mid ops) in
  run Check_C18.rnd nv perm orig (fun _ => obs_n) (ops ++ [ORot M nopt])
    = St R (rotated_field Check_C18.rnd nv perm orig R obs_n) /\
  vwithin (rel_tol * cscale_of pmin pmax) (new_pmin Check_C18.rnd R orig) obs_pmin /\
  vwithin (rel_tol * cscale_of pmin pmax) (new_pmax Check_C18.rnd R orig) obs_pmax /\
  match nopt with Some ne => ne = obs_n | None => n_adm Check_C18.rnd n_slack R orig obs_n = true end /\
  forall i j k c, (i < n0 obs_n)%nat -> (j < n1 obs_n)%nat -> (k < n2 obs_n)%nat -> (c < nv)%nat ->
    cell_rel nv perm orig R obs_n (rel_tol * vscale_of vals) i j k c
             (arr_of_list obs_n nv obs_vals i j k c).
Proof. exact accepted_compose. Qed.
Print Assumptions C18_observed_compose.

Example C18_observed_compose_nonvacuous :
  op_accepted (ORot (M3 (V3 0 (-1) 0) (V3 1 0 0) (V3 0 0 1)) (Some (N3 1 2 1))) = true /\
  check_C18 (CRot (V3 0 0 0) (V3 2 1 1) (N3 2 1 1) 1 [0; 1; 2]%nat [1; 2]
                  ([ORefused] ++ [ORot (M3 (V3 0 (-1) 0) (V3 1 0 0) (V3 0 0 1)) (Some (N3 1 2 1))])
                  (N3 1 2 1) (V3 (1 # 2) (-1 # 2) 0) (V3 (3 # 2) (3 # 2) 1) [1; 2]) = true.
Proof. exact accepted_compose_instance. Qed.
Print Assumptions C18_observed_compose_nonvacuous.

(* transfer of C18_outside_zero: observed entries of cells whose back-rotated centre is outside the
   interpolator's box (and off the 1e-6-cell band around its faces) vanish up to the value tolerance *)
Theorem C18_observed_outside_zero : forall pmin pmax n nv perm vals ops obs_n obs_pmin obs_pmax obs_vals nopt i j k c,
  check_C18 (CRot pmin pmax n nv perm vals ops obs_n obs_pmin obs_pmax obs_vals) = true ->
  last_rot ops None = Some nopt ->
  let orig := orig_of pmin pmax n nv vals in
  let R := acc_rot Check_C18.rnd mid ops in
  let g := grids Check_C18.rnd orig in
  let p := back_pos Check_C18.rnd orig R obs_n i j k in
  (i < n0 obs_n)%nat -> (j < n1 obs_n)%nat -> (k < n2 obs_n)%nat -> (c < nv)%nat ->
  (vx p < hd 0 (fst (fst g)) \/ last (fst (fst g)) 0 < vx p) \/
  (vy p < hd 0 (snd (fst g)) \/ last (snd (fst g)) 0 < vy p) \/
  (vz p < hd 0 (snd g) \/ last (snd g) 0 < vz p) ->
  in_band orig p = false ->
  Qabs (arr_of_list obs_n nv obs_vals i j k c) <= rel_tol * vscale_of vals.
Proof. exact accepted_outside_zero. Qed.
Print Assumptions C18_observed_outside_zero.

Example C18_observed_outside_zero_nonvacuous :
  check_C18 (CRot (V3 0 0 0) (V3 2 2 1) (N3 2 2 1) 1 [0; 1; 2]%nat [1; 2; 3; 4]
                  [ORot ex_R (Some (N3 4 4 1))] (N3 4 4 1) ex_pmin ex_pmax ex_obs) = true /\
  last_rot [ORot ex_R (Some (N3 4 4 1))] None = Some (Some (N3 4 4 1)) /\
  (let p := back_pos Check_C18.rnd ex_orig (acc_rot Check_C18.rnd mid [ORot ex_R (Some (N3 4 4 1))]) (N3 4 4 1) 0 0 0 in
   vx p < hd 0 (fst (fst (grids Check_C18.rnd ex_orig))) /\ in_band ex_orig p = false).
Proof. exact accepted_outside_zero_instance. Qed.
Print Assumptions C18_observed_outside_zero_nonvacuous.

(* transfer of C18_refused_steps_erasable: the verdict on an observation is the verdict on the same observation
   for the history of the accepted calls only *)
Theorem C18_observed_refused_erasable : forall pmin pmax n nv perm vals ops obs_n obs_pmin obs_pmax obs_vals,
  check_C18 (CRot pmin pmax n nv perm vals ops obs_n obs_pmin obs_pmax obs_vals)
  = check_C18 (CRot pmin pmax n nv perm vals (filter op_accepted ops) obs_n obs_pmin obs_pmax obs_vals).
Proof. exact accepted_refused_erasable. Qed.
Print Assumptions C18_observed_refused_erasable.

(* transfer of C18_n_adm_is_round: an observed default resolution is a nearest integer of E / (L a), up to 1e-6,
   whenever the cube root a is rational *)
Theorem C18_observed_default_n : forall pmin pmax n nv perm vals ops obs_n obs_pmin obs_pmax obs_vals a,
  check_C18 (CRot pmin pmax n nv perm vals ops obs_n obs_pmin obs_pmax obs_vals) = true ->
  last_rot ops None = Some None ->
  let orig := orig_of pmin pmax n nv vals in
  let R := acc_rot Check_C18.rnd mid ops in
  let L := mabs_apply Check_C18.rnd R (cellv orig) in
  let E := vscale 2 (new_half Check_C18.rnd R orig) in
  0 < a -> cube a * vprod L == vprod (cellv orig) -> 0 < vprod L ->
  0 < vx L -> 0 < vy L -> 0 < vz L -> 0 <= vx E -> 0 <= vy E -> 0 <= vz E ->
  (qnat (n0 obs_n) - (1 # 2) - n_slack <= vx E / (vx L * a) /\ vx E / (vx L * a) <= qnat (n0 obs_n) + (1 # 2) + n_slack) /\
  (qnat (n1 obs_n) - (1 # 2) - n_slack <= vy E / (vy L * a) /\ vy E / (vy L * a) <= qnat (n1 obs_n) + (1 # 2) + n_slack) /\
  (qnat (n2 obs_n) - (1 # 2) - n_slack <= vz E / (vz L * a) /\ vz E / (vz L * a) <= qnat (n2 obs_n) + (1 # 2) + n_slack).
Proof. exact accepted_default_n. Qed.
Print Assumptions C18_observed_default_n.

Example C18_observed_default_n_nonvacuous :
  let Rz := M3 (V3 0 (-1) 0) (V3 1 0 0) (V3 0 0 1) in
  let orig := orig_of (V3 0 0 0) (V3 2 1 1) (N3 2 1 1) 1 [1; 2] in
  let L := mabs_apply Check_C18.rnd (acc_rot Check_C18.rnd mid [ORot Rz None]) (cellv orig) in
  let E := vscale 2 (new_half Check_C18.rnd (acc_rot Check_C18.rnd mid [ORot Rz None]) orig) in
  check_C18 (CRot (V3 0 0 0) (V3 2 1 1) (N3 2 1 1) 1 [0; 1; 2]%nat [1; 2] [ORot Rz None]
                  (N3 1 2 1) (V3 (1 # 2) (-1 # 2) 0) (V3 (3 # 2) (3 # 2) 1) [1; 2]) = true /\
  last_rot [ORot Rz None] None = Some None /\
  0 < 1 /\ cube 1 * vprod L == vprod (cellv orig) /\ 0 < vprod L /\
  0 < vx L /\ 0 < vy L /\ 0 < vz L /\ 0 <= vx E /\ 0 <= vy E /\ 0 <= vz E.
Proof. exact accepted_default_n_instance. Qed.
Print Assumptions C18_observed_default_n_nonvacuous.
