(* C18 — arbitrary rotations (FieldRotator).  ONLY statements, each closed by [exact]. *)
From DF Require Import Prelude Rotator C18_machine.
Open Scope Q_scope.

(* clear_rotation restores the original field (and the identity rotation) after any history *)
Theorem C18_clear_restores : forall nv perm orig choose_n ops,
  run nv perm orig choose_n (ops ++ [OClear]) = St mid orig.
Proof. exact clear_restores. Qed.
Print Assumptions C18_clear_restores.
