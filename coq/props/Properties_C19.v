(* C19 — Topological and demagnetisation tools obey their physical invariances (level: partial).
   K is an arbitrary field (so every statement holds for all real field values); the solid-angle
   function of util.bergluescher_angle, arccos, clip, abs, rounding and the Newell-type functions are
   parameters, never axioms.  Statements only.
   NOT proved here (validated numerically by the harness oracle on the implementation): integer
   Berg-Luescher charge for whole-sphere wrappings, hedgehog = one Bloch point, Nxx+Nyy+Nzz = -delta,
   demag factors summing to -|M|. *)
From DF Require Import Prelude FieldK NDArray Diff Integrate Region Mesh Tools C19_vec.

(* --- the algebra behind rotation invariance --- *)
Theorem C19_triple_product_under_matrix : forall (K : FOps), FLaws K -> forall (M : mat3 K) (a b c : vec K),
  triple3 K (mv K M a) (mv K M b) (mv K M c) = fmul (det3 K M) (triple3 K a b c).
Proof. exact triple3_mv. Qed.
Print Assumptions C19_triple_product_under_matrix.

Theorem C19_dot_product_under_rotation : forall (K : FOps), FLaws K -> forall (M : mat3 K) (a b : vec K),
  col_orthogonal K M -> dot3 K (mv K M a) (mv K M b) = dot3 K a b.
Proof. exact dot3_mv. Qed.
Print Assumptions C19_dot_product_under_rotation.

(* Berg-Luescher triangle: invariant under every proper rotation, for ANY solid-angle function *)
Theorem C19_bl_triangle_rot_invariant : forall (K : FOps), FLaws K ->
  forall (Omega : K -> K -> K -> K -> K) (M : mat3 K) (a b c : vec K),
  col_orthogonal K M -> det3 K M = f1 K ->
  bl_angle K Omega (mv K M a) (mv K M b) (mv K M c) = bl_angle K Omega a b c.
Proof. exact bl_angle_rot. Qed.
Print Assumptions C19_bl_triangle_rot_invariant.
