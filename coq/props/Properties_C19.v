(* C19 — Topological and demagnetisation tools obey their physical invariances (level: partial).
   K is an arbitrary field (so every statement holds for all real field values); the solid-angle
   function of util.bergluescher_angle, arccos, clip, abs, rounding and the Newell-type functions are
   parameters, never axioms.  Statements only.
   NOT proved here (validated numerically by the harness oracle on the implementation): integer
   Berg-Luescher charge for whole-sphere wrappings, hedgehog = one Bloch point, Nxx+Nyy+Nzz = -delta,
   demag factors summing to -|M|. *)
From Coq Require Import Qcanon.
From DF Require Import Prelude FieldK NDArray Diff Integrate Region Mesh Tools Rotate90 C19_vec C19_density C19_cont C19_angle C19_uniform C19_quarter CheckSound Check_C19 C19_sound.

(* --- the algebra behind rotation invariance --- *)
Theorem C19_triple_product_under_matrix : forall (K : FOps), FLaws K -> forall (M : mat3 K) (a b c : vec K),
  triple3 K (mv K M a) (mv K M b) (mv K M c) = fmul (det3 K M) (triple3 K a b c).
Proof. exact triple3_mv. Qed.
Print Assumptions C19_triple_product_under_matrix.

Theorem C19_dot_product_under_rotation : forall (K : FOps), FLaws K -> forall (M : mat3 K) (a b : vec K),
  col_orthogonal K M -> dot3 K (mv K M a) (mv K M b) = dot3 K a b.
Proof. exact dot3_mv. Qed.
Print Assumptions C19_dot_product_under_rotation.

(* Berg-Luescher triangle: invariant under every proper rotation, for ANY solid-angle function *)
Theorem C19_bl_triangle_rot_invariant : forall (K : FOps), FLaws K ->
  forall (Omega : K -> K -> K -> K -> K) (M : mat3 K) (a b c : vec K),
  col_orthogonal K M -> det3 K M = f1 K ->
  bl_angle K Omega (mv K M a) (mv K M b) (mv K M c) = bl_angle K Omega a b c.
Proof. exact bl_angle_rot. Qed.
Print Assumptions C19_bl_triangle_rot_invariant.

(* reversal of all vectors: the solid angle is assumed odd in the triple product (trusted: Omega) *)
Theorem C19_bl_triangle_reverse_sign : forall (K : FOps), FLaws K ->
  forall (Omega : K -> K -> K -> K -> K) (a b c : vec K),
  (forall d1 d2 d3 t, Omega d1 d2 d3 (fopp t) = fopp (Omega d1 d2 d3 t)) ->
  bl_angle K Omega (vneg K a) (vneg K b) (vneg K c) = fopp (bl_angle K Omega a b c).
Proof. exact bl_angle_neg. Qed.
Print Assumptions C19_bl_triangle_reverse_sign.

(* --- Berg-Luescher density, for every shape, mask and cell (neighbour logic included) --- *)
Theorem C19_rot_invariant_lattice : forall (K : FOps), FLaws K ->
  forall Omega (M : mat3 K) sh h1 h2 (o : idx -> K) valid ij,
  col_orthogonal K M -> det3 K M = f1 K ->
  tcd_bl K Omega sh h1 h2 (amap K (mv K M) o) valid ij = tcd_bl K Omega sh h1 h2 o valid ij.
Proof. exact tcd_bl_rot. Qed.
Print Assumptions C19_rot_invariant_lattice.

Theorem C19_reverse_sign_lattice : forall (K : FOps), FLaws K ->
  forall Omega sh h1 h2 (o : idx -> K) valid ij,
  (forall d1 d2 d3 t, Omega d1 d2 d3 (fopp t) = fopp (Omega d1 d2 d3 t)) ->
  tcd_bl K Omega sh h1 h2 (amap K (vneg K) o) valid ij = fopp (tcd_bl K Omega sh h1 h2 o valid ij).
Proof. exact tcd_bl_neg. Qed.
Print Assumptions C19_reverse_sign_lattice.

Theorem C19_uniform_zero_lattice : forall (K : FOps), FLaws K ->
  forall Omega sh h1 h2 (o : idx -> K) valid (v : vec K) ij,
  (forall d1 d2 d3, Omega d1 d2 d3 (f0 K) = f0 K) -> (forall i, vec_at K o i = v) ->
  tcd_bl K Omega sh h1 h2 o valid ij = f0 K.
Proof. exact tcd_bl_uniform. Qed.
Print Assumptions C19_uniform_zero_lattice.

Theorem C19_lattice_ignores_invalid_cells : forall (K : FOps) Omega sh h1 h2 (o o' : idx -> K) valid ij,
  (forall i, valid i = true -> vec_at K o i = vec_at K o' i) ->
  tcd_bl K Omega sh h1 h2 o valid ij = tcd_bl K Omega sh h1 h2 o' valid ij.
Proof. exact tcd_bl_ignores_invalid. Qed.
Print Assumptions C19_lattice_ignores_invalid_cells.

(* mesh rescaled by s (translation never enters: the model takes no position): density / s^2 ... *)
Theorem C19_mesh_rescale_lattice_density : forall (K : FOps), FLaws K ->
  forall Omega sh h1 h2 s (o : idx -> K) valid ij,
  s <> f0 K -> h1 <> f0 K -> h2 <> f0 K -> (forall k, (1 <= k)%nat -> fnat K k <> f0 K) ->
  tcd_bl K Omega sh (fmul h1 s) (fmul h2 s) o valid ij = fdiv (tcd_bl K Omega sh h1 h2 o valid ij) (fmul s s).
Proof. exact tcd_bl_mesh_scale. Qed.
Print Assumptions C19_mesh_rescale_lattice_density.

(* ... and the charge (density/s^2 integrated with cell area * s^2) is unchanged *)
Theorem C19_mesh_rescale_charge : forall (K : FOps), FLaws K -> forall fabs sh dV s (q : idx -> K),
  s <> f0 K ->
  charge K fabs false sh (fmul dV (fmul s s)) (fun i => fdiv (q i) (fmul s s)) = charge K fabs false sh dV q.
Proof. exact charge_mesh_scale. Qed.
Print Assumptions C19_mesh_rescale_charge.

Theorem C19_charge_of_reversed_density : forall (K : FOps), FLaws K -> forall fabs sh dV (q : idx -> K),
  charge K fabs false sh dV (fun i => fopp (q i)) = fopp (charge K fabs false sh dV q).
Proof. exact charge_neg. Qed.
Print Assumptions C19_charge_of_reversed_density.

Theorem C19_charge_depends_on_density_only : forall (K : FOps) fabs absolute sh dV (q q' : idx -> K),
  (forall i, q i = q' i) -> charge K fabs absolute sh dV q = charge K fabs absolute sh dV q'.
Proof. exact charge_ext. Qed.
Print Assumptions C19_charge_depends_on_density_only.

(* --- continuous density: the derivative (every stencil, every mask, every run, open AND periodic
       directions: wrap1/crop1 commute with cell-wise linear maps) commutes with a linear map of the
       vectors; the density picks up det M. --- *)
Theorem C19_derivative_commutes_with_rotation : forall (K : FOps), FLaws K ->
  forall sh ax order h per valid (M : mat3 K) (o : idx -> K) i,
  (ax < length i)%nat -> length i = length sh ->
  vec_at K (diff_nd K sh 3 ax order h per true (amap K (mv K M) o) valid) i
  = mv K M (vec_at K (diff_nd K sh 3 ax order h per true o valid) i).
Proof. exact diff_nd_mv. Qed.
Print Assumptions C19_derivative_commutes_with_rotation.

Theorem C19_rot_invariant_continuous : forall (K : FOps), FLaws K ->
  forall c4 sh h1 h2 per1 per2 (M : mat3 K) (o : idx -> K) valid i,
  length sh = 2%nat -> length i = 2%nat -> det3 K M = f1 K ->
  tcd_cont K c4 sh h1 h2 per1 per2 (amap K (mv K M) o) valid i = tcd_cont K c4 sh h1 h2 per1 per2 o valid i.
Proof. exact tcd_cont_rot. Qed.
Print Assumptions C19_rot_invariant_continuous.

Theorem C19_continuous_density_under_any_matrix : forall (K : FOps), FLaws K ->
  forall c4 sh h1 h2 per1 per2 (M : mat3 K) (o : idx -> K) valid i,
  length sh = 2%nat -> length i = 2%nat ->
  tcd_cont K c4 sh h1 h2 per1 per2 (amap K (mv K M) o) valid i
  = fmul (det3 K M) (tcd_cont K c4 sh h1 h2 per1 per2 o valid i).
Proof. exact tcd_cont_mv. Qed.
Print Assumptions C19_continuous_density_under_any_matrix.

(* reversal = the matrix -I (mv (-I) v = -v, det = -1) *)
Theorem C19_reverse_sign_continuous : forall (K : FOps), FLaws K ->
  forall c4 sh h1 h2 per1 per2 (o : idx -> K) valid i,
  length sh = 2%nat -> length i = 2%nat ->
  tcd_cont K c4 sh h1 h2 per1 per2 (amap K (mv K (mneg K)) o) valid i
  = fopp (tcd_cont K c4 sh h1 h2 per1 per2 o valid i).
Proof. exact tcd_cont_neg. Qed.
Print Assumptions C19_reverse_sign_continuous.

Theorem C19_minus_identity_reverses : forall (K : FOps), FLaws K -> forall v : vec K,
  mv K (mneg K) v = vneg K v.
Proof. exact mv_mneg. Qed.
Print Assumptions C19_minus_identity_reverses.

(* emergent field (pointwise): picks up det M, hence invariant under rotations, odd under reversal *)
Theorem C19_emergent_field_under_matrix : forall (K : FOps), FLaws K ->
  forall (M : mat3 K) (m d0 d1 d2 md0 md1 md2 mo : idx -> K) i,
  vec_at K mo i = mv K M (vec_at K m i) ->
  vec_at K md0 i = mv K M (vec_at K d0 i) -> vec_at K md1 i = mv K M (vec_at K d1 i) ->
  vec_at K md2 i = mv K M (vec_at K d2 i) ->
  emergent_pt K mo md0 md1 md2 i = vscale K (det3 K M) (emergent_pt K m d0 d1 d2 i).
Proof. intros K HK M m d0 d1 d2 md0 md1 md2 mo i. exact (emergent_pt_mv K HK M m d0 d1 d2 md0 md1 md2 mo i). Qed.
Print Assumptions C19_emergent_field_under_matrix.


(* --- uniform fields: every derivative vanishes, for ALL masks and runs, open and periodic, order 1 and
       order 2 (order 2 is proved against the coefficient tuples generated from operators.py into
       Constants_gen: a changed coefficient whose row no longer sums to zero breaks this proof) --- *)
Theorem C19_uniform_line_derivative_zero : forall (K : FOps), FLaws K ->
  forall order (v h : K) per restrict n valid,
  order = 1%nat \/ order = 2%nat -> length valid = n ->
  diff_line K order h per restrict (repeat v n) valid = repeat (f0 K) n.
Proof. exact diff_line_const. Qed.
Print Assumptions C19_uniform_line_derivative_zero.

Theorem C19_uniform_zero_continuous : forall (K : FOps), FLaws K ->
  forall c4 sh h1 h2 per1 per2 (o : idx -> K) valid (v : vec K) i,
  (forall j cc, o (j ++ [cc]) = vcomp K cc v) -> length sh = 2%nat -> length i = 2%nat ->
  tcd_cont K c4 sh h1 h2 per1 per2 o valid i = f0 K.
Proof. exact tcd_cont_uniform. Qed.
Print Assumptions C19_uniform_zero_continuous.

Theorem C19_uniform_zero_emergent : forall (K : FOps), FLaws K ->
  forall sh h per (m : idx -> K) valid (v : vec K) i,
  (forall j cc, m (j ++ [cc]) = vcomp K cc v) -> length sh = 3%nat ->
  emergent K sh h per m valid i = f0 K.
Proof. exact emergent_uniform. Qed.
Print Assumptions C19_uniform_zero_emergent.

(* --- quarter turns of the sample in the x-y plane (Field.rotate90: numpy.rot90 on data and validity,
       exact rotation of the x,y components; model Rotate90.v).  PROVED: for k = 1, 2, 3, every n0 x n1
       lattice, every validity mask, every cell size and ANY solid-angle function, the Berg-Luescher
       density of the rotated field is the rot90 image of the density of the original field (the index
       map permutes the four neighbours / four triangles of a cell cyclically; edges are exchanged for
       odd k).  NOT proved: the same for the continuous density, and the step from the covariant density
       to the equal charge (a sum over the permuted cells) - both validated by the harness clause
       `quarter-turn-changes-*`. --- *)
Theorem C19_quarter_turn_lattice_k1 : forall (K : FOps), FLaws K ->
  forall Omega n0 n1 (o : idx -> K) valid h1 h2 p q, (p < n1)%nat ->
  tcd_bl K Omega (rot90_shape [n0; n1] 0 1 1) h2 h1
         (rot_comp K (fst (kturn K 1)) (snd (kturn K 1)) 0 1 (rot90 [n0; n1; 3%nat] 0 1 1 o))
         (rot90 [n0; n1] 0 1 1 valid) [p; q]
  = rot90 [n0; n1] 0 1 1 (tcd_bl K Omega [n0; n1] h1 h2 o valid) [p; q].
Proof. exact tcd_bl_quarter1_covariant. Qed.
Print Assumptions C19_quarter_turn_lattice_k1.

Theorem C19_quarter_turn_lattice_k2 : forall (K : FOps), FLaws K ->
  forall Omega n0 n1 (o : idx -> K) valid h1 h2 p q, (p < n0)%nat -> (q < n1)%nat ->
  tcd_bl K Omega (rot90_shape [n0; n1] 0 1 2) h1 h2
         (rot_comp K (fst (kturn K 2)) (snd (kturn K 2)) 0 1 (rot90 [n0; n1; 3%nat] 0 1 2 o))
         (rot90 [n0; n1] 0 1 2 valid) [p; q]
  = rot90 [n0; n1] 0 1 2 (tcd_bl K Omega [n0; n1] h1 h2 o valid) [p; q].
Proof. exact tcd_bl_quarter2_covariant. Qed.
Print Assumptions C19_quarter_turn_lattice_k2.

Theorem C19_quarter_turn_lattice_k3 : forall (K : FOps), FLaws K ->
  forall Omega n0 n1 (o : idx -> K) valid h1 h2 p q, (q < n0)%nat ->
  tcd_bl K Omega (rot90_shape [n0; n1] 0 1 3) h2 h1
         (rot_comp K (fst (kturn K 3)) (snd (kturn K 3)) 0 1 (rot90 [n0; n1; 3%nat] 0 1 3 o))
         (rot90 [n0; n1] 0 1 3 valid) [p; q]
  = rot90 [n0; n1] 0 1 3 (tcd_bl K Omega [n0; n1] h1 h2 o valid) [p; q].
Proof. exact tcd_bl_quarter3_covariant. Qed.
Print Assumptions C19_quarter_turn_lattice_k3.

Example C19_quarter_turn_nonvacuous : quarter_example = true.
Proof. exact quarter_example_ok. Qed.
Print Assumptions C19_quarter_turn_nonvacuous.

(* --- neighbouring-cell angles --- *)
Theorem C19_angle_value : forall (K : FOps) acosf clipf degf ax (o : idx -> K) i,
  angle_arr K acosf clipf degf ax false o i
  = acosf (clipf (dot3 K (vec_at K o i) (vec_at K o (set_nth ax (nth ax i 0%nat + 1)%nat i)))).
Proof. exact angle_value. Qed.
Print Assumptions C19_angle_value.

Theorem C19_angle_shape : forall sh ax, (ax < length sh)%nat ->
  nth ax (angle_shape sh ax) 0%nat = (nth ax sh 0%nat - 1)%nat /\
  forall b, b <> ax -> nth b (angle_shape sh ax) 0%nat = nth b sh 0%nat.
Proof. exact angle_shape_axis. Qed.
Print Assumptions C19_angle_shape.

(* the mesh along the chosen direction: corners moved inwards by half a cell, built with the same cell:
   exactly one cell fewer, divisible, same cell, strictly inside the source *)
Theorem C19_angle_mesh_axis : forall (lo hi : Q) (k : Z), (2 <= k)%Z -> (lo < hi)%Q ->
  let c := cell_of lo hi k in
  Qround_half_even (((hi - c / 2) - (lo + c / 2)) / c)%Q = (k - 1)%Z /\
  (Qremainder ((hi - c / 2) - (lo + c / 2)) c == 0)%Q /\
  (cell_of (lo + c / 2) (hi - c / 2) (k - 1) == c)%Q /\
  (lo < lo + c / 2 /\ lo + c / 2 < hi - c / 2 /\ hi - c / 2 < hi)%Q.
Proof.
  intros lo hi k Hk Hlt c.
  exact (conj (angle_axis_n lo hi k Hk Hlt) (conj (angle_axis_divisible lo hi k Hk Hlt)
        (conj (angle_axis_cell lo hi k Hk Hlt) (angle_axis_inside lo hi k Hk Hlt)))).
Qed.
Print Assumptions C19_angle_mesh_axis.


(* every test that Region(p1=pmin+delta, p2=pmax-delta) and Mesh(region, cell=cell) apply to the chosen
   axis passes, for ANY non-negative tolerances, with count k-1; the other axes (delta = 0) pass with
   their own count (C01's by-cell lemmas; the n-d constructors apply these tests axis by axis - the
   list-level assembly of angle_mesh itself is executed by the correspondence, not proved) *)
Theorem C19_angle_mesh_axis_accepted : forall (lo hi : Q) (k : Z), (2 <= k)%Z -> (lo < hi)%Q ->
  forall rtol atol tol : Q, (0 <= rtol)%Q -> (0 <= atol)%Q -> (0 <= tol)%Q ->
  let c := cell_of lo hi k in let lo' := (lo + c / 2)%Q in let hi' := (hi - c / 2)%Q in
  (Qmin lo' hi' == lo')%Q /\ (Qmax lo' hi' == hi')%Q /\ Qeq_bool (hi' - lo') 0 = false /\
  Qltb 0 c = true /\
  contains1 rtol atol lo' hi' lo' = true /\ contains1 rtol atol lo' hi' (lo' + c) = true /\
  bad_rem tol c (hi' - lo') = false /\ Qround_half_even ((hi' - lo') / c) = (k - 1)%Z.
Proof. intros lo hi k Hk Hlt rtol atol tol Hr Ha Ht. exact (angle_axis_accepted lo hi k Hk Hlt rtol atol tol Hr Ha Ht). Qed.
Print Assumptions C19_angle_mesh_axis_accepted.

Theorem C19_angle_mesh_other_axis_accepted : forall (lo hi : Q) (k : Z) (rtol atol tol : Q),
  (1 <= k)%Z -> (lo < hi)%Q -> (0 <= rtol)%Q -> (0 <= atol)%Q -> (0 <= tol)%Q ->
  let c := cell_of lo hi k in
  (Qmin (lo + 0) (hi - 0) == lo)%Q /\ (Qmax (lo + 0) (hi - 0) == hi)%Q /\
  Qeq_bool ((hi - 0) - (lo + 0)) 0 = false /\ Qltb 0 c = true /\
  contains1 rtol atol lo hi lo = true /\ contains1 rtol atol lo hi (lo + c) = true /\
  bad_rem tol c (hi - lo) = false /\ Qround_half_even ((hi - lo) / c) = k.
Proof. exact angle_other_axis_accepted. Qed.
Print Assumptions C19_angle_mesh_other_axis_accepted.

Example C19_angle_mesh_nonvacuous :
  check_angle_mesh_example = true.
Proof. vm_compute. reflexivity. Qed.
Print Assumptions C19_angle_mesh_nonvacuous.

(* --- demag tensor assembly --- *)
(* the 64-term signed sum is minus the triple second difference of the Newell-type function *)
Theorem C19_N_sum_is_triple_second_difference : forall (K : FOps), FLaws K ->
  forall (F_ : K -> K -> K -> K) x y z dx dy dz,
  N_sum K F_ x y z dx dy dz
  = fopp (dd2 K (fun a => dd2 K (fun b => dd2 K (fun c => F_ a b c) z dz) y dy) x dx).
Proof. exact N_sum_second_difference. Qed.
Print Assumptions C19_N_sum_is_triple_second_difference.

(* cyclic relabelling of coordinates TOGETHER WITH the cell edges (restored by 56936a1f; the earlier
   C19_N_relabel_refuted of the design no longer applies to the code at HEAD) *)
Theorem C19_N_relabel : forall (K : FOps) (fN gN : K -> K -> K -> K) pi4 dx dy dz x y z,
  nth 1 (N6 K fN gN pi4 dx dy dz x y z) (f0 K) = nth 0 (N6 K fN gN pi4 dy dz dx y z x) (f0 K) /\
  nth 2 (N6 K fN gN pi4 dx dy dz x y z) (f0 K) = nth 0 (N6 K fN gN pi4 dz dx dy z x y) (f0 K) /\
  nth 5 (N6 K fN gN pi4 dx dy dz x y z) (f0 K) = nth 3 (N6 K fN gN pi4 dy dz dx y z x) (f0 K).
Proof. exact N6_relabel. Qed.
Print Assumptions C19_N_relabel.


(* --- checker soundness and transfer: what an ACCEPTED correspondence case certifies about the
       OBSERVED output (C19_sound.v).  Tolerance-compared outputs give a distance bound
       (within e a b := |a - b| <= e); shapes, cell counts and mesh corners are compared by equality. --- *)
Theorem C19_check_sound_continuous_density : forall sh h1 h2 per1 per2 c4 o valid obs,
  check_C19 (CTcdCont sh h1 h2 per1 per2 c4 o valid obs) = true ->
  length sh = 2%nat /\ length o = nprod (sh ++ [3%nat]) /\ length valid = nprod sh /\
  length obs = nprod sh /\
  forall i, inb sh i = true ->
    within (tol9 * (16 * Qabs c4 * hmin2 h1 h2))%Q
           (this (tcd_cont QcOps (qc c4) sh (qc h1) (qc h2) per1 per2 (varr sh o) (marr sh valid) i))
           (this (nth (ravel sh i) (qcl obs) 0%Qc)).
Proof. exact check_tcd_cont_sound. Qed.
Print Assumptions C19_check_sound_continuous_density.

Theorem C19_check_sound_lattice_density : forall sh h1 h2 o valid table obs,
  check_C19 (CTcdBL sh h1 h2 o valid table obs) = true ->
  length sh = 2%nat /\ length o = nprod (sh ++ [3%nat]) /\ length valid = nprod sh /\
  length obs = nprod sh /\
  forall i, inb sh i = true ->
    within (tol9 * (4 * hmin2 h1 h2))%Q
           (this (tcd_bl QcOps (lookup4 table) sh (qc h1) (qc h2) (varr sh o) (marr sh valid) i))
           (this (nth (ravel sh i) (qcl obs) 0%Qc)).
Proof. exact check_tcd_bl_sound. Qed.
Print Assumptions C19_check_sound_lattice_density.

Theorem C19_check_sound_charge : forall absolute sh dV q obs,
  check_C19 (CCharge absolute sh dV q obs) = true ->
  length q = nprod sh /\
  within (tol9 * charge_scale dV q)%Q
         (this (charge QcOps qc_abs absolute sh (qc dV) (sarr sh q))) (this (qc obs)).
Proof. exact check_charge_sound. Qed.
Print Assumptions C19_check_sound_charge.

Theorem C19_check_sound_angle : forall sh ax deg deg_factor o acos_table obs_shape obs,
  check_C19 (CAngle sh ax deg deg_factor o acos_table obs_shape obs) = true ->
  length o = nprod (sh ++ [3%nat]) /\ obs_shape = angle_shape sh ax /\
  length obs = nprod (angle_shape sh ax) /\
  forall i, inb (angle_shape sh ax) i = true ->
    within (tol6 * (if deg then 180 else 1))%Q
           (this (angle_arr QcOps (lookup1 acos_table) qc_clip (fun x => Qcmult x (qc deg_factor)) ax deg
                            (varr sh o) i))
           (this (nth (ravel (angle_shape sh ax) i) (qcl obs) 0%Qc)).
Proof. exact check_angle_sound. Qed.
Print Assumptions C19_check_sound_angle.

Theorem C19_check_sound_angle_mesh : forall p1 p2 n_ ax lo hi k,
  check_C19 (CAngleMesh p1 p2 n_ ax (Some (lo, hi, k))) = true ->
  exists m a, src_mesh p1 p2 n_ = OK m /\ angle_mesh m ax = OK a /\
              Forall2 Qeq (pmin (reg a)) lo /\ Forall2 Qeq (pmax (reg a)) hi /\ n a = k.
Proof. exact check_angle_mesh_sound. Qed.
Print Assumptions C19_check_sound_angle_mesh.

Theorem C19_check_sound_angle_mesh_rejected : forall p1 p2 n_ ax,
  check_C19 (CAngleMesh p1 p2 n_ ax None) = true ->
  exists m e, src_mesh p1 p2 n_ = OK m /\ angle_mesh m ax = Err e.
Proof. exact check_angle_mesh_reject_sound. Qed.
Print Assumptions C19_check_sound_angle_mesh_rejected.

Theorem C19_check_sound_emergent : forall sh h per m valid obs,
  check_C19 (CEmergent sh h per m valid obs) = true ->
  length sh = 3%nat /\ length m = nprod (sh ++ [3%nat]) /\ length valid = nprod sh /\
  length obs = nprod (sh ++ [3%nat]) /\
  forall i, inb (sh ++ [3%nat]) i = true ->
    within (tol9 * emergent_scale h m)%Q
           (this (emergent QcOps sh (qcl h) per (varr sh m) (marr sh valid) i))
           (this (nth (ravel (sh ++ [3%nat]) i) (qcl obs) 0%Qc)).
Proof. exact check_emergent_sound. Qed.
Print Assumptions C19_check_sound_emergent.

(* round_near x z: z is the half-even rounding of x - 1e-6 or of x + 1e-6 *)
Theorem C19_check_sound_bloch_points : forall sh h per dir c4 o valid obs_numbers,
  check_C19 (CBps sh h per dir c4 o valid obs_numbers) = true ->
  length sh = 3%nat /\ length o = nprod (sh ++ [3%nat]) /\ length valid = nprod sh /\
  Forall2 round_near
          (bp_cum QcOps (qc c4) (qc (nth dir h 0%Q))
                  (bp_profile QcOps sh (qcl h) per dir (varr sh o) (marr sh valid)))
          obs_numbers.
Proof. exact check_bps_sound. Qed.
Print Assumptions C19_check_sound_bloch_points.

Theorem C19_check_sound_demag : forall pi4 cell_ pts ftab gtab obs,
  check_C19 (CDemagN pi4 cell_ pts ftab gtab obs) = true ->
  length cell_ = 3%nat /\
  Forall2 (fun p ob => six_close (N6_at pi4 cell_ ftab gtab p) ob) pts obs.
Proof. exact check_demag_sound. Qed.
Print Assumptions C19_check_sound_demag.

(* transfer: C19_angle_value / C19_angle_shape on the observed angle array *)
Theorem C19_accepted_angle_value : forall sh ax deg_factor o acos_table obs_shape obs i,
  check_C19 (CAngle sh ax false deg_factor o acos_table obs_shape obs) = true ->
  inb (angle_shape sh ax) i = true ->
  within (tol6 * 1)%Q
    (this (lookup1 acos_table (qc_clip (dot3 QcOps (vec_at QcOps (varr sh o) i)
                 (vec_at QcOps (varr sh o) (set_nth ax (nth ax i 0%nat + 1)%nat i))))))
    (this (nth (ravel (angle_shape sh ax) i) (qcl obs) 0%Qc)).
Proof. exact accepted_angle_value. Qed.
Print Assumptions C19_accepted_angle_value.

Theorem C19_accepted_angle_shape : forall sh ax deg deg_factor o acos_table obs_shape obs,
  check_C19 (CAngle sh ax deg deg_factor o acos_table obs_shape obs) = true ->
  (ax < length sh)%nat ->
  nth ax obs_shape 0%nat = (nth ax sh 0%nat - 1)%nat /\
  (forall b, b <> ax -> nth b obs_shape 0%nat = nth b sh 0%nat) /\
  length obs = nprod obs_shape.
Proof. exact accepted_angle_shape. Qed.
Print Assumptions C19_accepted_angle_shape.

(* transfer: C19_charge_of_reversed_density on two observed charges *)
Theorem C19_accepted_charge_reversal : forall sh dV q obs1 obs2,
  check_C19 (CCharge false sh dV q obs1) = true ->
  check_C19 (CCharge false sh dV (map Qopp q) obs2) = true ->
  (Qabs (obs1 + obs2) <= tol9 * charge_scale dV q + tol9 * charge_scale dV (map Qopp q))%Q.
Proof. exact accepted_charge_reversal. Qed.
Print Assumptions C19_accepted_charge_reversal.

(* transfer: C19_rot_invariant_lattice on two observed Berg-Luescher densities (the rotated vectors are
   required at in-range cells only: the density reads no other cell, tcd_bl_inrange_ext) *)
Theorem C19_accepted_lattice_rotation : forall n0 n1 h1 h2 o o' valid table obs obs' (M : mat3 QcOps) i j,
  check_C19 (CTcdBL [n0; n1] h1 h2 o valid table obs) = true ->
  check_C19 (CTcdBL [n0; n1] h1 h2 o' valid table obs') = true ->
  col_orthogonal QcOps M -> det3 QcOps M = f1 QcOps ->
  (forall a b, (a < n0)%nat -> (b < n1)%nat ->
     vec_at QcOps (varr [n0; n1] o') [a; b] = mv QcOps M (vec_at QcOps (varr [n0; n1] o) [a; b])) ->
  (i < n0)%nat -> (j < n1)%nat ->
  (Qabs (this (nth (ravel [n0; n1] [i; j]) (qcl obs) 0%Qc) - this (nth (ravel [n0; n1] [i; j]) (qcl obs') 0%Qc))
   <= tol9 * (4 * hmin2 h1 h2) + tol9 * (4 * hmin2 h1 h2))%Q.
Proof. exact accepted_lattice_rotation. Qed.
Print Assumptions C19_accepted_lattice_rotation.

(* transfer: C19_uniform_zero_lattice on an observed Berg-Luescher density *)
Theorem C19_accepted_lattice_uniform : forall n0 n1 h1 h2 o valid table obs (v : vec QcOps) i j,
  check_C19 (CTcdBL [n0; n1] h1 h2 o valid table obs) = true ->
  (forall d1 d2 d3, lookup4 table d1 d2 d3 (f0 QcOps) = f0 QcOps) ->
  (forall a b, (a < n0)%nat -> (b < n1)%nat -> vec_at QcOps (varr [n0; n1] o) [a; b] = v) ->
  (i < n0)%nat -> (j < n1)%nat ->
  (Qabs (this (nth (ravel [n0; n1] [i; j]) (qcl obs) 0%Qc)) <= tol9 * (4 * hmin2 h1 h2))%Q.
Proof. exact accepted_lattice_uniform. Qed.
Print Assumptions C19_accepted_lattice_uniform.

(* transfer: C19_N_relabel on two observed demag tensors *)
Theorem C19_accepted_demag_relabel : forall pi4 dx dy dz x y z ftab gtab ob1 ob2,
  check_C19 (CDemagN pi4 [dx; dy; dz] [[x; y; z]] ftab gtab [ob1]) = true ->
  check_C19 (CDemagN pi4 [dy; dz; dx] [[y; z; x]] ftab gtab [ob2]) = true ->
  (Qabs (this (nth 1 (qcl ob1) 0%Qc) - this (nth 0 (qcl ob2) 0%Qc)) <= tol6 * 1 + tol6 * 1)%Q.
Proof. exact accepted_demag_relabel. Qed.
Print Assumptions C19_accepted_demag_relabel.

(* the hypotheses are satisfiable: concrete accepted cases *)
Example C19_accepted_charge_nonvacuous :
  check_C19 (CCharge false [2]%nat (1#2)%Q [1; 3]%Q 2%Q) = true /\
  check_C19 (CCharge false [2]%nat (1#2)%Q (map Qopp [1; 3]%Q) (-2)%Q) = true.
Proof. exact accepted_charge_instance. Qed.
Print Assumptions C19_accepted_charge_nonvacuous.

Example C19_accepted_angle_nonvacuous :
  check_C19 (CAngle [2]%nat 0 false 1%Q [1; 0; 0; 0; 1; 0]%Q [(0, 11#7)%Q] [1]%nat [(11#7)%Q]) = true.
Proof. exact accepted_angle_instance. Qed.
Print Assumptions C19_accepted_angle_nonvacuous.

Example C19_accepted_lattice_rotation_nonvacuous :
  check_C19 (CTcdBL [2;2]%nat 1%Q 1%Q ex_o1 [true;true;true;true] ex_tb [-(1#4); 0; 0; 1#4]%Q) = true /\
  check_C19 (CTcdBL [2;2]%nat 1%Q 1%Q ex_o2 [true;true;true;true] ex_tb [-(1#4); 0; 0; 1#4]%Q) = true /\
  col_orthogonal QcOps ex_M /\ det3 QcOps ex_M = f1 QcOps /\
  (forall a b, (a < 2)%nat -> (b < 2)%nat ->
     vec_at QcOps (varr [2;2]%nat ex_o2) [a; b] = mv QcOps ex_M (vec_at QcOps (varr [2;2]%nat ex_o1) [a; b])).
Proof. exact accepted_lattice_rotation_instance. Qed.
Print Assumptions C19_accepted_lattice_rotation_nonvacuous.

(* --- completeness of the recorded tables (solid angles, arccos, Newell f/g): check_C19 is
       tables_complete && check_C19_core; an accepted case lists every key that the model evaluation
       of that case looks up, so no library value is ever read as the default 0 of an absent key --- *)
Theorem C19_check_tables_complete : forall c, check_C19 c = true -> tables_ok c.
Proof. exact check_tables_complete. Qed.
Print Assumptions C19_check_tables_complete.

(* a present key is answered from a recorded entry *)
Theorem C19_present_key_reads_entry_solid_angle : forall t a b c d, has4 t a b c d = true ->
  exists ka kb kc kd v, In (ka, kb, kc, kd, v) t /\ (ka == this a)%Q /\ (kb == this b)%Q /\ (kc == this c)%Q /\
                        (kd == this d)%Q /\ lookup4 t a b c d = Q2Qc v.
Proof. exact has4_lookup4. Qed.
Print Assumptions C19_present_key_reads_entry_solid_angle.

Theorem C19_present_key_reads_entry_arccos : forall t a, has1 t a = true ->
  exists k v, In (k, v) t /\ (k == this a)%Q /\ lookup1 t a = Q2Qc v.
Proof. exact has1_lookup1. Qed.
Print Assumptions C19_present_key_reads_entry_arccos.

Theorem C19_present_key_reads_entry_newell : forall t a b c, has3 t a b c = true ->
  exists ka kb kc v, In (ka, kb, kc, v) t /\ (ka == this a)%Q /\ (kb == this b)%Q /\ (kc == this c)%Q /\
                     lookup3 t a b c = Q2Qc v.
Proof. exact has3_lookup3. Qed.
Print Assumptions C19_present_key_reads_entry_newell.

(* the required key lists are exactly what the model reads: the model values depend on the tabled
   function through the listed keys only *)
Theorem C19_lattice_density_reads_listed_keys : forall (Om Om' : Qc -> Qc -> Qc -> Qc -> Qc) sh h1 h2 (o : idx -> Qc) valid ij,
  (forall a b c d, In (a, b, c, d) (bl_keys sh o valid ij) -> Om a b c d = Om' a b c d) ->
  tcd_bl QcOps Om sh h1 h2 o valid ij = tcd_bl QcOps Om' sh h1 h2 o valid ij.
Proof. exact tcd_bl_reads_keys. Qed.
Print Assumptions C19_lattice_density_reads_listed_keys.

Theorem C19_angle_reads_listed_key : forall (acosf degf : Qc -> Qc) ax deg (o : idx -> Qc) i,
  angle_arr QcOps acosf qc_clip degf ax deg o i
  = (if deg then degf (acosf (angle_key ax o i)) else acosf (angle_key ax o i)).
Proof. exact angle_reads_key. Qed.
Print Assumptions C19_angle_reads_listed_key.

Theorem C19_demag_reads_listed_keys : forall (fN fN' gN gN' : Qc -> Qc -> Qc -> Qc) pi4 dx dy dz x y z,
  (forall a b c, In (a, b, c) (demag_fkeys dx dy dz x y z) -> fN a b c = fN' a b c) ->
  (forall a b c, In (a, b, c) (demag_gkeys dx dy dz x y z) -> gN a b c = gN' a b c) ->
  N6 QcOps fN gN pi4 dx dy dz x y z = N6 QcOps fN' gN' pi4 dx dy dz x y z.
Proof. exact N6_reads_keys. Qed.
Print Assumptions C19_demag_reads_listed_keys.

(* negative examples: cases with EMPTY tables are rejected (the demag one passes the comparison part
   alone, which is what the completeness conjunct closes) *)
Example C19_empty_tables_rejected :
  check_C19 (CDemagN (88#7)%Q [1; 2; 3]%Q [[1; 2; 3]%Q] [] [] [[0;0;0;0;0;0]%Q]) = false /\
  check_C19_core (CDemagN (88#7)%Q [1; 2; 3]%Q [[1; 2; 3]%Q] [] [] [[0;0;0;0;0;0]%Q]) = true /\
  check_C19 (CTcdBL [2;2]%nat 1%Q 1%Q ex_o1 [true;true;true;true] [] [0; 0; 0; 0]%Q) = false /\
  check_C19 (CAngle [2]%nat 0 false 1%Q [1; 0; 0; 0; 1; 0]%Q [] [1]%nat [0%Q]) = false.
Proof. exact empty_tables_rejected. Qed.
Print Assumptions C19_empty_tables_rejected.
