(* C20 — matplotlib plots draw the field's own numbers at their physical coordinates.
   ONLY statements, each closed by [exact] of a lemma proved in proofs/C20_plot.v.
   matplotlib's placement semantics is the DEFINITION [displayed_cell] / [arrow_index] of
   model/Plot.v (trusted); numpy.arctan2 and colorsys enter as Section variables / tables. *)
From DF Require Import Prelude Constants_gen Region Mesh Plot C20_plot.
Open Scope Q_scope.

(* the array handed to imshow/contour is the transpose: row r, column c holds cell (c, r) *)
Theorem C20_transpose : forall (V : Type) (k0 k1 : nat) (a : nat -> nat -> V) (r c : nat) (d : V),
  (r < k1)%nat -> (c < k0)%nat ->
  nth c (nth r (transpose_rows k0 k1 a) []) d = a c r.
Proof. exact transpose_rows_nth. Qed.
Print Assumptions C20_transpose.

(* scalar / contour data: shape (n1, n0); entry = the field's own value, NaN iff hidden *)
Theorem C20_scalar_values : forall f flt r c, (r < n1 f)%nat -> (c < n0 f)%nat ->
  nth c (nth r (scalar_values f flt) []) None =
  if hidden f flt c r then None else Some (fval f 0 c r).
Proof. exact scalar_values_nth. Qed.
Print Assumptions C20_scalar_values.

(* the value painted over the plot position (x, y) is the value of the mesh cell that contains
   (x*m, y*m) (m = the chosen multiplier); NaN iff that cell is hidden.  All sizes, all scales. *)
Theorem C20_scalar_position : forall f mu flt im lo0 lo1 hi0 hi1,
  plot_scalar f mu flt = OK im ->
  pmin (preg f) = [lo0; lo1] -> pmax (preg f) = [hi0; hi1] ->
  lo0 < hi0 -> lo1 < hi1 -> (0 < n0 f)%nat -> (0 < n1 f)%nat ->
  exists m p, setup_multiplier (preg f) mu = OK (m, p) /\ 0 < m /\
  forall x y, lo0 <= x * m -> x * m < hi0 -> lo1 <= y * m -> y * m < hi1 ->
  exists i j, (i < n0 f)%nat /\ (j < n1 f)%nat /\
    (let c0 := cell_of lo0 hi0 (Z.of_nat (n0 f)) in
     lo0 + inject_Z (Z.of_nat i) * c0 <= x * m /\ x * m < lo0 + (inject_Z (Z.of_nat i) + 1) * c0) /\
    (let c1 := cell_of lo1 hi1 (Z.of_nat (n1 f)) in
     lo1 + inject_Z (Z.of_nat j) * c1 <= y * m /\ y * m < lo1 + (inject_Z (Z.of_nat j) + 1) * c1) /\
    displayed_cell (im_rows im) (im_extent im) None x y =
      if hidden f flt i j then None else Some (fval f 0 i j).
Proof. exact scalar_position. Qed.
Print Assumptions C20_scalar_position.

Example C20_scalar_position_nonvacuous :
  exists im, plot_scalar witness_field MDefault None = OK im /\
             displayed_cell (im_rows im) (im_extent im) None (3 # 2) (1 # 2) = None /\
             displayed_cell (im_rows im) (im_extent im) None (7 # 2) (3 # 2) = Some 7.
Proof. eexists. split; [vm_compute; reflexivity|]. split; vm_compute; reflexivity. Qed.
Print Assumptions C20_scalar_position_nonvacuous.

(* hiding, default filter: NaN iff the cell is invalid; valid cells carry their own value *)
Theorem C20_hidden_default : forall f r c, (r < n1 f)%nat -> (c < n0 f)%nat ->
  (nth c (nth r (scalar_values f None) []) None = None <-> fvalid f c r = false) /\
  (fvalid f c r = true -> nth c (nth r (scalar_values f None) []) None = Some (fval f 0 c r)).
Proof. exact scalar_default_hidden_iff. Qed.
Print Assumptions C20_hidden_default.

(* hiding, explicit filter: "NaN iff invalid or filtered" under the guard that the filter vanishes
   on the invalid cells (the faithful model REPLACES the validity mask by the filter) *)
Theorem C20_hidden_partial : forall f a r c, (r < n1 f)%nat -> (c < n0 f)%nat ->
  (fvalid f c r = false -> resample_aux a (n0 f) (n1 f) c r == 0) ->
  (nth c (nth r (scalar_values f (Some a)) []) None = None <->
   (fvalid f c r = false \/ resample_aux a (n0 f) (n1 f) c r == 0)).
Proof. exact scalar_hidden_partial. Qed.
Print Assumptions C20_hidden_partial.

(* without the guard the statement is false of the code (known finding
   C20-explicit-filter-drops-validity): an invalid cell is drawn *)
Theorem C20_hidden_refuted :
  exists f a r c, (r < n1 f)%nat /\ (c < n0 f)%nat /\ fvalid f c r = false /\
    exists im, plot_scalar f MDefault (Some a) = OK im /\
               nth c (nth r (im_rows im) []) None = Some (fval f 0 c r).
Proof. exact scalar_hidden_refuted. Qed.
Print Assumptions C20_hidden_refuted.

(* vector plot: the arrow of cell (i, j) (quiver index j*n0 + i) carries the field's own
   component, is NaN (not drawn) iff the cell is invalid; a missing component is 0 *)
Theorem C20_vector_components : forall f k i j, (i < n0 f)%nat -> (j < n1 f)%nat ->
  nth (arrow_index (n0 f) j i) (arrow_values f k) None =
  match k with
  | Some k => if fvalid f i j then Some (fval f k i j) else None
  | None => Some 0
  end.
Proof. exact arrow_values_nth. Qed.
Print Assumptions C20_vector_components.

(* ... sits at (xs[i], ys[j]) of the two coordinate vectors ... *)
Theorem C20_vector_grid : forall (xs ys : list Q) i j d, (i < length xs)%nat -> (j < length ys)%nat ->
  nth (arrow_index (length xs) j i) (ravel_rows (map (fun _ => xs) ys)) d = nth i xs d /\
  nth (arrow_index (length xs) j i) (ravel_rows (map (fun y => map (fun _ => y) xs) ys)) d = nth j ys d.
Proof. intros; split; [now apply meshgrid_x_nth | now apply meshgrid_y_nth]. Qed.
Print Assumptions C20_vector_grid.

(* ... which are the cell centres pmin + (i + 1/2) cell, divided by the multiplier (also the
   coordinates handed to contour) *)
Theorem C20_centres : forall r k a m i lo hi,
  nth a (pmin r) 0 = lo -> nth a (pmax r) 0 = hi -> lo < hi -> (i < k)%nat ->
  length (centres r k a m) = k /\
  nth i (centres r k a m) 0 ==
    (lo + (inject_Z (Z.of_nat i) + (1 # 2)) * cell_of lo hi (Z.of_nat k)) / m.
Proof. exact centres_nth. Qed.
Print Assumptions C20_centres.

(* component selection: through the reversed mapping (sound, and unique when no two components
   share an axis) or the two given labels *)
Theorem C20_mapping_sound : forall d m k, rev_lookup d m = Some k -> In (k, Some d) m.
Proof. exact rev_lookup_sound. Qed.
Print Assumptions C20_mapping_sound.

Theorem C20_mapping_complete : forall d m k,
  In (k, Some d) m -> (forall k1 k2, In (k1, Some d) m -> In (k2, Some d) m -> k1 = k2) ->
  rev_lookup d m = Some k.
Proof. exact rev_lookup_complete. Qed.
Print Assumptions C20_mapping_complete.

Theorem C20_arrow_names : forall f,
  (pmap f <> [] -> arrow_names f None = OK (r_dim f 0, r_dim f 1)) /\
  (forall a b, arrow_names f (Some [a; b]) = OK (a, b)).
Proof. intros f; split; [apply arrow_names_default | apply arrow_names_given]. Qed.
Print Assumptions C20_arrow_names.

(* axis labels: "dim (prefix unit)" with the prefix of the chosen multiplier *)
Theorem C20_labels : forall f mu flt im, plot_scalar f mu flt = OK im ->
  exists m p, setup_multiplier (preg f) mu = OK (m, p) /\
    im_labels im =
      ((nth 0 (dims (preg f)) "" ++ " (" ++ p ++ nth 0 (units (preg f)) "" ++ ")")%string,
       (nth 1 (dims (preg f)) "" ++ " (" ++ p ++ nth 1 (units (preg f)) "" ++ ")")%string).
Proof. exact scalar_labels. Qed.
Print Assumptions C20_labels.

Theorem C20_explicit_multiplier : forall r k p, si_prefix k = Some p ->
  setup_multiplier r (MSI k) = OK (pow10 (3 * k), p).
Proof. exact explicit_si_multiplier. Qed.
Print Assumptions C20_explicit_multiplier.

(* refusals: wrong spatial dimension (every plot kind), wrong component dimension *)
Theorem C20_refuse_ndim : forall f, ndim (preg f) <> 2%nat ->
  (forall mu flt, plot_scalar f mu flt = Err RuntimeE) /\
  (forall mu flt, plot_contour f mu flt = Err RuntimeE) /\
  (forall mu arg uc cf, plot_vector f mu arg uc cf = Err RuntimeE) /\
  (forall mu flt lf clim tabs, plot_lightness f mu flt lf clim tabs = Err RuntimeE) /\
  (forall mu flt, plot_call f mu flt = Err RuntimeE).
Proof. exact refuse_ndim. Qed.
Print Assumptions C20_refuse_ndim.

Theorem C20_refuse_nvdim : forall f, ndim (preg f) = 2%nat ->
  ((1 < pnv f)%nat -> forall mu flt, plot_scalar f mu flt = Err RuntimeE) /\
  (pnv f <> 1%nat -> forall mu flt, plot_contour f mu flt = Err RuntimeE) /\
  ((3 < pnv f)%nat -> forall mu flt lf clim tabs, plot_lightness f mu flt lf clim tabs = Err RuntimeE).
Proof. exact refuse_nvdim. Qed.
Print Assumptions C20_refuse_nvdim.

(* lightness image, for every colour conversion [hls] (colorsys.hls_to_rgb is a library
   function): pixel (r, c) is transparent black iff cell (c, r) is hidden, else opaque with
   hue = angle / 2 pi and the clim-normalised lightness *)
Theorem C20_lightness : forall (hls : Q -> Q -> Q -> list Q) k0 k1 tp hue light clim hid r c,
  (r < k1)%nat -> (c < k0)%nat ->
  nth c (nth r (lightness_rgba hls k0 k1 tp hue light clim hid) []) [] =
  if hid c r then [0; 0; 0; 0]
  else hls (normalise_from 0 tp 0 1 (hue c r))
           (nth (c * k1 + r) (normalise_auto (fst clim) (snd clim) light) 0) 1 ++ [1].
Proof. exact lightness_rgba_nth. Qed.
Print Assumptions C20_lightness.

Theorem C20_hue : forall tp v, ~ tp == 0 -> normalise_from 0 tp 0 1 v == v / tp.
Proof. exact hue_is_angle_over_twopi. Qed.
Print Assumptions C20_hue.
