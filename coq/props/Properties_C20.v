(* C20 — matplotlib plots draw the field's own numbers at their physical coordinates.
   ONLY statements, each closed by [exact] of a lemma proved in proofs/C20_plot.v.
   matplotlib's placement semantics is the DEFINITION [displayed_cell] / [arrow_index] of
   model/Plot.v (trusted); numpy.arctan2 and colorsys enter as Section variables / tables. *)
From DF Require Import Prelude Constants_gen Region Mesh Plot C20_plot ListLemmas CheckSound Check_C20 C20_sound.
Open Scope Q_scope.

(* the array handed to imshow/contour is the transpose: row r, column c holds cell (c, r) *)
Theorem C20_transpose : forall (V : Type) (k0 k1 : nat) (a : nat -> nat -> V) (r c : nat) (d : V),
  (r < k1)%nat -> (c < k0)%nat ->
  nth c (nth r (transpose_rows k0 k1 a) []) d = a c r.
Proof. exact transpose_rows_nth. Qed.
Print Assumptions C20_transpose.

(* scalar / contour data: shape (n1, n0); entry = the field's own value, NaN iff hidden *)
Theorem C20_scalar_values : forall f flt r c, (r < n1 f)%nat -> (c < n0 f)%nat ->
  nth c (nth r (scalar_values f flt) []) None =
  if hidden f flt c r then None else Some (fval f 0 c r).
Proof. exact scalar_values_nth. Qed.
Print Assumptions C20_scalar_values.

(* the value painted over the plot position (x, y) is the value of the mesh cell that contains
   (x*m, y*m) (m = the chosen multiplier); NaN iff that cell is hidden.  All sizes, all scales. *)
Theorem C20_scalar_position : forall f mu flt im lo0 lo1 hi0 hi1,
  plot_scalar f mu flt = OK im ->
  pmin (preg f) = [lo0; lo1] -> pmax (preg f) = [hi0; hi1] ->
  lo0 < hi0 -> lo1 < hi1 -> (0 < n0 f)%nat -> (0 < n1 f)%nat ->
  exists m p, setup_multiplier (preg f) mu = OK (m, p) /\ 0 < m /\
  forall x y, lo0 <= x * m -> x * m < hi0 -> lo1 <= y * m -> y * m < hi1 ->
  exists i j, (i < n0 f)%nat /\ (j < n1 f)%nat /\
    (let c0 := cell_of lo0 hi0 (Z.of_nat (n0 f)) in
     lo0 + inject_Z (Z.of_nat i) * c0 <= x * m /\ x * m < lo0 + (inject_Z (Z.of_nat i) + 1) * c0) /\
    (let c1 := cell_of lo1 hi1 (Z.of_nat (n1 f)) in
     lo1 + inject_Z (Z.of_nat j) * c1 <= y * m /\ y * m < lo1 + (inject_Z (Z.of_nat j) + 1) * c1) /\
    displayed_cell (im_rows im) (im_extent im) None x y =
      if hidden f flt i j then None else Some (fval f 0 i j).
Proof. exact scalar_position. Qed.
Print Assumptions C20_scalar_position.

Example C20_scalar_position_nonvacuous :
  exists im, plot_scalar witness_field MDefault None = OK im /\
             displayed_cell (im_rows im) (im_extent im) None (3 # 2) (1 # 2) = None /\
             displayed_cell (im_rows im) (im_extent im) None (7 # 2) (3 # 2) = Some 7.
Proof. eexists. split; [vm_compute; reflexivity|]. split; vm_compute; reflexivity. Qed.
Print Assumptions C20_scalar_position_nonvacuous.

(* hiding, default filter: NaN iff the cell is invalid; valid cells carry their own value *)
Theorem C20_hidden_default : forall f r c, (r < n1 f)%nat -> (c < n0 f)%nat ->
  (nth c (nth r (scalar_values f None) []) None = None <-> fvalid f c r = false) /\
  (fvalid f c r = true -> nth c (nth r (scalar_values f None) []) None = Some (fval f 0 c r)).
Proof. exact scalar_default_hidden_iff. Qed.
Print Assumptions C20_hidden_default.

(* hiding, explicit filter: "NaN iff invalid or filtered" under the guard that the filter vanishes
   on the invalid cells (the faithful model REPLACES the validity mask by the filter) *)
Theorem C20_hidden_partial : forall f a r c, (r < n1 f)%nat -> (c < n0 f)%nat ->
  (fvalid f c r = false -> resample_aux a (n0 f) (n1 f) c r == 0) ->
  (nth c (nth r (scalar_values f (Some a)) []) None = None <->
   (fvalid f c r = false \/ resample_aux a (n0 f) (n1 f) c r == 0)).
Proof. exact scalar_hidden_partial. Qed.
Print Assumptions C20_hidden_partial.

(* without the guard the statement is false of the code (known finding
   C20-explicit-filter-drops-validity): an invalid cell is drawn *)
Theorem C20_hidden_refuted :
  exists f a r c, (r < n1 f)%nat /\ (c < n0 f)%nat /\ fvalid f c r = false /\
    exists im, plot_scalar f MDefault (Some a) = OK im /\
               nth c (nth r (im_rows im) []) None = Some (fval f 0 c r).
Proof. exact scalar_hidden_refuted. Qed.
Print Assumptions C20_hidden_refuted.

(* vector plot: the arrow of cell (i, j) (quiver index j*n0 + i) carries the field's own
   component, is NaN (not drawn) iff the cell is invalid; a missing component is 0 *)
Theorem C20_vector_components : forall f k i j, (i < n0 f)%nat -> (j < n1 f)%nat ->
  nth (arrow_index (n0 f) j i) (arrow_values f k) None =
  match k with
  | Some k => if fvalid f i j then Some (fval f k i j) else None
  | None => Some 0
  end.
Proof. exact arrow_values_nth. Qed.
Print Assumptions C20_vector_components.

(* ... sits at (xs[i], ys[j]) of the two coordinate vectors ... *)
Theorem C20_vector_grid : forall (xs ys : list Q) i j d, (i < length xs)%nat -> (j < length ys)%nat ->
  nth (arrow_index (length xs) j i) (ravel_rows (map (fun _ => xs) ys)) d = nth i xs d /\
  nth (arrow_index (length xs) j i) (ravel_rows (map (fun y => map (fun _ => y) xs) ys)) d = nth j ys d.
Proof. intros; split; [now apply meshgrid_x_nth | now apply meshgrid_y_nth]. Qed.
Print Assumptions C20_vector_grid.

(* ... which are the cell centres pmin + (i + 1/2) cell, divided by the multiplier (also the
   coordinates handed to contour) *)
Theorem C20_centres : forall r k a m i lo hi,
  nth a (pmin r) 0 = lo -> nth a (pmax r) 0 = hi -> lo < hi -> (i < k)%nat ->
  length (centres r k a m) = k /\
  nth i (centres r k a m) 0 ==
    (lo + (inject_Z (Z.of_nat i) + (1 # 2)) * cell_of lo hi (Z.of_nat k)) / m.
Proof. exact centres_nth. Qed.
Print Assumptions C20_centres.

(* component selection: through the reversed mapping (sound, and unique when no two components
   share an axis) or the two given labels *)
Theorem C20_mapping_sound : forall d m k, rev_lookup d m = Some k -> In (k, Some d) m.
Proof. exact rev_lookup_sound. Qed.
Print Assumptions C20_mapping_sound.

Theorem C20_mapping_complete : forall d m k,
  In (k, Some d) m -> (forall k1 k2, In (k1, Some d) m -> In (k2, Some d) m -> k1 = k2) ->
  rev_lookup d m = Some k.
Proof. exact rev_lookup_complete. Qed.
Print Assumptions C20_mapping_complete.

Theorem C20_arrow_names : forall f,
  (pmap f <> [] -> arrow_names f None = OK (r_dim f 0, r_dim f 1)) /\
  (forall a b, arrow_names f (Some [a; b]) = OK (a, b)).
Proof. intros f; split; [apply arrow_names_default | apply arrow_names_given]. Qed.
Print Assumptions C20_arrow_names.

(* axis labels: "dim (prefix unit)" with the prefix of the chosen multiplier *)
Theorem C20_labels : forall f mu flt im, plot_scalar f mu flt = OK im ->
  exists m p, setup_multiplier (preg f) mu = OK (m, p) /\
    im_labels im =
      ((nth 0 (dims (preg f)) "" ++ " (" ++ p ++ nth 0 (units (preg f)) "" ++ ")")%string,
       (nth 1 (dims (preg f)) "" ++ " (" ++ p ++ nth 1 (units (preg f)) "" ++ ")")%string).
Proof. exact scalar_labels. Qed.
Print Assumptions C20_labels.

Theorem C20_explicit_multiplier : forall r k p, si_prefix k = Some p ->
  setup_multiplier r (MSI k) = OK (pow10 (3 * k), p).
Proof. exact explicit_si_multiplier. Qed.
Print Assumptions C20_explicit_multiplier.

(* refusals: wrong spatial dimension (every plot kind), wrong component dimension *)
Theorem C20_refuse_ndim : forall f, ndim (preg f) <> 2%nat ->
  (forall mu flt, plot_scalar f mu flt = Err RuntimeE) /\
  (forall mu flt, plot_contour f mu flt = Err RuntimeE) /\
  (forall mu arg uc cf, plot_vector f mu arg uc cf = Err RuntimeE) /\
  (forall mu flt lf clim tabs, plot_lightness f mu flt lf clim tabs = Err RuntimeE) /\
  (forall mu flt, plot_call f mu flt = Err RuntimeE).
Proof. exact refuse_ndim. Qed.
Print Assumptions C20_refuse_ndim.

Theorem C20_refuse_nvdim : forall f, ndim (preg f) = 2%nat ->
  ((1 < pnv f)%nat -> forall mu flt, plot_scalar f mu flt = Err RuntimeE) /\
  (pnv f <> 1%nat -> forall mu flt, plot_contour f mu flt = Err RuntimeE) /\
  ((3 < pnv f)%nat -> forall mu flt lf clim tabs, plot_lightness f mu flt lf clim tabs = Err RuntimeE).
Proof. exact refuse_nvdim. Qed.
Print Assumptions C20_refuse_nvdim.

(* lightness image, for every colour conversion [hls] (colorsys.hls_to_rgb is a library
   function): pixel (r, c) is transparent black iff cell (c, r) is hidden, else opaque with
   hue = angle / 2 pi and the clim-normalised lightness *)
Theorem C20_lightness : forall (hls : Q -> Q -> Q -> list Q) k0 k1 tp hue light clim hid r c,
  (r < k1)%nat -> (c < k0)%nat ->
  nth c (nth r (lightness_rgba hls k0 k1 tp hue light clim hid) []) [] =
  if hid c r then [0; 0; 0; 0]
  else hls (normalise_from 0 tp 0 1 (hue c r))
           (nth (c * k1 + r) (normalise_auto (fst clim) (snd clim) light) 0) 1 ++ [1].
Proof. exact lightness_rgba_nth. Qed.
Print Assumptions C20_lightness.

Theorem C20_hue : forall tp v, ~ tp == 0 -> normalise_from 0 tp 0 1 v == v / tp.
Proof. exact hue_is_angle_over_twopi. Qed.
Print Assumptions C20_hue.

(* ---------------------------------------------------------------------------------------------
   Soundness of the correspondence checker check_C20 (proofs/C20_sound.v): an accepted case
   certifies the stated relation between the data read back from the matplotlib artists
   (OBSERVED) and the model, and the TRANSFER theorems restate C20 conclusions about the
   observation itself.  Values: equal as rationals ([oq_eq]: NaN = NaN, numbers ==);
   coordinates / extent: within coord_tol of the axis scale; RGBA: within rgba_tol. *)

(* default multiplier: the core comparison succeeded for one admissible multiplier *)
Theorem C20_check_candidates : forall c, check_C20 c = true ->
  exists mu, In mu (mu_cands (preg (fst (case_field_mu c))) (snd (case_field_mu c))) /\
             check_C20_core (with_mu c mu) = true.
Proof. exact check_C20_cands. Qed.
Print Assumptions C20_check_candidates.

(* explicit multiplier: no freedom *)
Theorem C20_check_explicit : forall c, (forall fm, case_field_mu c = (fm, MDefault) -> False) ->
  check_C20 c = true -> check_C20_core c = true.
Proof. exact check_C20_explicit. Qed.
Print Assumptions C20_check_explicit.

Theorem C20_check_scalar_sound : forall f mu flt rows ext xs ys xl yl,
  check_C20_core (CScalar false f mu flt (Some (rows, ext, xs, ys, xl, yl))) = true ->
  exists im, plot_scalar f mu flt = OK im /\
    rows_spec f 0 flt rows /\
    (no_tie f flt = true -> Forall2 (Forall2 oq_eq) (im_rows im) rows) /\
    im_labels im = (xl, yl) /\
    length ext = 4%nat /\
    Qabs (nth 0 (im_extent im) 0 - nth 0 ext 0) <= coord_tol * axis_scale (preg f) 0 (mult_of (preg f) mu) /\
    Qabs (nth 1 (im_extent im) 0 - nth 1 ext 0) <= coord_tol * axis_scale (preg f) 0 (mult_of (preg f) mu) /\
    Qabs (nth 2 (im_extent im) 0 - nth 2 ext 0) <= coord_tol * axis_scale (preg f) 1 (mult_of (preg f) mu) /\
    Qabs (nth 3 (im_extent im) 0 - nth 3 ext 0) <= coord_tol * axis_scale (preg f) 1 (mult_of (preg f) mu).
Proof. exact core_scalar_sound. Qed.
Print Assumptions C20_check_scalar_sound.

Theorem C20_check_contour_sound : forall f mu flt rows ext xs ys xl yl,
  check_C20_core (CScalar true f mu flt (Some (rows, ext, xs, ys, xl, yl))) = true ->
  exists im, plot_contour f mu flt = OK im /\
    rows_spec f 0 flt rows /\
    (no_tie f flt = true -> Forall2 (Forall2 oq_eq) (im_rows im) rows) /\
    im_labels im = (xl, yl) /\
    length (im_x im) = length xs /\ length (im_y im) = length ys /\
    (forall i, (i < length xs)%nat ->
       Qabs (nth i (im_x im) 0 - nth i xs 0) <= coord_tol * axis_scale (preg f) 0 (mult_of (preg f) mu)) /\
    (forall j, (j < length ys)%nat ->
       Qabs (nth j (im_y im) 0 - nth j ys 0) <= coord_tol * axis_scale (preg f) 1 (mult_of (preg f) mu)).
Proof. exact core_contour_sound. Qed.
Print Assumptions C20_check_contour_sound.

Theorem C20_check_vector_sound : forall f mu arg uc cf ox oy ou ov omask oc xl yl,
  check_C20_core (CVector f mu arg uc cf (Some ((ox, oy, ou, ov, omask, oc), xl, yl))) = true ->
  exists q, plot_vector f mu arg uc cf = OK q /\ qv_labels q = (xl, yl) /\
    quiver_spec f (mult_of (preg f) mu) q ox oy ou ov omask /\
    (oc = None -> qv_color q = false) /\
    (forall cs, oc = Some cs -> qv_color q = true /\ length cs = (n0 f * n1 f)%nat).
Proof. exact core_vector_sound. Qed.
Print Assumptions C20_check_vector_sound.

Theorem C20_check_lightness_sound : forall f mu flt lf clim tabs rows ext xl yl,
  check_C20_core (CLight f mu flt lf clim tabs (Some (rows, ext, xl, yl))) = true ->
  exists ls l, plot_lightness_with (fun _ _ => false) f mu flt lf clim tabs = OK ls /\ In l ls /\
    norm_tab_ok f tabs = true /\ light_spec f flt (mult_of (preg f) mu) l rows ext xl yl.
Proof. exact core_light_sound. Qed.
Print Assumptions C20_check_lightness_sound.

Theorem C20_check_call_sound : forall f mu flt oimg oq xl yl,
  check_C20_core (CCall f mu flt (Some (oimg, oq, xl, yl))) = true ->
  exists co, plot_call f mu flt = OK co /\ ca_labels co = (xl, yl) /\
    match ca_image co, oimg with
    | None, None => True
    | Some (ks, _, ext), Some (orows, oext) =>
        (exists k, In k ks /\ rows_spec f k flt orows) /\ extent_close (preg f) (mult_of (preg f) mu) ext oext = true
    | _, _ => False
    end /\
    match ca_quiver co, oq with
    | None, None => True
    | Some q, Some (ox, oy, ou, ov, omask, oc) => quiver_spec f (mult_of (preg f) mu) q ox oy ou ov omask
    | _, _ => False
    end.
Proof. exact core_call_sound. Qed.
Print Assumptions C20_check_call_sound.

(* recorded refusals: accepted only when the model refuses as well *)
Theorem C20_check_refusals_sound :
  (forall ct f mu flt, check_C20_core (CScalar ct f mu flt None) = true ->
     exists e, (if ct then plot_contour f mu flt else plot_scalar f mu flt) = Err e) /\
  (forall f mu arg uc cf, check_C20_core (CVector f mu arg uc cf None) = true ->
     exists e, plot_vector f mu arg uc cf = Err e) /\
  (forall f mu flt lf clim tabs, check_C20_core (CLight f mu flt lf clim tabs None) = true ->
     exists e, plot_lightness_with (fun _ _ => false) f mu flt lf clim tabs = Err e) /\
  (forall f mu flt, check_C20_core (CCall f mu flt None) = true -> exists e, plot_call f mu flt = Err e).
Proof. exact core_refusals. Qed.
Print Assumptions C20_check_refusals_sound.

(* a whole shard: no failing index means every call of every record was accepted *)
Theorem C20_shard_verdict : forall (cases : list c20_top) k,
  failing k (map check_C20_top cases) = [] ->
  forall l c, In l cases -> In c l -> check_C20 c = true.
Proof. exact shard_verdict. Qed.
Print Assumptions C20_shard_verdict.

(* TRANSFER of C20_scalar_values / C20_hidden_default: the entry READ BACK at row r, column c is the
   model's entry; NaN iff cell (c, r) is invalid, else the field's own value (any multiplier) *)
Theorem C20_accepted_scalar_default : forall ct f mu rows ext xs ys xl yl r c,
  check_C20 (CScalar ct f mu None (Some (rows, ext, xs, ys, xl, yl))) = true ->
  (r < n1 f)%nat -> (c < n0 f)%nat ->
  length rows = n1 f /\ length (nth r rows []) = n0 f /\
  oq_eq (nth c (nth r rows []) None) (nth c (nth r (scalar_values f None) []) None) /\
  (nth c (nth r rows []) None = None <-> fvalid f c r = false) /\
  (fvalid f c r = true -> exists v, nth c (nth r rows []) None = Some v /\ v == fval f 0 c r).
Proof. exact accepted_scalar_default. Qed.
Print Assumptions C20_accepted_scalar_default.

(* explicit filter (possibly on another resolution): observed NaN / number justified by an admissible
   nearest filter cell; an observed number is the field's own value *)
Theorem C20_accepted_scalar_filter : forall ct f mu a rows ext xs ys xl yl r c,
  check_C20 (CScalar ct f mu (Some a) (Some (rows, ext, xs, ys, xl, yl))) = true ->
  (r < n1 f)%nat -> (c < n0 f)%nat ->
  match nth c (nth r rows []) None with
  | None => exists v, In v (resample_cands a (n0 f) (n1 f) c r) /\ v == 0
  | Some w => (exists v, In v (resample_cands a (n0 f) (n1 f) c r) /\ ~ v == 0) /\ w == fval f 0 c r
  end.
Proof. exact accepted_scalar_filter. Qed.
Print Assumptions C20_accepted_scalar_filter.

(* TRANSFER of C20_scalar_position: the OBSERVED array, painted over the model's extent (the observed
   extent is within coord_tol of it, C20_check_scalar_sound), shows at (x, y) the value of the mesh
   cell containing (x*m, y*m); the observed labels are those of the multiplier's prefix *)
Theorem C20_accepted_scalar_position : forall f mu flt rows ext xs ys xl yl lo0 lo1 hi0 hi1,
  check_C20 (CScalar false f mu flt (Some (rows, ext, xs, ys, xl, yl))) = true ->
  no_tie f flt = true ->
  pmin (preg f) = [lo0; lo1] -> pmax (preg f) = [hi0; hi1] ->
  lo0 < hi0 -> lo1 < hi1 -> (0 < n0 f)%nat -> (0 < n1 f)%nat ->
  exists mu' im m p, In mu' (mu_cands (preg f) mu) /\ plot_scalar f mu' flt = OK im /\
  setup_multiplier (preg f) mu' = OK (m, p) /\ 0 < m /\ (xl, yl) = axis_labels (preg f) p /\
  forall x y, lo0 <= x * m -> x * m < hi0 -> lo1 <= y * m -> y * m < hi1 ->
  exists i j, (i < n0 f)%nat /\ (j < n1 f)%nat /\
    (let c0 := cell_of lo0 hi0 (Z.of_nat (n0 f)) in
     lo0 + inject_Z (Z.of_nat i) * c0 <= x * m /\ x * m < lo0 + (inject_Z (Z.of_nat i) + 1) * c0) /\
    (let c1 := cell_of lo1 hi1 (Z.of_nat (n1 f)) in
     lo1 + inject_Z (Z.of_nat j) * c1 <= y * m /\ y * m < lo1 + (inject_Z (Z.of_nat j) + 1) * c1) /\
    oq_eq (displayed_cell rows (im_extent im) None x y)
          (if hidden f flt i j then None else Some (fval f 0 i j)).
Proof. exact accepted_scalar_position. Qed.
Print Assumptions C20_accepted_scalar_position.

Theorem C20_no_tie_default : forall f, no_tie f None = true.
Proof. exact no_tie_default. Qed.
Print Assumptions C20_no_tie_default.

(* TRANSFER of C20_vector_components: the arrow read back at index j*n0 + i is masked iff cell (i, j)
   is invalid; otherwise its U, V are the field's own selected components (a missing one is 0) *)
Theorem C20_accepted_vector_components : forall f mu arg uc cf ox oy ou ov omask oc xl yl,
  check_C20 (CVector f mu arg uc cf (Some ((ox, oy, ou, ov, omask, oc), xl, yl))) = true ->
  exists nx ny ax ay,
    arrow_names f arg = OK (nx, ny) /\ comp_index f nx = OK ax /\ comp_index f ny = OK ay /\
    length ou = (n0 f * n1 f)%nat /\ length ov = (n0 f * n1 f)%nat /\ length omask = (n0 f * n1 f)%nat /\
    forall i j, (i < n0 f)%nat -> (j < n1 f)%nat ->
      nth (arrow_index (n0 f) j i) omask false = negb (fvalid f i j) /\
      (fvalid f i j = true ->
       nth (arrow_index (n0 f) j i) ou 0 == comp_val f ax i j /\
       nth (arrow_index (n0 f) j i) ov 0 == comp_val f ay i j).
Proof. exact accepted_vector_components. Qed.
Print Assumptions C20_accepted_vector_components.

(* TRANSFER of C20_vector_grid + C20_centres: the observed arrow of cell (i, j) sits within coord_tol
   (relative to the axis scale) of the cell centre divided by the multiplier *)
Theorem C20_accepted_vector_positions : forall f mu arg uc cf ox oy ou ov omask oc xl yl lo0 lo1 hi0 hi1,
  check_C20 (CVector f mu arg uc cf (Some ((ox, oy, ou, ov, omask, oc), xl, yl))) = true ->
  nth 0 (pmin (preg f)) 0 = lo0 -> nth 0 (pmax (preg f)) 0 = hi0 -> lo0 < hi0 ->
  nth 1 (pmin (preg f)) 0 = lo1 -> nth 1 (pmax (preg f)) 0 = hi1 -> lo1 < hi1 ->
  exists mu' m p, In mu' (mu_cands (preg f) mu) /\ setup_multiplier (preg f) mu' = OK (m, p) /\
    (xl, yl) = axis_labels (preg f) p /\
    forall i j, (i < n0 f)%nat -> (j < n1 f)%nat ->
      Qabs (nth i (centres (preg f) (n0 f) 0 m) 0 - nth (arrow_index (n0 f) j i) ox 0)
        <= coord_tol * axis_scale (preg f) 0 m /\
      Qabs (nth j (centres (preg f) (n1 f) 1 m) 0 - nth (arrow_index (n0 f) j i) oy 0)
        <= coord_tol * axis_scale (preg f) 1 m /\
      nth i (centres (preg f) (n0 f) 0 m) 0 ==
        (lo0 + (inject_Z (Z.of_nat i) + (1 # 2)) * cell_of lo0 hi0 (Z.of_nat (n0 f))) / m /\
      nth j (centres (preg f) (n1 f) 1 m) 0 ==
        (lo1 + (inject_Z (Z.of_nat j) + (1 # 2)) * cell_of lo1 hi1 (Z.of_nat (n1 f))) / m.
Proof. exact accepted_vector_positions. Qed.
Print Assumptions C20_accepted_vector_positions.

(* TRANSFER of C20_refuse_ndim: on a mesh that is not two-dimensional an accepted record is a refusal *)
Theorem C20_accepted_refusal_ndim : forall c,
  ndim (preg (fst (case_field_mu c))) <> 2%nat -> check_C20 c = true ->
  match c with
  | CScalar _ _ _ _ obs => obs = None
  | CVector _ _ _ _ _ obs => obs = None
  | CLight _ _ _ _ _ _ obs => obs = None
  | CCall _ _ _ obs => obs = None
  end.
Proof. exact accepted_refusal_ndim. Qed.
Print Assumptions C20_accepted_refusal_ndim.

(* ... and an observed scalar picture certifies a 2-d mesh and at most one component *)
Theorem C20_accepted_scalar_not_refused : forall f mu flt o,
  check_C20 (CScalar false f mu flt (Some o)) = true -> ndim (preg f) = 2%nat /\ (pnv f <= 1)%nat.
Proof. exact accepted_scalar_not_refused. Qed.
Print Assumptions C20_accepted_scalar_not_refused.

(* non-vacuity: concrete accepted cases *)
Example C20_accepted_scalar_instance :
  check_C20 (CScalar false witness_field MDefault None
               (Some (witness_rows, [0; 4; 0; 2], [], [], "x (m)"%string, "y (m)"%string))) = true
  /\ no_tie witness_field None = true.
Proof. exact accepted_scalar_instance. Qed.
Print Assumptions C20_accepted_scalar_instance.

Example C20_accepted_vector_instance :
  check_C20 (CVector witness_vfield MDefault None false None
     (Some (([1; 3], [1; 1], [1; 0], [2; 0], [false; true], None), "x (m)"%string, "y (m)"%string))) = true.
Proof. exact accepted_vector_instance. Qed.
Print Assumptions C20_accepted_vector_instance.

Example C20_accepted_refusal_instance :
  check_C20 (CScalar false (mkPF (mkRegion [0] [4] ["x"%string] ["m"%string] (1 # 1000000000000))
                                 [4%nat] 1 [] [] [0; 1; 2; 3] [true; true; true; true]) MDefault None None) = true.
Proof. exact accepted_refusal_instance. Qed.
Print Assumptions C20_accepted_refusal_instance.
