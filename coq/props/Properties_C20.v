(* C20 — matplotlib plots draw the field's own numbers at their physical coordinates.
   ONLY statements, each closed by [exact] of a lemma proved in proofs/C20_plot.v. *)
From DF Require Import Prelude Constants_gen Region Mesh Plot C20_plot.
Open Scope Q_scope.

(* the array handed to imshow/contour is the transpose: row r, column c holds cell (c, r) *)
Theorem C20_transpose : forall (V : Type) (k0 k1 : nat) (a : nat -> nat -> V) (r c : nat) (d : V),
  (r < k1)%nat -> (c < k0)%nat ->
  nth c (nth r (transpose_rows k0 k1 a) []) d = a c r.
Proof. exact transpose_rows_nth. Qed.
Print Assumptions C20_transpose.
