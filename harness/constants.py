"""Source-derived constants (DESIGN.md §3.4): a small fail-soft `ast` pass over /repo that
regenerates coq/gen/Constants_gen.v with the literal constants the theorems depend on.
If a pattern is not found the committed value is kept (source tag 'fallback:<name>')."""
import ast
import os
from fractions import Fraction

DEFAULTS = {
    "half_cell": Fraction(1, 2),
    "divisibility_factor": Fraction(1, 1000),
    # stencil coefficient tuples of operators._1d_diff (order 2)
    "d2_interior": [1, -2, 1],
    "d2_first4": [2, -5, 4, -1],
    "d2_last4": [2, -5, 4, -1],
    "d2_first3": [1, -2, 1],
    "d2_last3": [1, -2, 1],
    # Mesh.is_aligned(tolerance=...) default, Region(tolerance_factor=...) default
    "align_tolerance_default": Fraction(1, 10 ** 12),
    "region_tf_default": Fraction(1, 10 ** 12),
    # OVF binary check values: writer table (bin_rep) and reader table (check)
    "ovf_write_check4": Fraction(1234567),
    "ovf_write_check8": Fraction(123456789012345),
    "ovf_read_check4": Fraction(1234567),
    "ovf_read_check8": Fraction(123456789012345),
}


def _num(node):
    if isinstance(node, ast.Constant) and isinstance(node.value, (int, float)):
        return Fraction(str(node.value)) if isinstance(node.value, float) else Fraction(node.value)
    if isinstance(node, ast.UnaryOp) and isinstance(node.op, ast.USub):
        v = _num(node.operand)
        return None if v is None else -v
    return None


def _func(tree, cls, name):
    for n in ast.walk(tree):
        if isinstance(n, ast.ClassDef) and n.name == cls:
            for f in n.body:
                if isinstance(f, ast.FunctionDef) and f.name == name:
                    return f
    return None


def _lin(node, name):
    """coefficients {index: coeff} of a linear combination of name[index] terms"""
    if isinstance(node, ast.Subscript) and getattr(node.value, "id", None) == name:
        i = _num(node.slice)
        return None if i is None else {int(i): 1}
    if isinstance(node, ast.BinOp) and isinstance(node.op, ast.Mult):
        c, t = _num(node.left), _lin(node.right, name)
        if c is None or t is None:
            c, t = _num(node.right), _lin(node.left, name)
        if c is None or t is None or c.denominator != 1:
            return None
        return {i: int(c) * v for i, v in t.items()}
    if isinstance(node, ast.BinOp) and isinstance(node.op, (ast.Add, ast.Sub)):
        a, b = _lin(node.left, name), _lin(node.right, name)
        if a is None or b is None:
            return None
        sgn = 1 if isinstance(node.op, ast.Add) else -1
        out = dict(a)
        for i, v in b.items():
            out[i] = out.get(i, 0) + sgn * v
        return out
    if isinstance(node, ast.UnaryOp) and isinstance(node.op, ast.USub):
        t = _lin(node.operand, name)
        return None if t is None else {i: -v for i, v in t.items()}
    return None


def _stencils(repo, found):
    ops = ast.parse(open(os.path.join(repo, "discretisedfield", "operators.py")).read())
    fn = next((n for n in ast.walk(ops) if isinstance(n, ast.FunctionDef) and n.name == "_1d_diff"), None)
    if fn is None:
        return
    for n in ast.walk(fn):
        if isinstance(n, ast.Call) and getattr(n.func, "attr", "") == "convolve" and len(n.args) >= 2 \
                and isinstance(n.args[1], ast.List):
            ker = [_num(e) for e in n.args[1].elts]
            if all(k is not None and k.denominator == 1 for k in ker):
                found["d2_interior"] = [int(k) for k in reversed(ker)]   # convolution flips the kernel
    for n in ast.walk(fn):
        if isinstance(n, ast.If) and isinstance(n.test, ast.Compare) and isinstance(n.test.ops[0], ast.GtE):
            for branch, suffix in ((n.body, "4"), (n.orelse, "3")):
                for st in branch:
                    if isinstance(st, ast.Assign) and isinstance(st.targets[0], ast.Subscript) \
                            and getattr(st.targets[0].value, "id", "") == "derivative_array":
                        pos = _num(st.targets[0].slice)
                        co = _lin(st.value, "array")
                        if pos is None or co is None:
                            continue
                        k = int(suffix)
                        if pos == 0 and set(co) <= set(range(k)):
                            found["d2_first" + suffix] = [co.get(i, 0) for i in range(k)]
                        if pos == -1 and set(co) <= set(range(-k, 0)):
                            found["d2_last" + suffix] = [co.get(-1 - i, 0) for i in range(k)]


def _default_of(fn, name):
    args = fn.args
    pos = args.args
    for a, d in zip(pos[len(pos) - len(args.defaults):], args.defaults):
        if a.arg == name:
            return _num(d)
    for a, d in zip(args.kwonlyargs, args.kw_defaults):
        if a.arg == name and d is not None:
            return _num(d)
    return None


def _misc(repo, found):
    mesh = ast.parse(open(os.path.join(repo, "discretisedfield", "mesh.py")).read())
    f = _func(mesh, "Mesh", "is_aligned")
    if f is not None:
        v = _default_of(f, "tolerance")
        if v is not None:
            found["align_tolerance_default"] = v
    region = ast.parse(open(os.path.join(repo, "discretisedfield", "region.py")).read())
    f = _func(region, "Region", "__init__")
    if f is not None:
        v = _default_of(f, "tolerance_factor")
        if v is not None:
            found["region_tf_default"] = v
    ovf = ast.parse(open(os.path.join(repo, "discretisedfield", "io", "ovf.py")).read())
    for n in ast.walk(ovf):
        if isinstance(n, ast.Assign) and len(n.targets) == 1 and isinstance(n.value, ast.Dict):
            name = getattr(n.targets[0], "id", "")
            if name == "bin_rep":
                for k, v in zip(n.value.keys, n.value.values):
                    if isinstance(k, ast.Constant) and isinstance(v, ast.Tuple) and len(v.elts) == 2:
                        c = _num(v.elts[1])
                        if c is not None and k.value in ("bin4", "bin8"):
                            found["ovf_write_check" + k.value[-1]] = c
            if name == "check":
                for k, v in zip(n.value.keys, n.value.values):
                    c = _num(v)
                    if isinstance(k, ast.Constant) and c is not None and k.value in (4, 8):
                        found["ovf_read_check" + str(k.value)] = c


def extract(repo):
    found = {}
    for grp in (_stencils, _misc):
        try:
            grp(repo, found)
        except Exception:  # noqa: BLE001 - fail-soft per group
            pass
    mesh = ast.parse(open(os.path.join(repo, "discretisedfield", "mesh.py")).read())
    f = _func(mesh, "Mesh", "index2point")
    if f is not None:
        for n in ast.walk(f):
            # np.add(index, 0.5)
            if isinstance(n, ast.Call) and getattr(n.func, "attr", "") == "add" and len(n.args) == 2:
                v = _num(n.args[1])
                if v is not None:
                    found["half_cell"] = v
    f = _func(mesh, "Mesh", "__init__")
    if f is not None:
        for n in ast.walk(f):
            # tol = np.min(cell) * 1e-3
            if isinstance(n, ast.Assign) and len(n.targets) == 1 and getattr(n.targets[0], "id", "") == "tol" \
                    and isinstance(n.value, ast.BinOp) and isinstance(n.value.op, ast.Mult):
                v = _num(n.value.right)
                if v is not None:
                    found["divisibility_factor"] = v
    return found


def render(vals):
    lines = ["(* GENERATED by harness/constants.py from /repo on every run (committed copy = fallback). *)",
             "From Coq Require Import QArith List.", "Import ListNotations."]
    for k in sorted(vals):
        v = vals[k]
        if isinstance(v, list):
            body = "; ".join(str(x) if x >= 0 else f"({x})" for x in v)
            lines.append(f"Definition {k} : list Z := [{body}]%Z.")
        else:
            lines.append(f"Definition {k} : Q := ({v.numerator} # {v.denominator}).")
    return "\n".join(lines) + "\n"


def regenerate(repo, coq_dir):
    vals = dict(DEFAULTS)
    src = {}
    try:
        found = extract(repo)
    except Exception as e:  # noqa: BLE001
        found = {}
        src["error"] = type(e).__name__
    for k in vals:
        if k in found:
            vals[k] = found[k]
            src[k] = "source"
        else:
            src[k] = "fallback"
    text = render(vals)
    path = os.path.join(coq_dir, "gen", "Constants_gen.v")
    old = open(path).read() if os.path.exists(path) else None
    if old != text:
        with open(path, "w") as f:
            f.write(text)
    return src
