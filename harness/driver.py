#!/usr/bin/env python3
"""Generic check driver (see DESIGN.md §3, Appendix C).

  ./check <Cxx> [--tier quick|thorough] [--seed N]
  ./check <Cxx> --replay <file>

Stages: source-derived constants -> hygiene grep -> Coq build of the property's theorems
and checker -> Print Assumptions capture -> implementation run (subprocess, /repo working
tree) -> Coq-evaluated correspondence shards -> classification (known findings, failing
input search) -> evidence file.
"""
import argparse
import glob
import hashlib
import json
import os
import re
import subprocess
import sys
import time

VERIF = os.path.dirname(os.path.dirname(os.path.abspath(__file__)))
COQ = os.path.join(VERIF, "coq")
BUILD = os.path.join(VERIF, "build")
PY = "/venv/bin/python"
REPO = os.environ.get("VERIF_REPO", "/repo")
if os.path.realpath(REPO) != "/repo":
    # checks against a scratch copy of the repository (mutation experiments) use a private copy of the
    # Coq tree, so that regenerated constants never disturb the shared build
    _priv = "/tmp/verif_coq_" + hashlib.sha1(os.path.realpath(REPO).encode()).hexdigest()[:10]
    subprocess.run(["rsync", "-a", "--delete", "--exclude", "Makefile*", "--exclude", ".Makefile.d",
                    COQ + "/", _priv + "/"], check=True)
    COQ = _priv
GUARD = "DISCRETISEDFIELD_VERIF"
SHARD = 250

FORBIDDEN = re.compile(
    r"\b(Admitted|admit|Axiom|Axioms|Parameter|Parameters|Conjecture|Conjectures|"
    r"Unset\s+Guard|Unset\s+Positivity|Unset\s+Universe|bypass_check|native_compute|"
    r"Admit\s+Obligations|type-in-type|impredicative-set)\b")


def log(*a):
    print(*a, file=sys.stderr, flush=True)


def sh(cmd, timeout, cwd=None, env=None):
    try:
        p = subprocess.run(cmd, cwd=cwd, env=env, timeout=timeout, stdout=subprocess.PIPE,
                           stderr=subprocess.STDOUT, text=True)
        return p.returncode, p.stdout
    except subprocess.TimeoutExpired as e:
        out = e.stdout.decode() if isinstance(e.stdout, bytes) else (e.stdout or "")
        return 124, out + "\nTIMEOUT"


def child_env():
    env = dict(os.environ)
    env["PYTHONPATH"] = REPO + os.pathsep + VERIF
    env["PYTHONHASHSEED"] = "0"
    env[GUARD] = "1"
    env["MPLBACKEND"] = "Agg"
    env["VERIF_REPO"] = REPO
    env.setdefault("OMP_NUM_THREADS", "1")
    env.setdefault("OPENBLAS_NUM_THREADS", "1")
    return env


# ---------------------------------------------------------------- hygiene
def strip_comments(src):
    out, depth, i = [], 0, 0
    while i < len(src):
        if src.startswith("(*", i):
            depth += 1
            i += 2
        elif src.startswith("*)", i) and depth:
            depth -= 1
            i += 2
        else:
            if not depth:
                out.append(src[i])
            i += 1
    return "".join(out)


def hygiene():
    bad = []
    for f in glob.glob(os.path.join(COQ, "**", "*.v"), recursive=True):
        code = strip_comments(open(f).read())
        code = re.sub(r'"[^"]*"', '""', code)
        for m in FORBIDDEN.finditer(code):
            bad.append(f"{os.path.relpath(f, VERIF)}: {m.group(0)}")
    return bad


# ---------------------------------------------------------------- coq build
def coq_build(pid):
    """build props/Properties_<pid>.vo and check/Check_<pid>.vo (and their deps).
    returns (ok_props, ok_check, log)"""
    tp = f"props/Properties_{pid}.vo"
    tc = f"check/Check_{pid}.vo"
    rc1, out1 = sh([os.path.join(COQ, "mk.sh"), tc], 1700)
    rc2, out2 = sh([os.path.join(COQ, "mk.sh"), tp], 1700)
    return rc2 == 0, rc1 == 0, out1 + out2


def print_assumptions(pid):
    """re-run coqc on the property file to capture Print Assumptions output"""
    d = os.path.join(BUILD, f"pa_{pid}_{os.getpid()}")
    os.makedirs(d, exist_ok=True)
    out_vo = os.path.join(d, f"Properties_{pid}.vo")
    rc, out = sh(["coqc", "-Q", COQ, "DF", os.path.join(COQ, "props", f"Properties_{pid}.v"),
                  "-o", out_vo], 900)
    import shutil
    shutil.rmtree(d, ignore_errors=True)
    src = strip_comments(open(os.path.join(COQ, "props", f"Properties_{pid}.v")).read())
    theorems = re.findall(r"^\s*(?:Theorem|Lemma|Corollary|Example)\s+(\w+)", src, re.M)
    blocks = []
    cur = None
    for line in out.splitlines():
        if line.startswith("Closed under the global context"):
            blocks.append([])
            cur = None
        elif line.startswith("Axioms:"):
            cur = []
            blocks.append(cur)
        elif cur is not None and line.strip():
            if re.match(r"^\S", line):
                cur.append(line.split(":")[0].strip())
    axioms = sorted({a for b_ in blocks for a in b_})
    return rc == 0, theorems, blocks, axioms, out


def broken_theorem(build_log):
    m = re.search(r'File "\./([^"]+)", line (\d+)', build_log)
    if not m:
        return None, None
    f, line = m.group(1), int(m.group(2))
    name = None
    try:
        src = open(os.path.join(COQ, f)).read().splitlines()[:line]
        for l in reversed(src):
            mm = re.match(r"\s*(?:Theorem|Lemma|Corollary|Example|Definition|Fixpoint)\s+(\w+)", l)
            if mm:
                name = mm.group(1)
                break
    except OSError:
        pass
    return f, name


# ---------------------------------------------------------------- shards
def run_shards(pid, records, module_name, case_type, check_fn, extra_imports=""):
    # one private directory per run: two checks of the same property may run at the same time
    d = os.path.join(BUILD, pid, f"run_{os.getpid()}")
    os.makedirs(d, exist_ok=True)
    shards = [records[i:i + SHARD] for i in range(0, len(records), SHARD)]
    files = []
    for k, sh_ in enumerate(shards):
        fn = os.path.join(d, f"shard_{k}.v")
        with open(fn, "w") as f:
            f.write(f"From DF Require Import Prelude {module_name}{extra_imports}.\n")
            f.write("Open Scope Q_scope.\n")
            f.write(f"Definition cases : list {case_type} := [\n")
            f.write(";\n".join(r["coq"] for r in sh_))
            f.write("\n].\n")
            f.write(f"Eval vm_compute in (failing 0 (map {check_fn} cases)).\n")
        files.append(fn)
    procs = []
    failing, errors = [], []
    maxp = int(os.environ.get("VERIF_JOBS", "16"))
    pending = list(enumerate(files))
    running = []
    t0 = time.time()

    def reap(block):
        nonlocal running
        still = []
        for k, p, fn in running:
            if block:
                try:
                    p.wait(timeout=1200)
                except subprocess.TimeoutExpired:
                    p.kill()
            if p.poll() is None:
                still.append((k, p, fn))
                continue
            out = p.stdout.read()
            m = re.search(r"=\s*\[(.*?)\]\s*:\s*list nat", out, re.S)
            if p.returncode != 0 or not m:
                errors.append((k, out[-2000:]))
            else:
                body = m.group(1).replace("%nat", "").strip()
                if body:
                    for tok in body.split(";"):
                        failing.append(k * SHARD + int(tok.strip()))
        running = still

    while pending or running:
        while pending and len(running) < maxp:
            k, fn = pending.pop(0)
            p = subprocess.Popen(["timeout", "1200", "coqc", "-Q", COQ, "DF", "-o",
                                  fn[:-2] + ".vo", fn], stdout=subprocess.PIPE,
                                 stderr=subprocess.STDOUT, text=True, cwd=d)
            running.append((k, p, fn))
        reap(block=False)
        if running and (not pending or len(running) >= maxp):
            time.sleep(0.05)
    if not errors and not os.environ.get("VERIF_KEEP_SHARDS"):
        import shutil
        shutil.rmtree(d, ignore_errors=True)
    return sorted(failing), errors, len(shards), time.time() - t0


# ---------------------------------------------------------------- known findings
def load_known():
    try:
        return json.load(open(os.path.join(VERIF, "known_findings.json")))
    except OSError:
        return []


# ---------------------------------------------------------------- main
def repo_state(pid):
    """which source was checked: HEAD, dirtiness and the sha1 of the property's anchored files"""
    st = dict(head=None, dirty=None, files={})
    try:
        st["head"] = subprocess.run(["git", "-C", REPO, "rev-parse", "--short", "HEAD"], capture_output=True,
                                    text=True, timeout=30).stdout.strip()
        st["dirty"] = bool(subprocess.run(["git", "-C", REPO, "status", "--porcelain", "--untracked-files=no"],
                                          capture_output=True, text=True, timeout=30).stdout.strip())
        for line in open(os.path.join(VERIF, "properties.jsonl")):
            pr = json.loads(line)
            if pr["id"] == pid:
                for f in pr["anchors"]["files"]:
                    fp = os.path.join(REPO, f)
                    if os.path.exists(fp):
                        st["files"][f] = hashlib.sha1(open(fp, "rb").read()).hexdigest()[:12]
    except Exception as e:  # noqa: BLE001 - informational only
        st["error"] = type(e).__name__
    return st


def write_replay(pid, payload):
    os.makedirs(os.path.join(VERIF, "replays"), exist_ok=True)
    blob = json.dumps(payload, indent=1, sort_keys=True, default=str)
    h = hashlib.sha1(blob.encode()).hexdigest()[:12]
    path = os.path.join("replays", f"{pid}-{h}.json")
    with open(os.path.join(VERIF, path), "w") as f:
        f.write(blob)
    return path


def run_impl(pid, tier, seed, extra=None):
    os.makedirs(BUILD, exist_ok=True)
    out = os.path.join(BUILD, f"impl_{pid}_{os.getpid()}.json")
    if os.path.exists(out):
        os.remove(out)
    cmd = [PY, "-m", "harness.run_impl", pid, tier, str(seed), out]
    if extra:
        cmd += extra
    rc, txt = sh(cmd, 3000 if tier == "thorough" else 1500, cwd=VERIF, env=child_env())
    if rc != 0 or not os.path.exists(out):
        return None, txt
    data = json.load(open(out))
    os.remove(out)
    return data, txt


def main():
    ap = argparse.ArgumentParser()
    ap.add_argument("pid")
    ap.add_argument("--tier", default=os.environ.get("VERIF_TIER", "quick"))
    ap.add_argument("--seed", type=int, default=int(os.environ.get("VERIF_SEED", "0") or 0))
    ap.add_argument("--replay")
    a = ap.parse_args()
    pid, tier, seed = a.pid, a.tier, a.seed
    if tier not in ("quick", "thorough"):
        tier = "quick"
    t0 = time.time()
    sys.path.insert(0, VERIF)
    from harness import registry
    spec = registry.SPECS[pid]

    violations = []      # dicts: kind, clause, detail, case
    notes = []

    # 0. source-derived constants
    const_src = "n/a"
    try:
        from harness import constants
        const_src = constants.regenerate(REPO, COQ)
    except Exception as e:  # fail-soft
        const_src = f"fallback ({type(e).__name__}: {e})"

    # 1. hygiene
    bad = hygiene()
    if bad:
        log("forbidden vernacular:", bad)
        print(f"INFRA-ERROR property={pid} forbidden vernacular in development: {bad[:3]}")
        sys.exit(2)

    # 2. build
    ok_props, ok_check, blog = coq_build(pid)
    if not ok_check:
        log(blog[-3000:])
        f, name = broken_theorem(blog)
        # the executable model itself no longer compiles (only possible through generated constants)
        violations.append(dict(kind="broken-correspondence", clause=f"model build: {f}:{name}",
                               detail=blog[-1500:], case=None))
    if not ok_props:
        f, name = broken_theorem(blog)
        log(blog[-3000:])
        violations.append(dict(kind="broken-theorem", clause=f"{f}:{name}", detail=blog[-1500:], case=None))

    # 3. Print Assumptions
    pa_ok, theorems, blocks, axioms, pa_out = (False, [], [], [], "")
    if ok_props:
        pa_ok, theorems, blocks, axioms, pa_out = print_assumptions(pid)
        if not pa_ok:
            violations.append(dict(kind="broken-theorem", clause="Print Assumptions run failed",
                                   detail=pa_out[-1500:], case=None))

    # 3b. independent re-check of the compiled theorems (thorough tier): coqchk -o lists every axiom the
    #     property module and everything it depends on rely on
    coqchk_axioms = None
    if tier == "thorough" and ok_props:
        rc, out = sh(["coqchk", "-silent", "-o", "-Q", COQ, "DF", f"DF.props.Properties_{pid}"], 2400)
        if rc == 0 and "* Axioms:" in out:
            blk = out.split("* Axioms:")[1].split("* Constants/Inductives")[0]
            coqchk_axioms = [l.strip() for l in blk.splitlines() if l.strip() and l.strip() != "<none>"]
        else:
            violations.append(dict(kind="broken-theorem", clause="coqchk re-check failed", detail=out[-1500:], case=None))

    # 4. implementation run
    extra = ["--replay", a.replay] if a.replay else None
    data, txt = run_impl(pid, tier, seed, extra)
    if data is None:
        log(txt[-4000:])
        print(f"INFRA-ERROR property={pid} implementation runner failed")
        sys.exit(2)
    records = data["records"]
    if txt.strip():
        log(txt[-1500:])

    # 5. Coq shards
    coq_records = [r for r in records if r.get("coq")]
    failing, errors, nshards, coq_s = ([], [], 0, 0.0)
    if ok_check and coq_records:
        failing, errors, nshards, coq_s = run_shards(pid, coq_records, f"Check_{pid}",
                                                     spec["case_type"], spec["check_fn"])
        if errors and any("nconsistent assumptions" in e[1] or "bad version" in e[1] or "Cannot find" in e[1]
                          for e in errors):
            # another build touched the shared .vo files while the shards were compiling: rebuild, retry once
            time.sleep(3)
            coq_build(pid)
            failing, errors, nshards, coq_s = run_shards(pid, coq_records, f"Check_{pid}",
                                                         spec["case_type"], spec["check_fn"])
        if errors:
            log("shard errors:", errors[:2])
            print(f"INFRA-ERROR property={pid} {len(errors)} correspondence shard(s) did not evaluate")
            sys.exit(2)
    failing_records = [coq_records[i] for i in failing]

    # 6. classification
    known = [k for k in load_known() if k.get("property") == pid]
    known_active = [k for k in known if k.get("status") == "known"]
    known_hits = {}

    def match_known(rec, clause):
        """a failing clause of a record is excused only if the record carries the tag of a `known` entry
        AND that entry lists this clause (an entry without clause information excuses nothing)"""
        for k in known_active:
            if k["id"] not in rec.get("tags", []):
                continue
            allowed = set(k.get("clauses", []))
            if k.get("clause"):
                allowed.add(k["clause"])
            if clause in allowed:
                return k
        return None

    oracle_fail = []   # (record, clause)
    for r in records:
        for clause in r.get("oracle", []):
            k = match_known(r, clause)
            if k:
                known_hits.setdefault(k["id"], []).append(r)
            else:
                oracle_fail.append((r, clause))
    corr_fail = []
    for r in failing_records:
        k = match_known(r, "correspondence")
        if k:
            known_hits.setdefault(k["id"], []).append(r)
        else:
            corr_fail.append(r)

    def size(r):
        return r.get("size", len(r.get("coq") or ""))

    if oracle_fail:
        by_clause = {}
        for r, clause in oracle_fail:
            by_clause.setdefault(clause, []).append(r)
        for clause, rs in sorted(by_clause.items()):
            rmin = min(rs, key=size)
            violations.append(dict(kind="failing-input", clause=clause, case=rmin,
                                   detail=f"{len(rs)} generated case(s) violate this clause on the implementation"))
    if corr_fail:
        # correspondence broke: is there a failing input for the property itself?
        with_oracle = [r for r in corr_fail if r.get("oracle")]
        if not oracle_fail:
            rmin = min(corr_fail, key=size)
            violations.append(dict(kind="broken-correspondence", clause="model/implementation disagreement",
                                   case=rmin, detail=f"{len(corr_fail)} case(s) disagree; the property predicate "
                                   "holds on the implementation for every generated case"))
        else:
            notes.append(f"{len(corr_fail)} correspondence disagreement(s) accompany the failing input(s)")

    # proofs broke but no failing input and no disagreement: still a violation, flagged
    wall = time.time() - t0

    # 7. evidence
    ntheorems = len(theorems)
    obligations = ntheorems + nshards
    discharged = (ntheorems if (ok_props and pa_ok) else 0) + (nshards if not failing and ok_check else
                                                               max(0, nshards - len({i // SHARD for i in failing})))
    keys = {}
    for r in records:
        if r.get("nontrivial", True):
            keys[r.get("key", r.get("coq", str(r.get("case"))))] = 1
    hist = {}
    for r in records:
        hist[r.get("kind", "case")] = hist.get(r.get("kind", "case"), 0) + 1
    samples = [dict(kind=r.get("kind"), case=r.get("case"), observed=r.get("obs")) for r in records[:: max(1, len(records) // 3)][:3]]
    tb = [
        "Coq 8.16.1 kernel (coqc), vm_compute used to evaluate the model in the case shards; no native_compute",
        "Print Assumptions: " + ("all theorems closed under the global context" if not axioms else
                                 "axioms used: " + ", ".join(axioms)),
        "hand-written Gallina model tied to /repo by the correspondence shards (harness/props/%s.py, coq/check/Check_%s.v)" % (spec["module"], pid),
        "Python harness: generators, Fraction conversion, Gallina printer, parse of the failing-index list",
        "numpy/scipy/… semantics modelled, float rounding inside operations absorbed by exact(dyadic)/tolerance regimes",
    ] + spec.get("trusted", [])
    evidence = dict(
        property_id=pid, tier=tier, seed=seed, level=spec.get("level", "proof"),
        coverage=dict(
            obligations=obligations, discharged=discharged,
            checker_cmd=f"coq/mk.sh props/Properties_{pid}.vo check/Check_{pid}.vo && coqc -Q coq DF build/{pid}/shard_*.v",
            trusted_base=tb,
            theorems=theorems, theorem_assumptions=[("closed" if not b_ else b_) for b_ in blocks],
            correspondence_shards=nshards,
            evaluations=len(records), distinct_nontrivial=len(keys),
            rule=spec.get("rule", ""), samples=samples,
            case_kinds=hist, stats=data.get("stats", {}),
            constants_source=const_src,
            repo_state=repo_state(pid),
            coqchk_axioms=coqchk_axioms,
            known_findings_hit=sorted(known_hits),
            exhaustive=bool(data.get("exhaustive", False)),
            coq_eval_s=round(coq_s, 2),
            notes=notes,
        ),
        assumptions=spec.get("assumptions", []),
        wall_s=round(wall, 2), violations=len(violations),
    )
    # runs against a scratch copy of the repository (mutation experiments) must not overwrite the evidence
    # of the real tree
    evdir = "evidence" if os.path.realpath(REPO) == "/repo" else os.path.join("build", "evidence_scratch")
    os.makedirs(os.path.join(VERIF, evdir), exist_ok=True)
    with open(os.path.join(VERIF, evdir, f"{pid}.json"), "w") as f:
        json.dump(evidence, f, indent=1, default=str)

    # 8. report
    for k in known_active:
        hits = known_hits.get(k["id"], [])
        if hits:
            print(f"KNOWN-FINDING: property={pid} {k['what']} [{k['id']}; {len(hits)} case(s) this run]")
    if a.replay:
        for r in records:
            print(json.dumps(dict(case=r.get("case"), observed=r.get("obs"), oracle=r.get("oracle"),
                                  model_disagrees=r in failing_records), default=str))
    if violations:
        has_input = any(v["kind"] == "failing-input" for v in violations)
        for v in violations:
            payload = dict(property=pid, kind=v["kind"], theorem_or_clause=v["clause"], seed=seed, tier=tier,
                           detail=v["detail"], case=(v["case"] or {}).get("case") if v["case"] else None,
                           impl_output=(v["case"] or {}).get("obs") if v["case"] else None,
                           oracle=(v["case"] or {}).get("oracle") if v["case"] else None,
                           record_kind=(v["case"] or {}).get("kind") if v["case"] else None)
            path = write_replay(pid, payload)
            suffix = "" if (v["kind"] == "failing-input" or has_input) else " no-failing-input-found"
            print(f"VIOLATION property={pid} replay={path}{suffix}")
            log(f"  [{v['kind']}] {v['clause']}: {v['detail'][:300]}")
        sys.exit(1)
    print(f"OK property={pid} tier={tier} seed={seed} theorems={ntheorems} cases={len(records)} "
          f"shards={nshards} wall={wall:.1f}s")
    sys.exit(0)


if __name__ == "__main__":
    main()
