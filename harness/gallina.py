"""Printers: Python values -> Gallina literals.  Floats are converted exactly
(fractions.Fraction) before they get here; nothing is ever printed as a float."""
from fractions import Fraction
import numbers


def to_frac(x):
    """exact rational value of an int / float / numpy scalar / Fraction / 'n/d' string"""
    if isinstance(x, Fraction):
        return x
    if isinstance(x, str):
        return Fraction(x)
    if isinstance(x, bool):
        return Fraction(int(x))
    if isinstance(x, numbers.Integral):
        return Fraction(int(x))
    return Fraction(float(x))


def qs(x):
    """JSON-safe exact encoding of a number"""
    f = to_frac(x)
    return f"{f.numerator}/{f.denominator}"


def q(x):
    f = to_frac(x)
    n, d = f.numerator, f.denominator
    return f"({n} # {d})" if n >= 0 else f"(({n}) # {d})"


def z(x):
    x = int(x)
    return f"{x}%Z" if x >= 0 else f"({x})%Z"


def nat(x):
    x = int(x)
    assert 0 <= x < 5000, x
    return f"{x}%nat"


def b(x):
    return "true" if bool(x) else "false"


def s(x):
    assert '"' not in x
    return f'"{x}"%string'


def lst(items, f=None):
    items = list(items)
    if f is not None:
        items = [f(i) for i in items]
    return "[" + "; ".join(items) + "]"


def ql(xs):
    return lst(xs, q)


def zl(xs):
    return lst(xs, z)


def nl(xs):
    return lst(xs, nat)


def bl(xs):
    return lst(xs, b)


def sl(xs):
    return lst(xs, s)


def qll(xss):
    return lst(xss, ql)


def zll(xss):
    return lst(xss, zl)


def opt(x, f):
    return "None" if x is None else f"(Some {f(x)})"


def pair(a, b_):
    return f"({a}, {b_})"
