"""C01 — mesh lattice and the index<->coordinate maps: generators, implementation runner,
Gallina encoding, property oracle."""
import itertools
import math
from fractions import Fraction as F

import numpy as np

from harness import gallina as g
from harness.util import import_df, js, attempt

df = import_df()

SCALES = [1e-12, 1e-9, 1e-6, 1e-3, 1.0, 1e3, 1e6]
DEFAULT_TF = 1e-12


def S(x):
    return g.qs(x)


def fl(s):
    return float(F(s))


def fls(xs):
    return [fl(x) for x in xs]


# ------------------------------------------------------------------ generators
def gen_mesh_exact(rng, nd=None):
    nd = nd or rng.choice([1, 1, 2, 2, 3, 3, 3, 4])
    p1, p2, n = [], [], []
    int_corners = rng.random() < 0.25      # corners handed over as Python ints (integer-typed pmin/pmax)
    for _ in range(nd):
        k = rng.randint(1, 6)
        cell = F(rng.choice([1, 3, 5, 7]), 2 ** rng.randint(0, 4))
        lo = F(rng.randint(-256, 256), 8)
        if int_corners:
            ext = rng.randint(1, 6)
            k = ext * rng.choice([1, 2, 4])
            cell = F(ext, k)
            lo = F(rng.randint(-30, 30))
        hi = lo + k * cell
        if rng.random() < 0.5:
            lo, hi = hi, lo
        p1.append(lo)
        p2.append(hi)
        n.append(k)
    tf = F(1, 2 ** rng.choice([10, 20, 30]))
    return dict(exact=True, p1=[S(x) for x in p1], p2=[S(x) for x in p2], n=n, tf=S(tf), int_corners=int_corners)


def gen_mesh_big(rng):
    """one axis with hundreds .. tens of thousands of cells (index arithmetic in narrow integer types,
    strategies that switch with size)"""
    m = gen_mesh_exact(rng, nd=rng.choice([1, 1, 2, 3]))
    m["int_corners"] = False
    a = rng.randrange(len(m["n"]))
    k = rng.choice([127, 128, 129, 200, 255, 256, 257, 300, 1000, 32767, 32768, 40000, 70000])
    p1, p2 = [F(x) for x in m["p1"]], [F(x) for x in m["p2"]]
    cell = F(rng.choice([1, 3, 5]), 2 ** rng.randint(0, 4))
    lo = min(p1[a], p2[a])
    p1[a], p2[a] = (lo, lo + k * cell) if rng.random() < 0.5 else (lo + k * cell, lo)
    m["p1"], m["p2"] = [S(x) for x in p1], [S(x) for x in p2]
    m["n"][a] = k
    m["big_axis"] = a
    return m


def gen_indices_big(rng, m):
    n, a = m["n"], m["big_axis"]
    out = []
    for j in (0, 1, 63, 64, 127, 128, 129, 254, 255, 256, 16383, 16384, 32767, 32768, n[a] - 2, n[a] - 1,
              rng.randint(0, n[a] - 1), rng.randint(0, n[a] - 1)):
        if 0 <= j < n[a]:
            i = [rng.randint(0, k - 1) for k in n]
            i[a] = j
            out.append(("big-in", i))
    i = [rng.randint(0, k - 1) for k in n]
    i[a] = rng.choice([n[a], n[a] + 1, -1])
    out.append(("big-out", i))
    return out


def gen_mesh_scale(rng, nd=None):
    nd = nd or rng.choice([1, 2, 2, 3, 3, 3, 4])
    s = rng.choice(SCALES)
    p1, p2, n = [], [], []
    for _ in range(nd):
        k = rng.randint(1, 6)
        off = rng.choice([0.0, 0.0, round(rng.uniform(-50, 50), 2), round(rng.uniform(-5000, 5000), 1)])
        ext = round(rng.uniform(0.5, 80), rng.choice([0, 1, 2]))
        lo = off * s
        hi = (off + ext) * s
        if hi == lo:
            hi = (off + 1.0) * s
        if rng.random() < 0.5:
            lo, hi = hi, lo
        p1.append(lo)
        p2.append(hi)
        n.append(k)
    return dict(exact=False, p1=[S(x) for x in p1], p2=[S(x) for x in p2], n=n, tf=S(DEFAULT_TF))


def mesh_geom(m):
    p1, p2 = [F(x) for x in m["p1"]], [F(x) for x in m["p2"]]
    lo = [min(a, b) for a, b in zip(p1, p2)]
    hi = [max(a, b) for a, b in zip(p1, p2)]
    return lo, hi, [(h - l) / k for l, h, k in zip(lo, hi, m["n"])]


def probes_exact(rng, m):
    lo, hi, cell = mesh_geom(m)
    n = m["n"]
    nd = len(n)
    tf = F(m["tf"])
    atol = min(h - l for l, h in zip(lo, hi)) * tf
    out = []

    def base():
        return [lo[a] + (rng.randint(0, n[a] - 1) + F(1, 2)) * cell[a] for a in range(nd)]
    for _ in range(6):
        p = base()
        a = rng.randrange(nd)
        j = rng.randint(0, n[a])
        cls = rng.choice(["centre", "face", "face+", "face-", "face+tiny", "face-tiny", "corner", "hi+tau/2", "hi+tau",
                          "hi+2tau", "lo-tau/2", "lo-2tau", "far", "interior"])
        if cls == "face":
            p[a] = lo[a] + j * cell[a]
        elif cls == "face+":
            p[a] = lo[a] + j * cell[a] + cell[a] / 1024
        elif cls == "face-":
            p[a] = lo[a] + j * cell[a] - cell[a] / 1024
        elif cls in ("face+tiny", "face-tiny"):
            # an interior face missed by 2^-33 .. 2^-44 of a cell (still exactly representable)
            jj = rng.randint(1, n[a] - 1) if n[a] > 1 else 0
            d = cell[a] / 2 ** rng.choice([33, 36, 40, 44])
            p[a] = lo[a] + jj * cell[a] + (d if cls == "face+tiny" else -d)
            if n[a] == 1:
                p[a] = lo[a] + cell[a] / 2 + d
            while F(float(p[a])) != p[a]:
                # far from the origin such a tiny offset is not a binary64 number: halve the exponent until the
                # probe is exactly representable (the exact regime compares exact rationals)
                d *= 16
                p[a] = lo[a] + jj * cell[a] + (d if cls == "face+tiny" else -d)
        elif cls == "corner":
            p = [rng.choice([lo[b], hi[b]]) for b in range(nd)]
        elif cls.startswith("hi+"):
            tau = atol + tf * abs(hi[a])
            p[a] = hi[a] + {"hi+tau/2": tau / 2, "hi+tau": tau, "hi+2tau": 2 * tau}[cls]
        elif cls.startswith("lo-"):
            tau = atol + tf * abs(lo[a])
            p[a] = lo[a] - {"lo-tau/2": tau / 2, "lo-2tau": 2 * tau}[cls]
        elif cls == "far":
            p[a] = rng.choice([lo[a] - 3 * cell[a], hi[a] + 5 * cell[a]])
        elif cls == "interior":
            p = [lo[b] + F(rng.randint(1, 1023), 1024) * (hi[b] - lo[b]) for b in range(nd)]
        out.append((cls, [S(x) for x in p]))
    return out


def probes_scale(rng, m):
    lo, hi, cell = mesh_geom(m)
    n = m["n"]
    nd = len(n)
    flo, fhi = [float(x) for x in lo], [float(x) for x in hi]
    fc = [(h - l) / k for l, h, k in zip(flo, fhi, n)]
    tf = float(F(m["tf"]))
    atol = min(h - l for l, h in zip(flo, fhi)) * tf
    out = []
    for _ in range(5):
        p = [flo[a] + (rng.randint(0, n[a] - 1) + rng.uniform(0.05, 0.95)) * fc[a] for a in range(nd)]
        a = rng.randrange(nd)
        cls = rng.choice(["interior", "interior", "hi+tau/2", "hi+2tau", "lo-tau/2", "lo-2tau", "far", "pmax", "pmin"])
        if cls.startswith("hi+"):
            tau = atol + tf * abs(fhi[a])
            p[a] = fhi[a] + (0.5 if cls == "hi+tau/2" else 2.0) * tau
        elif cls.startswith("lo-"):
            tau = atol + tf * abs(flo[a])
            p[a] = flo[a] - (0.5 if cls == "lo-tau/2" else 2.0) * tau
        elif cls == "far":
            p[a] = rng.choice([flo[a] - 3 * fc[a], fhi[a] + 2 * fc[a]])
        elif cls == "pmax":
            p = list(fhi)
        elif cls == "pmin":
            p = list(flo)
        out.append((cls, [S(x) for x in p]))
    return out


def gen_indices(rng, m):
    n = m["n"]
    nd = len(n)
    out = []
    for _ in range(3):
        out.append(("in", [rng.randint(0, k - 1) for k in n]))
    i = [rng.randint(0, k - 1) for k in n]
    a = rng.randrange(nd)
    i[a] = rng.choice([-1, n[a], n[a] + 2, -3])
    out.append(("out", i))
    out.append(("first", [0] * nd))
    out.append(("last", [k - 1 for k in n]))
    if rng.random() < 0.3:
        out.append(("wrong-length", [0] * (nd + 1)))
    return out


def gen_bycell(rng, exact):
    nd = rng.choice([1, 2, 3, 3, 4])
    p1, p2, c, cls = [], [], [], []
    s = 1.0 if exact else rng.choice(SCALES)
    for _ in range(nd):
        k = rng.randint(1, 9)
        if exact:
            cell = F(rng.choice([1, 3, 5]), 2 ** rng.randint(0, 3))
            lo = F(rng.randint(-64, 64), 4)
            kind = rng.choice(["multiple"] * 5 + ["half", "quarter", "big", "tiny-"])
            e = {"multiple": k * cell, "half": (k + F(1, 2)) * cell, "quarter": (k + F(1, 4)) * cell,
                 "big": cell / 2, "tiny-": k * cell}[kind]
            hi = lo + e
        else:
            cell = round(rng.uniform(0.5, 9.5), 1) * s
            lo = rng.choice([0.0, round(rng.uniform(-100, 100), 1)]) * s
            kind = rng.choice(["multiple"] * 5 + ["+0.5e-3", "-0.5e-3", "+2e-3", "-2e-3", "half", "big"])
            fac = {"multiple": 1.0, "+0.5e-3": 1 + 0.5e-3 / k, "-0.5e-3": 1 - 0.5e-3 / k,
                   "+2e-3": 1 + 3e-3 / k, "-2e-3": 1 - 3e-3 / k, "half": 1 + 0.5 / k, "big": 0.4 / k}[kind]
            hi = lo + k * cell * fac
            if kind == "multiple" and rng.random() < 0.3:
                # far from the origin compared with the cell (a thin film on a thick substrate): the float edge
                # differs from k*cell by rounding noise of the size of an ulp of the COORDINATE
                kind = "multiple-far"
                k = rng.choice([1, 1, 1, 2, 3])
                lo = rng.choice([-1, 1]) * rng.choice([1e3, 1e4, 1e5, 1e6, 1e7]) * round(rng.uniform(1, 9.9), 2) * cell
                hi = lo + k * cell
        p1.append(lo)
        p2.append(hi)
        c.append(cell)
        cls.append(kind)
    tf = F(1, 2 ** 20) if exact else DEFAULT_TF
    return dict(kind="bycell", exact=exact, p1=[S(x) for x in p1], p2=[S(x) for x in p2],
                cell=[S(x) for x in c], tf=S(tf), cls=cls)


def gen_bycell_far(rng, want_short):
    """a commensurate request with ONE cell along an axis that sits far from the origin compared with the cell
    (thin film on a thick substrate): the float edge differs from the cell by an ulp of the coordinate.
    want_short: the rounded edge must come out SHORTER than the cell (the case a relative-to-edge guard refuses)"""
    for _ in range(400):
        nd = rng.choice([1, 2, 3])
        s = rng.choice(SCALES)
        p1, p2, c, cls = [], [], [], []
        far = rng.randrange(nd)
        short = False
        for a in range(nd):
            cell = round(rng.uniform(0.5, 9.5), 1) * s
            if a == far:
                k = 1
                lo = rng.choice([-1, 1]) * rng.choice([1e3, 1e4, 1e5, 1e6, 1e7]) * round(rng.uniform(1, 9.9), 2) * cell
                hi = lo + k * cell
                short = (hi - lo) < cell
                cls.append("multiple-far")
            else:
                k = rng.randint(1, 9)
                lo = round(rng.uniform(-100, 100), 1) * s
                hi = lo + k * cell
                cls.append("multiple")
            p1.append(lo)
            p2.append(hi)
            c.append(cell)
        if short == want_short:
            break
    return dict(kind="bycell", exact=False, p1=[S(x) for x in p1], p2=[S(x) for x in p2],
                cell=[S(x) for x in c], tf=S(DEFAULT_TF), cls=cls)


def gen_bycell_large(rng):
    """many cells along one axis: a leftover of a fraction of a cell must still be refused"""
    nd = rng.choice([1, 1, 2, 3])
    p1, p2, c, cls = [], [], [], []
    big = rng.randrange(nd)
    for a in range(nd):
        cell = F(rng.choice([1, 3, 5]), 2 ** rng.randint(0, 3))
        lo = F(rng.randint(-64, 64), 4)
        if a == big:
            k = rng.choice([1000, 2000, 4096, 50000, 100000, 10 ** 6])
            kind = rng.choice(["multiple", "multiple", "+1/64", "+1/4", "half", "-1/8"])
        else:
            k = rng.randint(1, 9)
            kind = "multiple"
        frac = {"multiple": 0, "+1/64": F(1, 64), "+1/4": F(1, 4), "half": F(1, 2), "-1/8": -F(1, 8)}[kind]
        p1.append(lo)
        p2.append(lo + (k + frac) * cell)
        c.append(cell)
        cls.append(kind + ("/big" if a == big else ""))
    return dict(kind="bycell", exact=True, p1=[S(x) for x in p1], p2=[S(x) for x in p2],
                cell=[S(x) for x in c], tf=S(F(1, 2 ** 40)), cls=cls)


def generate(rng, tier):
    nm = 40 if tier == "quick" else 400
    cases = []
    # regions: corner order, degenerate
    for _ in range(nm // 2):
        nd = rng.randint(1, 4)
        p1 = [F(rng.randint(-40, 40), 4) for _ in range(nd)]
        p2 = [F(rng.randint(-40, 40), 4) for _ in range(nd)]
        if rng.random() < 0.2:
            a = rng.randrange(nd)
            p2[a] = p1[a]
        if rng.random() < 0.1:
            p2 = p2 + [F(1)]
        cases.append(dict(kind="region", p1=[S(x) for x in p1], p2=[S(x) for x in p2]))
    for k in range(nm + nm // 2):
        exact = k % 2 == 0
        m = gen_mesh_exact(rng) if exact else gen_mesh_scale(rng)
        m["n_type"] = rng.choice(N_TYPES)
        if k >= nm:
            # derived meshes: lattice after in-place operations on a mesh whose cached quantities were used
            m = derive_mesh(rng, gen_mesh_exact(rng))
            if m is None:
                continue
        # the lattice does not depend on the boundary conditions of the mesh
        if len(m["n"]) <= 3:
            m["bc"] = rng.choice(["", "", "x", "xyz"[:len(m["n"])], "xyz"[len(m["n"]) - 1], "neumann", "dirichlet"])
        else:
            m["bc"] = rng.choice(["", "", "neumann", "dirichlet"])
        m["siblings"] = (k % 3 == 0)
        for cls, i in gen_indices(rng, m):
            cases.append(dict(kind="i2p", mesh=m, cls=cls, i=i))
        for cls, p in (probes_exact(rng, m) if m["exact"] else probes_scale(rng, m)):
            cases.append(dict(kind="p2i", mesh=m, cls=cls, p=p))
        if rng.random() < 0.15:
            cases.append(dict(kind="p2i", mesh=m, cls="wrong-length", p=[S(0)] * (len(m["n"]) + 1)))
        if rng.random() < 0.2:
            cases.append(dict(kind="nonfinite", mesh=m, axis=rng.randrange(len(m["n"])),
                              what=rng.choice(["nan", "inf", "-inf"]), np_type=rng.random() < 0.5))
        if math.prod(m["n"]) <= 64:
            cases.append(dict(kind="lattice", mesh=m))
    for k in range(max(4, nm // 5)):
        m = gen_mesh_big(rng)
        m["n_type"] = rng.choice(["list", "tuple", "int64", "uint64", "int32"])
        m["bc"] = rng.choice(["", "x"])
        if k % 2 == 0:
            # a comparison tolerance WIDER than a cell: points of the tolerance band several cells beyond pmax /
            # below pmin still belong to the region and map to the last / first cell
            m["tf"] = S(F(1, 2 ** 10))
            lo_, hi_, cell_ = mesh_geom(m)
            a_ = m["big_axis"]
            atol_ = min(h - l for l, h in zip(lo_, hi_)) * F(1, 2 ** 10)
            for sign, frac in ((1, F(1, 2)), (1, F(3, 4)), (-1, F(1, 2)), (1, F(1, 64)), (1, 2), (-1, 2)):
                p_ = [l + c / 2 for l, c in zip(lo_, cell_)]
                edge = hi_[a_] if sign > 0 else lo_[a_]
                tau = atol_ + F(1, 2 ** 10) * abs(edge)
                p_[a_] = edge + sign * frac * tau
                if all(F(float(x)) == x for x in p_):
                    cases.append(dict(kind="p2i", mesh=m, cls="band", p=[S(x) for x in p_]))
        for cls, i in gen_indices_big(rng, m):
            cases.append(dict(kind="i2p", mesh=m, cls=cls, i=i))
        for cls, p_ in probes_exact(rng, m):
            cases.append(dict(kind="p2i", mesh=m, cls=cls, p=p_))
    # integer-typed corners with long edges in 4 dimensions: products of edges beyond the int64 range
    for edges in ([65536] * 4, [60000, 70000, 55109, 65536], [2 ** 20, 2 ** 20, 2 ** 20, 2 ** 4]):
        lo_ = [rng.randint(-5, 5) for _ in edges]
        m = dict(exact=True, p1=[S(F(a)) for a in lo_], p2=[S(F(a + e)) for a, e in zip(lo_, edges)],
                 n=[rng.choice([1, 2, 4]) for _ in edges], tf=S(F(1, 2 ** 30)), int_corners=True,
                 n_type="list", bc="")
        for cls, i in gen_indices(rng, m):
            cases.append(dict(kind="i2p", mesh=m, cls=cls, i=i))
    for k in range(nm * 2):
        cases.append(gen_bycell(rng, exact=(k % 2 == 0)))
    for k in range(nm // 2):
        cases.append(gen_bycell_large(rng))
    for k in range(max(8, nm // 4)):
        cases.append(gen_bycell_far(rng, want_short=(k % 4 != 3)))
    return cases


# ------------------------------------------------------------------ implementation
N_TYPES = ["list", "tuple", "int64", "int32", "uint64", "uint8", "npscalars"]


def typed_n(n, kind):
    if kind == "tuple":
        return tuple(n)
    if kind in ("int64", "int32", "uint64", "uint8"):
        return np.array(n, dtype=kind)
    if kind == "npscalars":
        return [np.uint64(k) if i % 2 else np.int32(k) for i, k in enumerate(n)]
    return list(n)


def build(m):
    """the mesh of a case.  `m["pre"]` (derived meshes): the mesh is first built from m["pre"]["p1"/"p2"/"n"],
    its cached quantities are touched, then the listed public in-place operations are applied; the lattice the
    case talks about (m["p1"], m["p2"], m["n"]) is the one the mesh reports AFTERWARDS."""
    src = m.get("pre") or m
    p1, p2 = fls(src["p1"]), fls(src["p2"])
    if m.get("int_corners"):
        p1, p2 = [int(x) for x in p1], [int(x) for x in p2]
    region = df.Region(p1=p1, p2=p2, tolerance_factor=fl(m["tf"]))
    n_arg = typed_n(src["n"], m.get("n_type", "list"))
    mesh = df.Mesh(region=region, n=n_arg, bc=m.get("bc", ""))
    if m.get("siblings") and not m.get("pre"):
        # other meshes made from the SAME n object, and copies returned by the library, are changed in place;
        # the lattice of THIS mesh must not move (no state shared between meshes), nor the caller's n
        n_before = [int(k) for k in np.asarray(n_arg).tolist()] if not isinstance(n_arg, int) else n_arg
        sibs = [df.Mesh(region=df.Region(p1=p1, p2=p2, tolerance_factor=fl(m["tf"])), n=n_arg),
                mesh.translate([0.0] * len(p1)), mesh.scale(1.0)]
        nd_ = len(p1)
        for sb in sibs:
            _ = sb.cell, sb.dV
            if nd_ >= 2:
                d_ = sb.region.dims
                sb.rotate90(d_[0], d_[nd_ - 1], k=1, inplace=True)
            sb.scale(2.0, inplace=True)
            sb.translate([1.0] * nd_, inplace=True)
        if [int(k) for k in np.asarray(n_arg).tolist()] != n_before:
            raise AssertionError("the caller's n was modified by a sibling mesh")
    if m.get("pre"):
        _ = mesh.cell, mesh.dV, len(mesh)
        mesh.index2point((0,) * len(src["n"]))
        mesh.point2index(mesh.region.center)
        for op in m["pre"]["ops"]:
            apply_op(mesh, op)
    return mesh


def apply_op(mesh, op):
    kind = op[0]
    dims = mesh.region.dims
    if kind == "mesh.rotate90":
        mesh.rotate90(dims[op[1]], dims[op[2]], k=op[3], inplace=True)
    elif kind == "mesh.scale":
        mesh.scale([fl(x) for x in op[1]], inplace=True)
    elif kind == "region.scale":
        mesh.region.scale([fl(x) for x in op[1]], inplace=True)
    elif kind == "mesh.translate":
        mesh.translate([fl(x) for x in op[1]], inplace=True)
    else:
        raise ValueError(kind)


def derive_mesh(rng, m):
    """turn a freshly generated mesh description into a 'derived' one: apply in-place operations on the
    implementation and read the resulting lattice back (its exact float corners and counts)."""
    nd = len(m["n"])
    ops = []
    for _ in range(rng.randint(1, 2)):
        kind = rng.choice(["mesh.rotate90", "mesh.scale", "region.scale", "mesh.translate"] if nd > 1
                          else ["mesh.scale", "region.scale", "mesh.translate"])
        if kind == "mesh.rotate90":
            a, b = rng.sample(range(nd), 2)
            ops.append([kind, a, b, rng.choice([1, 3, -1, 5, 2])])
        elif kind in ("mesh.scale", "region.scale"):
            ops.append([kind, [S(rng.choice([F(2), F(-1), F(1, 2), F(-2), F(-1, 2), F(1)])) for _ in range(nd)]])
        else:
            ops.append([kind, [S(F(rng.randint(-40, 40), 4)) for _ in range(nd)]])
    d = dict(m)
    d["pre"] = dict(p1=m["p1"], p2=m["p2"], n=m["n"], ops=ops)
    d["int_corners"] = False
    st, mesh = attempt(lambda: build(d))
    if st != "ok":
        return None
    d["p1"] = [S(x) for x in mesh.region.pmin.tolist()]
    d["p2"] = [S(x) for x in mesh.region.pmax.tolist()]
    d["n"] = [int(k) for k in mesh.n]
    # (Region.rotate90 uses the exact quarter-turn matrix since 9b30ddbb: rotated dyadic lattices stay exact)
    if any(F(a) == F(b) for a, b in zip(d["p1"], d["p2"])):
        return None
    return d


def mesh_coq(m):
    return f'{g.ql(m["p1"])} {g.ql(m["p2"])} {g.zl(m["n"])} {g.q(m["tf"])}'


def scale_of(m):
    lo, hi, _ = mesh_geom(m)
    return [float(max(abs(l), abs(h), h - l)) for l, h in zip(lo, hi)]


def run_case(c):
    kind = c["kind"]
    rec = dict(kind=kind, case=c, oracle=[], tags=[])
    if kind == "region":
        st, r = attempt(lambda: df.Region(p1=fls(c["p1"]), p2=fls(c["p2"])))
        if st == "ok":
            obs = dict(pmin=js(r.pmin), pmax=js(r.pmax))
            coq_obs = f'(Some ({g.ql(obs["pmin"])}, {g.ql(obs["pmax"])}))'
            if not (np.all(r.pmin < r.pmax) and len(r.dims) == len(r.pmin) == len(r.units)
                    and len(set(r.dims)) == len(r.dims)):
                rec["oracle"].append("region-invariant")
            p1, p2 = fls(c["p1"]), fls(c["p2"])
            if list(r.pmin) != [min(a, b) for a, b in zip(p1, p2)] or list(r.pmax) != [max(a, b) for a, b in zip(p1, p2)]:
                rec["oracle"].append("region-corners")
        else:
            obs = dict(err=r)
            coq_obs = "None"
            if len(c["p1"]) == len(c["p2"]) and all(a != b for a, b in zip(c["p1"], c["p2"])):
                rec["oracle"].append("region-wrongly-rejected")
        if st == "ok" and any(F(a) == F(b) for a, b in zip(c["p1"], c["p2"])):
            rec["oracle"].append("degenerate-region-accepted")
        rec.update(obs=obs, coq=f'CRegion {g.ql(c["p1"])} {g.ql(c["p2"])} {coq_obs}',
                   key=f'region/{len(c["p1"])}/{st}', size=len(c["p1"]))
        return rec

    if kind == "bycell":
        exact = c["exact"]

        def mk():
            region = df.Region(p1=fls(c["p1"]), p2=fls(c["p2"]), tolerance_factor=fl(c["tf"]))
            return df.Mesh(region=region, cell=fls(c["cell"]))
        st, m = attempt(mk)
        if st == "ok":
            obs = dict(n=js(m.n))
            coq_obs = f"(Some {g.zl(obs['n'])})"
        else:
            obs = dict(err=m)
            coq_obs = "None"
        # oracle: exact multiples accepted with that count; clear non-multiples rejected
        e = [abs(F(b) - F(a)) for a, b in zip(c["p1"], c["p2"])]
        cl = [F(x) for x in c["cell"]]
        ratios = [ee / cc for ee, cc in zip(e, cl)]
        tolq = min(cl) * F(1, 1000)
        fracs = [(r - math.floor(r)) * cc for r, cc in zip(ratios, cl)]   # remainder in length units
        near = all(min(f_, cc - f_) <= tolq * F(99, 100) for f_, cc in zip(fracs, cl))
        clear_bad = any(tolq * F(101, 100) < f_ < cc - tolq * F(101, 100) for f_, cc in zip(fracs, cl))
        rounded = [int(math.floor(r + F(1, 2))) for r in ratios]
        # (an edge shorter than the cell is refused by the 'cell exceeds region' test even inside the 0.1 % band:
        #  the property only promises a mesh for a whole number of cells, so nothing is demanded there)
        # ... except when the shortfall is nothing but the rounding of the corner coordinates (a few ulps of the
        #     coordinate): such an edge IS a whole number of cells as far as the caller can express it
        ulp = [F(4, 2 ** 52) * max(abs(F(a)), abs(F(b))) for a, b in zip(c["p1"], c["p2"])]
        if near and all(k >= 1 for k in rounded) and all(ee >= cc or cc - ee <= u for ee, cc, u in zip(e, cl, ulp)):
            if st != "ok":
                rec["oracle"].append("commensurate-cell-rejected")
            elif [int(x) for x in m.n] != rounded:
                rec["oracle"].append("bycell-wrong-count")
        if clear_bad and st == "ok":
            rec["oracle"].append("incommensurate-cell-accepted")
        if st == "ok":
            if not np.allclose(m.cell * m.n, m.region.edges, rtol=1e-9, atol=0):
                rec["oracle"].append("cell-times-n")
        rec.update(obs=obs, coq=f'CByCell {g.b(exact)} {g.ql(c["p1"])} {g.ql(c["p2"])} {g.ql(c["cell"])} '
                                f'{g.q(c["tf"])} {coq_obs}',
                   key=f'bycell/{exact}/{len(cl)}/{st}/{"".join(sorted(set(c["cls"])))}', size=len(cl))
        return rec

    m = c["mesh"]
    exact = m["exact"]
    mesh = build(m)
    if not np.all(mesh.region.pmin < mesh.region.pmax):
        rec["oracle"].append("region-invariant")
    if not np.allclose(mesh.cell * mesh.n, mesh.region.pmax - mesh.region.pmin, rtol=1e-9, atol=0):
        rec["oracle"].append("cell-times-n")
    lo, hi, cell = mesh_geom(m)
    n = m["n"]
    sc = scale_of(m)
    # cell volume and cell count: the cells tile the region (N * dV = volume of the region)
    want_dv = math.prod(cell)
    st_dv, dv = attempt(lambda: float(mesh.dV))
    if st_dv != "ok" or abs(F(dv) - want_dv) > (0 if exact else F(1, 10 ** 12)) * want_dv:
        rec["oracle"].append("cell-volume")
    if len(mesh) != math.prod(n) or (st_dv == "ok" and abs(F(dv) * len(mesh) - math.prod(h - l for l, h in zip(lo, hi)))
                                     > F(1, 10 ** 12) * math.prod(h - l for l, h in zip(lo, hi))):
        rec["oracle"].append("cells-do-not-tile-the-volume")
    if kind == "nonfinite":
        # a point with a NaN / infinite coordinate lies in no cell: not contained, no index (oracle only: Q has no NaN)
        bad = {"nan": float("nan"), "inf": float("inf"), "-inf": float("-inf")}[c["what"]]
        p = [float(x) for x in mesh.region.center]
        p[c["axis"]] = np.float64(bad) if c["np_type"] else bad
        st, idx = attempt(lambda: mesh.point2index(tuple(p)))
        st_in, isin = attempt(lambda: bool(tuple(p) in mesh.region))
        if st == "ok":
            rec["oracle"].append("nonfinite-point-indexed")
        if st_in == "ok" and isin:
            rec["oracle"].append("nonfinite-point-contained")
        rec.update(obs=dict(p2i=st, isin=(isin if st_in == "ok" else st_in)), coq=None,
                   key=f'nonfinite/{c["what"]}/{len(n)}', size=len(n))
        return rec
    if kind == "i2p":
        i = c["i"]
        st, p = attempt(lambda: mesh.index2point(tuple(i)))
        inr = len(i) == len(n) and all(0 <= a < k for a, k in zip(i, n))
        # the same index spelled as list / ndarray / numpy integers gives the same outcome
        alts = [list(i), np.array(i, dtype=np.int64), tuple(np.int32(a) for a in i)]
        for dt in (np.int8, np.uint8, np.int16, np.uint16, np.uint32, np.uint64):
            info = np.iinfo(dt)
            if all(info.min <= a <= info.max for a in i):
                alts.append(tuple(dt(a) for a in i))
                alts.append(np.array(i, dtype=dt))
        for alt in alts:
            st_a, p_a = attempt(lambda: mesh.index2point(alt))
            if st_a != st or (st == "ok" and not np.array_equal(p_a, p)):
                rec["oracle"].append("index-spelling")
        if st == "ok":
            obs = dict(p=js(p))
            coq_obs = f"(Some {g.ql(obs['p'])})"
            if not inr:
                rec["oracle"].append("out-of-range-index-accepted")
            else:
                want = [float(l + (a + F(1, 2)) * cc) for l, a, cc in zip(lo, i, cell)]
                if any(abs(x - w) > 1e-9 * s_ for x, w, s_ in zip(p, want, sc)):
                    rec["oracle"].append("centre-formula")
                st2, back = attempt(lambda: mesh.point2index(p))
                obs["roundtrip"] = [int(a) for a in back] if st2 == "ok" else back
                if st2 != "ok" or list(back) != list(i) or \
                        not all(isinstance(a, (int, np.integer)) and not isinstance(a, bool) for a in back):
                    rec["oracle"].append("roundtrip")
        else:
            obs = dict(err=p)
            coq_obs = "None"
            if inr:
                rec["oracle"].append("in-range-index-rejected")
        rec.update(obs=obs, coq=f'CI2P {g.b(exact)} {mesh_coq(m)} {g.zl(i)} {coq_obs}',
                   key=f'i2p/{exact}/{len(n)}/{c["cls"]}/{st}/{hash(tuple(i)) % 7}', size=len(n) + sum(n))
        return rec

    if kind == "p2i":
        p = fls(c["p"])
        st, idx = attempt(lambda: mesh.point2index(tuple(p)))
        st_in, isin = attempt(lambda: bool(tuple(p) in mesh.region))
        obs_in = bool(isin) if st_in == "ok" else False
        # the same point spelled as list / ndarray / numpy floats gives the same outcome
        for alt in (list(p), np.array(p, dtype=np.float64), tuple(np.float64(x) for x in p)):
            st_a, idx_a = attempt(lambda: mesh.point2index(alt))
            if st_a != st or (st == "ok" and [int(a) for a in idx_a] != [int(a) for a in idx]):
                rec["oracle"].append("point-spelling")
            st_b, in_b = attempt(lambda: bool(alt in mesh.region))
            if st_b != st_in or (st_in == "ok" and bool(in_b) != bool(isin)):
                rec["oracle"].append("point-spelling")
        tf = float(F(m["tf"]))
        pq = [F(x) for x in c["p"]]
        if st == "ok":
            obs = dict(idx=[int(a) for a in idx], isin=obs_in, idx_types=sorted({type(a).__name__ for a in idx}))
            coq_obs = f"(Some {g.zl(obs['idx'])})"
            if not all(isinstance(a, (int, np.integer)) and not isinstance(a, bool) for a in idx):
                rec["oracle"].append("index-not-integer")
            if not (len(idx) == len(n) and all(0 <= a < k for a, k in zip(idx, n))):
                rec["oracle"].append("index-out-of-range")
            elif len(pq) == len(n):
                atol = float(min(h - l for l, h in zip(lo, hi))) * tf
                for a in range(len(n)):
                    tau = atol + tf * abs(p[a])
                    slack = tau * (1 + 1e-6) + (0 if exact else 1e-9 * sc[a])
                    lo_c = float(lo[a] + idx[a] * cell[a])
                    hi_c = float(lo[a] + (idx[a] + 1) * cell[a])
                    inside_half_open = lo[a] <= pq[a] < hi[a]
                    if exact and inside_half_open:
                        if not (lo[a] + idx[a] * cell[a] <= pq[a] < lo[a] + (idx[a] + 1) * cell[a]):
                            rec["oracle"].append("cell-does-not-contain-point")
                    elif exact and pq[a] == hi[a]:
                        if idx[a] != n[a] - 1:
                            rec["oracle"].append("upper-face-not-last-cell")
                    elif not (lo_c - slack <= p[a] <= hi_c + slack):
                        rec["oracle"].append("cell-does-not-contain-point")
        else:
            obs = dict(err=idx, isin=obs_in)
            coq_obs = "None"
            if len(pq) == len(n) and all(l <= x <= h for l, x, h in zip(lo, pq, hi)):
                rec["oracle"].append("inside-point-rejected")
        if st == "ok" and len(pq) == len(n):
            atol = float(min(h - l for l, h in zip(lo, hi))) * tf
            for a in range(len(n)):
                tau = (atol + tf * abs(p[a])) * (1 + 1e-6)
                if p[a] < float(lo[a]) - tau - 1e-300 or p[a] > float(hi[a]) + tau + 1e-300:
                    rec["oracle"].append("outside-point-accepted")
        if st == "ok" and len(pq) != len(n):
            rec["oracle"].append("wrong-length-point-accepted")
        rec["oracle"] = sorted(set(rec["oracle"]))
        rec.update(obs=obs, coq=f'CP2I {g.b(exact)} {mesh_coq(m)} {g.ql(c["p"])} {g.b(obs_in)} {coq_obs}',
                   key=f'p2i/{exact}/{len(n)}/{c["cls"]}/{st}/{hash(tuple(c["p"])) % 7}', size=len(n) + sum(n))
        return rec

    if kind == "lattice":
        nd = len(n)
        idxs = [list(map(int, i)) for i in list(mesh.indices)]
        kept = list(mesh)            # the points are kept beyond the iteration step, as list(mesh) does
        pts = [js(p) for p in kept]
        if len(kept) > 1 and any(x is y or np.shares_memory(x, y) for x, y in zip(kept, kept[1:])
                                 if isinstance(x, np.ndarray) and isinstance(y, np.ndarray)):
            rec["oracle"].append("iteration-yields-shared-object")
        cells = [js(getattr(mesh.cells, d)) for d in mesh.region.dims]
        verts = [js(getattr(mesh.vertices, d)) for d in mesh.region.dims]
        cf = mesh.coordinate_field()
        coord = [js(cf.array[tuple(i)]) for i in idxs]
        ln = len(mesh)
        obs = dict(len=ln, indices=idxs, points=pts, cells=cells, vertices=verts, coord=coord)
        # oracle
        want_idx = [list(reversed(t)) for t in itertools.product(*[range(k) for k in reversed(n)])]
        if ln != math.prod(n):
            rec["oracle"].append("len")
        if idxs != want_idx:
            rec["oracle"].append("iteration-order")

        def close(x, w, s_):
            return abs(float(F(x)) - float(w)) <= 1e-9 * s_
        for i, p, cfp in zip(idxs, pts, coord):
            want = [lo[a] + (i[a] + F(1, 2)) * cell[a] for a in range(nd)]
            if not all(close(p[a], want[a], sc[a]) for a in range(nd)):
                rec["oracle"].append("iteration-points")
            if not all(close(cfp[a], want[a], sc[a]) for a in range(nd)):
                rec["oracle"].append("coordinate-field")
        for a in range(nd):
            if len(cells[a]) != n[a] or not all(close(cells[a][j], lo[a] + (j + F(1, 2)) * cell[a], sc[a]) for j in range(n[a])):
                rec["oracle"].append("cells")
            if len(verts[a]) != n[a] + 1 or not all(close(verts[a][j], lo[a] + j * cell[a], sc[a]) for j in range(n[a] + 1)):
                rec["oracle"].append("vertices")
        rec["oracle"] = sorted(set(rec["oracle"]))
        rec.update(obs=obs, coq=(f'CLattice {g.b(exact)} {g.ql(m["p1"])} {g.ql(m["p2"])} {g.zl(n)} {g.z(ln)} '
                                 f'{g.zll(idxs)} {g.qll(pts)} {g.qll(cells)} {g.qll(verts)} {g.qll(coord)}'),
                   key=f'lattice/{exact}/{tuple(n)}', size=len(n) + sum(n))
        # lattice uses the default tolerance factor in the checker
        return rec
    raise ValueError(kind)


def stats(records):
    out = {}
    for r in records:
        k = r["kind"] + ("/ok" if "err" not in r["obs"] else "/rejected")
        out[k] = out.get(k, 0) + 1
    return out
