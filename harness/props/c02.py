"""C02 - a field holds exactly the value its specification assigns to every cell:
generators, implementation runner, Gallina encoding and the property oracle.

Values are encoded as [re, im] pairs of exact rationals ("n/d" strings)."""
import itertools
import math
from fractions import Fraction as F

import numpy as np

from harness import gallina as g
import copy

from harness.util import import_df, attempt, relayout, LAYOUTS

df = import_df()

DT = {"float": np.float64, "int": np.int64, "complex": np.complex128, "bool": np.bool_}
NAMES = ["a", "b", "r1", "zz", "core", "shell", "s3"]


def S(x):
    return g.qs(x)


def fl(s):
    return float(F(s))


# ------------------------------------------------------------------ value helpers
def gen_val(rng, dtype, nonzero=False):
    while True:
        if dtype == "float":
            v = (F(rng.randint(-64, 64), rng.choice([1, 2, 4, 8])), F(0))
        elif dtype == "int":
            v = (F(rng.randint(-9, 9)), F(0))
        elif dtype == "bool":
            v = (F(rng.randint(0, 1)), F(0))
        else:
            v = (F(rng.randint(-32, 32), rng.choice([1, 2, 4])), F(rng.randint(-32, 32), rng.choice([1, 2, 4])))
        if not nonzero or v != (0, 0):
            return [S(v[0]), S(v[1])]


def pyval(v, dtype):
    re, im = F(v[0]), F(v[1])
    if dtype == "complex":
        return complex(float(re), float(im))
    if dtype == "int":
        return int(re)
    if dtype == "bool":
        return bool(re)
    return float(re)


def cvq(v):
    return (F(v[0]), F(v[1]))


def frac_exact(x):
    """exact rational value of a real numpy / Python number, also of an extended-precision one"""
    if isinstance(x, np.longdouble):
        if x == 0:
            return F(0)
        mant, ex = np.frexp(x)
        return F(int(mant * np.longdouble(2) ** 64)) * F(2) ** (int(ex) - 64)
    return F(float(x))


def ld(q):
    """the extended-precision number with the exact value q (q = double + small dyadic rest)"""
    q = F(q)
    a_ = float(q)
    return np.longdouble(a_) + np.longdouble(float(q - F(a_)))


def enc(x):
    """implementation number -> [re, im] exact"""
    if isinstance(x, np.clongdouble):
        return [S(frac_exact(x.real)), S(frac_exact(x.imag))]
    if isinstance(x, np.longdouble):
        return [S(frac_exact(x)), S(0)]
    if isinstance(x, (complex, np.complexfloating)):
        return [S(F(float(x.real))), S(F(float(x.imag)))]
    if isinstance(x, (bool, np.bool_)):
        return [S(int(x)), S(0)]
    if isinstance(x, (int, np.integer)):
        return [S(int(x)), S(0)]
    return [S(F(float(x))), S(0)]


def enc_arr(a):
    a = np.asarray(a)
    if a.dtype in (np.dtype(np.longdouble), np.dtype(np.clongdouble)):
        return [enc(x) for x in a.reshape(-1)]
    return [enc(x) for x in a.reshape(-1).tolist()]


def cvc(v):
    return f"({g.q(v[0])}, {g.q(v[1])})"


def cvl(vs):
    return g.lst(vs, cvc)


def cvll(vss):
    return g.lst(vss, cvl)


# ------------------------------------------------------------------ meshes
def gen_mesh(rng, tier, nd=None, exact=True, with_subs=True, maxcells=None):
    nmax = 5 if tier == "quick" else 7
    maxcells = maxcells or (96 if tier == "quick" else 240)
    nd = nd or rng.choice([1, 1, 2, 2, 2, 3, 3, 3, 4])
    while True:
        n = [rng.randint(1, nmax) for _ in range(nd)]
        if math.prod(n) <= maxcells:
            break
    if exact:
        cell = [F(rng.choice([1, 3, 5]), 2 ** rng.randint(0, 3)) for _ in range(nd)]
        lo = [F(rng.randint(-128, 128), 8) for _ in range(nd)]
        hi = [l + k * c for l, k, c in zip(lo, n, cell)]
        tf = F(1, 2 ** 30)
        scale = F(1)
    else:
        s = rng.choice([1e-9, 1e-9, 1e-6, 1e-3, 1.0, 1e3])
        cellf = [round(rng.uniform(0.5, 9.5), 1) * s for _ in range(nd)]
        lof = [rng.choice([0.0, round(rng.uniform(-100, 100), 1)]) * s for _ in range(nd)]
        hif = [l + k * c for l, k, c in zip(lof, n, cellf)]
        lo, hi = [F(x) for x in lof], [F(x) for x in hif]
        cell = [(h - l) / k for l, h, k in zip(lo, hi, n)]
        tf = F(1e-12)
        scale = F(max(max(abs(l), abs(h)) for l, h in zip(lo, hi)))
    p1, p2 = list(lo), list(hi)
    for a in range(nd):
        if rng.random() < 0.3:
            p1[a], p2[a] = p2[a], p1[a]
    dims = None
    if rng.random() < 0.15:
        dims = rng.sample(["u", "w", "t", "q", "s"], nd)   # not "v"/"r": Line.data column names
    subs = []
    if with_subs and rng.random() < 0.8:
        names = rng.sample(NAMES, rng.randint(1, 4))
        for name in names:
            a0, a1 = [], []
            for k in n:
                i0 = rng.randint(0, k - 1)
                i1 = rng.randint(i0 + 1, k)
                if rng.random() < 0.3:
                    i0, i1 = 0, k
                a0.append(i0)
                a1.append(i1)
            if exact:
                slo = [l + i * c for l, i, c in zip(lo, a0, cell)]
                shi = [l + i * c for l, i, c in zip(lo, a1, cell)]
            elif rng.random() < 0.5:
                slo = [F(float(l) + i * float(c)) for l, i, c in zip(lo, a0, cell)]
                shi = [F(float(l) + i * float(c)) for l, i, c in zip(lo, a1, cell)]
            else:       # the nearest float of the decimal coordinate (0.3, 0.7, 15e-9 ...)
                slo = [F(float(l + i * c)) for l, i, c in zip(lo, a0, cell)]
                shi = [F(float(l + i * c)) for l, i, c in zip(lo, a1, cell)]
            subs.append([name, [S(x) for x in slo], [S(x) for x in shi], a0, a1])
    names = dims or (["x", "y", "z"][:nd] if nd <= 3 else None)
    bcs = ["", "", "neumann", "dirichlet"]
    if names:       # periodic directions are named by one-character dimension names
        bcs += [rng.choice(names), rng.choice(names), "".join(names), "".join(names),
                "".join(rng.sample(names, rng.randint(1, nd)))]
    return dict(exact=exact, p1=[S(x) for x in p1], p2=[S(x) for x in p2], n=n, tf=S(tf), dims=dims,
                subs=subs, scale=S(scale), bc=rng.choice(bcs))


def geom(m):
    p1, p2 = [F(x) for x in m["p1"]], [F(x) for x in m["p2"]]
    lo = [min(a, b) for a, b in zip(p1, p2)]
    hi = [max(a, b) for a, b in zip(p1, p2)]
    return lo, hi, [(h - l) / k for l, h, k in zip(lo, hi, m["n"])]


def centre(m, i):
    lo, hi, cell = geom(m)
    return [l + (j + F(1, 2)) * c for l, j, c in zip(lo, i, cell)]


def c_indices(n):
    return [list(t) for t in itertools.product(*[range(k) for k in n])]


def x_indices(n):
    return [list(reversed(t)) for t in itertools.product(*[range(k) for k in reversed(n)])]


def build_mesh(m):
    kw = {}
    if m.get("dims"):
        kw["dims"] = m["dims"]
    region = df.Region(p1=[fl(x) for x in m["p1"]], p2=[fl(x) for x in m["p2"]],
                       tolerance_factor=fl(m["tf"]), **kw)
    subs = {}
    for name, slo, shi, _, _ in m.get("subs", []):
        subs[name] = df.Region(p1=[fl(x) for x in slo], p2=[fl(x) for x in shi], **kw)
    return df.Mesh(region=region, n=m["n"], subregions=subs, bc=m.get("bc", ""))


def mesh_coq(m):
    subs = g.lst([f'({g.s(s[0])}, ({g.ql(s[1])}, {g.ql(s[2])}))' for s in m.get("subs", [])])
    return (f'(MeshD {g.ql(m["p1"])} {g.ql(m["p2"])} {g.zl(m["n"])} {g.q(m["tf"])} '
            f'{g.opt(m.get("dims"), g.sl)} {subs})')


# ------------------------------------------------------------------ callables
def gen_fun(rng, nd, nv, dtype, wrong_len=False):
    if wrong_len:
        k = rng.choice([x for x in [0, 1, 2, 3, 4, 5] if x != nv])
        return dict(t="constlen", v=gen_val(rng, dtype), len=k)
    if dtype in ("int", "bool"):
        return dict(t="constlen", v=gen_val(rng, dtype), len=nv)
    t = rng.choice(["affine", "affine", "affine", "quad"])
    if t == "affine":
        return dict(t="affine", c=[gen_val(rng, dtype) for _ in range(nv)],
                    A=[[gen_val(rng, dtype) for _ in range(nd)] for _ in range(nv)])
    return dict(t="quad", c=[gen_val(rng, dtype, nonzero=True) for _ in range(nv)])


def eval_fun_q(f, p):
    """exact evaluation (property side): list of (re, im) Fractions"""
    if f["t"] == "affine":
        out = []
        for ck, row in zip(f["c"], f["A"]):
            re, im = cvq(ck)
            for a, x in zip(row, p):
                ar, ai = cvq(a)
                re += ar * x
                im += ai * x
            out.append((re, im))
        return out
    if f["t"] == "quad":
        s = sum(x * x for x in p)
        return [(cvq(c)[0] * s, cvq(c)[1] * s) for c in f["c"]]
    if f["t"] == "failat":
        if [F(x) for x in f["centre"]] == list(p):
            return [(F(0), F(0))] * f["badlen"]
        return eval_fun_q(f["base"], p)
    return [cvq(f["v"])] * f["len"]


def gen_failat(rng, m, nv, dtype):
    """a valid function of position that goes wrong at ONE cell (first, last or any, in mesh order)"""
    n = m["n"]
    order = x_indices(n)
    pos = rng.choice([len(order) - 1, len(order) - 1, rng.randrange(len(order)), rng.randrange(len(order)), 0])
    idx = order[pos]
    _, _, cell = geom(m)
    # a string converts to True in a Boolean array (dtype casting is outside the property): not for bool
    mode = rng.choice(["len", "raise"] + (["str"] if dtype != "bool" else []) + (["scalar"] if nv > 1 else []))
    badlen = 1 if mode == "scalar" else (rng.choice([k for k in (0, 2, 3, 4, 5) if k != nv]) if mode == "len" else nv + 1)
    return dict(t="failat", base=gen_fun(rng, len(n), nv, dtype), idx=idx, pos=pos,
                centre=[S(x) for x in centre(m, idx)], quarter=S(min(cell) / 4), mode=mode, badlen=badlen)


def py_fun(f, dtype, style=0):
    def as_pts(p):
        return [float(x) for x in np.atleast_1d(p)]
    if f["t"] == "failat":
        base = py_fun(f["base"], dtype, style)
        ctr = [fl(x) for x in f["centre"]]
        q = fl(f["quarter"])
        mode, badlen = f["mode"], f["badlen"]

        def failing(p):
            pp = as_pts(p)
            if all(abs(x - c) < q for x, c in zip(pp, ctr)):
                if mode == "raise":
                    raise RuntimeError("value undefined here")
                if mode == "str":
                    return "abc"
                if mode == "scalar":
                    return 0
                return [0] * badlen
            return base(p)
        return failing
    if f["t"] == "affine":
        c = [pyval(v, "complex" if dtype == "complex" else "float") for v in f["c"]]
        A = [[pyval(v, "complex" if dtype == "complex" else "float") for v in row] for row in f["A"]]

        def fn(p):
            p = as_pts(p)
            out = []
            for ck, row in zip(c, A):
                acc = ck
                for a, x in zip(row, p):
                    acc = acc + a * x
                out.append(acc)
            return out
    elif f["t"] == "quad":
        c = [pyval(v, "complex" if dtype == "complex" else "float") for v in f["c"]]

        def fn(p):
            p = as_pts(p)
            s = 0.0
            for x in p:
                s = s + x * x
            return [ck * s for ck in c]
    else:
        v = pyval(f["v"], dtype)

        def fn(p):
            return [v] * f["len"]

    def wrapped(p):
        out = fn(p)
        if style == 1:
            return tuple(out)
        if style == 2:
            return np.array(out)
        if style == 3 and len(out) == 1:
            return out[0]
        return out
    return wrapped


def fun_coq(f):
    if f["t"] == "affine":
        return f'(FAffine {cvl(f["c"])} {cvll(f["A"])})'
    if f["t"] == "quad":
        return f'(FQuad {cvl(f["c"])})'
    if f["t"] == "failat":
        return f'(FBadAt {fun_coq(f["base"])} {g.ql(f["centre"])} {g.nat(f["badlen"])})'
    return f'(FConstLen {cvc(f["v"])} {g.nat(f["len"])})'


def fun_scale(f, m):
    if f["t"] == "failat":
        return fun_scale(f["base"], m)
    lo, hi, _ = geom(m)
    pm = max([abs(x) for x in lo + hi] + [F(1)])
    if f["t"] == "affine":
        vals = [abs(cvq(v)[0]) + abs(cvq(v)[1]) for v in f["c"]] + \
               [(abs(cvq(v)[0]) + abs(cvq(v)[1])) * pm for row in f["A"] for v in row]
        return max(vals + [F(1)]) * (len(lo) + 1)
    if f["t"] == "quad":
        return max([abs(cvq(v)[0]) + abs(cvq(v)[1]) for v in f["c"]] + [F(1)]) * pm * pm * len(lo)
    return F(1)


# ------------------------------------------------------------------ simple specs
def gen_src_field(rng, m, nv, dtype, mode):
    """source field description for target mesh m. mode: same | coarser | finer | shifted | outside | nvdim | dims"""
    lo, hi, cell = geom(m)
    nd = len(lo)
    n = m["n"]
    snv = nv
    dims = m.get("dims")
    if mode == "same":
        slo, shi, sn = lo, hi, list(n)
    elif mode == "coarser":
        ext_lo = [rng.randint(0, 2) for _ in range(nd)]
        ext_hi = [rng.randint(0, 2) for _ in range(nd)]
        fac = [rng.randint(1, 3) for _ in range(nd)]
        slo = [l - e * f * c for l, e, f, c in zip(lo, ext_lo, fac, cell)]
        tot = [k + e * f for k, e, f in zip(n, ext_lo, fac)]
        sn = [-(-t // f) + e2 for t, f, e2 in zip(tot, fac, ext_hi)]
        shi = [l + k * f * c for l, k, f, c in zip(slo, sn, fac, cell)]
    elif mode == "same-n":
        # the same number of cells on a larger region (twice / three times the cell size)
        fac = [rng.choice([1, 2, 3]) for _ in range(nd)]
        if all(f_ == 1 for f_ in fac):
            fac[rng.randrange(nd)] = 2
        slo, sn = list(lo), list(n)
        shi = [l + f_ * (h - l) for l, h, f_ in zip(lo, hi, fac)]
    elif mode == "finer":
        fac = [rng.choice([2, 3]) for _ in range(nd)]
        ext = [rng.randint(0, 1) for _ in range(nd)]
        slo = [l - e * c for l, e, c in zip(lo, ext, cell)]
        shi = [h + e * c for h, e, c in zip(hi, ext, cell)]
        sn = [(k + 2 * e) * f for k, e, f in zip(n, ext, fac)]
    elif mode == "shifted":
        # same cell size, lattice shifted by a quarter / half cell, covering the target
        sh = [rng.choice([F(1, 4), F(1, 2), F(3, 4)]) for _ in range(nd)]
        slo = [l - s * c for l, s, c in zip(lo, sh, cell)]
        sn = [k + 1 for k in n]
        shi = [l + k * c for l, k, c in zip(slo, sn, cell)]
    elif mode == "outside":
        a = rng.randrange(nd)
        slo, shi, sn = list(lo), list(hi), list(n)
        if rng.random() < 0.5:
            slo[a] = lo[a] + cell[a] * rng.choice([F(1, 2), 1])
        else:
            shi[a] = hi[a] - cell[a] * rng.choice([F(1, 2), 1])
        if slo[a] >= shi[a]:
            slo[a] = lo[a] + cell[a] / 4
            shi[a] = hi[a]
    elif mode == "nvdim":
        slo, shi, sn = lo, hi, list(n)
        snv = rng.choice([k for k in (1, 2, 3, 4) if k != nv])
    else:  # dims
        slo, shi, sn = lo, hi, list(n)
        dims = rng.sample(["g", "h", "k", "l"], nd)
    if math.prod(sn) > 400:
        return gen_src_field(rng, m, nv, dtype, "same")
    sm = dict(exact=True, p1=[S(x) for x in slo], p2=[S(x) for x in shi], n=sn, tf=m["tf"], dims=dims, subs=[])
    data = [gen_val(rng, dtype) for _ in range(math.prod(sn) * snv)]
    return dict(k="field", mesh=sm, nv=snv, data=data, mode=mode)


def _gen_simple(rng, m, nv, dtype, kind=None, in_dict=False, tier="quick"):
    nd = len(m["n"])
    n = m["n"]
    kinds = ["const", "zero", "vec", "arr", "arr", "fun", "fun", "field"]
    if not in_dict:
        kinds += ["arr-n", "bcast", "badlen", "badshape", "const-nv", "fun-len", "bad", "field-bad"]
    else:
        kinds += ["badlen", "fun-len", "bad"] if rng.random() < 0.15 else []
    kind = kind or rng.choice(kinds)
    if kind == "const":
        if nv > 1:
            kind = "vec"
        else:
            return dict(k="const", v=gen_val(rng, dtype), cls="const")
    if kind == "zero":
        return dict(k="const", v=[S(0), S(0)], cls="zero")
    if kind == "const-nv":
        return dict(k="const", v=gen_val(rng, dtype, nonzero=nv > 1), cls="const-nv")
    if kind == "vec":
        return dict(k="arr", sh=[nv], data=[gen_val(rng, dtype) for _ in range(nv)], cls="vec",
                    py=rng.choice(["list", "tuple", "ndarray"]))
    if kind == "arr":
        sh = list(n) + [nv]
        return dict(k="arr", sh=sh, data=[gen_val(rng, dtype) for _ in range(math.prod(sh))], cls="arr",
                    py=rng.choice(["ndarray", "ndarray", "list"]))
    if kind == "arr-n":
        sh = list(n)
        return dict(k="arr", sh=sh, data=[gen_val(rng, dtype) for _ in range(math.prod(sh))], cls="arr-n",
                    py=rng.choice(["ndarray", "list"]))
    if kind == "bcast":
        sh = [k if rng.random() < 0.5 else 1 for k in n] + [nv]
        sh = sh[rng.randint(0, nd):]
        return dict(k="arr", sh=sh, data=[gen_val(rng, dtype) for _ in range(math.prod(sh))], cls="bcast",
                    py="ndarray")
    if kind == "badlen":
        L = rng.choice([k for k in (1, 2, 3, 4, 5) if k != nv])
        if rng.random() < 0.5:
            sh = [L]
        else:
            sh = list(n) + [L]
        if nv == 1 and sh == list(n):
            sh = sh + [2]
        return dict(k="arr", sh=sh, data=[gen_val(rng, dtype) for _ in range(math.prod(sh))], cls="badlen",
                    py="ndarray")
    if kind == "badshape":
        a = rng.randrange(nd)
        sh = list(n) + [nv]
        sh[a] = sh[a] + rng.choice([1, 2])
        return dict(k="arr", sh=sh, data=[gen_val(rng, dtype) for _ in range(math.prod(sh))], cls="badshape",
                    py="ndarray")
    if kind == "fun":
        return dict(k="fun", f=gen_fun(rng, nd, nv, dtype), style=rng.randint(0, 3), cls="fun")
    if kind == "fun-len":
        return dict(k="fun", f=gen_fun(rng, nd, nv, dtype, wrong_len=True), style=rng.randint(0, 2), cls="fun-len")
    if kind == "bad":
        return dict(k="bad", what=rng.choice(["str", "none", "object"]), cls="bad")
    if kind == "field":
        mode = rng.choice(["same", "coarser", "coarser", "same-n"] if in_dict
                          else ["same", "coarser", "finer", "shifted", "same-n"])
        s = gen_src_field(rng, m, nv, dtype, mode)
        s["cls"] = "field-" + s["mode"]
        return s
    if kind == "field-bad":
        s = gen_src_field(rng, m, nv, dtype, rng.choice(["outside", "nvdim", "dims"]))
        s["cls"] = "field-" + s["mode"]
        return s
    raise ValueError(kind)


ADTS = ["int8", "int16", "int32", "int64", "uint8", "float32", "bool"]


def decorate(rng, s, dtype):
    """memory layout and element type of an array specification (same values)"""
    if s.get("k") != "arr":
        return s
    if s.get("py", "ndarray") == "ndarray" and rng.random() < 0.6:
        s["layout"] = rng.choice([x for x in LAYOUTS if x is not None])
    if rng.random() < 0.35:
        adt = rng.choice(ADTS)
        top = 1 if (dtype == "bool" or adt == "bool") else 100
        ok = all(F(v[1]) == 0 and F(v[0]).denominator == 1 and 0 <= F(v[0]) <= top for v in s["data"])
        if not ok:
            s["data"] = [[S(rng.randint(0, min(top, 9))), S(0)] for _ in s["data"]]
        s["adt"] = adt
    return s


def gen_simple(rng, m, nv, dtype, kind=None, in_dict=False, tier="quick"):
    s = _gen_simple(rng, m, nv, dtype, kind=kind, in_dict=in_dict, tier=tier)
    if s.get("k") == "arr" and s.get("cls") == "arr" and nv == 1 and rng.random() < 0.5:
        s["sh"] = list(m["n"])            # the other spelling of a scalar array: no component axis
        s["cls"] = "arr-n"
    return decorate(rng, s, dtype)


def py_simple(s, dtype):
    k = s["k"]
    if k == "const":
        if s.get("adt") == "longdouble":
            return ld(s["v"][0])
        if s.get("adt") == "clongdouble":
            return np.clongdouble(ld(s["v"][0])) + np.clongdouble(1j) * ld(s["v"][1])
        if s.get("adt") == "float16":
            return np.float16(float(F(s["v"][0])))
        return pyval(s["v"], dtype)
    if k == "arr":
        if s.get("adt") in ("longdouble", "clongdouble", "float16"):
            if s["adt"] == "clongdouble":
                vals = [np.clongdouble(ld(v[0])) + np.clongdouble(1j) * ld(v[1]) for v in s["data"]]
            elif s["adt"] == "longdouble":
                vals = [ld(v[0]) for v in s["data"]]
            else:
                vals = [np.float16(float(F(v[0]))) for v in s["data"]]
            a = np.array(vals, dtype=np.dtype(s["adt"])).reshape(s["sh"])
        elif s.get("adt"):
            a = np.array([int(F(v[0])) for v in s["data"]], dtype=np.dtype(s["adt"])).reshape(s["sh"])
        else:
            a = np.array([pyval(v, dtype) for v in s["data"]], dtype=DT[dtype]).reshape(s["sh"])
        if s.get("py") == "list":
            return a.tolist()
        if s.get("py") == "tuple":
            return tuple(a.tolist())
        return relayout(a, s.get("layout"))
    if k == "fun":
        return py_fun(s["f"], dtype, s.get("style", 0))
    if k == "field":
        sm = build_mesh(s["mesh"])
        arr = np.array([pyval(v, dtype) for v in s["data"]], dtype=DT[dtype]).reshape(*s["mesh"]["n"], s["nv"])
        return df.Field(sm, nvdim=s["nv"], value=arr, dtype=DT[dtype])
    if k == "bad":
        if s["what"] in ("ragged", "objarr"):
            sh = s["sh"]
            a = np.arange(1, math.prod(sh) + 1).reshape(sh)
            if s["what"] == "objarr":
                a = a.astype(object)
                a[tuple(k - 1 for k in sh)] = "x"          # the LAST element cannot be converted
                return a
            lst = a.tolist()
            inner = lst
            for _ in range(len(sh) - 1):
                inner = inner[-1]
            inner.pop()                                      # the LAST row is one element short
            return lst
        return {"str": "abc", "none": None, "object": object()}[s["what"]]
    raise ValueError(k)


def simple_coq(s):
    k = s["k"]
    if k == "const":
        return f'(VConst {cvc(s["v"])})'
    if k == "arr":
        return f'(VArr {g.zl(s["sh"])} {cvl(s["data"])})'
    if k == "fun":
        return f'(VFun {fun_coq(s["f"])})'
    if k == "field":
        return f'(VField {mesh_coq(s["mesh"])} {g.nat(s["nv"])} {cvl(s["data"])})'
    return "VBad"


# ------------------------------------------------------------------ full specs
def gen_spec(rng, m, nv, dtype, tier, kind=None):
    if kind == "dict" or (kind is None and m["subs"] and rng.random() < 0.45):
        names = [s[0] for s in m["subs"]]
        chosen = [nm for nm in names if rng.random() < 0.7]
        rng.shuffle(chosen)              # order of the dictionary must not matter
        items = []
        for nm in chosen:
            sub = next(s for s in m["subs"] if s[0] == nm)
            lo, hi, cell = geom(m)
            sm = dict(exact=m["exact"], p1=sub[1], p2=sub[2], n=[b - a for a, b in zip(sub[3], sub[4])],
                      tf=m["tf"], dims=m.get("dims"), subs=[], scale=m["scale"])
            items.append([nm, gen_simple(rng, sm, nv, dtype, in_dict=True, tier=tier)])
        if rng.random() < 0.1:
            items.append(["nokey", dict(k="const", v=gen_val(rng, dtype), cls="const")])
        r = rng.random()
        if r < 0.25:
            d = None
        elif r < 0.5:
            d = dict(k="arr", sh=[nv], data=[gen_val(rng, dtype) for _ in range(nv)], cls="vec", py="tuple") \
                if (nv > 1 or rng.random() < 0.3) else dict(k="const", v=gen_val(rng, dtype), cls="const")
        elif r < 0.6:
            d = dict(k="const", v=gen_val(rng, dtype), cls="const")      # scalar fill, any nvdim
        elif r < 0.9:
            d = dict(k="fun", f=gen_fun(rng, len(m["n"]), nv, dtype, wrong_len=rng.random() < 0.1),
                     style=rng.randint(0, 2), cls="fun")
        else:
            d = gen_src_field(rng, m, nv, dtype, rng.choice(["same", "coarser", "shifted"]))
            d["cls"] = "field-" + d["mode"]
        return dict(k="dict", items=items, default=d)
    return gen_simple(rng, m, nv, dtype, kind=kind, tier=tier)


def py_spec(s, dtype):
    if s["k"] != "dict":
        return py_simple(s, dtype)
    out = {}
    for nm, sv in s["items"]:
        out[nm] = py_simple(sv, dtype)
    if s["default"] is not None:
        out["default"] = py_simple(s["default"], dtype)
    return out


def spec_coq(s):
    if s["k"] != "dict":
        return f"(VSimple {simple_coq(s)})"
    items = g.lst([f"({g.s(nm)}, {simple_coq(sv)})" for nm, sv in s["items"]])
    d = s["default"]
    if d is None:
        dc = "VDNone"
    elif d["k"] == "fun":
        dc = f'(VDCall {fun_coq(d["f"])})'
    elif d["k"] == "field":
        dc = f'(VDSample {mesh_coq(d["mesh"])} {g.nat(d["nv"])} {cvl(d["data"])})'
    else:
        dc = f"(VDFill {simple_coq(d)})"
    return f"(VDict {items} {dc})"


def spec_scale(s, m):
    sc = F(1)
    subs = [s] if s["k"] != "dict" else [sv for _, sv in s["items"]] + ([s["default"]] if s["default"] else [])
    for x in subs:
        if x["k"] == "fun":
            sc = max(sc, fun_scale(x["f"], m))
    return sc


def spec_has_field(s):
    if s["k"] == "field":
        return True
    if s["k"] == "dict":
        return any(sv["k"] == "field" for _, sv in s["items"]) or (s["default"] or {}).get("k") == "field"
    return False


# ------------------------------------------------------------------ the property, evaluated exactly
REJECT = "reject"
UNSPEC = "unspecified"


def src_candidates(sm, data, snv, p):
    """values of the source cells (closed) that contain point p"""
    lo, hi, cell = geom(sm)
    n = sm["n"]
    per_axis = []
    for a in range(len(n)):
        js = [j for j in range(n[a]) if lo[a] + j * cell[a] <= p[a] <= lo[a] + (j + 1) * cell[a]]
        if not js:
            return None
        per_axis.append(js)
    out = []
    for idx in itertools.product(*per_axis):
        flat = 0
        for j, k in zip(idx, n):
            flat = flat * k + j
        out.append([cvq(v) for v in data[flat * snv:(flat + 1) * snv]])
    return out


def region_inside(m, sm):
    lo, hi, _ = geom(m)
    slo, shi, _ = geom(sm)
    return all(sl <= l and h <= sh for l, h, sl, sh in zip(lo, hi, slo, shi))


def expect_simple(s, m, nv):
    """-> REJECT | UNSPEC | function i -> list of admissible vectors (each a list of (re, im))"""
    k = s["k"]
    n = m["n"]
    if k == "bad":
        return REJECT
    if k == "const":
        v = cvq(s["v"])
        if nv > 1 and v != (0, 0):
            return REJECT
        return lambda i: [[v] * nv]
    if k == "arr":
        sh = s["sh"]
        data = s["data"]
        if sh == [nv]:
            vec = [cvq(v) for v in data]
            return lambda i: [vec]
        if sh == list(n) + [nv] or (nv == 1 and sh == list(n)):
            def at(i):
                flat = 0
                for j, kk in zip(i, n):
                    flat = flat * kk + j
                return [[cvq(v) for v in data[flat * nv:(flat + 1) * nv]]]
            return at
        # trailing length wrong, or a shape that cannot be broadcast: must be rejected
        if sh[-1] != nv:
            return REJECT
        tgt = list(n) + [nv]
        she = list(sh)
        while len(she) > len(tgt) and she[0] == 1:      # numpy drops excess leading axes of length 1
            she = she[1:]
        if len(she) > len(tgt) or any(a != b and a != 1 for a, b in zip(she, tgt[len(tgt) - len(she):])):
            return REJECT
        return UNSPEC        # numpy broadcasting of a partial shape: the property does not speak about it
    if k == "fun":
        f = s["f"]
        if f["t"] == "constlen" and f["len"] != nv:
            return REJECT
        if f["t"] == "failat":
            return REJECT        # evaluated at every cell of the mesh, one of them goes wrong
        return lambda i: [eval_fun_q(f, centre(m, i))]
    if k == "field":
        sm = s["mesh"]
        if s["nv"] != nv or (sm.get("dims") or None) != (m.get("dims") or None):
            return REJECT
        if not region_inside(m, sm):
            return REJECT
        return lambda i: src_candidates(sm, s["data"], s["nv"], centre(m, i))
    raise ValueError(k)


def expect(s, m, nv):
    if s["k"] != "dict":
        return expect_simple(s, m, nv)
    items = dict((nm, sv) for nm, sv in s["items"])
    lo, hi, cell = geom(m)
    listed = []
    for sub in m["subs"]:
        if sub[0] in items:
            sm = dict(exact=m["exact"], p1=sub[1], p2=sub[2], n=[b - a for a, b in zip(sub[3], sub[4])],
                      tf=m["tf"], dims=m.get("dims"), subs=[])
            e = expect_simple(items[sub[0]], sm, nv)
            if e == REJECT:
                return REJECT
            listed.append((sub, e))
    d = s["default"]
    de = None
    if d is not None:
        if d["k"] == "fun" and d["f"]["t"] == "failat":
            # a callable default is evaluated only at the cells no listed subregion covers
            if not any(all(a <= j < b for j, a, b in zip(d["f"]["idx"], sub[3], sub[4])) for sub, _ in listed):
                return REJECT
            de = expect_simple(dict(d, f=d["f"]["base"]), m, nv)
        elif d["k"] == "fun":
            de = expect_simple(d, m, nv)
        elif d["k"] == "field":
            # a field used as default is sampled at the cell centre
            if d["nv"] != nv:
                de = REJECT
            else:
                de = (lambda i: src_candidates(d["mesh"], d["data"], d["nv"], centre(m, i)))
        elif d["k"] == "const":
            v = cvq(d["v"])
            de = (lambda i: [[v] * nv])
        else:
            de = expect_simple(d, m, nv)
    uncovered = False
    for i in c_indices(m["n"]):
        if not any(all(a <= j < b for j, a, b in zip(i, sub[3], sub[4])) for sub, _ in listed):
            uncovered = True
            break
    if d is not None and d["k"] not in ("fun", "field") and de == REJECT:
        return REJECT        # a constant default of the wrong length can never be stored
    if uncovered and (d is None or de == REJECT):
        return REJECT
    if any(e == UNSPEC for _, e in listed) or de == UNSPEC:
        return UNSPEC

    def at(i):
        for sub, e in listed:
            if all(a <= j < b for j, a, b in zip(i, sub[3], sub[4])):
                return e([j - a for j, a in zip(i, sub[3])])
        return de(i)
    return at


def close_q(exact, scale, a, b):
    if exact:
        return a == b
    return abs(a - b) <= F(1, 10 ** 9) * scale


def vec_matches(exact, scale, got, cands):
    if cands is None:
        return False
    for c in cands:
        if len(c) == len(got) and all(close_q(exact, scale, x[0], y[0]) and close_q(exact, scale, x[1], y[1])
                                      for x, y in zip(got, c)):
            return True
    return False


def check_array(exact, scale, m, nv, e, arr):
    """property clause: every cell holds what the specification assigns to it"""
    bad = []
    if tuple(arr.shape) != tuple(m["n"]) + (nv,):
        return ["array-shape"]
    for i in c_indices(m["n"]):
        got = [cvq(v) for v in enc_arr(arr[tuple(i)])]
        if not vec_matches(exact, scale, got, e(i)):
            bad.append("cell-value")
            break
    return bad


# ------------------------------------------------------------------ generation
def gen_nv_dtype(rng):
    nv = rng.choice([1, 1, 1, 2, 3, 3, 4])
    dtype = rng.choice(["float", "float", "float", "int", "complex", "bool"])
    return nv, dtype


def pick_points(rng, m, exact):
    lo, hi, cell = geom(m)
    n = m["n"]
    nd = len(n)
    pts = []
    for _ in range(3):
        cls = rng.choice(["centre", "face", "corner", "interior", "outside", "pmax", "wrong-len"] if exact
                         else ["interior", "interior", "outside", "far"])
        if exact:
            p = [lo[a] + (rng.randint(0, n[a] - 1) + F(1, 2)) * cell[a] for a in range(nd)]
        else:
            p = [F(float(lo[a]) + (rng.randint(0, n[a] - 1) + rng.uniform(0.1, 0.9)) * float(cell[a])) for a in range(nd)]
        a = rng.randrange(nd)
        if cls == "face":
            p[a] = lo[a] + rng.randint(0, n[a]) * cell[a]
        elif cls == "corner":
            p = [rng.choice([lo[b], hi[b]]) for b in range(nd)]
        elif cls == "interior" and exact:
            p = [lo[b] + F(rng.randint(1, 255), 256) * (hi[b] - lo[b]) for b in range(nd)]
        elif cls in ("outside", "far"):
            p[a] = hi[a] + cell[a] * rng.choice([F(1, 2), 1, 3]) if rng.random() < 0.5 else lo[a] - cell[a] * rng.choice([F(1, 2), 2])
            if not exact:
                p[a] = F(float(p[a]))
        elif cls == "pmax":
            p = list(hi)
        elif cls == "wrong-len":
            p = p + [F(0)]
        pts.append((cls, [S(x) for x in p]))
    return pts


def samesize_shapes(n, nv):
    """shapes with the element count of a valid array but another shape"""
    n = list(n)
    P = math.prod(n)
    tails = [[nv]] if nv > 1 else [[], [1]]
    out = []
    for perm in set(itertools.permutations(n)):
        for t in tails:
            out.append(list(perm) + t)
        if nv > 1:
            out.append([nv] + list(perm))
    for t in tails:
        out.append([P] + t)
        out.append([1] + n + t)
        out.append([1, 1] + n + t)
        for a in range(len(n) - 1):
            out.append(n[:a] + [n[a] * n[a + 1]] + n[a + 2:] + t)
    out.append([P * nv])
    if nv > 1:
        out.append(n[:-1] + [n[-1] * nv])
        out.append(n + [1, nv])
        out.append(n + [nv, 1])
    valid = [n + [nv]] + ([n] if nv == 1 else [])
    uniq = []
    for sh in out:
        if sh not in valid and sh not in uniq and sh != [nv]:
            uniq.append(sh)
    return uniq


def seq_data(size, dtype):
    if dtype == "bool":
        return [[S((j * 7 // 3) % 2), S(0)] for j in range(size)]
    if dtype == "complex":
        return [[S(j + 1), S(-j)] for j in range(size)]
    return [[S(j + 1), S(0)] for j in range(size)]


def gen_derived(rng, tier):
    """a mesh that is used, then transformed in place; values are assigned / sampled afterwards"""
    nd = rng.choice([1, 2, 2, 2, 3, 3])
    path = rng.choice(["mesh", "mesh", "mesh", "region", "field"])
    while True:
        m = gen_mesh(rng, tier, nd=nd, exact=True, with_subs=(path != "region"), maxcells=60)
        _, _, cell = geom(m)
        if nd == 1 or len(set(cell)) == nd and len(set(m["n"])) > 1:
            break
    lo, hi, cell = geom(m)
    ops = ["translate", "scale"] + (["rotate90", "rotate90", "rotate90"] if nd > 1 else [])
    if path == "field":
        ops = ["rotate90"] if nd > 1 else ["translate"]
        if nd == 1:
            path = "mesh"
    o = rng.choice(ops)
    if o == "rotate90":
        a1, a2 = rng.sample(range(nd), 2)
        ref = None if rng.random() < 0.5 else [S(l + F(rng.randint(-8, 8), 2)) for l in lo]
        op = dict(op="rotate90", ax=[a1, a2], k=rng.choice([1, 1, 3, -1, 2, 5, 4, -3]), ref=ref)
    elif o == "scale":
        if rng.random() < 0.5:
            fac = S(rng.choice([F(2), F(1, 2), F(3), F(-1), F(-2), F(3, 2), F(-1, 2)]))
        else:
            fac = [S(rng.choice([F(2), F(1, 2), F(3), F(-1), F(-2), F(1)])) for _ in range(nd)]
        ref = None if rng.random() < 0.5 else [S(l + F(rng.randint(-8, 8), 2)) for l in lo]
        op = dict(op="scale", factor=fac, ref=ref)
    else:
        op = dict(op="translate", v=[S(F(rng.randint(-40, 40), 4)) for _ in range(nd)])
    nv, dtype = gen_nv_dtype(rng)
    if dtype in ("int", "bool") or path == "field":
        dtype = "float"
    if path == "field":
        nv = 1
    # the specification assigned afterwards (nothing in it depends on n)
    r = rng.random()
    names = [sb[0] for sb in m["subs"]]
    if names and r < 0.45:
        items = []
        for j, nm in enumerate(names):
            if rng.random() < 0.8:
                if rng.random() < 0.5:
                    items.append([nm, dict(k="fun", f=gen_fun(rng, nd, nv, dtype), style=0, cls="fun")])
                else:
                    items.append([nm, dict(k="arr", sh=[nv], data=[gen_val(rng, dtype) for _ in range(nv)],
                                           cls="vec", py="tuple")])
        d = rng.choice([None, "fun", "vec"])
        if d == "fun":
            d = dict(k="fun", f=gen_fun(rng, nd, nv, dtype), style=0, cls="fun")
        elif d == "vec":
            d = dict(k="arr", sh=[nv], data=[gen_val(rng, dtype) for _ in range(nv)], cls="vec", py="tuple")
        spec = dict(k="dict", items=items, default=d)
    elif r < 0.8:
        spec = dict(k="fun", f=gen_fun(rng, nd, nv, dtype), style=rng.randint(0, 2), cls="fun")
    else:
        spec = dict(k="field-late", cls="field-same")      # source field built on the lattice read back
    return dict(mesh=m, path=path, op=op, nv=nv, dtype=dtype, spec=spec, dseed=rng.randint(0, 10 ** 9),
                use=rng.sample(["cell", "i2p", "p2i", "iter", "field", "dV"], rng.randint(1, 4)))


def mk_mesh(lo, cell, n, subs=(), bc="", exact=True, dims=None, tf=None):
    """hand-made mesh description; subs = [(name, first index per axis, one-past-last index per axis)]"""
    lo = [F(x) for x in lo]
    cell = [F(x) for x in cell]
    hi = [l + k * c for l, k, c in zip(lo, n, cell)]
    sb = []
    for name, a0, a1 in subs:
        slo = [l + i * c for l, i, c in zip(lo, a0, cell)]
        shi = [l + i * c for l, i, c in zip(lo, a1, cell)]
        if not exact:  # decimal coordinates as the caller types them: the nearest float of 0.3, 0.7, 15e-9
            slo = [F(float(x)) for x in slo]
            shi = [F(float(x)) for x in shi]
        sb.append([name, [S(x) for x in slo], [S(x) for x in shi], list(a0), list(a1)])
    if not exact:
        lo = [F(float(x)) for x in lo]
        hi = [F(float(x)) for x in hi]
    tf = tf or (F(1, 2 ** 30) if exact else F(1e-12))
    return dict(exact=exact, p1=[S(x) for x in lo], p2=[S(x) for x in hi], n=list(n), tf=S(tf), dims=dims, subs=sb,
                scale=S(max([abs(x) for x in lo + hi] + [F(1)])), bc=bc)


def seq_arr(m, nv, dtype="float"):
    sh = list(m["n"]) + [nv]
    return dict(k="arr", sh=sh, data=seq_data(math.prod(sh), dtype), cls="arr", py="ndarray")


def directed_cases():
    """a core that is the same in every run (both tiers, every seed): one hand-made group per mechanism"""
    import random as _random
    r = _random.Random(20260930)
    out = []
    # iteration order, 1 to 4 dimensions, all n > 1 and non-uniform values
    for n in [(2, 3, 2, 2), (3, 2, 4, 2), (2, 2, 3, 3), (2, 3, 4), (4, 3, 2), (3, 2), (2, 5), (5,)]:
        m = mk_mesh([0] * len(n), [F(1, 2)] * len(n), n, bc=r.choice(["", "x"]) if len(n) <= 3 else "")
        for nv in (1, 2):
            out.append(dict(kind="iter", mesh=m, nv=nv, dtype="float", spec=seq_arr(m, nv)))
    # overlapping subregions: the first-listed one wins
    for n, subs in [((4, 3), [("a", (0, 0), (3, 3)), ("b", (1, 0), (4, 2)), ("c", (0, 0), (4, 3))]),
                    ((6,), [("in", (2,), (4,)), ("left", (0,), (4,)), ("all", (0,), (6,))]),
                    ((3, 2, 2), [("p", (0, 0, 0), (2, 2, 2)), ("q", (1, 0, 0), (3, 2, 1)), ("r", (1, 1, 0), (3, 2, 2))])]:
        m = mk_mesh([F(-1, 2)] * len(n), [F(1, 4)] * len(n), n, subs=subs)
        for nv in (1, 3):
            items = [[sb[0], dict(k="arr", sh=[nv], data=[[S(10 * (j + 1) + c_), S(0)] for c_ in range(nv)],
                                  cls="vec", py="tuple")] for j, sb in enumerate(m["subs"])]
            for d in (None, dict(k="arr", sh=[nv], data=[[S(0), S(0)]] * nv, cls="vec", py="tuple")):
                for via in ("ctor", "update"):
                    out.append(dict(kind="init", mesh=m, nv=nv, dtype="float", via=via,
                                    spec=dict(k="dict", items=list(reversed(items)), default=d)))
    # a source field with the same number of cells on a larger region; finer / shifted / coarser sources
    for n in [(4,), (3, 2), (2, 3, 2)]:
        m = mk_mesh([F(1)] * len(n), [F(1, 2)] * len(n), n)
        for mode in ("same-n", "same-n", "finer", "shifted", "coarser", "same"):
            sp = gen_src_field(r, m, 2, "float", mode)
            sp["cls"] = "field-" + mode
            out.append(dict(kind="init", mesh=m, nv=2, dtype="float", spec=sp, via="ctor"))
            out.append(dict(kind="assign", mesh=m, nv=2, dtype="float", s1=sp, via="setter",
                            s0=dict(k="arr", sh=[2], data=[[S(1), S(0)], [S(2), S(0)]], cls="vec", py="tuple")))
    # lines in every direction (dyadic), also running towards smaller coordinates
    m = mk_mesh([0, 0], [1, F(1, 2)], (4, 6), bc="xy")
    sp = seq_arr(m, 2)
    for p1, p2, k in [((4, 3), (0, 0), 5), ((0, 3), (4, 0), 9), ((4, 0), (0, 3), 3), ((0, 0), (4, 3), 5),
                      ((3, F(5, 2)), (1, F(1, 2)), 5), ((2, 3), (2, 0), 7)]:
        out.append(dict(kind="line", mesh=m, nv=2, dtype="float", spec=sp, p1=[S(x) for x in p1],
                        p2=[S(x) for x in p2], npts=k, cls="directed"))
    # lines ending in the lower corner whose last point is rounded to just below pmin
    m = mk_mesh([0, 0], [1, 1], (10, 4), exact=True)
    sp = seq_arr(m, 2)
    for p1, k in [((3.3, 2.0), 24), ((3.3, 2.0), 26), ((3.3, 2.0), 42), ((3.3, 2.0), 47), ((3.3, 2.0), 50),
                  ((3.3, 2.0), 7), ((7.1, 0.7), 24), ((0.3, 3.9), 50)]:
        out.append(dict(kind="lineS", mesh=m, nv=2, dtype="float", spec=sp, p1=[S(F(x)) for x in p1],
                        p2=[S(0), S(0)], npts=k, rounds_outside=True))
        out.append(dict(kind="lineS", mesh=m, nv=2, dtype="float", spec=sp, p1=[S(F(x)) for x in p1],
                        p2=[S(10), S(4)], npts=k))
    # arrays with the right size but another shape
    for n in [(2, 3), (3, 2, 2), (6,)]:
        m = mk_mesh([0] * len(n), [1] * len(n), n)
        s0 = dict(k="arr", sh=[1], data=[[S(5), S(0)]], cls="vec", py="list")
        for sh in samesize_shapes(n, 1):
            s1 = dict(k="arr", sh=sh, data=seq_data(math.prod(sh), "float"), cls="samesize", py="ndarray")
            out.append(dict(kind="init", mesh=m, nv=1, dtype="float", spec=s1, via="ctor"))
            for via in ("setter", "update"):
                out.append(dict(kind="assign", mesh=m, nv=1, dtype="float", s0=s0, s1=s1, via=via))
    # a mesh that was used and then rotated / scaled in place
    for path, op in [("mesh", dict(op="rotate90", ax=[0, 1], k=1, ref=None)),
                     ("mesh", dict(op="rotate90", ax=[1, 0], k=3, ref=[S(1), S(1)])),
                     ("field", dict(op="rotate90", ax=[0, 1], k=1, ref=None)),
                     ("mesh", dict(op="rotate90", ax=[0, 1], k=2, ref=None)),
                     ("mesh", dict(op="scale", factor=[S(2), S(F(1, 2))], ref=None)),
                     ("region", dict(op="scale", factor=S(3), ref=None)),
                     ("mesh", dict(op="translate", v=[S(3), S(-2)]))]:
        m = mk_mesh([0, 0], [1, F(1, 4)], (4, 3), subs=[] if path == "region" else [("a", (0, 0), (2, 3))])
        f_ = dict(t="affine", c=[[S(1), S(0)]], A=[[[S(3), S(0)], [S(-5), S(0)]]])
        d = dict(mesh=m, path=path, op=op, nv=1, dtype="float", dseed=7, use=["cell", "p2i"],
                 spec=dict(k="fun", f=f_, style=0, cls="fun"))
        out.append(dict(kind="derived", **d))
        for t in ([S(F(1, 10)), S(F(9, 10))], [S(F(7, 10)), S(F(2, 10))]):
            out.append(dict(kind="derived-sample", t=t, u=[S(F(1, 2)), S(F(3, 10))], **d))
    # a callable that goes wrong late: the refused call leaves the field as it was
    m = mk_mesh([-1, -1, 0], [F(1, 2), F(1, 2), 1], (4, 4, 2))
    base = dict(t="affine", c=[[S(0), S(0)], [S(0), S(0)], [S(1), S(0)]],
                A=[[[S(1), S(0)], [S(0), S(0)], [S(0), S(0)]], [[S(0), S(0)], [S(1), S(0)], [S(0), S(0)]],
                   [[S(0), S(0)], [S(0), S(0)], [S(1), S(0)]]])
    order = x_indices(m["n"])
    for pos, mode in [(len(order) - 1, "scalar"), (5, "raise"), (len(order) // 2, "len"), (1, "str")]:
        fa = dict(t="failat", base=base, idx=order[pos], pos=pos, centre=[S(x) for x in centre(m, order[pos])],
                  quarter=S(F(1, 8)), mode=mode, badlen=1 if mode == "scalar" else 4)
        for via in ("update", "setter"):
            out.append(dict(kind="assign", mesh=m, nv=3, dtype="float", via=via,
                            s0=dict(k="fun", f=base, style=0, cls="fun"),
                            s1=dict(k="fun", f=fa, style=1, cls="fun-failat")))
    # decimal lattices: one-cell-thick subregions at coordinates whose quotient by the cell size is not exact
    for c_, nn in [(F(1, 10), (10, 2)), (F(5, 10 ** 9), (8, 2)), (F(1, 10), (8,))]:
        for i0 in (3, 6, 7):
            if i0 + 1 > nn[0]:
                continue
            a0 = (i0,) + (0,) * (len(nn) - 1)
            a1 = (i0 + 1,) + tuple(nn[1:])
            m = mk_mesh([0] * len(nn), [c_] * len(nn), nn, subs=[("thin", a0, a1)], exact=False)
            for d in (dict(k="const", v=[S(0), S(0)], cls="zero"), None):
                out.append(dict(kind="init", mesh=m, nv=1, dtype="float", via="ctor",
                                spec=dict(k="dict", items=[["thin", dict(k="const", v=[S(7), S(0)], cls="const")]],
                                          default=d)))
    # periodic meshes: points on the upper faces belong to the last cell
    for bc in ("x", "xy", "y", "neumann"):
        m = mk_mesh([0, -1], [1, F(1, 2)], (3, 4), bc=bc)
        sp = seq_arr(m, 1)
        for p in [(3, 1), (3, 0), (1, 1), (0, -1), (F(3, 2), 1), (3, F(-1, 4))]:
            out.append(dict(kind="sample", mesh=m, nv=1, dtype="float", spec=sp, p=[S(x) for x in p], cls="face"))
        out.append(dict(kind="line", mesh=m, nv=1, dtype="float", spec=sp, p1=[S(0), S(-1)], p2=[S(3), S(1)],
                        npts=5, cls="directed"))
    # extended precision, dtype omitted
    m = mk_mesh([0], [1], (3,))
    one_eps = [S(F(1) + F(1, 2 ** 63)), S(0)]
    for adt, v, dt in [("longdouble", one_eps, "float"), ("clongdouble", [one_eps[0], S(F(-2) + F(3, 2 ** 60))], "complex"),
                       ("float16", [S(F(3, 8)), S(0)], "float")]:
        specs = [dict(k="const", v=v, cls="const-x", adt=adt),
                 dict(k="arr", sh=[3], data=[v, [S(2), S(0)], v], cls="arr-n-x", adt=adt, py="ndarray"),
                 dict(k="arr", sh=[3, 1], data=[v, v, [S(0), S(0)]], cls="arr-x", adt=adt, py="ndarray")]
        for sx in specs:
            for via in ("ctor", "update"):
                out.append(dict(kind="init", mesh=m, nv=1, dtype=dt, spec=sx, via=via, dtarg="none"))
            out.append(dict(kind="assign", mesh=m, nv=1, dtype=dt, dtarg="none", via="setter", s1=sx,
                            s0=dict(k="const", v=[S(4), S(0)], cls="const")))
    # component labels that differ in case only / contain one another
    m = mk_mesh([0, 0], [1, 1], (2, 2))
    for fam in (["b", "B"], ["B", "b"], ["H", "h", "m"], ["Re", "RE", "re", "im"], ["mxy", "mx", "m"]):
        sp = seq_arr(m, len(fam))
        for label in fam + [fam[0].swapcase() + "q", "X"]:
            out.append(dict(kind="comp", mesh=m, nv=len(fam), dtype="float", spec=sp, vdims=fam, label=label))
    sp = seq_arr(m, 3)
    for label in ("x", "y", "z", "X", "Z"):
        out.append(dict(kind="comp", mesh=m, nv=3, dtype="float", spec=sp, vdims=None, label=label))
    return out


def generate(rng, tier):
    """seed-independent directed core + the same streams from a fixed seed + the seeded random streams"""
    import os
    import random as _random
    core = directed_cases() + random_streams(_random.Random(424242), "quick", 12)
    if os.environ.get("VERIF_C02_CORE_ONLY"):
        return core
    return core + random_streams(rng, tier, 50 if tier == "quick" else 420)


def random_streams(rng, tier, N):
    cases = []
    # -- initialisation by every kind of specification
    for k in range(N * 4):
        exact = rng.random() < 0.85
        m = gen_mesh(rng, tier, exact=exact)
        nv, dtype = gen_nv_dtype(rng)
        if not exact:
            dtype = rng.choice(["float", "float", "complex"])
        forced = None
        if k % 4 == 1 and m["subs"]:
            forced = "dict"
        spec = gen_spec(rng, m, nv, dtype, tier, kind=forced)
        if not exact and spec_has_field(spec):
            m = dict(m)
            continue
        cases.append(dict(kind="init", mesh=m, nv=nv, dtype=dtype, spec=spec,
                          via=rng.choice(["ctor", "ctor", "update"]),
                          dtarg="none" if (dtype != "complex" and spec["k"] in ("arr", "const")
                                           and rng.random() < 0.25) else "given"))
    # -- targeted: overlapping subregions with distinct constants on every listed order
    for k in range(N):
        m = gen_mesh(rng, tier, nd=rng.choice([1, 2, 3]), exact=True)
        if len(m["subs"]) < 2:
            continue
        nv, dtype = gen_nv_dtype(rng)
        items = []
        for j, sub in enumerate(m["subs"]):
            if nv == 1:
                items.append([sub[0], dict(k="const", v=[S(j + 1), S(0)] if dtype != "bool" else [S(j % 2), S(0)], cls="const")])
            else:
                items.append([sub[0], dict(k="arr", sh=[nv], cls="vec", py="tuple",
                                           data=[[S(j + 1), S(0)] if dtype != "bool" else [S((j + c) % 2), S(0)] for c in range(nv)])])
        d = rng.choice([None, dict(k="const", v=[S(0), S(0)], cls="zero"),
                        dict(k="fun", f=gen_fun(rng, len(m["n"]), nv, dtype), style=0, cls="fun")])
        cases.append(dict(kind="init", mesh=m, nv=nv, dtype=dtype, spec=dict(k="dict", items=items, default=d),
                          via="ctor"))
    # -- assignment (setter / update_field_values), accepted and rejected, followed by a snapshot
    for k in range(N * 2):
        m = gen_mesh(rng, tier, exact=True)
        nv, dtype = gen_nv_dtype(rng)
        s0 = gen_simple(rng, m, nv, dtype, kind=rng.choice(["arr", "fun", "vec"]))
        if k % 2 == 0:
            s1 = gen_spec(rng, m, nv, dtype, tier)
        else:
            s1 = gen_simple(rng, m, nv, dtype,
                            kind=rng.choice(["badlen", "badshape", "const-nv", "fun-len", "bad", "field-bad"]))
        cases.append(dict(kind="assign", mesh=m, nv=nv, dtype=dtype, s0=s0, s1=s1,
                          via=rng.choice(["setter", "update"]),
                          dtarg="none" if (dtype != "complex" and s1["k"] in ("arr", "const")
                                           and rng.random() < 0.25) else "given"))
    # -- arrays with the right element count but another shape, at all three entry points
    for k in range(N // 3):
        while True:
            m = gen_mesh(rng, tier, nd=rng.choice([1, 2, 2, 3, 3]), exact=True, maxcells=40)
            if len(m["n"]) == 1 or len(set(m["n"])) > 1:
                break
        nv = rng.choice([1, 1, 1, 2, 3])
        dtype = rng.choice(["float", "float", "int", "complex", "bool"])
        shapes = samesize_shapes(m["n"], nv)
        rng.shuffle(shapes)
        for sh in shapes[:5]:
            s1 = decorate(rng, dict(k="arr", sh=sh, data=seq_data(math.prod(sh), dtype), cls="samesize",
                                    py=rng.choice(["ndarray", "ndarray", "list"])), dtype)
            s0 = gen_simple(rng, m, nv, dtype, kind=rng.choice(["arr", "vec"]))
            cases.append(dict(kind="init", mesh=m, nv=nv, dtype=dtype, spec=s1, via="ctor"))
            for via in ("setter", "update"):
                cases.append(dict(kind="assign", mesh=m, nv=nv, dtype=dtype, s0=s0, s1=s1, via=via))
    # -- specifications that fail LATE (after part of the cells have been processed): the refused call
    #    must leave array, validity, dtype and labels as they were
    for k in range(N):
        m = gen_mesh(rng, tier, exact=True)
        nv, dtype = gen_nv_dtype(rng)
        s0 = gen_simple(rng, m, nv, dtype, kind=rng.choice(["arr", "fun", "vec"]))
        r = rng.random()
        if r < 0.45 or not m["subs"]:
            if r < 0.35 or not m["subs"]:
                s1 = dict(k="fun", f=gen_failat(rng, m, nv, dtype), style=rng.randint(0, 2), cls="fun-failat")
            else:
                # (an object array's string converts to True in a Boolean field: dtype casting, not for bool)
                s1 = dict(k="bad", what=rng.choice(["ragged", "objarr"] if dtype != "bool" else ["ragged"]),
                          sh=list(m["n"]) + [nv], cls="bad-late")
        else:
            items = []
            bad_at = rng.randrange(len(m["subs"]))
            for j, sub in enumerate(m["subs"]):
                sm = dict(exact=True, p1=sub[1], p2=sub[2], n=[b_ - a_ for a_, b_ in zip(sub[3], sub[4])],
                          tf=m["tf"], dims=m.get("dims"), subs=[], scale=m["scale"])
                if j == bad_at and r < 0.8:
                    what = rng.choice(["failat", "failat", "badlen", "fun-len", "bad"])
                    if what == "failat":
                        sv = dict(k="fun", f=gen_failat(rng, sm, nv, dtype), style=0, cls="fun-failat")
                    else:
                        sv = gen_simple(rng, sm, nv, dtype, kind=what, in_dict=True)
                else:
                    sv = gen_simple(rng, sm, nv, dtype, kind=rng.choice(["vec", "arr", "fun"]), in_dict=True)
                items.append([sub[0], sv])
            if r < 0.8:
                d = rng.choice([None, dict(k="arr", sh=[nv], data=[gen_val(rng, dtype) for _ in range(nv)],
                                           cls="vec", py="tuple")])
            else:
                d = dict(k="fun", f=gen_failat(rng, m, nv, dtype), style=0, cls="fun-failat")
            s1 = dict(k="dict", items=items, default=d, cls="dict-late")
        for via in ("setter", "update"):
            cases.append(dict(kind="assign", mesh=m, nv=nv, dtype=dtype, s0=s0, s1=s1, via=via))
        cases.append(dict(kind="init", mesh=m, nv=nv, dtype=dtype, spec=s1, via=rng.choice(["ctor", "update"])))
    # -- lines with non-dyadic end points that start / end ON faces and corners of the region
    for k in range(N * 4):
        m = gen_mesh(rng, tier, nd=rng.choice([1, 2, 2, 3]), exact=rng.random() < 0.6, with_subs=False, maxcells=64)
        if rng.random() < 0.3:      # a region with its lower corner in the origin
            lo_, hi_, _c = geom(m)
            m = dict(m, p1=[S(0) for _ in lo_], p2=[S(h - l) for l, h in zip(lo_, hi_)])
        nv = rng.choice([1, 2, 3])
        spec = gen_simple(rng, m, nv, "float", kind="arr")
        lo, hi, cell = geom(m)
        nd = len(lo)
        a_ = [F(float(l) + round(rng.uniform(0.02, 0.98), rng.choice([1, 2, 3])) * float(h - l)) for l, h in zip(lo, hi)]
        b_ = []
        for ax in range(nd):
            r = rng.random()
            if r < 0.5:
                b_.append(lo[ax])
            elif r < 0.8:
                b_.append(hi[ax])
            else:
                b_.append(F(float(lo[ax]) + round(rng.uniform(0.02, 0.98), 2) * float(hi[ax] - lo[ax])))
        if rng.random() < 0.25:
            a_, b_ = b_, a_
        # threshold-directed choice of the number of points: prefer those for which the computed last
        # point p1 + (n-1)*dl is rounded to just outside the region
        p1f, p2f = np.array([float(x) for x in a_]), np.array([float(x) for x in b_])
        lof, hif = np.array([float(x) for x in lo]), np.array([float(x) for x in hi])
        outside = []
        for kk in range(2, 61):
            last = np.add(p1f, (kk - 1) * (np.subtract(p2f, p1f) / (kk - 1)))
            if np.any(last < lof) or np.any(last > hif):
                outside.append(kk)
        npts = rng.choice(outside) if (outside and rng.random() < 0.6) else rng.randint(2, 60)
        cases.append(dict(kind="lineS", mesh=m, nv=nv, dtype="float", spec=spec, p1=[S(x) for x in a_],
                          p2=[S(x) for x in b_], npts=npts, rounds_outside=npts in outside))
    # -- scalar arrays in both spellings (shape n and shape n + [1]), every layout / element type,
    #    at all three entry points
    for k in range(N // 2):
        m = gen_mesh(rng, tier, nd=rng.choice([1, 2, 2, 3, 4]), exact=True, maxcells=48)
        dtype = rng.choice(["float", "float", "int", "complex", "bool"])
        for sh in (list(m["n"]), list(m["n"]) + [1]):
            def mk():
                s_ = dict(k="arr", sh=sh, data=[gen_val(rng, dtype) for _ in range(math.prod(sh))],
                          cls="arr-n" if len(sh) == len(m["n"]) else "arr", py="ndarray")
                s_["layout"] = LAYOUTS[rng.randrange(len(LAYOUTS))]
                if rng.random() < 0.5:
                    s_["adt"] = rng.choice(ADTS)
                    top = 1 if (dtype == "bool" or s_["adt"] == "bool") else 9
                    s_["data"] = [[S(rng.randint(0, top)), S(0)] for _ in s_["data"]]
                return s_
            dtarg = "none" if (dtype != "complex" and rng.random() < 0.3) else "given"
            for via in ("ctor", "update"):
                cases.append(dict(kind="init", mesh=m, nv=1, dtype=dtype, spec=mk(), via=via, dtarg=dtarg))
            for via in ("setter", "update"):
                cases.append(dict(kind="assign", mesh=m, nv=1, dtype=dtype, dtarg=dtarg, via=via, s1=mk(),
                                  s0=gen_simple(rng, m, 1, dtype, kind=rng.choice(["arr", "vec", "fun"]))))
    # -- derived meshes: used, transformed in place, then assigned to and sampled
    for k in range(N * 2):
        d = gen_derived(rng, tier)
        cases.append(dict(kind="derived", **d))
        for j in range(2):
            cases.append(dict(kind="derived-sample", t=[S(F(rng.randint(0, 999), 1000)) for _ in d["mesh"]["n"]],
                              u=[S(F(rng.randint(15, 85), 100)) for _ in d["mesh"]["n"]], **d))
    # -- sampling
    for k in range(N * 2):
        exact = rng.random() < 0.8
        m = gen_mesh(rng, tier, exact=exact, with_subs=False)
        nv, dtype = gen_nv_dtype(rng)
        if not exact:
            dtype = "float"
        spec = gen_simple(rng, m, nv, dtype, kind=rng.choice(["arr", "fun"]))
        for cls, p in pick_points(rng, m, exact):
            cases.append(dict(kind="sample", mesh=m, nv=nv, dtype=dtype, spec=spec, p=p, cls=cls))
    # -- extended precision: values that are not double-precision numbers, dtype omitted; stored exactly
    for k in range(N // 2):
        m = gen_mesh(rng, tier, exact=True, maxcells=40)
        adt = rng.choice(["longdouble", "longdouble", "clongdouble", "float16"])
        dtype = "complex" if adt == "clongdouble" else "float"
        nv = rng.choice([1, 1, 2, 3])

        def xval():
            if adt == "float16":
                return [S(F(rng.randint(-64, 64), rng.choice([1, 2, 4, 8]))), S(0)]
            def one():
                # representable with a 64-bit significand, not with a 53-bit one
                if rng.random() < 0.4:
                    q = F(rng.choice([1, -1, 1, 0])) + rng.choice([1, -1]) * F(1, 2 ** 63)
                else:
                    q = F(rng.randint(-7, 7)) + rng.choice([0, 1, -1, 3]) * F(1, 2 ** 60)
                return q if frac_exact(ld(q)) == q else F(1) + F(1, 2 ** 63)
            return [S(one()), S(one() if adt == "clongdouble" else 0)]
        kinds = ["vec", "arr", "arr"] + (["const", "arr-n"] if nv == 1 else [])
        for via in ("ctor", "update", "setter"):
            kd = rng.choice(kinds)
            if kd == "const":
                sx = dict(k="const", v=xval(), cls="const-x", adt=adt)
            else:
                sh = [nv] if kd == "vec" else (list(m["n"]) if kd == "arr-n" else list(m["n"]) + [nv])
                sx = dict(k="arr", sh=sh, data=[xval() for _ in range(math.prod(sh))], cls=kd + "-x", adt=adt,
                          py="ndarray", layout=rng.choice(LAYOUTS))
            if via == "setter":
                cases.append(dict(kind="assign", mesh=m, nv=nv, dtype=dtype, dtarg="none", via="setter", s1=sx,
                                  s0=gen_simple(rng, m, nv, dtype, kind="vec")))
            else:
                cases.append(dict(kind="init", mesh=m, nv=nv, dtype=dtype, spec=sx, via=via, dtarg="none"))
    # -- component labels that differ only in case, or contain one another: EVERY label is accessed
    for k in range(N // 2):
        m = gen_mesh(rng, tier, exact=True, with_subs=False, maxcells=40)
        fam = rng.choice([["b", "B"], ["H", "h", "m"], ["Re", "RE", "re", "im"], ["m", "mx", "mxy"],
                          ["ab", "a", "ba", "b"], ["Mx", "mx", "MX"], ["q", "Q"], ["vx", "Vx", "vX", "VX"]])
        fam = list(fam)
        rng.shuffle(fam)
        nv = len(fam)
        dtype = rng.choice(["float", "int", "complex"])
        spec = gen_simple(rng, m, nv, dtype, kind="arr")
        for label in fam + [rng.choice([fam[0].swapcase(), fam[-1].upper() + "x", fam[0][:1] + "_"])]:
            cases.append(dict(kind="comp", mesh=m, nv=nv, dtype=dtype, spec=spec, vdims=fam, label=label))
    # -- component access
    for k in range(N):
        m = gen_mesh(rng, tier, exact=True, with_subs=False)
        nv, dtype = gen_nv_dtype(rng)
        spec = gen_simple(rng, m, nv, dtype, kind="arr")
        r = rng.random()
        if r < 0.4:
            vd = None
        else:
            vd = rng.sample(["a", "b", "c", "mx", "my", "e1", "e2"], nv)
        default = ["x", "y", "z"][:nv] if 2 <= nv <= 3 else ([f"v{i}" for i in range(nv)] if nv > 3 else [])
        known = vd or default
        label = rng.choice(known) if known and rng.random() < 0.7 else \
            rng.choice(["x", "nope", "v1", "a", "X", "V0", "Y", known[0].upper() if known else "Z"])
        cases.append(dict(kind="comp", mesh=m, nv=nv, dtype=dtype, spec=spec, vdims=vd, label=label))
    # -- iteration
    for k in range(N):
        m = gen_mesh(rng, tier, exact=True, with_subs=False, maxcells=48)
        nv, dtype = gen_nv_dtype(rng)
        spec = gen_simple(rng, m, nv, dtype, kind=rng.choice(["arr", "fun"]))
        cases.append(dict(kind="iter", mesh=m, nv=nv, dtype=dtype, spec=spec))
    # -- line sampling
    for k in range(N * 2):
        m = gen_mesh(rng, tier, exact=True, with_subs=False)
        nv, dtype = gen_nv_dtype(rng)
        spec = gen_simple(rng, m, nv, dtype, kind=rng.choice(["arr", "fun"]))
        lo, hi, cell = geom(m)
        nd = len(lo)
        npts = rng.choice([2, 2, 3, 4, 5, 7, 9, 12])
        cls = rng.choice(["in", "in", "in", "corners", "same", "p2-out", "p1-out", "n1", "n0"])
        # p2 - p1 is a multiple of (npts - 1) in units of 1/64 cell: every point is a dyadic number
        p1 = [lo[a] + F(rng.randint(0, 64 * m["n"][a]), 64) * cell[a] for a in range(nd)]
        p2 = []
        for a in range(nd):
            maxsteps = int(((hi[a] - p1[a]) / cell[a]) * 64) // (npts - 1)
            minsteps = -(int(((p1[a] - lo[a]) / cell[a]) * 64) // (npts - 1))
            st = rng.randint(minsteps, maxsteps)
            p2.append(p1[a] + F(st * (npts - 1), 64) * cell[a])
        if cls == "corners" and npts in (2, 3, 5, 9):
            p1, p2 = list(lo), list(hi)
        elif cls == "same":
            p2 = list(p1)
        elif cls == "p2-out":
            a = rng.randrange(nd)
            p2[a] = hi[a] + cell[a]
        elif cls == "p1-out":
            a = rng.randrange(nd)
            p1[a] = lo[a] - cell[a] / 2
        elif cls == "n1":
            npts = 1
        elif cls == "n0":
            npts = rng.choice([0, -2])
        cases.append(dict(kind="line", mesh=m, nv=nv, dtype=dtype, spec=spec, p1=[S(x) for x in p1],
                          p2=[S(x) for x in p2], npts=npts, cls=cls))
    return cases


# ------------------------------------------------------------------ implementation
def dt_arg(c, dtype):
    return None if c.get("dtarg") == "none" else DT[dtype]


def make_field(m, nv, dtype, spec, via="ctor", vdims=None, dtarg="given", keep=None):
    mesh = build_mesh(m)
    val = py_spec(spec, dtype)
    if keep is not None:
        keep.append(val)
        keep.append(snapshot(val))
    kw = {}
    if vdims is not None:
        kw["vdims"] = vdims
    dta = None if dtarg == "none" else DT[dtype]
    if via == "ctor":
        return df.Field(mesh, nvdim=nv, value=val, dtype=dta, **kw)
    f = df.Field(mesh, nvdim=nv, dtype=dta, **kw)
    f.update_field_values(val)
    return f


# ---- the specification object stays the caller's: no aliasing, no modification
def spec_arrays(val):
    if isinstance(val, np.ndarray):
        return [val]
    if isinstance(val, df.Field):
        return [val.array]
    if isinstance(val, dict):
        return [a for v in val.values() for a in spec_arrays(v)]
    return []


def snapshot(val):
    if isinstance(val, np.ndarray):
        return ("nd", val.copy(), val.dtype.str, val.shape)
    if isinstance(val, df.Field):
        return ("field", val.array.copy(), val.array.dtype.str, val.array.shape)
    if isinstance(val, dict):
        return ("dict", {k: snapshot(v) for k, v in val.items()})
    if isinstance(val, (list, tuple)):
        return ("seq", copy.deepcopy(val))
    return ("other", None)


def same_snapshot(snap, val):
    tag = snap[0]
    if tag in ("nd", "field"):
        now = val.array if tag == "field" else val
        return isinstance(now, np.ndarray) and now.dtype.str == snap[2] and now.shape == snap[3] and \
            np.array_equal(now, snap[1])
    if tag == "dict":
        return isinstance(val, dict) and list(val.keys()) == list(snap[1].keys()) and \
            all(same_snapshot(snap[1][k], val[k]) for k in val)
    if tag == "seq":
        return type(val) is type(snap[1]) and val == snap[1]
    return True


def alias_clauses(f, val, snap):
    """call AFTER the field's array has been recorded: the specification is modified at the end"""
    out = []
    arrs = spec_arrays(val)
    if any(np.shares_memory(f.array, a) for a in arrs):
        out.append("field-aliases-specification")
    if not same_snapshot(snap, val):
        out.append("specification-changed")
    before = f.array.copy()
    for a in arrs:
        if a.flags.writeable and a.dtype.kind in "biufc":
            if a.dtype == np.bool_:
                a[...] = ~a
            else:
                a[...] = a + 1
    if not np.array_equal(before, f.array):
        out.append("later-change-of-specification-leaks")
    return out


def pt(m, p):
    xs = [fl(x) for x in p]
    return xs[0] if len(m["n"]) == 1 and len(xs) == 1 else tuple(xs)


def derive(c):
    """build the mesh, use it, transform it in place; -> (status, mesh object, field or None, mesh description
    read back from the transformed mesh)"""
    import random as _random
    m0 = c["mesh"]
    mesh = build_mesh(m0)
    nd = len(m0["n"])
    dims = list(mesh.region.dims)
    f0 = None
    for u in c["use"]:
        if u == "cell":
            _ = mesh.cell
        elif u == "dV":
            _ = mesh.dV
        elif u == "i2p":
            _ = mesh.index2point(tuple(0 for _ in range(nd)))
        elif u == "p2i":
            _ = mesh.point2index(mesh.region.center)
        elif u == "iter":
            _ = list(mesh)
        elif u == "field":
            _ = df.Field(mesh, nvdim=1, value=lambda p: 1.0)
    if c["path"] == "field":
        f0 = df.Field(mesh, nvdim=1, value=lambda p: float(np.sum(p)))
    op = c["op"]
    ref = None if op.get("ref") is None else [fl(x) for x in op["ref"]]

    def apply():
        if op["op"] == "rotate90":
            tgt = f0 if c["path"] == "field" else mesh
            tgt.rotate90(dims[op["ax"][0]], dims[op["ax"][1]], k=op["k"], reference_point=ref, inplace=True)
        elif op["op"] == "scale":
            fac = fl(op["factor"]) if isinstance(op["factor"], str) else [fl(x) for x in op["factor"]]
            tgt = mesh.region if c["path"] == "region" else mesh
            tgt.scale(fac, reference_point=ref, inplace=True)
        else:
            tgt = mesh.region if c["path"] == "region" else mesh
            tgt.translate([fl(x) for x in op["v"]], inplace=True)
    st, err = attempt(apply)
    if st != "ok":
        return st, err, None, None
    lo = [F(float(x)) for x in np.atleast_1d(mesh.region.pmin)]
    hi = [F(float(x)) for x in np.atleast_1d(mesh.region.pmax)]
    n = [int(x) for x in np.atleast_1d(mesh.n)]
    cellq = [(h - l) / k for l, h, k in zip(lo, hi, n)]
    subs = []
    for name, sr in mesh.subregions.items():
        slo = [F(float(x)) for x in np.atleast_1d(sr.pmin)]
        shi = [F(float(x)) for x in np.atleast_1d(sr.pmax)]
        a0 = [int(round((x - l) / cq)) for x, l, cq in zip(slo, lo, cellq)]
        a1 = [int(round((x - l) / cq)) for x, l, cq in zip(shi, lo, cellq)]
        subs.append([name, [S(x) for x in slo], [S(x) for x in shi], a0, a1])
    m1 = dict(exact=False, p1=[S(x) for x in lo], p2=[S(x) for x in hi], n=n,
              tf=S(F(float(mesh.region.tolerance_factor))), dims=m0.get("dims"), subs=subs,
              scale=S(max([abs(x) for x in lo + hi] + [F(1)])))
    spec = c["spec"]
    if spec["k"] == "field-late":
        r = _random.Random(c["dseed"])
        e0 = [r.randint(0, 1) for _ in n]
        e1 = [r.randint(0, 1) for _ in n]
        slo = [F(float(l) - e * float(cq)) for l, e, cq in zip(lo, e0, cellq)]
        shi = [F(float(h) + e * float(cq)) for h, e, cq in zip(hi, e1, cellq)]
        sn = [k + a + b for k, a, b in zip(n, e0, e1)]
        sm = dict(exact=False, p1=[S(x) for x in slo], p2=[S(x) for x in shi], n=sn, tf=m1["tf"],
                  dims=m1["dims"], subs=[])
        spec = dict(k="field", mesh=sm, nv=c["nv"], mode="same", cls="field-same",
                    data=[gen_val(r, c["dtype"]) for _ in range(math.prod(sn) * c["nv"])])
    return "ok", mesh, f0, (m1, spec)


def run_derived(c, rec):
    nv, dtype = c["nv"], c["dtype"]
    st, mesh, f0, rest = derive(c)
    op = c["op"]
    cls = f'{c["path"]}/{op["op"]}/{op.get("k", "")}/{c["spec"].get("cls", "dict")}'
    if st != "ok":
        # whether a transformation is accepted is C13's business
        rec.update(obs=dict(err=mesh, stage="transform"), coq=None, key=f'{c["kind"]}/{cls}/transform-rejected')
        return rec
    m1, spec = rest
    n = m1["n"]
    lo, hi, cell = geom(m1)
    scale = spec_scale(spec, m1)
    # the lattice the mesh reports: cell = edges / n
    cf = [float(x) for x in np.atleast_1d(mesh.cell)]
    if any(abs(F(x) - cq) > F(1, 10 ** 9) * cq for x, cq in zip(cf, cell)):
        rec["oracle"].append("cell-is-not-edges-over-n")
    val = py_spec(spec, dtype)
    if f0 is not None:
        stf, fld = attempt(lambda: (f0.update_field_values(val), f0)[1])
    else:
        stf, fld = attempt(lambda: df.Field(mesh, nvdim=nv, value=val, dtype=DT[dtype]))
    e = expect(spec, m1, nv)
    if c["kind"] == "derived":
        if stf == "ok":
            obs = dict(array=enc_arr(fld.array), n=n)
            coq_obs = f"(Some {cvl(obs['array'])})"
            if e == REJECT:
                rec["oracle"].append("invalid-spec-accepted")
            elif e != UNSPEC:
                rec["oracle"] += check_array(False, scale, m1, nv, e, fld.array)
        else:
            obs = dict(err=fld)
            coq_obs = "None"
            if e != REJECT and e != UNSPEC:
                rec["oracle"].append("valid-spec-rejected")
        rec["case"] = dict(c, derived_mesh=m1)
        rec.update(obs=obs, coq=f'CInit false {g_q(scale)} {mesh_coq(m1)} {g_nat(nv)} {spec_coq(spec)} {coq_obs}',
                   key=f'derived/{len(n)}/{nv}/{cls}/{stf}')
        return rec
    # derived-sample
    if stf != "ok":
        if e != REJECT and e != UNSPEC:
            rec["oracle"].append("valid-spec-rejected")
        rec.update(obs=dict(err=fld, stage="assign"), coq=None, key=f'derived-sample/{cls}/assign-rejected')
        return rec
    idx = [min(k - 1, int(F(t) * k)) for t, k in zip(c["t"], n)]
    p = [F(float(l) + (j + float(F(u))) * float(cq)) for l, j, u, cq in zip(lo, idx, c["u"], cell)]
    pp = [S(x) for x in p]
    sts, v = attempt(lambda: fld(pt(m1, pp)))
    if sts == "ok":
        obs = dict(v=enc_arr(v), p=pp)
        coq_obs = f"(Some {cvl(obs['v'])})"
        got = np.asarray(v)
        if got.shape != (nv,) or not np.array_equal(got, fld.array[tuple(idx)]):
            rec["oracle"].append("sample-not-the-containing-cell")
    else:
        obs = dict(err=v, p=pp)
        coq_obs = "None"
        rec["oracle"].append("inside-point-rejected")
    rec["case"] = dict(c, derived_mesh=m1)
    rec.update(obs=obs, coq=f'CSample false {g_q(scale)} {mesh_coq(m1)} {g_nat(nv)} {spec_coq(spec)} '
                            f'{g.ql(pp)} {coq_obs}',
               key=f'derived-sample/{len(n)}/{nv}/{cls}/{sts}')
    return rec


def g_q(x):
    return g.q(x)


def g_nat(x):
    return g.nat(x)


def run_case(c):
    kind = c["kind"]
    if kind in ("derived", "derived-sample"):
        m0 = c["mesh"]
        rec = dict(kind=kind, case=c, oracle=[], tags=[], size=len(m0["n"]) + sum(m0["n"]) + c["nv"])
        return run_derived(c, rec)
    m, nv, dtype = c["mesh"], c["nv"], c["dtype"]
    exact = m["exact"]
    rec = dict(kind=kind, case=c, oracle=[], tags=[], size=len(m["n"]) + sum(m["n"]) + nv)
    n = m["n"]

    if kind == "init":
        spec = c["spec"]
        scale = spec_scale(spec, m) if not exact else F(1)
        keep = []
        st, f = attempt(lambda: make_field(m, nv, dtype, spec, c["via"], dtarg=c.get("dtarg", "given"), keep=keep))
        e = expect(spec, m, nv)
        if st == "ok":
            obs = dict(array=enc_arr(f.array), shape=list(f.array.shape), dtype=str(f.array.dtype))
            coq_obs = f"(Some {cvl(obs['array'])})"
            rec["oracle"] += alias_clauses(f, keep[0], keep[1])
            if e == REJECT:
                rec["oracle"].append("invalid-spec-accepted")
            elif e != UNSPEC:
                rec["oracle"] += check_array(exact, scale, m, nv, e, f.array)
            elif tuple(f.array.shape) != tuple(n) + (nv,):
                rec["oracle"].append("array-shape")
        else:
            obs = dict(err=f)
            coq_obs = "None"
            if e != REJECT and e != UNSPEC:
                rec["oracle"].append("valid-spec-rejected")
            if keep and not same_snapshot(keep[1], keep[0]):
                rec["oracle"].append("specification-changed")
        cls = spec.get("cls") or ("dict:" + ",".join(sorted(sv.get("cls", "?") for _, sv in spec["items"])) +
                                  "/" + ((spec["default"] or {}).get("cls", "none")))
        rec.update(obs=obs, coq=f'CInit {g.b(exact)} {g.q(scale)} {mesh_coq(m)} {g.nat(nv)} {spec_coq(spec)} {coq_obs}',
                   key=f'init/{exact}/{len(n)}/{nv}/{dtype}/{cls}/{st}/{c["via"]}/{spec.get("layout")}/'
                       f'{spec.get("adt")}/{c.get("dtarg", "given")}')
        return rec

    if kind == "assign":
        s0, s1 = c["s0"], c["s1"]
        st0, f = attempt(lambda: make_field(m, nv, dtype, s0, "ctor", dtarg=c.get("dtarg", "given")))
        if st0 != "ok":      # s0 is always a valid specification
            rec.update(obs=dict(err=f), coq=None, oracle=["valid-spec-rejected"], key="assign/setup-failed")
            return rec
        before = f.array.copy()
        state0 = (f.valid.copy(), f.array.dtype, f.dtype, None if f.vdims is None else list(f.vdims), f.unit,
                  f.nvdim, dict(f.vdim_mapping))
        val = py_spec(s1, dtype)
        snap = snapshot(val)
        if c["via"] == "setter":
            def do():
                f.array = val
        else:
            def do():
                f.update_field_values(val)
        st, _ = attempt(do)
        after = np.asarray(f.array)
        e = expect(s1, m, nv)
        if st == "ok":
            if e == REJECT:
                rec["oracle"].append("invalid-spec-accepted")
            elif e != UNSPEC:
                rec["oracle"] += check_array(True, F(1), m, nv, e, after)
        else:
            if e != REJECT and e != UNSPEC:
                rec["oracle"].append("valid-spec-rejected")
            state1 = (f.valid, f.array.dtype, f.dtype, None if f.vdims is None else list(f.vdims), f.unit,
                      f.nvdim, dict(f.vdim_mapping))
            if after.shape != before.shape or not np.array_equal(after, before) or after.dtype != before.dtype \
                    or not np.array_equal(state0[0], state1[0]) or state0[0].dtype != state1[0].dtype \
                    or state0[1:] != state1[1:]:
                rec["oracle"].append("failed-assignment-changed-field")
        obs = dict(ok=st == "ok", after=enc_arr(after), dtype=str(after.dtype))
        cls = s1.get("cls", "dict")
        if st == "ok":
            # the entry point must not matter: the constructor gives the same element type
            stc, ref = attempt(lambda: df.Field(f.mesh, nvdim=nv, value=py_spec(s1, dtype), dtype=dt_arg(c, dtype)))
            if stc == "ok" and ref.array.dtype != f.array.dtype:
                rec["oracle"].append("setter-dtype")
            rec["oracle"] += alias_clauses(f, val, snap)
        elif not same_snapshot(snap, val):
            rec["oracle"].append("specification-changed")
        rec.update(obs=obs, coq=f'CAssign {mesh_coq(m)} {g.nat(nv)} (VSimple {simple_coq(s0)}) {spec_coq(s1)} '
                                f'{g.b(st == "ok")} {cvl(obs["after"])}',
                   key=f'assign/{len(n)}/{nv}/{dtype}/{cls}/{st}/{c["via"]}/{s1.get("layout")}/{s1.get("adt")}/'
                       f'{c.get("dtarg", "given")}')
        return rec

    spec = c["spec"]
    st0, f = attempt(lambda: make_field(m, nv, dtype, spec, "ctor", vdims=c.get("vdims")))
    if st0 != "ok":          # these kinds only use valid specifications
        rec.update(obs=dict(err=f), coq=None, oracle=["valid-spec-rejected"], key=kind + "/setup-failed")
        return rec
    lo, hi, cell = geom(m)

    if kind == "sample":
        scale = spec_scale(spec, m) if not exact else F(1)
        p = [F(x) for x in c["p"]]
        st, v = attempt(lambda: f(pt(m, c["p"]) if len(p) == len(n) else tuple(fl(x) for x in c["p"])))
        inside = len(p) == len(n) and all(l <= x <= h for l, x, h in zip(lo, p, hi))
        if st == "ok":
            obs = dict(v=enc_arr(v))
            coq_obs = f"(Some {cvl(obs['v'])})"
            got = np.asarray(v)
            if got.shape != (nv,):
                rec["oracle"].append("sample-shape")
            elif inside:
                # the stored value of a cell (closed) that contains the point
                per_axis = [[j for j in range(n[a]) if lo[a] + j * cell[a] <= p[a] <= lo[a] + (j + 1) * cell[a]]
                            for a in range(len(n))]
                if not any(np.array_equal(got, f.array[idx]) for idx in itertools.product(*per_axis)):
                    rec["oracle"].append("sample-not-the-containing-cell")
            elif len(p) != len(n) or any(x < l - c_ / 4 or x > h + c_ / 4 for l, x, h, c_ in zip(lo, p, hi, cell)):
                rec["oracle"].append("outside-point-sampled")
        else:
            obs = dict(err=v)
            coq_obs = "None"
            if inside:
                rec["oracle"].append("inside-point-rejected")
        rec.update(obs=obs, coq=f'CSample {g.b(exact)} {g.q(scale)} {mesh_coq(m)} {g.nat(nv)} {spec_coq(spec)} '
                                f'{g.ql(c["p"])} {coq_obs}',
                   key=f'sample/{exact}/{len(n)}/{nv}/{dtype}/{c["cls"]}/{st}')
        return rec

    if kind == "comp":
        label = c["label"]
        st, comp = attempt(lambda: getattr(f, label))
        labels = f.vdims
        if st == "ok":
            arr = np.asarray(comp.array)
            obs = dict(array=enc_arr(arr), nvdim=int(comp.nvdim))
            coq_obs = f"(Some {cvl(obs['array'])})"
            if labels is None or label not in labels:
                rec["oracle"].append("unknown-component-returned")
            elif comp.nvdim != 1 or arr.shape != tuple(n) + (1,) or \
                    not np.array_equal(arr[..., 0], f.array[..., list(labels).index(label)]):
                rec["oracle"].append("component-not-the-column")
        else:
            obs = dict(err=comp)
            coq_obs = "None"
            if labels is not None and label in labels:
                rec["oracle"].append("component-rejected")
        want = c["vdims"] or (["x", "y", "z"][:nv] if 2 <= nv <= 3 else ([f"v{i}" for i in range(nv)] if nv > 3 else None))
        if (list(labels) if labels is not None else None) != want:
            rec["oracle"].append("component-labels")
        rec.update(obs=obs, coq=f'CComp {mesh_coq(m)} {g.nat(nv)} {spec_coq(spec)} {g.opt(c["vdims"], g.sl)} '
                                f'{g.s(label)} {coq_obs}',
                   key=f'comp/{len(n)}/{nv}/{dtype}/{c["vdims"] is None}/{st}')
        return rec

    if kind == "iter":
        it = iter(f)
        first = next(it)
        first_copy = np.array(first, copy=True)
        vals = [first] + [v for v in it]         # kept beyond the iteration step: no shared buffers
        vals = [np.asarray(v) for v in vals]
        vals2 = [np.asarray(v) for v in list(f)]
        obs = dict(values=[enc_arr(v) for v in vals])
        idxs = x_indices(n)
        if len(vals) != len(idxs) or len(vals2) != len(idxs):
            rec["oracle"].append("iteration-length")
        elif not all(v.shape == (nv,) and np.array_equal(v, f.array[tuple(i)]) for v, i in zip(vals, idxs)) \
                or not all(np.array_equal(v, w) for v, w in zip(vals, vals2)) \
                or not np.array_equal(vals[0], first_copy):
            rec["oracle"].append("iteration-order")
        # the order is the mesh's: first dimension fastest
        if [list(map(int, np.atleast_1d(i))) for i in f.mesh.indices] != idxs:
            rec["oracle"].append("mesh-indices-order")
        mpts = [[F(float(x)) for x in np.atleast_1d(p)] for p in f.mesh]
        if mpts != [centre(m, i) for i in idxs]:
            rec["oracle"].append("mesh-iteration-order")
        if len(vals) == len(idxs) and not all(np.array_equal(v, f(pt(m, [S(x) for x in p])))
                                              for v, p in zip(vals, mpts)):
            rec["oracle"].append("iteration-not-zip-of-mesh")
        rec.update(obs=obs, coq=f'CIter {mesh_coq(m)} {g.nat(nv)} {spec_coq(spec)} {cvll(obs["values"])}',
                   key=f'iter/{tuple(n)}/{nv}/{dtype}')
        return rec

    if kind == "lineS":
        p1q, p2q = [F(x) for x in c["p1"]], [F(x) for x in c["p2"]]
        k = c["npts"]
        tol = F(1, 10 ** 9) * max([abs(x) for x in lo + hi] + [F(1)])
        st, line = attempt(lambda: f.line(pt(m, c["p1"]), pt(m, c["p2"]), n=k))
        if st == "ok":
            data = line.data
            dims = list(f.mesh.region.dims)
            pts = [[F(float(data[d].iloc[j])) for d in dims] for j in range(len(data))]
            vcols = [col for col in data.columns if col != "r" and col not in dims]
            vals = [[enc(data[col].iloc[j]) for col in vcols] for j in range(len(data))]
            rs = [F(float(x)) for x in data["r"]]
            obs = dict(points=[[S(x) for x in p] for p in pts], values=vals, n=int(line.n))
            coq_obs = f"(Some ({g.qll(obs['points'])}, {cvll(vals)}))"
            if len(pts) != k or line.n != k:
                rec["oracle"].append("line-point-count")
            else:
                L2 = sum((b - a) ** 2 for a, b in zip(p1q, p2q))
                for j in range(k):
                    want = [a + F(j, k - 1) * (b - a) for a, b in zip(p1q, p2q)]
                    if any(abs(x - w) > tol for x, w in zip(pts[j], want)):
                        rec["oracle"].append("line-end-points" if j in (0, k - 1) else "line-not-equidistant")
                    if rs[j] < 0 or abs(rs[j] ** 2 - F(j, k - 1) ** 2 * L2) > F(1, 10 ** 8) * max(L2, tol * tol):
                        rec["oracle"].append("line-distance")
                    # EVERY value: the stored value of a cell whose closed extent contains the point
                    per_axis = [[i for i in range(n[a]) if lo[a] + i * cell[a] - tol <= pts[j][a] <= lo[a] + (i + 1) * cell[a] + tol]
                                for a in range(len(n))]
                    got = vals[j]
                    if not any(enc_arr(f.array[idx]) == got for idx in itertools.product(*per_axis)):
                        rec["oracle"].append("line-values")
                if len(vcols) != nv:
                    rec["oracle"].append("line-value-columns")
        else:
            obs = dict(err=line)
            coq_obs = "None"
            rec["oracle"].append("line-rejected")
        rec["oracle"] = sorted(set(rec["oracle"]))
        on_lo = sum(1 for a in range(len(n)) if p1q[a] == lo[a] or p2q[a] == lo[a])
        rec.update(obs=obs, coq=f'CLineS {g.q(tol)} {mesh_coq(m)} {g.nat(nv)} {spec_coq(spec)} {g.ql(c["p1"])} '
                                f'{g.ql(c["p2"])} {g.z(k)} {coq_obs}',
                   key=f'lineS/{len(n)}/{nv}/{exact}/{on_lo}/{k}/{st}/{c.get("rounds_outside")}')
        return rec

    if kind == "line":
        p1q, p2q = [F(x) for x in c["p1"]], [F(x) for x in c["p2"]]
        k = c["npts"]
        st, line = attempt(lambda: f.line(pt(m, c["p1"]), pt(m, c["p2"]), n=k))
        inside = all(l <= a <= h and l <= b <= h for l, h, a, b in zip(lo, hi, p1q, p2q))
        if st == "ok":
            data = line.data
            dims = list(f.mesh.region.dims)
            pts = [[F(float(data[d].iloc[j])) for d in dims] for j in range(len(data))]
            vcols = [col for col in data.columns if col != "r" and col not in dims]
            vals = [[enc(data[col].iloc[j]) for col in vcols] for j in range(len(data))]
            rs = [F(float(x)) for x in data["r"]]
            obs = dict(points=[[S(x) for x in p] for p in pts], values=vals, r=[S(x) for x in rs], n=int(line.n))
            coq_obs = (f"(Some ({g.qll(obs['points'])}, {cvll(vals)}, {g.ql(obs['r'])}))")
            if not inside or k < 2:
                rec["oracle"].append("line-outside-accepted" if not inside else "line-n-below-2-accepted")
            else:
                if len(pts) != k or line.n != k:
                    rec["oracle"].append("line-point-count")
                else:
                    if pts[0] != p1q or pts[-1] != p2q:
                        rec["oracle"].append("line-end-points")
                    for j in range(k):
                        want = [a + F(j, k - 1) * (b - a) for a, b in zip(p1q, p2q)]
                        if pts[j] != want:
                            rec["oracle"].append("line-not-equidistant")
                            break
                    L2 = sum((b - a) ** 2 for a, b in zip(p1q, p2q))
                    for j in range(k):
                        want2 = F(j, k - 1) ** 2 * L2
                        if rs[j] < 0 or abs(rs[j] ** 2 - want2) > F(1, 10 ** 9) * max(L2, F(1, 10 ** 30)):
                            rec["oracle"].append("line-distance")
                            break
                    for j in range(k):
                        sv = np.asarray(f(pt(m, [S(x) for x in pts[j]])))
                        if enc_arr(sv) != vals[j]:
                            rec["oracle"].append("line-values")
                            break
                    if len(vcols) != nv:
                        rec["oracle"].append("line-value-columns")
        else:
            obs = dict(err=line)
            coq_obs = "None"
            if inside and k >= 2:
                rec["oracle"].append("line-rejected")
        rec["oracle"] = sorted(set(rec["oracle"]))
        rec.update(obs=obs, coq=f'CLine {mesh_coq(m)} {g.nat(nv)} {spec_coq(spec)} {g.ql(c["p1"])} {g.ql(c["p2"])} '
                                f'{g.z(k)} {coq_obs}',
                   key=f'line/{len(n)}/{nv}/{dtype}/{c["cls"]}/{k}/{st}')
        return rec
    raise ValueError(kind)


def stats(records):
    out = {}
    for r in records:
        o = r["obs"]
        rejected = "err" in o or o.get("ok") is False
        k = r["kind"] + ("/rejected" if rejected else "/ok")
        out[k] = out.get(k, 0) + 1
        if r["kind"] == "lineS" and r["case"].get("rounds_outside"):
            out["lineS/last-point-rounds-outside"] = out.get("lineS/last-point-rounds-outside", 0) + 1
        reg = "scale" if (r["kind"].startswith("derived") or not r["case"]["mesh"]["exact"]) else "exact"
        out["regime/" + reg] = out.get("regime/" + reg, 0) + 1
    return out
