"""C03 — Field algebra is cell-wise numpy algebra on one mesh; operands stay untouched.

Cases are expression trees over fields / numbers / constant vectors / per-cell arrays.  Each tree is
evaluated three ways: (1) on the implementation through the public Field API, (2) with plain numpy
on the raw arrays (float reference; also the source of the value tables of numpy's non-algebraic
cell functions handed to the Coq model) and (3) in exact complex-rational arithmetic (decides
whether the float evaluation was exact: tol = 0, else an absolute tolerance 1e-9 * scale).
"""
import math
import os
from fractions import Fraction as F

import numpy as np

from harness import gallina as g
from harness.util import import_df, js, attempt

df = import_df()

UN_IDS = {"signbit": 20, "sqrt": 5, "absolute": 0, "conjugate": 3, "sin": 10, "cos": 11, "exp": 12, "tanh": 13, "arctan": 14,
          "square": 15, "negative": 16, "sign": 17, "floor": 18}
UN_REAL_ONLY = {"sign", "floor"}
BIN_IDS = {"arctan2": 10, "maximum": 11, "minimum": 12, "hypot": 13, "copysign": 14}
BIN_ALG = {"add": "Add", "subtract": "Sub", "multiply": "Mul", "divide": "Div", "power": "Pow"}
U_ABS, U_PHASE, U_SQRT, U_ARCCOS, B_POW = 0, 4, 5, 6, 0
ALG = {"add": "Add", "sub": "Sub", "mul": "Mul", "div": "Div", "pow": "Pow"}
LABELS = ["a", "b", "c", "d", "p", "q", "r", "s", "u", "w", "ab", "abc", "p_1", "Q"]
KNOWN_COMM = "C03-commutative-distinct-labels"


# ------------------------------------------------------------------ exact complex rationals
class CF:
    __slots__ = ("re", "im")

    def __init__(self, re, im=0):
        self.re, self.im = F(re), F(im)

    def __add__(self, o):
        return CF(self.re + o.re, self.im + o.im)

    def __sub__(self, o):
        return CF(self.re - o.re, self.im - o.im)

    def __mul__(self, o):
        return CF(self.re * o.re - self.im * o.im, self.re * o.im + self.im * o.re)

    def __truediv__(self, o):
        d = o.re * o.re + o.im * o.im
        return self * CF(o.re / d, -o.im / d)

    def __neg__(self):
        return CF(-self.re, -self.im)

    def __eq__(self, o):
        return self.re == o.re and self.im == o.im

    def __hash__(self):
        return hash((self.re, self.im))


def cf_of(x):
    x = complex(x)
    return CF(F(x.real), F(x.imag))


def to_exact(a):
    a = np.asarray(a)
    out = np.empty(a.shape, dtype=object)
    flat = out.reshape(-1)
    for i, x in enumerate(a.reshape(-1).tolist()):
        flat[i] = cf_of(x)
    return out


def omap(fn, a):
    out = np.empty(a.shape, dtype=object)
    of, af = out.reshape(-1), a.reshape(-1)
    for i in range(af.size):
        of[i] = fn(af[i])
    return out


def same_exact(ex, fl):
    fe = to_exact(fl)
    return ex.shape == fe.shape and all(a == b for a, b in zip(ex.reshape(-1), fe.reshape(-1)))


def num_py(v):
    """[re, im] strings -> Python number (float or complex)"""
    re, im = float(F(v[0])), float(F(v[1]))
    return complex(re, im) if im != 0 else re


# ------------------------------------------------------------------ building the operands
DTYPES = {"float": np.float64, "int": np.int64, "complex": np.complex128, "float32": np.float32,
          "complex64": np.complex64, "int32": np.int32, "int16": np.int16, "uint8": np.uint8, "uint16": np.uint16, "int64": np.int64,
          "longdouble": np.longdouble, "clongdouble": np.clongdouble}
EXTENDED = ("longdouble", "clongdouble")


def frac_exact(x):
    """exact rational value of a real number, also of an extended-precision one"""
    if isinstance(x, np.longdouble):
        if x == 0:
            return F(0)
        mant, ex = np.frexp(x)
        return F(int(mant * np.longdouble(2) ** 64)) * F(2) ** (int(ex) - 64)
    return F(float(x))


def ld(q):
    """the extended-precision number with the exact value q (q = double + small dyadic rest)"""
    q = F(q)
    a_ = float(q)
    return np.longdouble(a_) + np.longdouble(float(q - F(a_)))

INT_KINDS = ("int", "int32", "int16", "uint8", "uint16", "int64")
UNSIGNED = ("uint8", "uint16")
LOWPREC = ("float32", "complex64")


def build_mesh(m):
    p1 = [float(F(x)) for x in m["p1"]]
    p2 = [float(F(x)) for x in m["p2"]]
    if m.get("ptype") == "int" and all(float(x).is_integer() for x in p1 + p2):
        p1, p2 = [int(x) for x in p1], [int(x) for x in p2]          # integer-typed corners
    elif m.get("ptype") == "ndarray":
        p1, p2 = np.array(p1), np.array(p2)
    n = m["n"]
    nt = m.get("ntype")
    if nt == "tuple":
        n = tuple(n)
    elif nt in ("uint8", "int16", "int64", "uint32"):
        n = np.array(n, dtype=nt)
    elif nt == "npscalars":
        n = [np.int32(k) for k in n]
    return df.Mesh(region=df.Region(p1=p1, p2=p2, dims=m.get("dims"), units=m.get("units")), n=n)


def field_array(fd, n):
    dt = DTYPES[fd["dtype"]]
    if fd["dtype"] in EXTENDED:
        out = np.zeros(len(fd["vals"]), dtype=dt)
        for j, v in enumerate(fd["vals"]):
            out[j] = ld(v[0]) if fd["dtype"] == "longdouble" else ld(v[0]) + ld(v[1]) * np.clongdouble(1j)
        return out.reshape(*n, fd["nvdim"])
    vals = [num_py(v) for v in fd["vals"]]
    if fd["dtype"] in INT_KINDS:
        vals = [int(v) for v in vals]
    return np.array(vals, dtype=dt).reshape(*n, fd["nvdim"])


CALLER_DICTS = []      # (field, the dict handed to the constructor, its items at that time) of the current case


def build_field(fd, meshes, own_mesh=None):
    f = build_field_(fd, meshes, own_mesh)
    return f


def build_field_(fd, meshes, own_mesh=None):
    mesh = meshes[fd["mesh"]] if own_mesh is None else own_mesh
    arr = field_array(fd, [int(k) for k in mesh.n])
    valid = np.array(fd["valid"], dtype=bool).reshape(*mesh.n)
    vmap = fd.get("vmap")
    if vmap is not None:
        vmap = dict(vmap) if not isinstance(vmap, list) else {k: v for k, v in vmap}   # list keeps insertion order
    f = df.Field(mesh, nvdim=fd["nvdim"], value=arr, dtype=arr.dtype, valid=valid,
                 vdims=fd.get("vdims"), vdim_mapping=vmap, unit=fd.get("unit"))
    if vmap is not None:
        CALLER_DICTS.append((f, vmap, list(vmap.items())))
    return f


def caller_dict_clauses(rec):
    """the dict given to the Field constructor is neither kept (aliased) nor modified"""
    for f, d, items in CALLER_DICTS:
        if f.vdim_mapping is d:
            rec["oracle"].append("constructor-aliases-caller-dict")
        if list(d.items()) != items:
            rec["oracle"].append("caller-dict-modified")


def through_result_clauses(r, leaves, rec):
    """a result owns its mapping dict, mask and array: changing them through the result leaves every
    operand as it was.  Destroys r - call last."""
    if not isinstance(r, df.Field) or any(r is f for f in leaves):
        return
    for f in leaves:
        if r.vdim_mapping is f.vdim_mapping:
            rec["oracle"].append("result-shares-mapping-dict")
    before = [snapshot(f) for f in leaves]
    dims = list(r.mesh.region.dims)

    def item_assign():
        vm = r.vdim_mapping
        if len(vm):
            k0 = next(iter(vm))
            vm[k0] = dims[-1] if vm[k0] != dims[-1] else "changed"
        vm["probe_key"] = dims[0]

    def relabel():
        r.vdim_mapping.pop("probe_key", None)
        if r.vdims is not None:
            r.vdims = [f"n{j}w" for j in range(r.nvdim)]

    def write_valid():
        r.valid[...] = ~r.valid

    def write_array():
        r.array[...] = 0
        r.array += 1
    for fn in (item_assign, relabel, write_valid, write_array):
        attempt(fn)
    if [snapshot(f) for f in leaves] != before:
        rec["oracle"].append("operand-changed-through-result")


def ctype_of(e):
    if e[0] == "num":
        return e[3] if len(e) > 3 else None
    if e[0] == "vec":
        return e[4] if len(e) > 4 else None
    return e[3] if len(e) > 3 else None


def const_py(e, n):
    """the Python object handed to the implementation for a constant node"""
    ct = ctype_of(e)
    if ct == "longdouble":
        if e[0] == "num":
            return ld(e[2][0])
        vs = np.array([ld(v[0]) for v in e[2]], dtype=np.longdouble)
        return vs if e[0] == "vec" else vs.reshape(*n, e[1])
    if e[0] == "num":
        v = num_py(e[2])
        if ct == "pyint":
            return int(v)
        if ct is not None:
            return DTYPES[ct](int(v) if ct in INT_KINDS else v)
        if e[1]:
            return np.complex128(v) if isinstance(v, complex) else np.float64(v)
        return v
    if e[0] == "vec":
        vs = [num_py(v) for v in e[2]]
        if ct == "pyint":
            vs = [int(v) for v in vs]
        elif ct is not None:
            return np.array([int(v) for v in vs] if ct in INT_KINDS else vs, dtype=DTYPES[ct])
        if e[1]:
            return np.array(vs)
        return tuple(vs) if e[3] == "tuple" else list(vs)
    if e[0] == "arr":
        vs = [num_py(v) for v in e[2]]
        if ct == "nested":           # list of lists ... of lists, same shape as the per-cell ndarray
            return np.array(vs).reshape(*n, e[1]).tolist()
        if ct is not None:
            return np.array([int(v) for v in vs] if ct in INT_KINDS else vs, dtype=DTYPES[ct]).reshape(*n, e[1])
        return np.array(vs).reshape(*n, e[1])
    raise ValueError(e[0])


def make_consts(e, n, out=None):
    """one Python object per constant node, re-used by every evaluation of the case"""
    out = {} if out is None else out
    if is_const(e):
        out[id(e)] = const_py(e, n)
    elif e[0] == "un":
        make_consts(e[3], n, out)
    elif e[0] == "bin":
        make_consts(e[3], n, out)
        make_consts(e[4], n, out)
    return out


def const_snapshot(consts):
    out = []
    for k in sorted(consts):
        v = consts[k]
        if isinstance(v, np.ndarray):
            out.append((k, v.tobytes(), str(v.dtype), v.shape))
        else:
            out.append((k, type(v).__name__, repr(v)))
    return out


def is_const(e):
    return e[0] in ("num", "vec", "arr")


# ------------------------------------------------------------------ evaluation on the implementation
def ev_impl(e, leaves, n, consts=None):
    k = e[0]
    if k == "leaf":
        return leaves[e[1]]
    if is_const(e):
        if consts is not None and id(e) in consts:
            return consts[id(e)]
        return const_py(e, n)
    if k == "un":
        op, arg, x = e[1], e[2], ev_impl(e[3], leaves, n, consts)
        if op == "neg":
            return -x
        if op == "pos":
            return +x
        if op == "abs":
            return abs(x)
        if op == "real":
            return x.real
        if op == "imag":
            return x.imag
        if op == "conj":
            return x.conjugate
        if op == "cabs":
            return x.abs
        if op == "phase":
            return x.phase
        if op == "comp":
            if x.vdims is None:
                raise AttributeError("no components")
            return getattr(x, x.vdims[arg])
        if op == "uf1":
            return getattr(np, arg)(x)
        raise ValueError(op)
    if k == "bin":
        op, arg = e[1], e[2]
        a, b = ev_impl(e[3], leaves, n, consts), ev_impl(e[4], leaves, n, consts)
        if op == "add":
            return a + b
        if op == "sub":
            return a - b
        if op == "mul":
            return a * b
        if op == "div":
            return a / b
        if op == "pow":
            return a ** b
        if op == "dot":
            return a.dot(b) if (isinstance(a, df.Field) and arg != "op") else a @ b
        if op == "cross":
            return a.cross(b) if (isinstance(a, df.Field) and arg != "op") else a & b
        if op == "angle":
            return a.angle(b)
        if op == "stack":
            return a << b
        if op == "uf2":
            return getattr(np, arg)(a, b)
        raise ValueError(op)
    raise ValueError(k)


# ------------------------------------------------------------------ reference evaluation (numpy + exact)
class Ref:
    """float array, exact array (object dtype of CF), validity, the leaves used"""

    def __init__(self, fl, ex, valid=None, leaves=(), field=True):
        self.fl, self.ex, self.valid, self.leaves, self.field = fl, ex, valid, tuple(leaves), field


class Ctx:
    def __init__(self, case, leaves=None):
        self.case = case
        self.n = case["meshes"][0]["n"]
        self.leaf_data = None
        if leaves is not None:
            # the state the operands report NOW (after any in-place change)
            self.leaf_data = [(np.array(f.array, copy=True), np.array(f.valid, copy=True)) for f in leaves]
            if leaves:
                li = leaf_indices(case["expr"])
                self.n = [int(k) for k in leaves[li[0] if li else 0].mesh.n]
        self.t1, self.t2 = {}, {}
        self.ambiguous = False
        self.keys_exact = True
        self.scale = 0.0
        self.all_exact = True
        low = any(fd["dtype"] in LOWPREC for fd in case["fields"]) or lowprec_consts(case["expr"])
        self.rel = 4e-6 if low else 1e-9

    def see(self, fl):
        a = np.abs(np.asarray(fl, dtype=complex))
        if a.size:
            m = float(np.max(a))
            if not math.isfinite(m):
                raise FloatingPointError("non-finite")
            self.scale = max(self.scale, m)

    def tab1(self, fid, x, ex, out):
        if not same_exact(ex, x):
            self.keys_exact = False
        for a, b in zip(np.asarray(x).reshape(-1).tolist(), np.asarray(out).reshape(-1).tolist()):
            k_ = (fid, complex(a))
            if k_ in self.t1 and self.t1[k_] != complex(b):
                self.ambiguous = True      # +0.0 and -0.0 (one rational) with different function values
            self.t1[k_] = complex(b)

    def tab2(self, fid, x, y, exx, exy, out):
        if not (same_exact(exx, x) and same_exact(exy, y)):
            self.keys_exact = False
        xs, ys, os_ = np.broadcast_arrays(x, y, out)
        for a, b, c in zip(xs.reshape(-1).tolist(), ys.reshape(-1).tolist(), os_.reshape(-1).tolist()):
            k_ = (fid, complex(a), complex(b))
            if k_ in self.t2 and self.t2[k_] != complex(c):
                self.ambiguous = True
            self.t2[k_] = complex(c)


def leaf_indices(e):
    if e[0] == "leaf":
        return [e[1]]
    if is_const(e):
        return []
    if e[0] == "un":
        return leaf_indices(e[3])
    return leaf_indices(e[3]) + leaf_indices(e[4])


def contains_arr(e):
    if is_const(e):
        return e[0] == "arr"
    if e[0] == "un":
        return contains_arr(e[3])
    if e[0] == "bin":
        return contains_arr(e[3]) or contains_arr(e[4])
    return False


def lowprec_consts(e):
    if is_const(e):
        return ctype_of(e) in LOWPREC
    if e[0] == "un":
        return lowprec_consts(e[3])
    if e[0] == "bin":
        return lowprec_consts(e[3]) or lowprec_consts(e[4])
    return False


def field_dtype(arr):
    """Field(...) without dtype stores max(dtype, float64)"""
    arr = np.asarray(arr)
    if arr.dtype.kind in "fc" and arr.dtype.itemsize > (8 if arr.dtype.kind == "f" else 16):
        return arr.copy()
    return arr.astype(np.complex128) if np.iscomplexobj(arr) else arr.astype(np.float64)


def ev_ref(e, ctx):
    k = e[0]
    case = ctx.case
    if k == "leaf":
        if ctx.leaf_data is not None:
            arr, valid = ctx.leaf_data[e[1]]
            ctx.see(arr)
            return Ref(arr, to_exact(arr), valid, [e[1]])
        fd = case["fields"][e[1]]
        n = case["meshes"][fd["mesh"]]["n"]
        arr = field_array(fd, n)
        return Ref(arr, to_exact(arr), np.array(fd["valid"], dtype=bool).reshape(*n), [e[1]])
    if is_const(e):
        c = np.asarray(const_py(e, ctx.n))
        if isinstance(const_py(e, ctx.n), (int, float, complex)) and not isinstance(const_py(e, ctx.n), np.generic):
            c = const_py(e, ctx.n)        # Python numbers stay weakly typed in numpy arithmetic
        ctx.see(c)
        return Ref(c, to_exact(c), None, [], field=False)
    if k == "un":
        op, arg, x = e[1], e[2], ev_ref(e[3], ctx)
        fl, ex = x.fl, x.ex
        if op == "pos":
            return x
        if op == "neg":
            r, rex = -fl, omap(lambda v: -v, ex)
        elif op in ("abs", "cabs"):
            r = np.abs(fl)
            ctx.tab1(U_ABS, fl, ex, r)
            if np.iscomplexobj(fl):
                rex = to_exact(r)
            else:
                rex = omap(lambda v: CF(abs(v.re), 0), ex)
        elif op == "real":
            r, rex = np.real(fl).copy(), omap(lambda v: CF(v.re, 0), ex)
        elif op == "imag":
            r, rex = np.imag(fl).copy(), omap(lambda v: CF(v.im, 0), ex)
        elif op == "conj":
            r, rex = np.conjugate(fl), omap(lambda v: CF(v.re, -v.im), ex)
        elif op == "phase":
            r = np.angle(fl)
            ctx.tab1(U_PHASE, fl, ex, r)
            rex = to_exact(r)
        elif op == "comp":
            r, rex = fl[..., arg:arg + 1], ex[..., arg:arg + 1]
        elif op == "uf1":
            r = getattr(np, arg)(fl)
            if arg == "conjugate":
                rex = omap(lambda v: CF(v.re, -v.im), ex)
            elif arg == "absolute" and not np.iscomplexobj(fl):
                rex = omap(lambda v: CF(abs(v.re), 0), ex)
            else:
                ctx.tab1(UN_IDS[arg], fl, ex, r)
                rex = to_exact(r)
        else:
            raise ValueError(op)
        r = field_dtype(r)
        ctx.see(r)
        if not same_exact(rex, r):
            ctx.all_exact = False
        return Ref(r, rex, x.valid, x.leaves)
    if k == "bin":
        op, arg = e[1], e[2]
        a, b = ev_ref(e[3], ctx), ev_ref(e[4], ctx)
        fa, fb, xa, xb = a.fl, b.fl, a.ex, b.ex
        if op in ("mul", "dot", "cross", "angle") or (op == "uf2" and arg == "multiply"):
            # products that cancel (f x f, complex a*b): the rounding error is relative to |a| |b|
            ma = np.abs(np.asarray(fa, dtype=complex))
            mb = np.abs(np.asarray(fb, dtype=complex))
            if ma.size and mb.size:
                ctx.see(float(np.max(ma)) * float(np.max(mb)))
        alg = op if op in ALG else (BIN_ALG[arg].lower() if op == "uf2" and arg in BIN_ALG else None)
        if op in ALG:
            alg = op
        elif op == "uf2" and arg in BIN_ALG:
            alg = {"add": "add", "subtract": "sub", "multiply": "mul", "divide": "div", "power": "pow"}[arg]
        if alg == "add":
            r, rex = fa + fb, xa + xb
        elif alg == "sub":
            r, rex = fa - fb, xa - xb
        elif alg == "mul":
            r, rex = fa * fb, xa * xb
        elif alg == "div":
            r, rex = fa / fb, xa / xb
        elif alg == "pow":
            r = np.power(fa, fb)
            ctx.tab2(B_POW, fa, fb, xa, xb, r)
            rex = to_exact(r)
        elif op == "uf2":
            r = getattr(np, arg)(fa, fb)
            ctx.tab2(BIN_IDS[arg], fa, fb, xa, xb, r)
            rex = to_exact(r)
        elif op == "dot":
            r = np.einsum("...l,...l->...", fa, fb)[..., np.newaxis]
            p = xa * xb
            rex = np.empty(p.shape[:-1] + (1,), dtype=object)
            for idx in np.ndindex(*p.shape[:-1]):
                s = CF(0)
                for v in p[idx]:
                    s = s + v
                rex[idx + (0,)] = s
        elif op == "cross":
            fa_, fb_ = np.broadcast_arrays(fa, fb)
            xa_, xb_ = np.broadcast_arrays(xa, xb)
            if fa_.shape[-1] != 3:
                raise ValueError("cross needs 3 components")
            r = np.cross(fa_, fb_)

            def c3(u, v):
                return [u[1] * v[2] - u[2] * v[1], u[2] * v[0] - u[0] * v[2], u[0] * v[1] - u[1] * v[0]]
            rex = np.empty(xa_.shape, dtype=object)
            for idx in np.ndindex(*xa_.shape[:-1]):
                rex[idx] = c3(xa_[idx], xb_[idx])
        elif op == "angle":
            fa, fb = np.asarray(fa), np.asarray(fb)
            fb_ = np.broadcast_to(fb, fa.shape) if fb.ndim < fa.ndim or fb.shape != fa.shape else fb
            xb_ = np.broadcast_to(xb, xa.shape) if xb.shape != xa.shape else xb
            d = np.einsum("...l,...l->...", fa, fb_)[..., np.newaxis]
            sa = np.sum(fa * fa, axis=-1, keepdims=True)
            sb = np.sum(fb_ * fb_, axis=-1, keepdims=True)
            na = np.linalg.norm(fa, axis=-1, keepdims=True)
            nb = np.linalg.norm(fb_, axis=-1, keepdims=True)
            ctx.tab1(U_SQRT, sa, to_exact(sa), na)
            ctx.tab1(U_SQRT, sb, to_exact(sb), nb)
            q = d / (na * nb)
            if fa.shape[-1] != 1 and np.any(np.abs(q) > 1 - 1e-6):
                raise FloatingPointError("angle too close to 0 or pi")
            r = np.arccos(q)
            ctx.tab1(U_ARCCOS, q, to_exact(q), r)
            ctx.keys_exact = False
            rex = to_exact(r)
        elif op == "stack":
            fa, fb = np.asarray(fa), np.asarray(fb)
            n = tuple(ctx.n)
            fa2 = np.broadcast_to(fa, n + (fa.shape[-1] if fa.ndim else 1,)) if not a.field else fa
            fb2 = np.broadcast_to(fb, n + (fb.shape[-1] if fb.ndim else 1,)) if not b.field else fb
            xa2 = np.broadcast_to(xa, fa2.shape) if not a.field else xa
            xb2 = np.broadcast_to(xb, fb2.shape) if not b.field else xb
            r = np.concatenate([field_dtype(fa2), field_dtype(fb2)], axis=-1)
            rex = np.concatenate([xa2, xb2], axis=-1)
        else:
            raise ValueError(op)
        r = field_dtype(r)
        if r.ndim != len(ctx.n) + 1:
            raise ValueError("result is not a field array")
        ctx.see(r)
        if not same_exact(rex, r):
            ctx.all_exact = False
        va = a.valid if a.valid is not None else True
        vb = b.valid if b.valid is not None else True
        return Ref(r, rex, np.logical_and(va, vb), a.leaves + b.leaves)
    raise ValueError(k)


def ev_np(e, leaf_data, n):
    """plain numpy evaluation (no exact arithmetic, non-finite values allowed):
    (array or constant, validity or None, is_field)"""
    k = e[0]
    if k == "leaf":
        arr, valid = leaf_data[e[1]]
        return arr, valid, True
    if is_const(e):
        return const_py(e, n), None, False
    if k == "un":
        op, arg = e[1], e[2]
        x, v, _ = ev_np(e[3], leaf_data, n)
        if op == "pos":
            return x, v, True
        r = {"neg": lambda: -x, "abs": lambda: np.abs(x), "cabs": lambda: np.abs(x),
             "real": lambda: np.real(x).copy(), "imag": lambda: np.imag(x).copy(),
             "conj": lambda: np.conjugate(x), "phase": lambda: np.angle(x),
             "comp": lambda: x[..., arg:arg + 1], "uf1": lambda: getattr(np, arg)(x)}[op]()
        return field_dtype(r), v, True
    op, arg = e[1], e[2]
    a, va, fa_ = ev_np(e[3], leaf_data, n)
    b, vb, fb_ = ev_np(e[4], leaf_data, n)
    alg = op if op in ALG else None
    if op == "uf2" and arg in BIN_ALG:
        alg = {"add": "add", "subtract": "sub", "multiply": "mul", "divide": "div", "power": "pow"}[arg]
    if alg is not None:
        r = {"add": np.add, "sub": np.subtract, "mul": np.multiply, "div": np.divide, "pow": np.power}[alg](a, b)
    elif op == "uf2":
        r = getattr(np, arg)(a, b)
    elif op == "dot":
        r = np.einsum("...l,...l->...", a, b)[..., np.newaxis]
    elif op == "cross":
        a_, b_ = np.broadcast_arrays(np.asarray(a), np.asarray(b))
        r = np.cross(a_, b_)
    elif op == "angle":
        a_ = np.asarray(a)
        b_ = np.broadcast_to(np.asarray(b), a_.shape)
        # exactly the code's sequence of numpy calls (einsum, linalg.norm, product, quotient): arccos near +-1
        # turns one ulp into nan
        r = np.arccos(field_dtype(np.einsum("...l,...l->...", a_, b_)[..., np.newaxis])
                      / (field_dtype(np.linalg.norm(a_, axis=-1, keepdims=True))
                         * field_dtype(np.linalg.norm(b_, axis=-1, keepdims=True))))
    elif op == "stack":
        sh = tuple(n)
        a_, b_ = np.asarray(a), np.asarray(b)
        if not fa_:
            a_ = np.broadcast_to(a_, sh + (a_.shape[-1] if a_.ndim else 1,))
        if not fb_:
            b_ = np.broadcast_to(b_, sh + (b_.shape[-1] if b_.ndim else 1,))
        r = np.concatenate([field_dtype(a_), field_dtype(b_)], axis=-1)
    else:
        raise ValueError(op)
    r = field_dtype(r)
    if r.ndim != len(n) + 1:
        raise ValueError("result is not a field array")
    return r, np.logical_and(True if va is None else va, True if vb is None else vb), True


def zero_signs_equal(got, want):
    """where both arrays hold a zero, it is the same zero (+0.0 / -0.0), in real and imaginary part"""
    got, want = np.asarray(got), np.asarray(want)
    if got.shape != want.shape or got.dtype.kind not in "fc" or want.dtype.kind not in "fc":
        return True
    for part in (np.real, np.imag):
        g_, w_ = part(got), part(want)
        z = (g_ == 0) & (w_ == 0)
        if np.any(np.signbit(g_[z]) != np.signbit(w_[z])):
            return False
    return True


def has_reflected_cross(e):
    if e[0] == "un":
        return has_reflected_cross(e[3])
    if e[0] == "bin":
        if e[1] == "cross" and is_const(e[3]):
            return True       # -(self x other): numpy's other x self has the opposite zeros
        return has_reflected_cross(e[3]) or has_reflected_cross(e[4])
    return False


def same_pattern(got, want, rel):
    """NaN-aware comparison of raw arrays in EVERY cell: nan where nan, +-inf where +-inf, finite values
    equal up to rel * (largest finite magnitude)"""
    got, want = np.asarray(got), np.asarray(want)
    if got.shape != want.shape:
        return False
    for part in (np.real, np.imag):
        g_, w_ = part(got).astype(float), part(want).astype(float)
        if not np.array_equal(np.isnan(g_), np.isnan(w_)):
            return False
        inf = np.isinf(w_)
        if not np.array_equal(np.isinf(g_), inf) or not np.array_equal(g_[inf], w_[inf]):
            return False
        fin = np.isfinite(w_)
        if fin.any():
            scale = float(np.max(np.abs(w_[fin])))
            if np.any(np.abs(g_[fin] - w_[fin]) > rel * scale):
                return False
    return True


# ------------------------------------------------------------------ Gallina encoding
def cqs(z):
    z = complex(z)
    return f"(cq {g.q(F(z.real))} {g.q(F(z.imag))})"


def cq_pair(v):
    return f"(cq {g.q(v[0])} {g.q(v[1])})"


def qpair(v):
    return f"({g.q(v[0])}, {g.q(v[1])})"


def expr_coq(e):
    k = e[0]
    if k == "leaf":
        return f"(Leaf {g.nat(e[1])})"
    if k == "num":
        return f"(Const (CNum {g.b(e[1])} {cq_pair(e[2])}))"
    if k == "vec":
        return f"(Const (CVec {g.b(e[1])} {g.lst(e[2], cq_pair)}))"
    if k == "arr":
        kk = e[1]
        cells = [e[2][i:i + kk] for i in range(0, len(e[2]), kk)]
        return f"(Const (CArr {g.nat(kk)} {g.lst(cells, lambda c: g.lst(c, cq_pair))}))"
    if k == "un":
        op, arg = e[1], e[2]
        o = {"neg": "Neg", "pos": "Pos", "abs": "Abs", "real": "Real", "imag": "Imag", "conj": "Conj",
             "cabs": "CAbs", "phase": "Phase"}.get(op)
        if op == "comp":
            o = f"(Comp {g.nat(arg)})"
        if op == "uf1":
            o = f"(Uf1 {g.nat(UN_IDS[arg])})"
        return f"(Un {o} {expr_coq(e[3])})"
    op, arg = e[1], e[2]
    if op in ALG:
        o = f"(Alg {ALG[op]})"
    elif op == "uf2":
        o = f"(Uf2 (CAlg {BIN_ALG[arg]}))" if arg in BIN_ALG else f"(Uf2 (CTab {g.nat(BIN_IDS[arg])}))"
    else:
        o = {"dot": "Dot", "cross": "Cross", "angle": "Angle", "stack": "Stack"}[op]
    return f"(Bin {o} {expr_coq(e[3])} {expr_coq(e[4])})"


def mesh_lit(m):
    r = m.region
    return (f"({g.ql([F(float(x)) for x in r.pmin])}, {g.ql([F(float(x)) for x in r.pmax])}, "
            f"{g.zl([int(k) for k in m.n])}, {g.sl(list(r.dims))}, {g.sl(list(r.units))}, "
            f"{g.q(F(float(r.tolerance_factor)))})")


def field_obs(f, meshes):
    mi = next((j for j, m in enumerate(meshes) if f.mesh == m), len(meshes))
    nv = int(f.nvdim)
    cells = [[[F(float(np.real(x))), F(float(np.imag(x)))] for x in cell]
             for cell in np.asarray(f.array).reshape(-1, nv).tolist()]
    vm = f.vdim_mapping
    return dict(mesh=mi, nvdim=nv, cells=cells, valid=[bool(b) for b in np.asarray(f.valid).reshape(-1)],
                vdims=None if f.vdims is None else list(f.vdims),
                vmap=sorted((str(a), str(b)) for a, b in vm.items()))


def field_lit(o):
    cells = g.lst(o["cells"], lambda c: g.lst(c, qpair))
    vd = "None" if o["vdims"] is None else f"(Some {g.sl(o['vdims'])})"
    vm = g.lst(o["vmap"], lambda kv: f"({g.s(kv[0])}, {g.s(kv[1])})")
    return f"({g.nat(o['mesh'])}, {g.nat(o['nvdim'])}, {cells}, {g.bl(o['valid'])}, {vd}, {vm})"


# ------------------------------------------------------------------ generators
def rnum(rng, regime, cplx=False, nonzero=True):
    def one():
        while True:
            if regime == "exact":
                v = F(rng.randint(-24, 24), rng.choice([1, 1, 2, 4]))
            elif regime == "int":
                v = F(rng.randint(-9, 9))
            elif regime.startswith("pow2:"):      # tiny / huge magnitudes: any absolute tolerance shows
                v = F(rng.randint(-24, 24), rng.choice([1, 2, 4])) * F(2) ** int(regime[5:])
            else:
                v = F(rng.randint(-999, 999), 1000) * F(10) ** rng.choice([-3, 0, 0, 2])
                v = F(float(v))
            if v != 0 or not nonzero:
                return v
    re = one()
    im = one() if cplx else F(0)
    return [g.qs(re), g.qs(im)]


def gen_mesh(rng, tier):
    nd = rng.choice([1, 2, 2, 3, 3, 4])
    mx = 4 if nd <= 2 else (3 if nd == 3 else 2)
    n = [rng.randint(1, mx) for _ in range(nd)]
    cell = [F(rng.choice([1, 2, 3, 5]), rng.choice([1, 2, 4])) for _ in range(nd)]
    p1 = [F(rng.randint(-16, 16), 2) for _ in range(nd)]
    ptype = rng.choice(["float", "float", "int", "ndarray"])
    if ptype == "int":       # integer-typed corners, possibly fractional cells
        p1 = [F(rng.randint(-8, 8)) for _ in range(nd)]
        cell = [F(rng.randint(1, 6), k) for k in n]
    p2 = [a + k * c for a, k, c in zip(p1, n, cell)]
    r = rng.random()
    dims = None
    if nd > 3 or r < 0.3:
        dims = rng.sample(["x", "y", "z", "t", "r1", "k", "m"], nd)
    elif r < 0.45:
        dims = rng.sample(["V", "n", "r", "v", "x", "nn"], nd)     # unusual but legal names
    units = None
    if rng.random() < 0.25:
        units = [rng.choice(["m", "nm", "", "s", "rad"]) for _ in range(nd)]
    return dict(p1=[g.qs(x) for x in p1], p2=[g.qs(x) for x in p2], n=n, dims=dims, units=units, ptype=ptype,
                ntype=rng.choice(["list", "list", "tuple", "uint8", "int16", "uint32", "npscalars"]))


def gen_field(rng, mesh_i, meshes, nv, regime, dtype=None, plain=False):
    m = meshes[mesh_i]
    ncell = math.prod(m["n"])
    nd = len(m["n"])
    if dtype is None:
        dtype = rng.choice(["float"] * 6 + ["int"] * 2 + ["complex"] * 2)
    lim = {"uint8": 12, "uint16": 255, "int16": 181, "int32": 46340, "int": 3037000499}
    if dtype in ("uint8", "uint16", "int16", "int32") or (dtype == "int" and regime == "limits"):
        hi = lim[dtype]

        def one():
            v = rng.choice([hi, hi - 1, rng.randint(1, hi), rng.randint(1, min(hi, 9))])
            return v if dtype in UNSIGNED or rng.random() < 0.5 else -v
        vals = [[g.qs(one()), "0/1"] for _ in range(ncell * nv)]
    else:
        reg = "int" if dtype == "int" else ("exact" if regime == "limits" else regime)
        vals = [rnum(rng, reg, cplx=(dtype in ("complex", "complex64"))) for _ in range(ncell * nv)]
        if dtype in LOWPREC and not reg == "exact":
            vals = [[g.qs(F(float(np.float32(float(F(a))))))  , g.qs(F(float(np.float32(float(F(b))))))] for a, b in vals]
    pm = rng.choice([0.0, 0.0, 0.25, 0.5])
    valid = [rng.random() >= pm for _ in range(ncell)]
    vdims, vmap = None, None
    if not plain:
        if rng.random() < 0.45 and (nv > 1 or rng.random() < 0.3):
            vdims = rng.sample(LABELS, nv)
        labels = vdims or ({2: ["x", "y"], 3: ["x", "y", "z"]}.get(nv) or [f"v{i}" for i in range(nv)])
        dims = m["dims"] or (["x", "y", "z"][:nd] if nd <= 3 else [f"x{i}" for i in range(nd)])
        r = rng.random()
        if nv > 1 and r < 0.25:
            vmap = {}
        elif nv > 1 and r < 0.55:
            order = list(labels)
            rng.shuffle(order)                      # insertion order differs from vdims
            vmap = {lab: rng.choice(dims) for lab in order}
        elif nv == 1 and vdims is not None and r < 0.6:
            vmap = {vdims[0]: rng.choice(dims)}
    return dict(mesh=mesh_i, nvdim=nv, dtype=dtype, vals=vals, valid=valid, vdims=vdims, vmap=vmap,
                unit=rng.choice([None, None, "A/m", ""]))


class Gen:
    """builds one expression tree together with the leaves it needs"""

    def __init__(self, rng, tier, regime, meshes, allow_cplx=True):
        self.rng, self.tier, self.regime, self.meshes = rng, tier, regime, meshes
        self.fields = []
        self.allow_cplx = allow_cplx
        self.ncell = math.prod(meshes[0]["n"])

    def leaf(self, nv, mesh_i=0, dtype=None, reuse=True):
        rng = self.rng
        cands = [i for i, f in enumerate(self.fields) if f["nvdim"] == nv and f["mesh"] == mesh_i
                 and (dtype is None or f["dtype"] == dtype)]
        if cands and reuse and (rng.random() < 0.4 or len(self.fields) >= 5):
            return ["leaf", rng.choice(cands)]
        if dtype is None and not self.allow_cplx:
            dtype = rng.choice(["float", "float", "float", "int"])
        self.fields.append(gen_field(rng, mesh_i, self.meshes, nv, self.regime, dtype))
        return ["leaf", len(self.fields) - 1]

    def num(self, cplx=False, np_=None):
        rng = self.rng
        return ["num", bool(rng.random() < 0.3) if np_ is None else np_,
                rnum(rng, self.regime, cplx=cplx and rng.random() < 0.5)]

    def vec(self, k, cplx=False, np_=None):
        rng = self.rng
        return ["vec", bool(rng.random() < 0.3) if np_ is None else np_,
                [rnum(rng, self.regime, cplx=cplx and rng.random() < 0.3) for _ in range(k)],
                rng.choice(["tuple", "list"])]

    def arr(self, k, cplx=False):
        rng = self.rng
        return ["arr", k, [rnum(rng, self.regime, cplx=cplx and rng.random() < 0.3)
                           for _ in range(self.ncell * k)]]

    def operand(self, k, self_nv, depth, real_only, allow_num=True):
        """an operand with exactly k components that a field of self_nv components accepts"""
        rng = self.rng
        r = rng.random()
        cplx = self.allow_cplx and not real_only
        vec_ok = k == self_nv or self_nv == 1
        if k == 1 and allow_num and r < 0.3:
            return self.num(cplx)
        if vec_ok and r < 0.42 and not (k == 1 and self_nv != 1):
            return self.vec(k, cplx)
        if vec_ok and r < 0.52 and not (k == 1 and self_nv != 1):
            return self.arr(k, cplx)
        return self.fexpr(depth - 1, k, real_only)

    def fexpr(self, depth, nv, real_only=False):
        """a field-valued expression with nv components"""
        rng = self.rng
        if depth <= 0 or rng.random() < 0.2:
            return self.leaf(nv, dtype=(rng.choice(["float", "int"]) if real_only else None))
        r = rng.random()
        if r < 0.22:   # unary, same shape
            ops = ["neg", "pos", "abs", "real", "imag", "conj"]
            if self.allow_cplx and not real_only:
                ops += ["cabs", "phase"]
            op = rng.choice(ops)
            if op in ("cabs", "phase") or (op == "abs" and not real_only and rng.random() < 0.5):
                pass
            return ["un", op, None, self.fexpr(depth - 1, nv, real_only)]
        if r < 0.30:   # numpy unary ufunc
            names = ["sin", "cos", "exp", "tanh", "arctan", "square", "negative", "absolute", "conjugate"]
            ro = real_only
            if rng.random() < 0.3:
                names, ro = ["sign", "floor"], True
            return ["un", "uf1", rng.choice(names), self.fexpr(depth - 1, nv, ro)]
        if r < 0.36 and nv == 1:   # component of a vector
            k = rng.choice([2, 3, 4])
            return ["un", "comp", rng.randrange(k), self.fexpr(depth - 1, k, real_only)]
        if r < 0.44 and nv == 1:   # dot / angle
            k = rng.choice([1, 2, 3, 4])
            if rng.random() < 0.7:
                a = self.fexpr(depth - 1, k, real_only)
                b = self.operand(k, k, depth, real_only, allow_num=False)
                if is_const(b) and b[0] == "vec" and not b[1] and rng.random() < 0.3:
                    return ["bin", "dot", "op", b, a]       # tuple @ field -> __rmatmul__
                return ["bin", "dot", rng.choice(["m", "op"]) if not is_const(b) else "m", a, b]
            k = rng.choice([2, 3])
            a = self.fexpr(max(0, depth - 2), k, True)
            b = rng.choice([self.vec(k, False), self.fexpr(0, k, True), self.arr(k)])
            return ["bin", "angle", None, a, b]
        if r < 0.50 and nv == 3:   # cross
            a = self.fexpr(depth - 1, 3, real_only)
            c = rng.random()
            if c < 0.5:
                return ["bin", "cross", rng.choice(["m", "op"]), a, self.fexpr(depth - 1, 3, real_only)]
            v = self.vec(3, False, np_=False) if c < 0.85 else self.arr(3)
            if v[0] == "vec" and rng.random() < 0.4:
                return ["bin", "cross", "op", v, a]          # tuple & field -> __rand__
            return ["bin", "cross", "m" if v[0] == "arr" else rng.choice(["m", "op"]), a, v]
        if r < 0.60 and nv >= 2:   # stacking
            k = rng.randint(1, nv - 1)
            c = rng.random()
            if c < 0.6:
                return ["bin", "stack", None, self.fexpr(depth - 1, k, real_only),
                        self.fexpr(depth - 1, nv - k, real_only)]
            a = self.fexpr(depth - 1, k, real_only)
            v = self.num(False, np_=False) if nv - k == 1 and rng.random() < 0.5 else self.vec(nv - k, False, np_=False)
            return ["bin", "stack", None, a, v] if c < 0.8 else ["bin", "stack", None, v, a]
        # arithmetic: operators or the ufunc spelling
        op = rng.choice(["add", "sub", "mul", "div", "add", "mul", "pow"])
        if op == "pow":
            a = self.fexpr(min(depth - 1, 1), nv, True)
            ex = ["num", bool(rng.random() < 0.3), [g.qs(rng.choice([0, 1, 2, 2, 3])), "0/1"]]
            if rng.random() < 0.25:
                return ["bin", "uf2", "power", a, ex]
            return ["bin", "pow", None, a, ex]
        shape = rng.choice(["vv", "vv", "vs", "sv"]) if nv > 1 else "ss"
        ka = 1 if shape in ("sv", "ss") else nv
        kb = 1 if shape in ("vs", "ss") else nv
        a = self.fexpr(depth - 1, ka, real_only)
        b = self.operand(kb, ka, depth, real_only)
        spell = rng.random()
        if spell < 0.2:
            name = {"add": "add", "sub": "subtract", "mul": "multiply", "div": "divide"}[op]
            if is_const(b) and b[0] in ("vec",) and not b[1]:
                b[1] = True      # tuples are not accepted by the ufunc protocol: use an ndarray
            return ["bin", "uf2", name, a, b] if rng.random() < 0.6 else ["bin", "uf2", name, b, a]
        if spell < 0.26 and real_only is not None:
            name = rng.choice(sorted(BIN_IDS))
            a = self.fexpr(min(depth - 1, 1), ka, True)
            b2 = self.fexpr(0, kb, True) if rng.random() < 0.6 else ["num", True, rnum(rng, self.regime)]
            if is_const(b2) and ka != nv:
                b2 = self.fexpr(0, kb, True)
            return ["bin", "uf2", name, a, b2]
        if is_const(b) and rng.random() < 0.45:
            return ["bin", op, None, b, a]        # reflected operator / ufunc protocol for numpy operands
        return ["bin", op, None, a, b]


def contains_op(e, names):
    if e[0] in ("leaf", "num", "vec", "arr"):
        return False
    if e[0] == "un":
        return e[1] in names or (e[1] == "uf1" and e[2] in names) or contains_op(e[3], names)
    return e[1] in names or (e[1] == "uf2" and e[2] in names) or contains_op(e[3], names) or contains_op(e[4], names)


def expr_case(rng, tier, kind="expr"):
    regime = rng.choice(["exact"] * 6 + ["scale"] * 2 + ["pow2:-200", "pow2:300", "pow2:-60", "pow2:100"][:4 if True else 0]
                        if rng.random() < 0.5 else ["exact", "exact", "exact", "scale"])
    meshes = [gen_mesh(rng, tier)]
    gen = Gen(rng, tier, regime, meshes, allow_cplx=rng.random() < 0.35)
    depth = rng.choice([1, 2, 2, 3, 3]) if tier == "quick" else rng.choice([1, 2, 3, 3, 4, 5])
    if regime.startswith("pow2"):
        depth = min(depth, 2)
    nv = rng.choice([1, 1, 2, 3, 3, 4])
    e = gen.fexpr(depth, nv)
    if e[0] == "leaf":
        e = ["un", rng.choice(["neg", "pos", "abs"]), None, e]
    return dict(kind=kind, regime=regime, meshes=meshes, fields=gen.fields, expr=e, expect="accept")


def commute_case(rng, tier):
    """a (op) b and b (op) a with assorted label / mapping configurations"""
    regime = rng.choice(["exact", "exact", "scale"])
    meshes = [gen_mesh(rng, tier)]
    gen = Gen(rng, tier, regime, meshes, allow_cplx=rng.random() < 0.3)
    cfg = rng.choice(["sv", "sv", "vs", "vv-same", "vv-diff", "ss", "v-const", "s-const"])
    k = rng.choice([2, 3, 4])
    if cfg in ("sv", "vs"):
        a, b = gen.leaf(1, reuse=False), gen.leaf(k, reuse=False)
        if cfg == "vs":
            a, b = b, a
    elif cfg == "ss":
        a, b = gen.leaf(1, reuse=False), gen.leaf(1, reuse=False)
    elif cfg in ("vv-same", "vv-diff"):
        a, b = gen.leaf(k, reuse=False), gen.leaf(k, reuse=False)
        fa, fb = gen.fields[a[1]], gen.fields[b[1]]
        if cfg == "vv-same":
            fb["vdims"], fb["vmap"] = fa["vdims"], fa["vmap"]
    elif cfg == "v-const":
        a = gen.leaf(k, reuse=False)
        b = rng.choice([gen.num(np_=False), gen.vec(k, np_=False), gen.num(np_=True), gen.vec(k, np_=True), gen.arr(k)])
    else:
        a = gen.leaf(1, reuse=False)
        b = rng.choice([gen.num(np_=False), gen.vec(k, np_=False), gen.vec(k, np_=True), gen.arr(k)])
    op = rng.choice(["mul", "add"])
    if rng.random() < 0.4:          # numpy spelling; tuples / lists are not ufunc operands
        for x in (a, b):
            if x[0] == "vec":
                x[1] = True
        op, arg = "uf2", {"mul": "multiply", "add": "add"}[op]
    else:
        arg = None
    e = ["bin", op, arg, a, b] if rng.random() < 0.5 else ["bin", op, arg, b, a]
    return dict(kind="commute", regime=regime, meshes=meshes, fields=gen.fields, expr=e, expect="accept", cfg=cfg)


def stackcomp_case(rng, tier):
    regime = rng.choice(["exact", "scale"])
    meshes = [gen_mesh(rng, tier)]
    gen = Gen(rng, tier, regime, meshes, allow_cplx=rng.random() < 0.3)
    k = rng.choice([2, 3, 4])
    f = gen.leaf(k, reuse=False)
    e = ["un", "comp", 0, f]
    for j in range(1, k):
        e = ["bin", "stack", None, e, ["un", "comp", j, f]]
    return dict(kind="stackcomp", regime=regime, meshes=meshes, fields=gen.fields, expr=e, expect="accept")


def shifted_mesh(m, how, rng):
    p1 = [F(x) for x in m["p1"]]
    p2 = [F(x) for x in m["p2"]]
    n = list(m["n"])
    dims = m["dims"]
    edge = min(b - a for a, b in zip(p1, p2))
    big = max(abs(x) for x in p1 + p2)
    atol = edge * F(1, 10 ** 12)
    if how == "equal":
        pass
    elif how == "near":          # well inside the tolerance of Mesh.allclose
        d = F(float(atol / 4))
        ax = rng.randrange(len(p1))
        p1[ax] += d
        p2[ax] += d
    elif how == "off":           # well outside the tolerance
        d = F(float(4 * (atol + big * F(1, 10 ** 12))))
        ax = rng.randrange(len(p1))
        if rng.random() < 0.5:
            p1[ax] -= d
        else:
            p2[ax] += d
    elif how == "far":
        sh = F(rng.choice([1, 5, -3])) * edge
        p1 = [x + sh for x in p1]
        p2 = [x + sh for x in p2]
    elif how == "cell":          # moved by exactly one cell along one axis
        ax = rng.randrange(len(p1))
        d = (p2[ax] - p1[ax]) / n[ax]
        p1[ax] += d
        p2[ax] += d
    elif how == "ten":           # one edge 10 % longer
        ax = rng.randrange(len(p1))
        p2[ax] += (p2[ax] - p1[ax]) / 10
    elif how == "scaled":
        p2 = [a + 2 * (b - a) for a, b in zip(p1, p2)]
    elif how == "dims":
        nd = len(p1)
        dims = ["u", "v", "w", "o"][:nd]
    elif how == "n":
        ax = rng.randrange(len(n))
        n[ax] += 1
    elif how == "ndim":
        p1, p2, n = p1 + [F(0)], p2 + [edge], n + [1]
        dims = None if dims is None or len(p1) > 3 else None
        if len(p1) > 3:
            dims = [f"d{i}" for i in range(len(p1))]
    return dict(p1=[g.qs(F(float(x))) for x in p1], p2=[g.qs(F(float(x))) for x in p2], n=n, dims=dims,
                units=(m.get("units") if len(p1) == len(m["p1"]) else None), ptype=m.get("ptype"),
                ntype=m.get("ntype"))


def reject_case(rng, tier):
    """binary operations whose operands live on two meshes / have incompatible component counts"""
    regime = "exact"
    m0 = gen_mesh(rng, tier)
    msc = rng.choice([None, None, None, -9, -9, -12, -10, -6, 3])     # geometry at nm ... pm scales as well
    if msc is not None:
        f_ = F(10) ** msc
        m0["p1"] = [g.qs(F(float(F(x) * f_))) for x in m0["p1"]]
        m0["p2"] = [g.qs(F(float(F(x) * f_))) for x in m0["p2"]]
        m0["ptype"] = "float"
    how = rng.choice(["equal", "near", "off", "far", "scaled", "dims", "n", "ndim", "nvdim", "nvdim", "cell", "ten",
                      "cell", "ten"])
    meshes = [m0, shifted_mesh(m0, how if how != "nvdim" else "equal", rng)]
    gen = Gen(rng, tier, regime, meshes, allow_cplx=False)
    op = rng.choice(["add", "sub", "mul", "div", "dot", "cross", "angle", "stack", "stack", "stack", "uf2", "uf2"])
    ka = rng.choice([1, 2, 3, 4])
    kb = ka if rng.random() < 0.6 else rng.choice([1, 2, 3, 4])
    if how == "nvdim":
        ka, kb = rng.sample([2, 3, 4], 2)
        if rng.random() < 0.3:
            ka, kb = rng.choice([(1, 3), (3, 1), (2, 3)])
    if op == "cross" and rng.random() < 0.7:
        ka = kb = 3
    a = gen.leaf(ka, 0, dtype="float", reuse=False)
    b = gen.leaf(kb, 1, dtype="float", reuse=False)
    arg = None
    if op == "uf2":
        arg = rng.choice(["add", "multiply", "subtract", "arctan2", "maximum"])
    if op in ("dot", "cross"):
        arg = rng.choice(["m", "op"])
    e = ["bin", op, arg, a, b]
    if rng.random() < 0.3:
        e = ["un", "neg", None, e]
    same = how in ("equal", "near")
    if op in ("add", "sub", "mul", "div", "uf2"):
        compat = ka == kb or ka == 1 or kb == 1
    elif op == "stack":
        compat = True
        same = how == "equal"       # << compares with ==, not allclose
        if how == "near":
            same = None             # == on corners that differ in the last bits: either way is legitimate
    elif op == "cross":
        compat = ka == 3 and kb == 3
    else:
        compat = ka == kb
    expect = "accept" if (same and compat) else ("free" if same is None else "reject")
    return dict(kind="reject", regime=regime, meshes=meshes, fields=gen.fields, expr=e, expect=expect,
                how=how, nv=[ka, kb], clearly_different=how in ("off", "far", "scaled", "dims", "n", "ndim", "cell", "ten"), msc=msc,
                incompatible=not compat)


def malformed_case(rng, tier):
    """constants of the wrong length / unsupported operand kinds: accept/reject must agree with the model"""
    meshes = [gen_mesh(rng, tier)]
    gen = Gen(rng, tier, "exact", meshes, allow_cplx=False)
    ka = rng.choice([1, 2, 3, 4])
    a = gen.leaf(ka, reuse=False)
    kb = rng.choice([k for k in [1, 2, 3, 4, 5] if k != ka])
    c = rng.choice([gen.vec(kb, np_=False), gen.vec(kb, np_=True), gen.arr(kb), gen.num(np_=False)])
    op = rng.choice(["add", "mul", "sub", "div", "dot", "cross", "pow", "stack"])
    if op == "pow":
        c = ["num", False, [g.qs(2), "0/1"]]
    arg = "m" if op in ("dot", "cross") else None
    e = ["bin", op, arg, a, c]
    if rng.random() < 0.4 and not (c[0] != "num" and c[1] is True and op in ("dot", "cross", "stack")) \
            and not (c[0] == "arr" and op in ("dot", "cross", "stack")):
        e = ["bin", op, "op" if arg else None, c, a]
    return dict(kind="malformed", regime="exact", meshes=meshes, fields=gen.fields, expr=e, expect="free")


def typed_const(rng, kind, k, ncell, unsigned_ok=True):
    """numbers / vectors / per-cell arrays of assorted Python and numpy types"""
    ints = ["pyint", "int32", "int64", "uint8", "uint16"] if unsigned_ok else ["pyint", "int32", "int64"]
    ct = rng.choice(ints + ["float32", None, "complex64"])

    def val():
        if ct in ints:
            return [g.qs(rng.randint(1, 9)), "0/1"]
        re = F(rng.randint(-24, 24) or 3, rng.choice([1, 2, 4]))
        im = F(rng.randint(-8, 8) or 1, 2) if ct == "complex64" else F(0)
        return [g.qs(re), g.qs(im)]
    np_flag = ct not in ("pyint", None) or rng.random() < 0.4
    if kind == "num":
        return ["num", np_flag, val(), ct]
    if kind == "vec":
        return ["vec", np_flag, [val() for _ in range(k)], rng.choice(["tuple", "list"]), ct]
    return ["arr", k, [val() for _ in range(ncell * k)], None if ct == "pyint" else ct]


def typed_case(rng, tier):
    """integer (incl. unsigned, near the overflow limit of squares) / float32 / complex64 fields against
    typed constants and against each other"""
    meshes = [gen_mesh(rng, tier)]
    ncell = math.prod(meshes[0]["n"])
    dta = rng.choice(["uint8", "uint16", "int16", "int32", "int", "float32", "complex64", "float", "int"])
    gen = Gen(rng, tier, "limits", meshes, allow_cplx=False)
    nv = rng.choice([1, 2, 3])
    gen.fields.append(gen_field(rng, 0, meshes, nv, "limits", dta))
    a = ["leaf", 0]
    r = rng.random()
    tags = []
    if dta in UNSIGNED and r > 0.7:
        # non-integral number / tuple / list minus an unsigned field (reflected subtraction)
        b = rng.choice([["num", False, [g.qs(F(rng.randint(1, 9), 2)), "0/1"]],
                        ["vec", False, [[g.qs(F(rng.randint(1, 29), 2)), "0/1"] for _ in range(nv)],
                         rng.choice(["tuple", "list"])]])
        e = ["bin", "sub", None, b, a]
    elif r < 0.2:
        e = ["un", rng.choice(["abs", "pos", "real", "conj"]) if dta in UNSIGNED else
             rng.choice(["abs", "neg", "pos", "real", "imag", "conj"]), None, a]
        if rng.random() < 0.5:
            e = ["un", "uf1", "square", a]
    else:
        op = rng.choice(["add", "mul", "mul", "div", "sub"])
        kind = rng.choice(["num", "vec", "arr", "leaf", "leaf"])
        if kind == "leaf":
            dtb = rng.choice([dta, dta, "float", "int32", "float32", "uint8", "complex64"])
            if op == "sub" and (dta in UNSIGNED or dtb in UNSIGNED):
                op = "add"
            kb = nv if rng.random() < 0.7 else 1
            gen.fields.append(gen_field(rng, 0, meshes, kb, "limits", dtb))
            b = ["leaf", 1]
        else:
            kb = 1 if kind == "num" else nv
            b = typed_const(rng, kind, kb, ncell, unsigned_ok=(op != "sub"))
            if op == "sub" and dta in UNSIGNED and ctype_of(b) in ("pyint", "int32", "int64"):
                b = typed_const(rng, kind, kb, ncell, unsigned_ok=False)
                b = ["num", False, [g.qs(F(5, 2)), "0/1"]] if kind == "num" else b
        e = ["bin", op, None, a, b] if rng.random() < 0.55 else ["bin", op, None, b, a]
        if rng.random() < 0.2 and op in ("add", "mul") and not (is_const(b) and b[0] == "vec" and not b[1]):
            name = {"add": "add", "mul": "multiply"}[op]
            e = ["bin", "uf2", name, e[3], e[4]]
    return dict(kind="typed", regime="limits", meshes=meshes, fields=gen.fields, expr=e, expect="free", dta=dta)


def reuse_case(rng, tier, force_norm_probe=None):
    """operands that are used first (derived quantities, the expression itself), then changed in place
    through public calls, then used again; the model sees the state they report afterwards"""
    c = expr_case(rng, "quick", kind="reuse")
    norm_probe = (rng.random() < 0.3) if force_norm_probe is None else force_norm_probe
    if norm_probe:
        # an expression that goes through Field.norm (angle), evaluated before and after a write into the array
        meshes = [gen_mesh(rng, tier)]
        gen = Gen(rng, tier, "exact", meshes, allow_cplx=False)
        k = rng.choice([2, 3])
        a = gen.leaf(k, dtype="float", reuse=False)
        b = rng.choice([gen.vec(k, False), gen.leaf(k, dtype="float", reuse=False), gen.arr(k)])
        e = ["bin", "angle", None, a, b]
        if rng.random() < 0.4:
            e = ["bin", rng.choice(["mul", "add"]), None, e, gen.leaf(1, dtype="float", reuse=False)]
        c = dict(kind="reuse", regime="exact", meshes=meshes, fields=gen.fields, expr=e, expect="free")
    c["own_mesh"] = True
    nd = len(c["meshes"][0]["n"])
    steps = []
    uniform = True
    for _ in range(rng.choice([1, 1, 2, 3])):
        op = rng.choice(["translate", "scale", "region_translate", "region_scale", "rot", "write", "write",
                         "imul", "setvalid", "validitem"])
        which = "all" if rng.random() < 0.7 else rng.randrange(5)
        st = dict(op=op, which=which, salt=rng.randrange(1000))
        if op in ("translate", "region_translate"):
            st["v"] = [g.qs(F(rng.randint(-12, 12), rng.choice([1, 2]))) for _ in range(nd)]
        elif op in ("scale", "region_scale"):
            st["peraxis"] = rng.random() < 0.5
            st["v"] = [g.qs(F(rng.choice([2, 3, -1, -2, 1]), rng.choice([1, 2]))) for _ in range(nd)]
        elif op == "rot":
            if nd < 2:
                continue
            a, b = rng.sample(range(nd), 2)
            st.update(ax=[a, b], k=rng.choice([1, 1, 3, -1, 2]))
            st["which"] = "all"
        elif op == "write":
            st["vals"] = [rnum(rng, "exact") for _ in range(7)]
            st["stride"] = rng.choice([1, 2, 3])
        elif op == "imul":
            st["c"] = rng.choice([2, -1, 3])
        if st["which"] != "all" and op in ("translate", "scale", "region_translate", "region_scale"):
            uniform = False
        steps.append(st)
    if norm_probe:
        steps.insert(rng.randrange(len(steps) + 1),
                     dict(op=rng.choice(["write", "imul"]), which=0, salt=1, c=rng.choice([2, 3]), stride=rng.choice([1, 2]),
                          vals=[rnum(rng, "exact") for _ in range(7)]))
    c["steps"] = steps
    c["expect"] = "accept" if uniform and c["expect"] == "accept" else "free"
    if any(s_["op"] == "rot" for s_ in steps):
        c["expect"] = "free"         # rotating vector fields needs a complete mapping
    return c


def nonfinite_case(rng, tier, form=None, mask=None, dtype=None):
    """zero cells (whole vectors) that are masked invalid, and expressions that are non-finite exactly there:
    x/0, 0/0, 0**-1, inf*0, inf-inf; also the same data with the zeros left valid"""
    meshes = [gen_mesh(rng, tier)]
    while math.prod(meshes[0]["n"]) < 3:
        meshes = [gen_mesh(rng, tier)]
    ncell = math.prod(meshes[0]["n"])
    gen = Gen(rng, tier, "exact", meshes, allow_cplx=False)
    dt = dtype or rng.choice(["float", "float", "float", "complex", "float32"])
    zeros = [rng.random() < 0.35 for _ in range(ncell)]
    zeros[rng.randrange(ncell)] = True
    zeros[(zeros.index(True) + 1) % ncell] = False
    mask_kind = mask or rng.choice(["norm", "norm", "norm", "norm+", "all", "inverse"])

    def field(nv, zero_cells=True, dtype=dt):
        fd = gen_field(rng, 0, meshes, nv, "exact", dtype)
        for c_ in range(ncell):
            if zero_cells and zeros[c_]:
                for j in range(nv):
                    fd["vals"][c_ * nv + j] = ["0/1", "0/1"]
        fd["valid"] = {"norm": [not z for z in zeros],
                       "norm+": [(not z) and rng.random() < 0.7 for z in zeros],
                       "all": [True] * ncell,
                       "inverse": list(zeros)}[mask_kind if zero_cells else rng.choice(["all", "norm"])]
        gen.fields.append(fd)
        return ["leaf", len(gen.fields) - 1]
    k = rng.choice([1, 2, 3])
    b = field(1)                      # scalar with zero cells
    form = form or rng.choice(["v/b", "v/b", "c/b", "v/v", "b**-1", "(c/b)*b", "(c/b)-(c/b)", "v/|v|", "np.divide", "b/b"])
    one = ["num", bool(rng.random() < 0.3), [g.qs(F(rng.randint(1, 6))), "0/1"]]
    if form == "v/b":
        e = ["bin", "div", None, field(k, zero_cells=rng.random() < 0.6), b]
    elif form == "c/b":
        e = ["bin", "div", None, one, b]
    elif form == "v/v":
        v = field(k)
        e = ["bin", "div", None, v, v]
    elif form == "b/b":
        e = ["bin", "div", None, b, ["un", "neg", None, b]]
    elif form == "b**-1":
        e = ["bin", "pow", None, b, ["num", False, ["-1/1", "0/1"]]]
    elif form == "(c/b)*b":
        e = ["bin", "mul", None, ["bin", "div", None, one, b], rng.choice([b, field(k)])]
    elif form == "(c/b)-(c/b)":
        x = ["bin", "div", None, one, b]
        e = ["bin", "sub", None, x, ["bin", "div", None, ["num", False, ["2/1", "0/1"]], b]]
    elif form == "v/|v|":
        v = field(k)
        nrm = ["un", "uf1", "sqrt", ["bin", "dot", "m", v, v]] if dt != "complex" else ["un", "abs", None, b]
        e = ["bin", "div", None, v, nrm]
    else:
        e = ["bin", "uf2", "divide", field(k, zero_cells=rng.random() < 0.6), b]
    return dict(kind="nonfinite", regime="exact", meshes=meshes, fields=gen.fields, expr=e, expect="accept",
                form=form, mask=mask_kind)


def arraylike_case(rng, tier, op=None, kind=None):
    """every method that takes 'a field or something array-like', driven with per-cell ndarrays, nested
    lists, (nvdim,) vectors and numbers on meshes with more than one cell"""
    meshes = [gen_mesh(rng, tier)]
    while math.prod(meshes[0]["n"]) < 2:
        meshes = [gen_mesh(rng, tier)]
    regime = rng.choice(["exact", "exact", "scale"])
    gen = Gen(rng, tier, regime, meshes, allow_cplx=False)
    op = op or rng.choice(["angle", "angle", "angle", "dot", "cross", "stack", "add", "sub", "mul", "div"])
    k = 3 if op == "cross" else rng.choice([1, 2, 3, 4])
    a = gen.leaf(k, dtype=rng.choice(["float", "float", "int"]), reuse=False)
    kinds = ["arr", "arr", "nested", "vec"] + (["num"] if k == 1 and op not in ("dot", "cross") else [])
    if k == 1 and op in ("angle",):
        kinds = ["arr", "nested", "num"]
    kind = kind if kind in kinds else rng.choice(kinds)
    if kind == "arr":
        b = gen.arr(k)
    elif kind == "nested":
        b = gen.arr(k) + ["nested"]
    elif kind == "vec":
        b = gen.vec(k, False)
    else:
        b = gen.num(False)
    arg = "m" if op in ("dot", "cross") else None
    e = ["bin", op, arg, a, b]
    if kind == "arr" and op in ("add", "mul", "sub", "div") and rng.random() < 0.3:
        e = ["bin", op, arg, b, a]
    return dict(kind="arraylike", regime=regime, meshes=meshes, fields=gen.fields, expr=e, expect="accept")


def coincide_case(rng, tier, kind=None, form=None, cont=None):
    """value coincidences: constants / second operands drawn from the field's own cell values, so that
    differences are exact zeros whose SIGN numpy defines; continued with sign-sensitive steps"""
    meshes = [gen_mesh(rng, tier)]
    while math.prod(meshes[0]["n"]) < 2:
        meshes = [gen_mesh(rng, tier)]
    ncell = math.prod(meshes[0]["n"])
    gen = Gen(rng, tier, "exact", meshes, allow_cplx=False)
    k = rng.choice([1, 1, 2, 3])
    a = gen.leaf(k, dtype="float", reuse=False)
    fa = gen.fields[a[1]]
    cell = rng.randrange(ncell)
    kind = kind or (rng.choice(["num", "vec", "arr", "leaf"]) if k > 1 else rng.choice(["num", "num", "arr", "leaf"]))
    if kind == "vec" and k == 1:
        kind = "num"
    if kind == "num":
        b = ["num", bool(rng.random() < 0.3), list(fa["vals"][cell * k + rng.randrange(k)])]
    elif kind == "vec":
        b = ["vec", bool(rng.random() < 0.3), [list(v) for v in fa["vals"][cell * k:(cell + 1) * k]],
             rng.choice(["tuple", "list"])]
    elif kind == "arr":
        vals = [list(v) if rng.random() < 0.5 else rnum(rng, "exact") for v in fa["vals"]]
        b = ["arr", k, vals]
    else:
        b = gen.leaf(k, dtype="float", reuse=False)
        fb = gen.fields[b[1]]
        fb["vals"] = [list(v) if rng.random() < 0.5 else w for v, w in zip(fa["vals"], fb["vals"])]
    form = form or rng.choice(["b-a", "b-a", "a-b", "b+(-a)", "np.subtract(b,a)", "a*0"])
    if form == "b-a":
        d = ["bin", "sub", None, b, a]
    elif form == "a-b":
        d = ["bin", "sub", None, a, b]
    elif form == "b+(-a)":
        d = ["bin", "add", None, b, ["un", "neg", None, a]]
    elif form == "np.subtract(b,a)":
        if is_const(b) and b[0] == "vec":
            b[1] = True
        d = ["bin", "uf2", "subtract", b, a]
    else:
        d = ["bin", "mul", None, ["un", "neg", None, a], ["num", False, ["0/1", "0/1"]]]
    cont = cont or rng.choice(["none", "none", "1/x", "1/x", "arctan2", "copysign", "signbit", "neg"])
    oracle_only = cont in ("arctan2", "copysign", "signbit")     # the sign of zero is not a rational
    if cont == "1/x":
        e = ["bin", "div", None, ["num", False, ["1/1", "0/1"]], d]
    elif cont == "arctan2":
        e = ["bin", "uf2", "arctan2", d, ["num", True, ["-1/1", "0/1"]]]
    elif cont == "copysign":
        e = ["bin", "uf2", "copysign", ["num", True, ["3/1", "0/1"]], d]
    elif cont == "signbit":
        e = ["un", "uf1", "signbit", d]
    elif cont == "neg":
        e = ["un", "neg", None, d]
    else:
        e = d
    return dict(kind="coincide", regime="exact", meshes=meshes, fields=gen.fields, expr=e, expect="accept",
                oracle_only=oracle_only, form=form, cont=cont)


def extended_case(rng, tier, form=None):
    """extended-precision (np.longdouble / np.clongdouble) fields: result dtype and values compared exactly
    with the numpy expression evaluated in long double (oracle-only: no Coq record)"""
    meshes = [gen_mesh(rng, tier)]
    ncell = math.prod(meshes[0]["n"])
    gen = Gen(rng, tier, "exact", meshes, allow_cplx=False)

    def ldval():
        r = rng.random()
        if r < 0.35:
            x = np.longdouble(rng.randint(1, 9)) / np.longdouble(rng.choice([3, 7, 9, 11]))     # e.g. 1/3 in long double
        elif r < 0.7:
            x = np.longdouble(rng.randint(-9, 9)) + np.longdouble(2) ** -60 * rng.choice([1, -1, 3])
        else:
            x = np.longdouble(rng.randint(1, 24)) / 4
        return g.qs(frac_exact(x))

    def leaf(nv, dtype):
        fd = gen_field(rng, 0, meshes, nv, "exact", "float")
        fd["dtype"] = dtype
        fd["vals"] = [[ldval(), ldval() if dtype == "clongdouble" else "0/1"] for _ in range(ncell * nv)]
        gen.fields.append(fd)
        return ["leaf", len(gen.fields) - 1]
    k = rng.choice([1, 2, 3])
    a = leaf(k, rng.choice(["longdouble", "longdouble", "clongdouble"]))
    form = form or rng.choice(["un", "num", "vec", "ldarr", "leaf", "leaf64", "dot", "stack", "ufunc", "uf1", "comp"])
    if form == "un":
        e = ["un", rng.choice(["neg", "abs", "real", "imag", "conj", "pos"]), None, a]
    elif form == "uf1":
        e = ["un", "uf1", rng.choice(["square", "negative", "absolute", "exp", "sin"]), a]
    elif form == "comp":
        e = ["un", "comp", rng.randrange(k), a] if k > 1 else ["un", "neg", None, a]
    else:
        op = rng.choice(["add", "sub", "mul", "div"])
        if form == "num":
            b = ["num", False, rnum(rng, "scale")]
        elif form == "vec":
            b = ["vec", bool(rng.random() < 0.5), [rnum(rng, "scale") for _ in range(k)], "tuple"]
        elif form == "ldarr":
            b = ["arr", k, [[ldval(), "0/1"] for _ in range(ncell * k)], "longdouble"]
        elif form == "leaf64":
            b = gen.leaf(rng.choice([1, k]), dtype=rng.choice(["float", "int", "float32"]), reuse=False)
        else:
            b = leaf(rng.choice([1, k]) if form in ("leaf", "ufunc") else k, "longdouble")
        if form == "dot":
            e = ["bin", "dot", "m", a, b]
        elif form == "stack":
            e = ["bin", "stack", None, a, b]
        elif form == "ufunc":
            e = ["bin", "uf2", rng.choice(["add", "multiply", "subtract", "divide", "hypot", "maximum"]), a, b]
            if e[2] in ("hypot", "maximum"):
                gen.fields[a[1]]["dtype"] = "longdouble"
                for v in gen.fields[a[1]]["vals"]:
                    v[1] = "0/1"
        else:
            e = ["bin", op, None, a, b] if rng.random() < 0.6 else ["bin", op, None, b, a]
    return dict(kind="extended", regime="exact", meshes=meshes, fields=gen.fields, expr=e, expect="accept",
                oracle_only=True)


# ------------------------------------------------------------------ directed core (identical in every run)
def core_cases():
    """one small group of directed cases per mechanism that a seeded change or a repaired defect exposed;
    built from a fixed generator, so the list is the same for every seed and tier"""
    import random
    R = random.Random(424242)
    Q = g.qs
    out = []
    m1 = dict(p1=["0/1"], p2=["3/1"], n=[3], dims=None)
    m2 = dict(p1=["0/1", "-1/1"], p2=["2/1", "1/1"], n=[2, 2], dims=None)
    m3 = dict(p1=["0/1", "0/1", "1/2"], p2=["2/1", "1/1", "5/2"], n=[2, 1, 2], dims=None)
    dn = {1: ["x"], 2: ["x", "y"], 3: ["x", "y", "z"]}

    def fld(fields, meshes, nv, dtype="float", vdims=None, vmap=None, valid=None, mesh=0, negative=False):
        fd = gen_field(R, mesh, meshes, nv, "exact", dtype, plain=True)
        fd.update(vdims=vdims, vmap=vmap, unit=None)
        ncell = math.prod(meshes[mesh]["n"])
        fd["valid"] = [True] * ncell if valid is None else [bool(valid[j % len(valid)]) for j in range(ncell)]
        if negative:
            for j in range(0, len(fd["vals"]), 2):
                v = F(fd["vals"][j][0])
                fd["vals"][j][0] = Q(-abs(v) if v != 0 else F(-3))
        fields.append(fd)
        return ["leaf", len(fields) - 1]

    def add(tag, kind, meshes, fields, e, expect="accept", **kw):
        out.append(dict(kind=kind, regime="exact", meshes=[dict(m) for m in meshes], fields=fields, expr=e,
                        expect=expect, core=tag, **kw))

    def num(v, np_=False, ct=None):
        x = ["num", np_, [Q(F(v)), "0/1"]]
        return x + [ct] if ct else x

    def vec(vs, np_=False, seq="tuple", ct=None):
        x = ["vec", np_, [[Q(F(v)), "0/1"] if not isinstance(v, complex) else [Q(F(v.real)), Q(F(v.imag))] for v in vs], seq]
        return x + [ct] if ct else x

    def arr(m, k, ct=None, cplx=False):
        nc = math.prod(m["n"])
        x = ["arr", k, [rnum(R, "exact", cplx=cplx) for _ in range(nc * k)]]
        return x + [ct] if ct else x

    # a1  << must not touch the left operand's mapping
    for m in (m2, m3):
        nd = len(m["n"])
        d = dn[nd]
        fs = []
        a = fld(fs, [m], 2, vdims=["a", "b"], vmap={"a": d[0], "b": d[-1]})
        b = fld(fs, [m], 2, vdims=["p", "q"], vmap={"p": d[-1], "q": d[0]})
        add("a1", "expr", [m], fs, ["bin", "stack", None, a, b])
        fs = []
        a = fld(fs, [m], 2, vdims=["a", "b"], vmap={"b": d[0], "a": d[-1]})
        s_ = fld(fs, [m], 1, vdims=["s"], vmap={"s": d[0]})
        add("a1", "expr", [m], fs, ["bin", "stack", None, ["un", "neg", None, a], s_])
        add("a1", "expr", [m], [dict(f) for f in fs], ["bin", "stack", None, a, s_])
    # a2 / h7  ufunc(scalar, vector) and scalar (op) vector keep the vector's labels, both orders
    for m in (m1, m2, m3):
        nd = len(m["n"])
        for vd, vm in ((["a", "b", "c"][:max(2, nd)], None), (None, None)):
            k = max(2, nd)
            fs = []
            s_ = fld(fs, [m], 1)
            labels = vd or dn[3][:k]
            v = fld(fs, [m], k, vdims=vd, vmap={lab: dn[nd][(j + 1) % nd] for j, lab in enumerate(labels)})
            for name in ("multiply", "add"):
                add("a2", "commute", [m], [dict(f) for f in fs], ["bin", "uf2", name, s_, v])
                add("a2", "commute", [m], [dict(f) for f in fs], ["bin", "uf2", name, v, s_])
            add("h7", "commute", [m], [dict(f) for f in fs], ["bin", "mul", None, s_, v])
            add("h7", "commute", [m], [dict(f) for f in fs], ["bin", "add", None, v, s_])
    # a3 / h5  scalar (op) vector and ufuncs on two different meshes with equal n are refused
    for m in (m1, m2, m3):
        for how in ("far", "scaled", "cell"):
            mm = [m, shifted_mesh(m, how, R)]
            for op, arg in (("add", None), ("mul", None), ("sub", None), ("div", None), ("uf2", "add")):
                fs = []
                s_ = fld(fs, mm, 1, mesh=0)
                v = fld(fs, mm, 3, mesh=1)
                e = ["bin", op, arg, s_, v] if R.random() < 0.5 else ["bin", op, arg, v, s_]
                add("a3", "reject", mm, fs, e, expect="reject", how=how, clearly_different=True, incompatible=False)
    # b1  dot of complex fields is the plain sum of products
    for m in (m1, m2):
        for k in (2, 3):
            fs = []
            a = fld(fs, [m], k, "complex")
            b = fld(fs, [m], k, "complex")
            add("b1", "expr", [m], [dict(f) for f in fs], ["bin", "dot", "m", a, b])
            add("b1", "expr", [m], [dict(f) for f in fs], ["bin", "dot", "op", b, a])
            add("b1", "expr", [m], [dict(f) for f in fs], ["bin", "dot", "m", a, vec([1.5, -2, 0.5][:k])])
            add("b1", "expr", [m], [dict(f) for f in fs], ["bin", "dot", "m", a, arr(m, k, cplx=True)])
            add("b1", "expr", [m], [dict(f) for f in fs], ["bin", "dot", "op", vec([2, 0.25, -1][:k]), a])
    # b2  array-like operands are not cast to the field's dtype
    for m in (m1, m2):
        for seq, np_ in (("tuple", False), ("list", False), ("tuple", True)):
            fs = []
            a = fld(fs, [m], 3, "int")
            op = R.choice(["mul", "add", "sub", "div"])
            add("b2", "expr", [m], fs, ["bin", op, None, a, vec([0.5, 1.5, 2.25], np_, seq)])
        fs = []
        a = fld(fs, [m], 2, "int")
        add("b2", "expr", [m], fs, ["bin", "mul", None, a, ["arr", 2, [[Q(F(2 * j + 1, 4)), "0/1"] for j in range(2 * math.prod(m["n"]))]]])
        fs = []
        a = fld(fs, [m], 2, "float")
        add("b2", "expr", [m], fs, ["bin", "mul", None, a, vec([1 + 2j, -0.5j], True)])
        fs = []
        a = fld(fs, [m], 2, "float")
        add("b2", "expr", [m], fs, ["bin", "add", None, a, vec([0.5 + 1j, 2 - 1j], False)])
        fs = []
        a = fld(fs, [m], 2, "float")
        add("b2", "expr", [m], fs, ["bin", "mul", None, a, arr(m, 2, cplx=True)])
    # b3  cross leaves the left operand's mask alone
    for m in (m1, m2, m3):
        for arg in ("m", "op"):
            fs = []
            a = fld(fs, [m], 3)
            b = fld(fs, [m], 3, valid=[True, False, True, False])
            add("b3", "expr", [m], [dict(f) for f in fs], ["bin", "cross", arg, a, b])
            add("b3", "expr", [m], [dict(f) for f in fs], ["bin", "add", None, ["bin", "cross", arg, a, b], a])
    # c1  non-finite values in masked cells are numpy's
    for form in ("v/b", "c/b", "v/v", "b**-1", "(c/b)*b", "(c/b)-(c/b)", "b/b"):
        for mask in ("norm", "norm+"):
            out.append(dict(nonfinite_case(R, "quick", form=form, mask=mask, dtype=R.choice(["float", "complex"])), core="c1"))
    # c2  phase of real fields
    for m in (m1, m2):
        for dt in ("float", "int"):
            fs = []
            a = fld(fs, [m], 2, dt, negative=True)
            add("c2", "expr", [m], fs, ["un", "phase", None, a])
    # c3 / h2  array-like operands of angle, dot, cross, <<, + - * /
    for op in ("angle", "angle", "angle", "dot", "cross", "stack", "mul", "sub"):
        for kind in ("arr", "nested"):
            out.append(dict(arraylike_case(R, "quick", op=op, kind=kind), core="c3"))
    for m in (m1, m2):
        fs = []
        a = fld(fs, [m], 1)
        add("h2", "arraylike", [m], fs, ["bin", "stack", None, a, arr(m, 2 if m["n"][0] != 2 else 3)])
        fs = []
        a = fld(fs, [m], 2)
        add("h2", "arraylike", [m], fs, ["bin", "stack", None, a, arr(m, 1) + ["nested"]])
    # d1  reflected subtraction where cells coincide with the constant (sign of zero)
    for kind in ("num", "vec", "arr"):
        for cont in ("none", "1/x", "arctan2", "copysign", "signbit"):
            out.append(dict(coincide_case(R, "quick", kind=kind, form="b-a", cont=cont), core="d1"))
    for form in ("a-b", "b+(-a)", "np.subtract(b,a)", "a*0"):
        out.append(dict(coincide_case(R, "quick", form=form, cont="none"), core="d1"))
    # d2  << refuses different meshes at every length scale
    for m in (m1, m2, m3):
        for msc in (-9, -12):
            f_ = F(10) ** msc
            ms = dict(m, p1=[Q(F(float(F(x) * f_))) for x in m["p1"]], p2=[Q(F(float(F(x) * f_))) for x in m["p2"]],
                      ptype="float")
            for how in ("cell", "ten", "far"):
                mm = [ms, shifted_mesh(ms, how, R)]
                fs = []
                a = fld(fs, mm, R.choice([1, 2]), mesh=0)
                b = fld(fs, mm, R.choice([1, 2]), mesh=1)
                add("d2", "reject", mm, fs, ["bin", "stack", None, a, b], expect="reject", how=how, msc=msc,
                    clearly_different=True, incompatible=False)
    # d3  extended precision survives every result
    for form in ("un", "num", "vec", "ldarr", "leaf", "leaf64", "dot", "stack", "ufunc", "uf1", "comp"):
        out.append(dict(extended_case(R, "quick", form=form), core="d3"))
    # e1  equal component count, different labels: still combined cell by cell
    for m in (m1, m2):
        for op, arg in (("add", None), ("mul", None), ("sub", None), ("div", None), ("dot", "m"), ("cross", "m"),
                        ("angle", None), ("pow", None)):
            if op == "pow":
                continue
            fs = []
            a = fld(fs, [m], 3)
            b = fld(fs, [m], 3, vdims=["mx", "my", "mz"])
            add("e1", "expr", [m], fs, ["bin", op, arg, a, b])
    # e2  abs keeps a non-default mapping
    fs = []
    a = fld(fs, [m3], 3, vdims=["a", "b", "c"], vmap={"a": "z", "b": "y", "c": "x"}, negative=True)
    add("e2", "expr", [m3], fs, ["un", "abs", None, a])
    fs = []
    a = fld(fs, [m3], 3, vmap={}, negative=True)
    add("e2", "expr", [m3], fs, ["un", "abs", None, a])
    fs = []
    a = fld(fs, [m2], 3, vmap={"x": "x", "y": "y", "z": "x"}, negative=True)
    add("e2", "expr", [m2], fs, ["un", "abs", None, a])
    fs = []
    a = fld(fs, [m2], 2, vdims=["p", "q"], vmap={"q": "x", "p": "y"}, negative=True)
    add("e2", "expr", [m2], fs, ["bin", "mul", None, ["un", "abs", None, a], num(2)])
    # e3  number << field keeps the operand order
    for m in (m1, m2):
        for c_ in (num(2.5), num(3, ct="pyint"), ["num", False, [Q(F(1, 2)), Q(F(-2))]]):
            fs = []
            a = fld(fs, [m], 2)
            add("e3", "expr", [m], fs, ["bin", "stack", None, c_, a])
        fs = []
        a = fld(fs, [m], 1)
        add("e3", "expr", [m], fs, ["bin", "stack", None, vec([1, 2]), a])
    # h1  number / tuple minus an unsigned field
    for dt in ("uint8", "uint16"):
        fs = []
        a = fld(fs, [m2], 2, dt)
        add("h1", "typed", [m2], fs, ["bin", "sub", None, num(2.5), a], expect="free", dta=dt)
        fs = []
        a = fld(fs, [m2], 2, dt)
        add("h1", "typed", [m2], fs, ["bin", "sub", None, vec([0.5, 7.5], False, "list"), a], expect="free", dta=dt)
    # h6  a labelled scalar broadcast against a constant vector / a vector field
    fs = []
    s_ = fld(fs, [m2], 1, vdims=["a"], vmap={"a": "x"})
    v = fld(fs, [m2], 2)
    add("h6", "expr", [m2], [dict(f) for f in fs], ["bin", "mul", None, s_, vec([1, 2])])
    add("h6", "expr", [m2], [dict(f) for f in fs], ["bin", "uf2", "multiply", s_, v])
    add("h6", "commute", [m2], [dict(f) for f in fs], ["bin", "mul", None, s_, v])
    # h4  operands used, changed in place, used again (angle goes through Field.norm)
    for _ in range(6):
        out.append(dict(reuse_case(R, "quick", force_norm_probe=True), core="h4"))
    for _ in range(6):
        out.append(dict(reuse_case(R, "quick", force_norm_probe=False), core="h4"))
    return out


def generate(rng, tier):
    cases = core_cases()      # seed- and tier-independent directed core, always first
    if os.environ.get("C03_CORE_ONLY"):
        return cases
    q = tier == "quick"
    for _ in range(300 if q else 2600):
        cases.append(expr_case(rng, tier))
    for _ in range(100 if q else 700):
        cases.append(commute_case(rng, tier))
    for _ in range(25 if q else 150):
        cases.append(stackcomp_case(rng, tier))
    for _ in range(110 if q else 700):
        cases.append(reject_case(rng, tier))
    for _ in range(60 if q else 400):
        cases.append(malformed_case(rng, tier))
    for _ in range(100 if q else 700):
        cases.append(typed_case(rng, tier))
    for _ in range(100 if q else 700):
        cases.append(reuse_case(rng, tier))
    for _ in range(70 if q else 500):
        cases.append(nonfinite_case(rng, tier))
    for _ in range(90 if q else 600):
        cases.append(arraylike_case(rng, tier))
    for _ in range(80 if q else 500):
        cases.append(coincide_case(rng, tier))
    for _ in range(60 if q else 400):
        cases.append(extended_case(rng, tier))
    return cases


# ------------------------------------------------------------------ running a case
def snapshot(f):
    reg = f.mesh.region
    vm = f.vdim_mapping
    return (f.array.tobytes(), str(f.array.dtype), f.array.shape, f.valid.tobytes(), f.valid.shape, str(f.valid.dtype),
            None if f.vdims is None else tuple(f.vdims), tuple(sorted(vm.items())), tuple(vm.keys()),
            int(f.nvdim), f.unit, repr(f.mesh),
            np.asarray(reg.pmin).tobytes(), np.asarray(reg.pmax).tobytes(), np.asarray(f.mesh.n).tobytes(),
            tuple(reg.dims), tuple(reg.units), f.mesh.bc, repr(sorted(f.mesh.subregions.items(), key=str)),
            id(f.mesh), id(reg), id(f.array), id(f.valid), id(vm))


def touch(f):
    """use the operand before it is changed in place (anything cached would be cached now)"""
    nd = f.mesh.region.ndim
    for fn in (lambda: f.norm.array.sum(), lambda: f.mesh.cell, lambda: f.mesh.dV,
               lambda: f.mesh.index2point((0,) * nd), lambda: f.mesh.point2index(f.mesh.region.center),
               lambda: next(iter(f.mesh)), lambda: f.mesh.region.edges, lambda: f.mean(),
               lambda: f._valid_as_field.array.sum()):
        attempt(fn)


def apply_steps(c, leaves):
    """public in-place changes between two uses of the same operands"""
    failed = []
    for k, s_ in enumerate(c.get("steps", [])):
        op = s_["op"]
        which = s_.get("which", "all")
        targets = leaves if which == "all" else [leaves[which % len(leaves)]]
        for f in targets:
            nd = f.mesh.region.ndim
            v = [float(F(x)) for x in s_.get("v", [])][:nd]
            v += [v[-1]] * (nd - len(v)) if v else []

            def go():
                if op == "translate":
                    f.mesh.translate(v, inplace=True)
                elif op == "scale":
                    f.mesh.scale(v if s_.get("peraxis") else v[0], inplace=True)
                elif op == "region_translate":
                    f.mesh.region.translate(v, inplace=True)
                elif op == "region_scale":
                    f.mesh.region.scale(v if s_.get("peraxis") else v[0], inplace=True)
                elif op == "rot":
                    d = f.mesh.region.dims
                    a, b = s_["ax"][0] % nd, s_["ax"][1] % nd
                    f.rotate90(d[a], d[b], k=s_["k"], inplace=True)
                elif op == "write":
                    flat = f.array.reshape(-1)
                    vals = [num_py(x) for x in s_["vals"]]
                    for j in range(0, flat.size, s_.get("stride", 1)):
                        x = vals[j % len(vals)]
                        flat[j] = int(np.real(x)) if f.array.dtype.kind in "iu" else (
                            np.real(x) if f.array.dtype.kind == "f" else x)
                elif op == "imul":
                    f.array *= int(s_["c"])
                elif op == "setvalid":
                    m_ = np.array([(j * 7 + s_["salt"]) % 3 != 0 for j in range(f.valid.size)]).reshape(f.valid.shape)
                    f.valid = m_
                elif op == "validitem":
                    f.valid.reshape(-1)[s_["salt"] % f.valid.size] = False
                else:
                    raise ValueError(op)
            st, r = attempt(go)
            if st != "ok":
                failed.append((k, r))
    return failed


def same_result(r1, r2):
    if isinstance(r1, df.Field) != isinstance(r2, df.Field):
        return False
    if not isinstance(r1, df.Field):
        return True
    return (r1.nvdim == r2.nvdim and r1.mesh == r2.mesh and np.array_equal(r1.valid, r2.valid)
            and r1.array.shape == r2.array.shape and str(r1.array.dtype) == str(r2.array.dtype)
            and np.array_equal(r1.array, r2.array, equal_nan=True) and vec_labels(r1) == vec_labels(r2))


def root_alg(e):
    """add / sub / mul / div when the root is that operator or its numpy spelling"""
    if e[0] != "bin":
        return None
    if e[1] in ("add", "sub", "mul", "div"):
        return e[1]
    if e[1] == "uf2":
        return {"add": "add", "subtract": "sub", "multiply": "mul", "divide": "div"}.get(e[2])
    return None


def mesh_close(a, b):
    try:
        return bool(a.allclose(b))
    except Exception:  # noqa: BLE001  (different dims raise)
        return False


def pos_chain_leaf(e):
    while e[0] == "un" and e[1] == "pos":
        e = e[3]
    return e[1] if e[0] == "leaf" else None


def vec_labels(f):
    return (None if f.vdims is None else tuple(f.vdims), tuple(sorted(f.vdim_mapping.items())))


def run_oracle_only(c, rec):
    """cases outside the rational model (signed zeros as data, extended precision): the implementation's raw
    array, dtype and validity against plain numpy on the same operand arrays, exactly"""
    meshes = [build_mesh(m) for m in c["meshes"]]
    leaves = [build_field(fd, meshes) for fd in c["fields"]]
    e = c["expr"]
    n = [int(k) for k in meshes[0].n]
    consts = make_consts(e, n)
    before = ([snapshot(f) for f in leaves], const_snapshot(consts))
    st, r = attempt(lambda: ev_impl(e, leaves, n, consts))
    st2, r2 = attempt(lambda: ev_impl(e, leaves, n, consts))
    after = ([snapshot(f) for f in leaves], const_snapshot(consts))
    if before[0] != after[0]:
        rec["oracle"].append("operand-modified")
    if before[1] != after[1]:
        rec["oracle"].append("constant-argument-modified")
    if (st2 == "ok") != (st == "ok") or (st == "ok" and not same_result(r, r2)):
        rec["oracle"].append("repeat-differs")
    obs = dict(status=st, err=None if st == "ok" else r)
    leaf_data = [(np.array(f.array, copy=True), np.array(f.valid, copy=True)) for f in leaves]
    want = None
    try:
        with np.errstate(all="ignore"):
            want, want_valid, _ = ev_np(e, leaf_data, n)
    except Exception as ex:  # noqa: BLE001
        obs["numpy"] = type(ex).__name__
    if st == "ok" and isinstance(r, df.Field) and want is not None:
        obs.update(dtype=str(r.array.dtype), want_dtype=str(want.dtype))
        extended = any(fd["dtype"] in EXTENDED for fd in c["fields"])
        if extended and r.array.dtype != want.dtype:
            rec["oracle"].append("result-dtype-differs")
        if r.array.shape != want.shape or not np.array_equal(r.array.astype(want.dtype), want, equal_nan=True):
            rec["oracle"].append("array-not-cellwise")
        elif not zero_signs_equal(r.array, want):
            rec["oracle"].append("zero-sign-differs")
        if not np.array_equal(r.valid, want_valid if want_valid is not None else np.ones(n, bool)):
            rec["oracle"].append("validity-not-and-of-operands")
        for f in leaves:
            if r is not f and (np.shares_memory(r.array, f.array) or np.shares_memory(r.valid, f.valid)):
                rec["oracle"].append("result-aliases-operand")
        through_result_clauses(r, leaves, rec)
    elif st != "ok" and want is not None and c.get("expect") == "accept":
        rec["oracle"].append("valid-expression-rejected")
    caller_dict_clauses(rec)
    rec.update(obs=obs, coq=None, key=f'{c["kind"]}/{st}/{shape_key(e, c)}', nontrivial=True,
               size=sum(len(fd["vals"]) for fd in c["fields"]))
    rec["oracle"] = sorted(set(rec["oracle"]))
    return rec


def run_case(c):
    rec = dict(kind=c["kind"], case=c, oracle=[], tags=[])
    del CALLER_DICTS[:]
    if c.get("oracle_only"):
        return run_oracle_only(c, rec)
    meshes = [build_mesh(m) for m in c["meshes"]]
    if c.get("own_mesh"):
        # every field on its own (equal) Mesh object, so that in-place mesh changes can be applied per field
        leaves = [build_field(fd, meshes, own_mesh=build_mesh(c["meshes"][fd["mesh"]])) for fd in c["fields"]]
    else:
        leaves = [build_field(fd, meshes) for fd in c["fields"]]
    e = c["expr"]
    size = sum(len(fd["vals"]) for fd in c["fields"]) + 5 * len(repr(e).split("["))
    obs_extra = {}
    if c.get("steps") is not None:
        # first use: derived quantities and the operation under test itself, checked against numpy
        n1 = [int(k) for k in leaves[0].mesh.n]
        for f in leaves:
            touch(f)
        consts1 = make_consts(e, n1)
        st1, r1 = attempt(lambda: ev_impl(e, leaves, n1, consts1))
        ctx1 = Ctx(c, leaves)
        try:
            with np.errstate(all="ignore"):
                ref1 = ev_ref(e, ctx1)
            if st1 == "ok" and isinstance(r1, df.Field) and np.all(np.isfinite(ref1.fl)) and \
                    np.all(np.isfinite(r1.array)):
                if r1.array.shape != ref1.fl.shape or np.any(
                        np.abs(r1.array.astype(complex) - ref1.fl.astype(complex)) > 10 * ctx1.rel * ctx1.scale):
                    rec["oracle"].append("array-not-cellwise")
        except Exception:  # noqa: BLE001
            pass
        obs_extra["steps_failed"] = js(apply_steps(c, leaves))
        meshes = meshes + [f.mesh for f in leaves]
    used_leaves = leaf_indices(e)
    first = leaves[used_leaves[0]] if used_leaves else (leaves[0] if leaves else None)
    n = [int(k) for k in (first.mesh.n if first is not None else meshes[0].n)]
    # a partly refused in-place rotation can leave the operands with different n: per-cell constants then
    # have no common shape
    shapes_differ = len({tuple(int(k) for k in leaves[i].mesh.n) for i in used_leaves}) > 1
    consts = make_consts(e, n)
    before = ([snapshot(f) for f in leaves], const_snapshot(consts))
    st, r = attempt(lambda: ev_impl(e, leaves, n, consts))
    after = ([snapshot(f) for f in leaves], const_snapshot(consts))
    if before[0] != after[0]:
        rec["oracle"].append("operand-modified")
    if before[1] != after[1]:
        rec["oracle"].append("constant-argument-modified")
    # the same call again, with the same argument objects: same result, operands still untouched
    st_r, r_r = attempt(lambda: ev_impl(e, leaves, n, consts))
    again = ([snapshot(f) for f in leaves], const_snapshot(consts))
    if again != before:
        rec["oracle"].append("operand-modified")
    if (st_r == "ok") != (st == "ok") or (st == "ok" and not same_result(r, r_r)):
        rec["oracle"].append("repeat-differs")
    if st == "ok" and not isinstance(r, df.Field):
        st, r = "err", "NotAField"
    # reference evaluation on the state the operands report now
    ctx = Ctx(c, leaves)
    ref, ref_err = None, None
    try:
        with np.errstate(all="ignore"):
            ref = ev_ref(e, ctx)
            if not np.all(np.isfinite(ref.fl)):
                raise FloatingPointError("non-finite result")
    except (FloatingPointError, ZeroDivisionError, OverflowError):
        ref_err = "nonfinite"
    except Exception as ex:  # noqa: BLE001  (shape mismatch etc.: the expression is not well formed)
        ref_err = type(ex).__name__
    expect = c.get("expect", "free")
    leaf_obs = [field_obs(f, meshes) for f in leaves]
    obs = dict(status=st, err=None if st == "ok" else r, **obs_extra)
    key = f'{c["kind"]}/{st}/{shape_key(e, c)}'
    if st == "ok" and not np.all(np.isfinite(np.asarray(r.array))):
        ref_err = "nonfinite"
    if ref_err == "nonfinite":
        # division by zero / overflow / 0/0 somewhere: outside the rational model (no Coq record); the raw
        # array is compared with numpy's own result in EVERY cell, valid or not, nan-aware
        if st == "ok":
            try:
                with np.errstate(all="ignore"):
                    want, want_valid, _ = ev_np(e, ctx.leaf_data, n)
                low = 1e-4 if ctx.rel > 1e-9 else 1e-9
                if not same_pattern(r.array, want, low):
                    rec["oracle"].append("array-not-cellwise-nonfinite")
                elif not has_reflected_cross(e) and not zero_signs_equal(r.array, want):
                    rec["oracle"].append("zero-sign-differs")
                if not np.array_equal(r.valid, want_valid if want_valid is not None else np.ones(n, bool)):
                    rec["oracle"].append("validity-not-and-of-operands")
                obs["nonfinite_compared"] = True
            except Exception as ex:  # noqa: BLE001  (numpy itself rejects the expression)
                obs["nonfinite_compared"] = type(ex).__name__
        elif expect == "accept":
            try:
                with np.errstate(all="ignore"):
                    ev_np(e, ctx.leaf_data, n)
                rec["oracle"].append("valid-expression-rejected")
            except Exception:  # noqa: BLE001
                pass
        if st == "ok":
            through_result_clauses(r, leaves, rec)
        caller_dict_clauses(rec)
        rec.update(obs=obs, coq=None, key=key + "/nonfinite", size=size, nontrivial=False)
        rec["oracle"] = sorted(set(rec["oracle"]))
        return rec
    if st == "ok":
        ro = field_obs(r, meshes)
        obs.update(result=js(ro))
        alias = next((i for i, f in enumerate(leaves) if r is f), None)
        obs["alias"] = alias
        # --- oracle: the property text on the implementation's outputs
        if expect == "reject":
            if c.get("clearly_different"):
                rec["oracle"].append("different-mesh-accepted")
            elif c.get("incompatible"):
                rec["oracle"].append("incompatible-nvdim-accepted")
        if ref is not None:
            exact = ctx.all_exact and ctx.keys_exact
            tol = 0.0 if exact else ctx.rel * ctx.scale
            arr = np.asarray(r.array)
            if arr.shape != ref.fl.shape:
                rec["oracle"].append("array-not-cellwise")
            else:
                d = np.abs(arr.astype(complex) - ref.fl.astype(complex))
                if (exact and not np.array_equal(arr, ref.fl)) or np.any(d > 10 * tol):
                    rec["oracle"].append("array-not-cellwise")
            if arr.shape == ref.fl.shape and not has_reflected_cross(e) and not zero_signs_equal(arr, ref.fl):
                rec["oracle"].append("zero-sign-differs")
            if not np.array_equal(r.valid, ref.valid if ref.valid is not None else np.ones(n, bool)):
                rec["oracle"].append("validity-not-and-of-operands")
            used = sorted(set(ref.leaves))
            if used and not all(r.mesh == leaves[i].mesh or mesh_close(leaves[i].mesh, r.mesh) for i in used):
                rec["oracle"].append("mesh-not-common")
            if used and all(leaves[i].mesh == leaves[used[0]].mesh for i in used) and r.mesh != leaves[used[0]].mesh:
                rec["oracle"].append("mesh-not-common")
        pl = pos_chain_leaf(e)
        for i, f in enumerate(leaves):
            if r is f:
                if pl != i:
                    rec["oracle"].append("result-is-operand")
            elif np.shares_memory(r.array, f.array) or np.shares_memory(r.valid, f.valid):
                rec["oracle"].append("result-aliases-operand")
        # commutativity of the root + / * in both spellings (operators and np.add / np.multiply), and
        # "the result is labelled like the operand that has the result's component count"
        root = root_alg(e)
        if root is not None and c["kind"] in ("commute", "expr"):
            st_a, fa = attempt(lambda: ev_impl(e[3], leaves, n, consts))
            st_b, fb = attempt(lambda: ev_impl(e[4], leaves, n, consts))
            both_fields = isinstance(fa, df.Field) and isinstance(fb, df.Field)
            cands = [x for x in (fa, fb) if isinstance(x, df.Field) and x.nvdim == r.nvdim]
            if cands and vec_labels(r) not in [vec_labels(x) for x in cands]:
                rec["oracle"].append("result-labels-not-operands")
            if root in ("add", "mul"):
                ufname = {"add": "add", "mul": "multiply"}[root]
                uf_ok = not any(isinstance(x, (tuple, list)) for x in (fa, fb))   # not ufunc operand types
                forms = [("swap-op", ["bin", root, None, e[4], e[3]], True)]
                if uf_ok:
                    forms += [("uf", ["bin", "uf2", ufname, e[3], e[4]], False),
                              ("swap-uf", ["bin", "uf2", ufname, e[4], e[3]], True)]
                if e[1] == "uf2":
                    forms.append(("op", ["bin", root, None, e[3], e[4]], False))
                swapped_labels = {}
                for name, e2, is_swap in forms:
                    if e2 == e:
                        continue
                    st2, r2 = attempt(lambda: ev_impl(e2, leaves, n, consts))
                    if st2 != "ok" or not isinstance(r2, df.Field):
                        rec["oracle"].append("commutative-rejected" if is_swap else "spelling-rejected")
                        continue
                    # complex products may be fused differently in the two orders: values up to rounding
                    same_vals = r.array.shape == r2.array.shape and bool(np.all(
                        np.abs(r.array.astype(complex) - r2.array.astype(complex)) <= ctx.rel * ctx.scale))
                    if not (same_vals and np.array_equal(r.valid, r2.valid)
                            and r.mesh == r2.mesh and r.nvdim == r2.nvdim):
                        rec["oracle"].append("commutative-values" if is_swap else "spelling-values")
                    swapped_labels[name] = js(vec_labels(r2))
                    if vec_labels(r) != vec_labels(r2):
                        # known: two fields with the same component count but different labels / mapping
                        # (the result takes the labels of the first such operand)
                        if (is_swap and both_fields and fa.nvdim == fb.nvdim
                                and vec_labels(fa) != vec_labels(fb)):
                            rec["oracle"].append("commutative-labels")
                            rec["tags"].append(KNOWN_COMM)
                        elif is_swap:
                            rec["oracle"].append("commutative-labels-" + ("ufunc" if "uf" in name or e[1] == "uf2"
                                                                          else "operator"))
                        else:
                            rec["oracle"].append("spelling-labels")
                obs["swapped_labels"] = swapped_labels
        elif e[0] == "un" and e[1] in ("neg", "abs", "real", "imag", "conj", "cabs", "phase", "uf1"):
            st_a, fa = attempt(lambda: ev_impl(e[3], leaves, n, consts))
            if isinstance(fa, df.Field) and fa.nvdim == r.nvdim and vec_labels(r) != vec_labels(fa):
                rec["oracle"].append("result-labels-not-operands")
        if e[0] == "bin" and e[1] in ("angle", "dot", "cross", "stack", "add", "sub", "mul", "div") \
                and is_const(e[4]) and e[4][0] in ("arr", "vec") and isinstance(leaves and consts.get(id(e[4])), (np.ndarray, list, tuple)):
            # the array-like operand and the same values wrapped into a Field must give the same result
            st_a, fa = attempt(lambda: ev_impl(e[3], leaves, n, consts))
            if isinstance(fa, df.Field):
                other = consts[id(e[4])]
                kk = np.shape(other)[-1]
                st_w, fw = attempt(lambda: df.Field(fa.mesh, nvdim=kk, value=np.broadcast_to(
                    np.asarray(other), (*n, kk)).copy()))
                if st_w == "ok":
                    st_f, rf = attempt(lambda: ev_impl(["bin", e[1], e[2], ["leaf", 0], ["leaf", 1]], [fa, fw], n))
                    if st_f == "ok" and isinstance(rf, df.Field):
                        if not (rf.nvdim == r.nvdim and np.array_equal(rf.valid, r.valid)
                                and same_pattern(r.array, rf.array, max(ctx.rel, 1e-9))):
                            rec["oracle"].append("arraylike-differs-from-field")
        if c["kind"] == "stackcomp":
            f0 = leaves[e_leaf(e)]
            if not (np.array_equal(r.array, field_dtype(f0.array)) and np.array_equal(r.valid, f0.valid)
                    and r.nvdim == f0.nvdim and r.mesh == f0.mesh):
                rec["oracle"].append("stacked-components-differ")
        through_result_clauses(r, leaves, rec)
    else:
        ro = None
        if expect == "accept" and ref is not None:
            rec["oracle"].append("valid-expression-rejected")
    # --- Gallina record
    coq = None
    if ctx.ambiguous:
        obs["signed_zero_table"] = True     # outside the rational model: oracle-only
    elif shapes_differ and contains_arr(e):
        obs["operands_of_different_shape"] = True
    elif ref is not None or st != "ok":
        if ref is not None:
            exact = ctx.all_exact and ctx.keys_exact
            tol = F(0) if exact else F(ctx.rel) * F(ctx.scale)
        else:
            exact, tol = True, F(0)
        t1 = g.lst([f"({g.nat(k[0])}, {cqs(k[1])}, {cqs(v)})" for k, v in ctx.t1.items()])
        t2 = g.lst([f"({g.nat(k[0])}, {cqs(k[1])}, {cqs(k[2])}, {cqs(v)})" for k, v in ctx.t2.items()])
        obs_lit = "None" if ro is None else f"(Some {field_lit(ro)})"
        al = "None" if (ro is None or obs.get("alias") is None) else f"(Some {g.nat(obs['alias'])})"
        if ro is None:
            al = "None" if pos_chain_leaf(e) is None else f"(Some {g.nat(pos_chain_leaf(e))})"
        coq = (f"CExpr {g.q(tol)} {g.lst([mesh_lit(m) for m in meshes])} "
               f"{g.lst([field_lit(o) for o in leaf_obs])} {expr_coq(e)} {t1} {t2} {obs_lit} {al}")
        obs["exact"] = bool(exact)
    caller_dict_clauses(rec)
    rec.update(obs=obs, coq=coq, key=key, size=size, nontrivial=True)
    rec["oracle"] = sorted(set(rec["oracle"]))
    rec["tags"] = sorted(set(rec["tags"]))
    return rec


def e_leaf(e):
    while e[0] != "leaf":
        e = e[3]
    return e[1]


def shape_key(e, c):
    def sk(x):
        if x[0] == "leaf":
            fd = c["fields"][x[1]]
            return f'L{fd["nvdim"]}{fd["dtype"][0]}{"l" if fd["vdims"] else ""}{"m" if fd["vmap"] is not None else ""}'
        if x[0] == "num":
            return "n" + ("N" if x[1] else "")
        if x[0] == "vec":
            return f"v{len(x[2])}" + ("N" if x[1] else "")
        if x[0] == "arr":
            return f"A{x[1]}"
        if x[0] == "un":
            return f"{x[1]}{x[2] if x[2] is not None else ''}({sk(x[3])})"
        return f"{x[1]}{x[2] or ''}({sk(x[3])},{sk(x[4])})"
    return sk(e) + f'/nd{len(c["meshes"][0]["n"])}' + (f'/{c.get("how")}' if c.get("how") else "")


def stats(records):
    out = {"accepted": 0, "rejected": 0, "exact": 0, "toleranced": 0, "oracle_only": 0, "complex": 0,
           "known_comm": 0, "nodes": 0}
    for r in records:
        out["accepted" if r["obs"]["status"] == "ok" else "rejected"] += 1
        if r["coq"] is None:
            out["oracle_only"] += 1
        elif r["obs"].get("exact"):
            out["exact"] += 1
        else:
            out["toleranced"] += 1
        if any(fd["dtype"] == "complex" for fd in r["case"]["fields"]):
            out["complex"] += 1
        out["known_comm"] += int(KNOWN_COMM in r["tags"])
    return out
