"""C04 — directional derivatives: generators, implementation runner, Gallina encoding, oracle."""
import itertools
import math
from fractions import Fraction as F

import numpy as np

from harness import gallina as g
from harness.util import import_df, js, attempt, relayout, LAYOUTS

df = import_df()
EXHAUSTIVE = True   # all 2^L masks for every L up to the tier bound are enumerated


def build(c):
    sh = c["sh"]
    nd = len(sh)
    cell = [float(F(x)) for x in c["cell"]]
    p1 = [float(F(x)) for x in c["p1"]]
    p2 = [a + k * h for a, k, h in zip(p1, sh, cell)]
    dims = c.get("dims")
    bc = "".join(dims[a] if dims else (["x", "y", "z"][a] if nd <= 3 else f"x{a}") for a in c["periodic_axes"])
    region = df.Region(p1=p1, p2=p2, dims=dims)
    mesh = df.Mesh(region=region, n=sh, bc=c.get("bc_kw") or bc)
    dt = int if c.get("int_dtype") else {"float32": np.float32, "float16": np.float16}.get(c.get("fdtype"), float)
    arr = np.array([float(F(x)) for x in c["vals"]], dtype=dt).reshape(*sh, c["nvdim"])
    valid = np.array(c["valid"], dtype=bool).reshape(*sh)
    vd = c.get("vdims")
    lay = c.get("layout")
    f = df.Field(mesh, nvdim=c["nvdim"], value=relayout(arr, lay), valid=relayout(valid, lay), unit=c.get("unit"),
                 vdims=vd, vdim_mapping=c.get("vmap"),
                 dtype=(int if c.get("int_dtype") else (dt if c.get("fdtype") else None)))
    if lay and c.get("layout_set"):
        f.array = relayout(arr, lay)     # the setter keeps the caller's memory order
    if c.get("pre"):
        # the mesh is used (cell size, a first derivative) and then rescaled IN PLACE: a later derivative
        # must use the cell size the mesh has now
        _ = f.mesh.cell, f.mesh.dV
        f.diff(f.mesh.region.dims[c["ax"]], order=c["order"])
        if c["pre"] == "mesh.scale":
            f.mesh.scale(2.0, inplace=True)
        else:
            f.mesh.region.scale(2.0, inplace=True)
    return f


def poly_eval(co, x):
    return sum(F(ci) * x ** k for k, ci in enumerate(co))


def poly_d(co, x, order):
    for _ in range(order):
        co = [k * ci for k, ci in enumerate(co)][1:]
    return poly_eval(co, x)


def line_case(L, mask, order, periodic, rng, restrict=True, poly=None):
    h = F(rng.choice([1, 2, 4, 1]), rng.choice([1, 2, 4, 8]))
    x0 = F(rng.randint(-8, 8))
    mag = F(1)
    if poly is None:
        mag = F(2) ** rng.choice([0, 0, 0, -30, -60, -200, 40, 300])
        vals = [F(rng.randint(-20, 20)) * mag for _ in range(L)]
    else:
        vals = [poly_eval(poly, x0 + (j + F(1, 2)) * h) for j in range(L)]
    # integer-typed fields (integer data): the derivative must not be truncated to the operand's dtype
    int_dtype = poly is None and mag == 1 and rng.random() < 0.25
    fdtype = None
    if poly is None and mag == 1 and not int_dtype and rng.random() < 0.2:
        # single / half precision samples, exactly representable, LARGE compared with their differences: the
        # stencil must be evaluated in double precision (products like 5*a round in the narrow type)
        fdtype = rng.choice(["float32", "float32", "float16"])
        top = 2 ** 24 if fdtype == "float32" else 2 ** 11
        vals = [F(top - rng.randint(0, 40 if fdtype == "float32" else 12)) for _ in range(L)]
    pre = rng.choice([None, None, None, "mesh.scale", "region.scale"]) if poly is None else None
    return dict(kind="line", sh=[L], nvdim=1, ax=0, order=order, cell=[g.qs(h)], p1=[g.qs(x0)],
                periodic_axes=[0] if periodic else [], restrict=restrict,
                vals=[g.qs(v) for v in vals], valid=[bool(b) for b in mask], poly=poly, int_dtype=int_dtype,
                mag=g.qs(mag), pre=pre, fdtype=fdtype, dims=rng.choice([None, None, None, ["V"], ["X"], ["t"]]), layout=rng.choice(LAYOUTS + [None] * 6), layout_set=rng.random() < 0.5)


def nd_case(rng, tier):
    nd = rng.choice([1, 2, 2, 3, 3, 4])
    sh = [rng.randint(1, 5 if nd < 4 else 3) for _ in range(nd)]
    nvdim = rng.choice([1, 1, 2, 3, 4])
    ax = rng.randrange(nd)
    cell = [F(rng.choice([1, 3, 1]), rng.choice([1, 2, 4, 8])) for _ in range(nd)]
    cell[ax] = F(rng.choice([1, 2, 4]), rng.choice([1, 2, 4, 8]))
    p1 = [F(rng.randint(-16, 16), 2) for _ in range(nd)]
    per = [a for a in range(nd) if rng.random() < 0.35]
    ncell = math.prod(sh)
    vals = [F(rng.randint(-30, 30), rng.choice([1, 1, 2])) for _ in range(ncell * nvdim)]
    pm = rng.choice([0.0, 0.1, 0.3, 0.6])
    valid = [rng.random() >= pm for _ in range(ncell)]
    names = rng.sample(["x", "y", "z", "a", "b", "r", "t", "q", "V", "X", "S", "T", "n"], nd) if (rng.random() < 0.5 or nd > 3) else None
    bc_kw = None
    if rng.random() < 0.15:
        # the keyword boundary conditions name no dimension: every direction stays open for diff, also
        # dimensions named like one of the keyword's letters
        per = []
        bc_kw = rng.choice(["neumann", "dirichlet"])
        names = rng.sample(sorted(set(bc_kw)) + ["x", "y"], nd)
    elif nd == 3 and rng.random() < 0.1:
        # a multi-character dimension name contained in bc is NOT periodic
        names, per, ax = ["x", "y", "xy"], [0, 1], 2
        cell[ax] = F(rng.choice([1, 2, 4]), rng.choice([1, 2, 4, 8]))
    if bc_kw is None and nd >= 2 and rng.random() < 0.12:
        # the derivative along a dimension named like a Mesh attribute ('V' -> mesh.dV is the cell VOLUME,
        # 'n' -> mesh.n, 'x' ...): the spacing is the cell LENGTH along that axis
        names = rng.sample(["x", "y", "z", "q"], nd)
        names[ax] = rng.choice(["V", "V", "n", "S"])
        per = [a for a in per if a != ax or rng.random() < 0.5]
        cell = [F(rng.choice([3, 5]), rng.choice([2, 4, 8])) for _ in range(nd)]       # volume != any length
        cell[ax] = F(rng.choice([1, 2, 4]), rng.choice([1, 2, 4, 8]))                  # (dyadic spacing: exact)
    elif bc_kw is None and nd >= 2 and rng.random() < 0.12:
        # two dimensions whose names differ only in case: one periodic, the derivative along the OTHER one is open
        lo_, up_ = rng.choice([("x", "X"), ("a", "A"), ("t", "T"), ("n", "N")])
        rest = rng.sample(["y", "z", "q"], nd - 2)
        names = [lo_, up_] + rest
        rng.shuffle(names)
        pa, oa = names.index(lo_), names.index(up_)
        if rng.random() < 0.5:
            pa, oa = oa, pa
        per = [pa] + [a for a in range(nd) if a not in (pa, oa) and rng.random() < 0.3]
        ax = oa if rng.random() < 0.7 else pa
        cell[ax] = F(rng.choice([1, 2, 4]), rng.choice([1, 2, 4, 8]))
    vd = rng.sample(["p", "q", "r", "s", "u"], nvdim) if nvdim > 1 and rng.random() < 0.5 else None
    return dict(kind="nd", sh=sh, nvdim=nvdim, ax=ax, order=rng.choice([1, 2]), cell=[g.qs(x) for x in cell],
                p1=[g.qs(x) for x in p1], periodic_axes=per, restrict=rng.random() < 0.8,
                vals=[g.qs(v) for v in vals], valid=valid, dims=names, vdims=vd,
                unit=rng.choice([None, "A/m", "T"]), layout=rng.choice(LAYOUTS), layout_set=rng.random() < 0.5,
                bc_kw=bc_kw)


def generate(rng, tier):
    cases = []
    Lmax = 7 if tier == "quick" else 10
    for L in range(1, Lmax + 1):
        for mask in itertools.product([True, False], repeat=L):
            for order in (1, 2):
                for periodic in (False, True):
                    cases.append(line_case(L, mask, order, periodic, rng))
    # polynomial data (exactness clause) on assorted masks, incl. long lines
    for _ in range(60 if tier == "quick" else 400):
        L = rng.randint(2, 14)
        mask = [rng.random() > 0.2 for _ in range(L)]
        order = rng.choice([1, 2])
        deg = rng.choice([1, 2, 3])
        poly = [rng.randint(-5, 5) for _ in range(deg + 1)]
        cases.append(line_case(L, mask, order, rng.random() < 0.3, rng, poly=poly))
    # unrestricted
    for _ in range(30 if tier == "quick" else 200):
        L = rng.randint(1, 9)
        mask = [rng.random() > 0.4 for _ in range(L)]
        cases.append(line_case(L, mask, rng.choice([1, 2]), rng.random() < 0.4, rng, restrict=False))
    for _ in range(150 if tier == "quick" else 1500):
        cases.append(nd_case(rng, tier))
    for _ in range(120 if tier == "quick" else 1000):
        cases.append(scale_case(rng))
    return cases


def runs_of(mask):
    out, start = [], None
    for j, b in enumerate(list(mask) + [False]):
        if b and start is None:
            start = j
        if not b and start is not None:
            out.append((start, j))
            start = None
    return out


def scale_case(rng):
    """non-dyadic geometry (cell sizes and offsets that are not binary fractions): the index arithmetic behind
    the periodic padding / cropping and the run splitting must not depend on how (p - pmin)/cell rounds.
    Oracle only (no Coq term): fully valid lines, results compared within 1e-9 of the scale."""
    L = rng.choice([2, 3, 4, 5, 5, 6, 7, 10, 12])
    edge = rng.choice([1.0, 5e-9, 0.3, 0.7, 1e-6, 2.1, 3e-3]) * rng.choice([1, 1, 3])
    # offsets up to 1e5 edges from the origin (beyond that the corners cannot carry the cell size any more)
    p1 = edge * rng.choice([0.0, 1.0, 0.3, -0.7, 4.0, 0.2, 7.3, -2.2, 100.1, 1e3 + 0.1, -3e4 - 0.3, 1e5 + 0.7])
    periodic = rng.random() < 0.7
    order = rng.choice([1, 2])
    deg = rng.choice([0, 1, 2])
    nd = rng.choice([1, 1, 2])
    other = rng.randint(1, 3)
    return dict(kind="scale", L=L, p1=p1, edge=edge, periodic=periodic, order=order, nd=nd, other=other,
                coeff=[rng.randint(-4, 4) for _ in range(deg + 1)], vals=[rng.randint(-20, 20) for _ in range(L)])


def run_scale(c):
    rec = dict(kind="scale", case=c, oracle=[], tags=[], coq=None)
    L, nd = c["L"], c["nd"]
    p1 = [c["p1"]] + [0.0] * (nd - 1)
    p2 = [c["p1"] + c["edge"]] + [1.0] * (nd - 1)
    n = [L] + [c["other"]] * (nd - 1)
    mesh = df.Mesh(p1=p1, p2=p2, n=n, bc="x" if c["periodic"] else "")
    h = F(mesh.cell[0])
    vals = np.array(c["vals"], dtype=float)
    arr = np.broadcast_to(vals.reshape([L] + [1] * (nd - 1) + [1]), (*n, 1)).copy()
    f = df.Field(mesh, nvdim=1, value=arr)
    st, r = attempt(lambda: f.diff("x", order=c["order"]))
    if st != "ok":
        rec["oracle"].append("diff-raised")
        rec.update(obs=dict(err=r), key="scale/err", size=L)
        return rec
    a = [F(v) for v in c["vals"]]
    want = []
    for j in range(L):
        if c["periodic"]:
            want.append((a[(j + 1) % L] - a[(j - 1) % L]) / (2 * h) if c["order"] == 1
                        else (a[(j + 1) % L] - 2 * a[j] + a[(j - 1) % L]) / (h * h))
    out = np.asarray(r.array, dtype=float)
    if out.shape != (*n, 1):
        rec["oracle"].append("result-shape")
    elif c["periodic"]:
        sc = max([abs(float(w)) for w in want] + [1e-300])
        # the corners carry the cell size only to |p|/cell ulps: that much relative noise is legitimate
        tol = 1e-9 + 64 * 2.0 ** -52 * (abs(c["p1"]) + c["edge"]) / float(h)
        for idx in np.ndindex(*n):
            if abs(out[idx + (0,)] - float(want[idx[0]])) > tol * sc:
                rec["oracle"].append("ring-centred-difference")
                break
    else:
        # open line: a polynomial of degree <= 2 (<= 1 on two cells) sampled at the cell centres is exact
        co = c["coeff"][: (2 if L == 2 else 3)]
        if not (c["order"] == 2 and L < 3) and L >= 2:
            xs = [F(mesh.index2point((j,) + (0,) * (nd - 1))[0]) for j in range(L)]
            pv = [sum(F(ci) * x ** k for k, ci in enumerate(co)) for x in xs]
            f2 = df.Field(mesh, nvdim=1, value=np.broadcast_to(
                np.array([float(v) for v in pv]).reshape([L] + [1] * (nd - 1) + [1]), (*n, 1)).copy())
            st2, r2 = attempt(lambda: f2.diff("x", order=c["order"]))
            dv = [sum(k * F(ci) * x ** (k - 1) for k, ci in enumerate(co) if k >= 1) if c["order"] == 1
                  else sum(k * (k - 1) * F(ci) * x ** (k - 2) for k, ci in enumerate(co) if k >= 2) for x in xs]
            sc = max([abs(float(v)) for v in pv] + [1.0]) / float(h) ** c["order"]
            if st2 != "ok" or any(abs(np.asarray(r2.array, dtype=float)[(j,) + (0,) * nd] - float(dv[j])) > 1e-6 * sc
                                  for j in range(L)):
                rec["oracle"].append("polynomial-not-exact")
    rec["oracle"] = sorted(set(rec["oracle"]))
    rec.update(obs=dict(array=js(out.reshape(-1))), key=f'scale/{L}/{c["order"]}/{c["periodic"]}/{nd}', size=L,
               nontrivial=True)
    return rec


def run_case(c):
    if c["kind"] == "scale":
        return run_scale(c)
    rec = dict(kind=c["kind"], case=c, oracle=[], tags=[])
    f = build(c)
    sh, ax, order = c["sh"], c["ax"], c["order"]
    dim = f.mesh.region.dims[ax]
    periodic = ax in c["periodic_axes"]
    st, r = attempt(lambda: f.diff(dim, order=order, restrict2valid=c["restrict"]))
    if st != "ok":
        rec.update(obs=dict(err=r), coq=None, key=f"err/{r}", size=len(c["vals"]))
        rec["oracle"].append("diff-raised")
        return rec
    out = r.array
    obs = dict(array=js(out.reshape(-1)))
    # metadata pass-through
    if not (r.mesh == f.mesh and r.mesh.bc == f.mesh.bc):
        rec["oracle"].append("mesh-changed")
    if r.vdims != f.vdims or r.vdim_mapping != f.vdim_mapping:
        rec["oracle"].append("labels-changed")
    if r.unit != f.unit:
        rec["oracle"].append("unit-changed")
    if not np.array_equal(r.valid, f.valid) or r.valid.dtype != np.bool_:
        rec["oracle"].append("validity-changed")
    orig_valid = np.array(c["valid"], dtype=bool).reshape(*sh)
    orig_vals = np.array([float(F(x)) for x in c["vals"]]).reshape(*sh, c["nvdim"])
    if not np.array_equal(f.valid, orig_valid) or not np.array_equal(r.valid, orig_valid):
        rec["oracle"].append("operand-validity-modified")
    if not np.array_equal(np.asarray(f.array, dtype=float), orig_vals):
        rec["oracle"].append("operand-values-modified")
    # equivalent spellings of the same call (numpy scalars / strings, positional form) give the same field;
    # orders other than 1 and 2 are refused
    for args, kw in (((np.str_(dim),), dict(order=np.int64(order), restrict2valid=np.bool_(c["restrict"]))),
                     ((dim, order, c["restrict"]), {}),
                     ((dim,), dict(order=np.uint8(order), restrict2valid=int(c["restrict"])))):
        sts, rs = attempt(lambda: f.diff(*args, **kw))
        if sts != "ok" or not np.array_equal(rs.array, out) or not np.array_equal(rs.valid, r.valid):
            rec["oracle"].append("argument-spelling")
    for bad in (0, 3, -1):
        stb, _ = attempt(lambda: f.diff(dim, order=bad))
        if stb == "ok":
            rec["oracle"].append("unsupported-order-accepted")
    # a second derivative of the same operand must see the same operand (no state left behind)
    st2, r2 = attempt(lambda: f.diff(dim, order=3 - order, restrict2valid=c["restrict"]))
    st3, r3 = attempt(lambda: f.diff(dim, order=order, restrict2valid=c["restrict"]))
    if st3 != "ok" or not np.array_equal(r3.array, out) or not np.array_equal(f.valid, orig_valid):
        rec["oracle"].append("repeated-call-differs")
    if c["restrict"] and not orig_valid.all() and not c.get("int_dtype") and not c.get("fdtype"):
        # blind across gaps, at any magnitude: whatever is stored in invalid cells (huge, infinite, NaN)
        # must never reach a result
        fp = build(c)
        bad = np.array([np.inf, np.nan, -np.inf, 1e300, -1e300, 2.0 ** 600])
        k_bad = int((~fp.valid).sum()) * c["nvdim"]
        with np.errstate(all="ignore"):
            fp.array[~fp.valid] = np.resize(bad, k_bad).reshape(-1, c["nvdim"])
            stp, rp = attempt(lambda: fp.diff(dim, order=order, restrict2valid=True))
        if stp != "ok" or not np.array_equal(rp.array, out):
            rec["oracle"].append("invalid-cell-value-read")
    h = F(c["cell"][ax]) * (2 if c.get("pre") else 1)
    vals = np.array([F(x) for x in c["vals"]], dtype=object).reshape(*sh, c["nvdim"])
    valid = np.array(c["valid"], dtype=bool).reshape(*sh)
    eff_valid = valid if c["restrict"] else np.ones_like(valid)
    # per-line oracle clauses (open directions, and periodic fully-valid rings)
    other = [range(k) for a, k in enumerate(sh) if a != ax]
    for rest in itertools.product(*other):
        idx = list(rest)
        idx.insert(ax, slice(None))
        mask = eff_valid[tuple(idx)]
        for comp in range(c["nvdim"]):
            a = vals[tuple(idx) + (comp,)]
            o = [F(x) for x in out[tuple(idx) + (comp,)].tolist()]
            L = len(a)
            if not periodic:
                for j in range(L):
                    if not mask[j] and o[j] != 0:
                        rec["oracle"].append("invalid-cell-nonzero")
                for (s, e) in runs_of(mask):
                    if e - s <= order:
                        if any(o[j] != 0 for j in range(s, e)):
                            rec["oracle"].append("short-run-nonzero")
                    elif c.get("poly") is not None:
                        deg = len(c["poly"]) - 1
                        maxdeg = (2 if e - s >= 3 else 1) if order == 1 else (3 if e - s >= 4 else 2)
                        if deg <= maxdeg:
                            x0 = F(c["p1"][0])
                            for j in range(s, e):
                                if o[j] != poly_d(c["poly"], x0 + (j + F(1, 2)) * h, order):
                                    rec["oracle"].append("polynomial-not-exact")
            elif all(mask):
                for j in range(L):
                    if order == 1:
                        want = (a[(j + 1) % L] - a[(j - 1) % L]) / (2 * h)
                    else:
                        want = (a[(j + 1) % L] - 2 * a[j] + a[(j - 1) % L]) / (h * h)
                    if o[j] != want:
                        rec["oracle"].append("ring-centred-difference")
    # metamorphic clauses on 1-d line cases: run locality, linearity, ring shift
    if c["kind"] == "line" and len(sh) == 1:
        L = sh[0]
        mask = eff_valid
        base = [F(x) for x in c["vals"]]
        o = [F(x) for x in out.reshape(-1).tolist()]
        mag = F(c.get("mag", "1/1"))     # perturbations live at the magnitude of the data (exactness)

        def diff_of(v, m=None):
            c2 = dict(c)
            c2["fdtype"] = None      # derived data need not be representable in the narrow type: double precision
            c2["vals"] = [g.qs(x) for x in v]
            if m is not None:
                c2["valid"] = [bool(b) for b in m]
            return [F(x) for x in build(c2).diff(dim, order=order, restrict2valid=c["restrict"]).array.reshape(-1).tolist()]
        if not periodic and c["restrict"] and not all(mask):
            # change everything outside the first run: the run's results must not move
            rs = runs_of(mask)
            if rs:
                s, e = rs[0]
                pert = [x if s <= j < e else x + (7 + j) * mag for j, x in enumerate(base)]
                o2 = diff_of(pert)
                if any(o2[j] != o[j] for j in range(s, e)):
                    rec["oracle"].append("run-locality")
        if c["restrict"] and not all(mask):
            # blind across gaps (open AND periodic lines): the values stored in invalid cells are never read
            pert = [x if mask[j] else x + (1000 + 3 * j) * mag for j, x in enumerate(base)]
            if diff_of(pert) != o:
                rec["oracle"].append("invalid-cell-value-read")
        if L <= 6:
            w = [F((j * j * 3 + 1) % 11 - 5) * mag for j in range(L)]
            ow = diff_of(w)
            comb = diff_of([2 * x - 3 * y for x, y in zip(base, w)])
            if any(comb[j] != 2 * o[j] - 3 * ow[j] for j in range(L)):
                rec["oracle"].append("linearity")
        if periodic and L >= 2:
            k = 1 + (L // 2)
            rolled = diff_of(np.roll(np.array(base, dtype=object), k).tolist(), np.roll(valid, k).tolist())
            if rolled != np.roll(np.array(o, dtype=object), k).tolist():
                if all(mask):
                    rec["oracle"].append("ring-shift-commutes")
                else:
                    rec["oracle"].append("ring-shift-commutes-masked")
                    rec["tags"].append("C04-periodic-masked-seam")
    rec["oracle"] = sorted(set(rec["oracle"]))
    per_b = periodic
    coq = (f'CDiff {g.nl(sh)} {g.nat(c["nvdim"])} {g.nat(ax)} {g.nat(order)} {g.q(h)} '
           f'{g.b(per_b)} {g.b(c["restrict"])} {g.ql(c["vals"])} {g.bl(c["valid"])} {g.ql(obs["array"])}')
    nruns = len(runs_of(eff_valid.reshape(-1))) if len(sh) == 1 else -1
    key = (f'{c["kind"]}/{tuple(sh)}/{c["nvdim"]}/{ax}/{order}/{per_b}/{c["restrict"]}/'
           f'{"".join("1" if b else "0" for b in c["valid"]) if len(c["valid"]) <= 16 else hash(tuple(c["valid"]))}')
    rec.update(obs=obs, coq=coq, key=key, size=len(c["vals"]), nontrivial=bool(len(c["vals"]) > 1))
    return rec


def stats(records):
    out = {"lines": 0, "nd": 0, "periodic": 0, "masked": 0, "scale": 0}
    for r in records:
        c = r["case"]
        if not isinstance(c, dict) or c.get("kind") == "scale":
            out["scale"] += 1
            continue
        out["lines" if c["kind"] == "line" else "nd"] += 1
        out["periodic"] += int(c["ax"] in c["periodic_axes"])
        out["masked"] += int(not all(c["valid"]))
    return out
