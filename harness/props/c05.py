"""C05 — grad, div, curl, Laplacian: generators, implementation runner, Gallina encoding, oracle.

A case is one call of Field.grad / .div / .curl / .laplace on a generated field (1-4 d mesh,
anisotropic cells, renamed dims, arbitrary component labels, every kind of component-to-axis
mapping incl. malformed ones, periodic axes, validity masks).  The Coq checker re-computes the
result with the model (coq/model/Calculus.v over Diff.v); the oracle evaluates the property text
on the implementation: textbook combination of the implementation's own directional derivatives
paired through the mapping, polynomial exactness, the two vector identities, commutation with
quarter turns, and the refusals.
"""
import itertools
import math
from fractions import Fraction as F

import numpy as np

from harness import gallina as g
from harness.util import import_df, js, attempt

df = import_df()

OPS = ("grad", "div", "curl", "laplace")
COQ_OP = dict(grad="OGrad", div="ODiv", curl="OCurl", laplace="OLap")
DIM_POOL = ["x", "y", "z", "a", "b", "c", "r", "t", "q", "u0", "len", "w"]
LBL_POOL = ["p", "q", "s", "u", "w", "mx", "my", "mz", "x", "y", "z", "a", "b", "c", "k1", "e"]
TOL = 1e-9


# ----------------------------------------------------------------------------- building
def default_dims(nd):
    return ["x", "y", "z"][:nd] if nd <= 3 else [f"x{i}" for i in range(nd)]


def build(c):
    """-> (field, dims).  Raises if the field itself cannot be constructed."""
    sh = c["sh"]
    nd = len(sh)
    cell = [float(F(x)) for x in c["cell"]]
    p1 = [float(F(x)) for x in c["p1"]]
    p2 = [a + k * h for a, k, h in zip(p1, sh, cell)]
    dims = c.get("dims") or default_dims(nd)
    bc = "".join(dims[a] for a in c["periodic_axes"])
    region = df.Region(p1=p1, p2=p2, dims=c.get("dims"))
    mesh = df.Mesh(region=region, n=sh, bc=bc)
    arr = np.array([float(F(x)) for x in c["vals"]], dtype=float).reshape(*sh, c["nvdim"])
    valid = np.array(c["valid"], dtype=bool).reshape(*sh)
    kw = {}
    if c.get("vdims") is not None:
        kw["vdims"] = c["vdims"]
    if c.get("vmap") is not None:
        kw["vdim_mapping"] = dict(c["vmap"])
    f = df.Field(mesh, nvdim=c["nvdim"], value=arr, valid=valid, **kw)
    return f, list(mesh.region.dims)


def poly_eval(P, x):
    """P = (c, [b_a], {(a,b): q_ab}) total degree <= 2 (or (…, cubic) with extra 'k': [k_a] x_a^3)"""
    c0, b, q = P["c"], P["b"], P["q"]
    v = F(c0) + sum(F(ba) * xa for ba, xa in zip(b, x))
    for key, qq in q.items():
        a, bb = (int(t) for t in key.split(","))
        v += F(qq) * x[a] * x[bb]
    for a, k in enumerate(P.get("k", [])):
        v += F(k) * x[a] ** 3
    return v


def poly_d1(P, x, ax):
    v = F(P["b"][ax])
    for key, qq in P["q"].items():
        a, bb = (int(t) for t in key.split(","))
        if a == ax and bb == ax:
            v += 2 * F(qq) * x[ax]
        elif a == ax:
            v += F(qq) * x[bb]
        elif bb == ax:
            v += F(qq) * x[a]
    if P.get("k"):
        v += 3 * F(P["k"][ax]) * x[ax] ** 2
    return v


def poly_d2(P, x, ax):
    v = F(0)
    for key, qq in P["q"].items():
        a, bb = (int(t) for t in key.split(","))
        if a == ax and bb == ax:
            v += 2 * F(qq)
    if P.get("k"):
        v += 6 * F(P["k"][ax]) * x[ax]
    return v


def rand_poly(rng, nd, deg):
    P = dict(c=rng.randint(-6, 6), b=[rng.randint(-4, 4) if deg >= 1 else 0 for _ in range(nd)], q={})
    if deg >= 2:
        for a in range(nd):
            for b in range(a, nd):
                if rng.random() < 0.8:
                    P["q"][f"{a},{b}"] = rng.randint(-3, 3)
    if deg >= 3:
        P["k"] = [rng.choice([-2, -1, 1, 2]) for _ in range(nd)]
    return P


def centres(c):
    """exact cell centres per axis from the case description"""
    out = []
    for a, n in enumerate(c["sh"]):
        h, p = F(c["cell"][a]), F(c["p1"][a])
        out.append([p + (j + F(1, 2)) * h for j in range(n)])
    return out


# ----------------------------------------------------------------------------- generation
def pick_op_shape(rng, tier, force=None):
    """choose (op, nd, nvdim): mostly fitting combinations, sometimes misfits (refusals)"""
    op = force or rng.choice(OPS)
    misfit = rng.random() < 0.12
    if op == "grad":
        nd = rng.choice([1, 2, 2, 3, 3, 3, 4])
        nv = 1 if not misfit else rng.choice([2, 3, 4])
    elif op == "div":
        nd = rng.choice([1, 2, 2, 3, 3, 3, 4])
        nv = nd if not misfit else rng.choice([k for k in (1, 2, 3, 4) if k != nd])
    elif op == "curl":
        if not misfit:
            nd, nv = 3, 3
        else:
            nd, nv = rng.choice([(2, 3), (3, 2), (3, 1), (4, 3), (3, 4), (2, 2), (1, 3), (4, 4)])
    else:
        nd = rng.choice([1, 2, 2, 3, 3, 3, 4])
        nv = rng.choice([1, 1, 2, 3, 3, 4])
    return op, nd, nv


def gen_labels(rng, nd, nv, dims, malformed_ok=True):
    """-> (vdims or None, vmap (list of pairs) or None, mapclass)"""
    dimnames = dims or default_dims(nd)
    vd = None
    if rng.random() < 0.6:
        vd = rng.sample(LBL_POOL, nv)
        if rng.random() < 0.25 and nv <= len(dimnames):
            # labels spelled like the dims, but in another order: spelling must not matter
            vd = rng.sample(dimnames, nv)
    if nv == 1:
        if vd is not None and rng.random() < 0.5:
            return vd, [[vd[0], rng.choice(dimnames)]], "scalar-mapped"
        return (vd if rng.random() < 0.3 else None), None, "scalar"
    labels = vd if vd is not None else (["x", "y", "z"][:nv] if nv <= 3 else [f"v{i}" for i in range(nv)])
    r = rng.random()
    if nv == nd:
        if r < 0.25:
            return vd, None, "default"
        if r < 0.75 or not malformed_ok:
            perm = dimnames[:]
            rng.shuffle(perm)
            pairs = [[l, d] for l, d in zip(labels, perm)]
            rng.shuffle(pairs)
            return vd, pairs, "permutation"
        if r < 0.82:
            return vd, [], "empty"
        if r < 0.91:
            perm = dimnames[:]
            rng.shuffle(perm)
            perm[rng.randrange(nv)] = rng.choice(["nope", "X", "xx"])
            return vd, [[l, d] for l, d in zip(labels, perm)], "foreign"
        tgt = [rng.choice(dimnames) for _ in range(nv)]
        if len(set(tgt)) == nv:
            tgt[0] = tgt[1]
        return vd, [[l, d] for l, d in zip(labels, tgt)], "noninjective"
    # nvdim != ndim: default mapping is empty; sometimes give one anyway
    if r < 0.5:
        return vd, None, "default-empty"
    if r < 0.6 and nv >= 2:
        return [], [], "unlabelled"
    tgt = [rng.choice(dimnames + ["nope"]) for _ in range(nv)]
    return vd, [[l, d] for l, d in zip(labels, tgt)], "partial"


def gen_case(rng, tier, regime=None, force_op=None, poly=None, allvalid=None, nmin=1, short=False):
    op, nd, nv = pick_op_shape(rng, tier, force_op)
    regime = regime or ("exact" if rng.random() < 0.8 else "scale")
    nmax = (5 if nd <= 2 else 4 if nd == 3 else 3)
    if tier == "thorough" and nd <= 3:
        nmax += 1
    sh = [rng.randint(nmin, max(nmin, nmax)) for _ in range(nd)]
    if short:
        sh[rng.randrange(nd)] = rng.choice([1, 2])
    if regime == "exact":
        cell = [F(rng.choice([1, 2, 4, 1]), rng.choice([1, 2, 4, 8])) for _ in range(nd)]
        p1 = [F(rng.randint(-16, 16), 2) for _ in range(nd)]
    else:
        scale = rng.choice([1e-9, 1e-6, 1e-3, 1.0, 10.0, 1e3] if poly is None else [1e-2, 1.0, 10.0])
        cell = [F(float(rng.choice([1, 2, 2.5, 5, 0.1, 0.3, 7]) * scale)) for _ in range(nd)]
        p1 = [F(float(rng.randint(-20, 20) * 0.7 * scale)) for _ in range(nd)]
    dims = None
    if nd > 3 or rng.random() < 0.55:
        dims = rng.sample(DIM_POOL, nd)
        if nd == 3 and rng.random() < 0.3:
            dims = rng.sample(["x", "y", "z"], 3)       # the usual names in an unusual order
    vd, vmap, mclass = gen_labels(rng, nd, nv, dims)
    dn = dims or default_dims(nd)
    # mesh.bc is a string of one-letter dimension names: only those can be periodic
    per = [a for a in range(nd) if rng.random() < 0.25 and len(dn[a]) == 1] if poly is None else []
    ncell = math.prod(sh)
    if allvalid is None:
        allvalid = rng.random() < 0.55
    pm = 0.0 if allvalid else rng.choice([0.1, 0.25, 0.5])
    valid = [rng.random() >= pm for _ in range(ncell)]
    c = dict(op=op, regime=regime, sh=sh, cell=[g.qs(x) for x in cell], p1=[g.qs(x) for x in p1],
             periodic_axes=per, dims=dims, nvdim=nv, vdims=vd, vmap=vmap, mapclass=mclass, valid=valid)
    if poly is not None:
        deg = poly
        c["poly"] = [rand_poly(rng, nd, deg) for _ in range(nv)]
        c["polydeg"] = deg
        ctr = centres(c)
        vals = []
        for idx in itertools.product(*[range(k) for k in sh]):
            x = [ctr[a][j] for a, j in enumerate(idx)]
            for P in c["poly"]:
                v = poly_eval(P, x)
                if regime == "scale":
                    v = F(float(v))
                vals.append(v)
    elif regime == "exact":
        vals = [F(rng.randint(-24, 24), rng.choice([1, 1, 2])) for _ in range(ncell * nv)]
    else:
        amp = rng.choice([1e-3, 1.0, 8e5])
        vals = [F(float(rng.uniform(-1, 1) * amp)) for _ in range(ncell * nv)]
    c["vals"] = [g.qs(v) for v in vals]
    return c


def generate(rng, tier):
    cases = []
    n_rand = 420 if tier == "quick" else 5000
    for _ in range(n_rand):
        cases.append(gen_case(rng, tier))
    # polynomial exactness: >= 3 cells per direction, fully valid, open boundaries
    for _ in range(120 if tier == "quick" else 1200):
        deg = rng.choice([0, 1, 2, 2, 2, 3])
        cases.append(gen_case(rng, tier, poly=deg, allvalid=True, nmin=3,
                              regime="exact" if rng.random() < 0.75 else "scale"))
    # short axes (1 and 2 cells: zero derivative / two-point stencil), every operator
    for _ in range(80 if tier == "quick" else 600):
        cases.append(gen_case(rng, tier, regime="exact", short=True))
    # every permutation of the mapping in 3-d for div / curl / laplace, same data
    base = gen_case(rng, tier, regime="exact", force_op="curl", allvalid=True)
    while base["nvdim"] != 3 or len(base["sh"]) != 3:
        base = gen_case(rng, tier, regime="exact", force_op="curl", allvalid=True)
    dn = base["dims"] or default_dims(3)
    for op in ("div", "curl", "laplace"):
        for perm in itertools.permutations(dn):
            for lbl in (None, ["p", "q", "s"], [dn[1], dn[2], dn[0]]):
                c = dict(base)
                c["op"] = op
                c["vdims"] = lbl
                names = lbl or ["x", "y", "z"]
                c["vmap"] = [[l, d] for l, d in zip(names, perm)]
                c["mapclass"] = "permutation"
                cases.append(c)
    return cases


# ----------------------------------------------------------------------------- oracle helpers
def comp_field(f, cidx):
    return df.Field(f.mesh, nvdim=1, value=f.array[..., cidx:cidx + 1].copy(), valid=f.valid)


def textbook(op, f, dims):
    """the textbook combination of the implementation's own directional derivatives, pairing
    components with axes through f.vdim_mapping.  -> array (…, nvdim_out) indexed BY AXIS for
    grad/curl, or None if the mapping is not a bijection onto the axes (nothing to compare)."""
    nd = len(dims)
    nv = f.nvdim
    if op == "grad":
        s = comp_field(f, 0)
        return np.stack([s.diff(d).array[..., 0] for d in dims], axis=-1)
    if op == "laplace":
        cols = []
        for cidx in range(nv):
            s = comp_field(f, cidx)
            acc = np.zeros(tuple(f.mesh.n))
            for d in dims:
                acc = acc + s.diff(d, order=2).array[..., 0]
            cols.append(acc)
        return np.stack(cols, axis=-1)
    # div / curl need component <-> axis
    vm = f.vdim_mapping
    if f.vdims is None or any(v not in vm or vm[v] not in dims for v in f.vdims):
        return None
    ax_of = [dims.index(vm[v]) for v in f.vdims]
    if op == "div":
        acc = np.zeros(tuple(f.mesh.n))
        for cidx, a in enumerate(ax_of):
            acc = acc + comp_field(f, cidx).diff(dims[a]).array[..., 0]
        return acc[..., np.newaxis]
    if sorted(ax_of) != list(range(nd)):
        return None
    comp_at = {a: cidx for cidx, a in enumerate(ax_of)}      # component that points along axis a

    def d(a_comp, a_dir):
        return comp_field(f, comp_at[a_comp]).diff(dims[a_dir]).array[..., 0]
    return np.stack([d(2, 1) - d(1, 2), d(0, 2) - d(2, 0), d(1, 0) - d(0, 1)], axis=-1)


def result_by_axis(res, dims):
    """columns of a grad/curl result ordered by the axis their label is mapped to (None if the
    result's labels do not name every axis exactly once)"""
    if res.nvdim == 1:
        return res.array if len(dims) == 1 else None
    vm = res.vdim_mapping
    if res.vdims is None or any(v not in vm or vm[v] not in dims for v in res.vdims):
        return None
    ax = [dims.index(vm[v]) for v in res.vdims]
    if sorted(ax) != list(range(len(dims))):
        return None
    order = [ax.index(a) for a in range(len(dims))]
    return res.array[..., order]


def maxabs(a):
    a = np.asarray(a, dtype=float)
    return float(np.max(np.abs(a))) if a.size else 0.0


def close(a, b, tol):
    a = np.asarray(a, dtype=float)
    b = np.asarray(b, dtype=float)
    if a.shape != b.shape:
        return False
    if a.size == 0:
        return True
    return bool(np.all(np.abs(a - b) <= tol))


def get_op(f, op):
    return getattr(f, op)


def should_refuse(op, nd, nv, f, dims):
    """refusals the property text demands"""
    if op == "grad":
        return nv != 1
    if op == "laplace":
        return False
    if op == "div" and nv != nd:
        return True
    if op == "curl" and (nv != 3 or nd != 3):
        return True
    vm = f.vdim_mapping
    if f.vdims is None:
        return True
    if any(v not in vm or vm[v] not in dims for v in f.vdims):
        return True
    # curl needs every axis to carry a component (reversed mapping); for div a non-injective mapping
    # is left open (see 'free' in run_case)
    return op == "curl" and sorted(vm[v] for v in f.vdims) != sorted(dims)


def mapping_is_bijection(f, dims):
    vm = f.vdim_mapping
    if f.vdims is None or any(v not in vm or vm[v] not in dims for v in f.vdims):
        return False
    return sorted(vm[v] for v in f.vdims) == sorted(dims)


# ----------------------------------------------------------------------------- one case
def run_case(c):
    rec = dict(kind=f'{c["op"]}/{c["regime"]}', case=c, oracle=[], tags=[])
    op = c["op"]
    exact = c["regime"] == "exact"
    st, r = attempt(lambda: build(c))
    size = len(c["vals"])
    if st != "ok":
        rec.update(kind="unbuildable", obs=dict(err=r), coq=None, key=f"unbuildable/{r}", size=size,
                   nontrivial=False)
        return rec
    f, dims = r
    sh, nd, nv = c["sh"], len(c["sh"]), c["nvdim"]
    cells = [F(float(x)) for x in f.mesh.cell]
    hmin = min(float(x) for x in f.mesh.cell)
    order = 2 if op == "laplace" else 1
    vmax = maxabs(f.array)
    scale = 16 * nd * vmax / hmin ** order
    tol = 0.0 if exact else TOL * scale
    st, res = attempt(lambda: get_op(f, op))
    must_refuse = should_refuse(op, nd, nv, f, dims)
    fully_valid = bool(np.all(f.valid))
    bij = mapping_is_bijection(f, dims) if nv > 1 or (nv == 1 and f.vdims) else False
    # classes where the property leaves the outcome open: a non-injective mapping for div,
    # the Laplacian of a vector field without component labels
    free = (op == "div" and not must_refuse and nv > 1 and not bij) or \
           (op == "laplace" and nv > 1 and f.vdims is None)
    if st != "ok":
        obs = dict(refused=res)
        if not must_refuse and not free:
            rec["oracle"].append("fitting-field-refused")
        coq_obs = "None"
    else:
        if must_refuse:
            rec["oracle"].append("misfit-not-refused")
        obs = dict(nvdim=int(res.nvdim), array=js(res.array.reshape(-1)), vdims=res.vdims,
                   vmap=[[k, v] for k, v in res.vdim_mapping.items()])
        vd_s = g.opt(res.vdims, g.sl)
        vm_s = g.lst([g.pair(g.s(k), g.s(v)) for k, v in res.vdim_mapping.items()])
        coq_obs = f"(Some ({g.nat(res.nvdim)}, {g.ql(obs['array'])}, {vd_s}, {vm_s}))"
        oracle_ok(rec, c, f, dims, res, op, tol, exact, fully_valid, scale)
    rec["oracle"] = sorted(set(rec["oracle"]))
    per = [a in c["periodic_axes"] for a in range(nd)]
    in_vm = g.lst([g.pair(g.s(k), g.s(v)) for k, v in f.vdim_mapping.items()])
    coq = (f'COp {g.b(exact)} {COQ_OP[op]} {g.nl(sh)} {g.ql(cells)} {g.bl(per)} {g.sl(dims)} {g.nat(nv)} '
           f'{g.opt(f.vdims, g.sl)} {in_vm} {g.ql(c["vals"])} {g.bl(c["valid"])} {coq_obs}')
    if free and (st != "ok" or op == "laplace"):
        coq = None      # unspecified outcome: both a refusal and the textbook value are admissible
    mask_cls = "all" if fully_valid else "masked"
    key = (f'{op}/{c["regime"]}/{tuple(sh)}/{nv}/{c["mapclass"]}/{"".join(str(int(b)) for b in per)}/'
           f'{mask_cls}/{"poly%d" % c["polydeg"] if c.get("poly") else "rand"}/{st}/'
           f'{hash(tuple(c["vals"][:6])) % 5}')
    rec.update(obs=obs, coq=coq, key=key, size=size, nontrivial=bool(size > 1))
    rec["refused"] = st != "ok"
    return rec


def oracle_ok(rec, c, f, dims, res, op, tol, exact, fully_valid, scale):
    nd, nv = len(dims), f.nvdim
    flag = rec["oracle"].append
    # --- shape of the result
    want_nv = dict(grad=nd, div=1, curl=3, laplace=nv)[op]
    if res.nvdim != want_nv or res.array.shape != tuple(c["sh"]) + (want_nv,):
        flag("result-shape")
        return
    if not res.mesh == f.mesh:
        flag("mesh-changed")
    # --- textbook combination, components paired with axes through the mapping
    tb = textbook(op, f, dims)
    if tb is not None:
        if op in ("grad", "curl"):
            got = result_by_axis(res, dims)
            if got is None:
                flag("result-mapping-not-onto-axes")
            elif not close(got, tb, tol):
                flag("textbook-" + op)
        elif not close(res.array, tb, tol):
            flag("textbook-" + op)
    if op == "laplace" and nv > 1:
        if res.vdims != f.vdims or dict(res.vdim_mapping) != dict(f.vdim_mapping):
            flag("laplace-labels-or-mapping-changed")
    # --- polynomial exactness (degree <= 2, >= 3 cells per direction, fully valid, open)
    if c.get("poly") and c["polydeg"] <= 2 and fully_valid and not c["periodic_axes"] and min(c["sh"]) >= 3:
        exp = analytic(c, f, dims, op)
        if exp is not None:
            got = result_by_axis(res, dims) if op in ("grad", "curl") else res.array
            if got is not None:
                if exact:
                    ok = [F(x) for x in np.asarray(got).reshape(-1).tolist()] == exp
                else:
                    ok = close(np.asarray(got).reshape(-1), np.array([float(x) for x in exp]), TOL * scale)
                if not ok:
                    flag("polynomial-not-exact-" + op)
    # --- vector identities on fully valid meshes
    if fully_valid:
        hmin = min(float(x) for x in f.mesh.cell)
        ztol = TOL * 16 * nd * nd * maxabs(f.array) / hmin ** 2
        if op == "grad" and nd == 3:
            st, cg = attempt(lambda: res.curl)
            if st != "ok":
                flag("curl-of-grad-refused")
            elif maxabs(cg.array) > ztol:
                flag("curl-grad-nonzero")
        if op == "curl":
            st, dc = attempt(lambda: res.div)
            if st != "ok":
                flag("div-of-curl-refused")
            elif maxabs(dc.array) > ztol:
                flag("div-curl-nonzero")
    # --- commutation with quarter turns of the field
    if nd >= 2 and (nv == 1 or mapping_is_bijection(f, dims)):
        pairs = [(a, b) for a in range(nd) for b in range(nd) if a != b]
        h = hash(tuple(c["vals"][:8]))
        a, b = pairs[h % len(pairs)]
        k = 1 + (h // 7) % 3
        pa = (a in c["periodic_axes"]) == (b in c["periodic_axes"])
        if pa:
            st1, fr = attempt(lambda: f.rotate90(dims[a], dims[b], k=k))
            st2, rr = attempt(lambda: res.rotate90(dims[a], dims[b], k=k))
            if st1 == "ok" and st2 == "ok":
                st3, orr = attempt(lambda: get_op(fr, op))
                if st3 != "ok":
                    flag("rotated-field-refused")
                else:
                    if op in ("grad", "curl"):
                        x, y = result_by_axis(orr, dims), result_by_axis(rr, dims)
                    else:
                        x, y = orr.array, rr.array
                    # the rotated mesh is computed with floating cos/sin: its cells carry rounding even in the
                    # exact regime, so this clause is always compared in the tolerance form
                    if x is None or y is None or not close(x, y, 4 * TOL * scale):
                        flag("rot90-commute-" + op)
                    rec.setdefault("meta", {})["rot90"] = True


def analytic(c, f, dims, op):
    """exact derivative combination of the generating polynomials at the cell centres
    (by axis for grad/curl, by component for laplace), flattened in C order"""
    nd, nv = len(dims), f.nvdim
    ctr = centres(c)
    P = c["poly"]
    if op in ("div", "curl"):
        if not mapping_is_bijection(f, dims):
            return None
        ax_of = [dims.index(f.vdim_mapping[v]) for v in f.vdims]
        comp_at = {a: ci for ci, a in enumerate(ax_of)}
    out = []
    for idx in itertools.product(*[range(k) for k in c["sh"]]):
        x = [ctr[a][j] for a, j in enumerate(idx)]
        if c["regime"] == "scale":
            pass
        if op == "grad":
            out += [poly_d1(P[0], x, a) for a in range(nd)]
        elif op == "div":
            out.append(sum(poly_d1(P[ci], x, a) for ci, a in enumerate(ax_of)))
        elif op == "curl":
            def d(a_comp, a_dir):
                return poly_d1(P[comp_at[a_comp]], x, a_dir)
            out += [d(2, 1) - d(1, 2), d(0, 2) - d(2, 0), d(1, 0) - d(0, 1)]
        else:
            out += [sum(poly_d2(P[ci], x, a) for a in range(nd)) for ci in range(nv)]
    return out


def stats(records):
    out = dict(refused=0, accepted=0, unbuildable=0, rot90_checked=0, masked=0, periodic=0, scale=0,
               unspecified_outcome=0)
    byop = {}
    for r in records:
        c = r["case"]
        if r["kind"] == "unbuildable":
            out["unbuildable"] += 1
            continue
        out["refused" if r.get("refused") else "accepted"] += 1
        out["rot90_checked"] += int(bool(r.get("meta", {}).get("rot90")))
        out["masked"] += int(not all(c["valid"]))
        out["periodic"] += int(bool(c["periodic_axes"]))
        out["scale"] += int(c["regime"] == "scale")
        out["unspecified_outcome"] += int(r.get("coq") is None)
        byop[c["op"]] = byop.get(c["op"], 0) + 1
    out["by_op"] = byop
    return out
