"""C05 — grad, div, curl, Laplacian: generators, implementation runner, Gallina encoding, oracle.

A case is one call of Field.grad / .div / .curl / .laplace on a generated field (1-4 d mesh,
anisotropic cells, renamed dims, arbitrary component labels, every kind of component-to-axis
mapping incl. malformed ones, periodic axes, validity masks).  The Coq checker re-computes the
result with the model (coq/model/Calculus.v over Diff.v); the oracle evaluates the property text
on the implementation: textbook combination of the implementation's own directional derivatives
paired through the mapping, polynomial exactness, the two vector identities, commutation with
quarter turns, and the refusals.
"""
import itertools
import math
import random
from fractions import Fraction as F

import numpy as np

from harness import gallina as g
from harness.util import import_df, js, attempt

df = import_df()

OPS = ("grad", "div", "curl", "laplace")
COQ_OP = dict(grad="OGrad", div="ODiv", curl="OCurl", laplace="OLap")
DIM_POOL = ["x", "y", "z", "a", "b", "c", "r", "t", "q", "u0", "len", "w", "n", "e", "u", "m", "d", "i"]
BC_KEYWORDS = ("neumann", "dirichlet")


def is_periodic(bc, d):
    """a direction is periodic iff bc (not one of the keywords) lists exactly its one-letter name"""
    return bc not in BC_KEYWORDS and d in tuple(bc)
LBL_POOL = ["p", "q", "s", "u", "w", "mx", "my", "mz", "x", "y", "z", "a", "b", "c", "k1", "e"]
TOL = 1e-9


# ----------------------------------------------------------------------------- building
def default_dims(nd):
    return ["x", "y", "z"][:nd] if nd <= 3 else [f"x{i}" for i in range(nd)]


INT_DTYPES = ["int64", "int32", "int16", "int8", "uint8", "uint16", "uint32"]


def case_dtype(c):
    return np.dtype(c["dtype"]) if c.get("dtype") else np.dtype(float)


def rep_seq(xs, how, integral_ok):
    """the same numbers in another legal representation"""
    if how == "tuple":
        return tuple(xs)
    if how == "ndarray":
        return np.array(xs, dtype=float)
    if how == "float32" and all(float(np.float32(x)) == x for x in xs):
        return np.array(xs, dtype=np.float32)
    if how in ("int", "ndarray_int") and integral_ok and all(float(x).is_integer() for x in xs):
        ints = [int(x) for x in xs]
        return ints if how == "int" else np.array(ints, dtype=np.int64)
    return list(xs)


def rep_n(sh, how):
    if how == "tuple":
        return tuple(sh)
    if how in ("int32", "uint8", "uint16", "int64"):
        return np.array(sh, dtype=how)
    if how == "npscalars":
        kinds = [np.int16, np.uint8, np.int64, np.uint32]
        return [kinds[i % 4](k) for i, k in enumerate(sh)]
    return list(sh)


def build(c):
    """-> (field, dims, aux).  aux holds the caller-supplied containers (for before/after snapshots).
    Raises if the field itself cannot be constructed."""
    sh = c["sh"]
    nd = len(sh)
    cell = [float(F(x)) for x in c["cell"]]
    p1 = [float(F(x)) for x in c["p1"]]
    p2 = [a + k * h for a, k, h in zip(p1, sh, cell)]
    dims = c.get("dims") or default_dims(nd)
    bc = c["bc"] if c.get("bc") is not None else "".join(dims[a] for a in c["periodic_axes"])
    prep = c.get("prep", "list")
    p1a, p2a = rep_seq(p1, prep, True), rep_seq(p2, prep, True)
    n_arg = rep_n(sh, c.get("nrep", "list"))
    kwr = {}
    if c.get("units") is not None:
        kwr["units"] = list(c["units"])
    region = df.Region(p1=p1a, p2=p2a, dims=c.get("dims"), **kwr)
    mesh = df.Mesh(region=region, n=n_arg, bc=bc)
    dt = case_dtype(c)
    re = [F(x) for x in c["vals"]]
    if dt.kind == "c":
        im = [F(x) for x in c["vals_im"]]
        arr = (np.array([float(x) for x in re]) + 1j * np.array([float(x) for x in im])).astype(dt)
    elif dt.kind in "iu":
        arr = np.array([int(x) for x in re], dtype=dt)
    else:
        arr = np.array([float(x) for x in re], dtype=dt)
    arr = arr.reshape(*sh, c["nvdim"])
    valid = np.array(c["valid"], dtype=bool).reshape(*sh)
    kw = {}
    aux = dict(arr=arr, valid=valid, n=n_arg, p1=p1a, p2=p2a)
    if c.get("vdims") is not None:
        kw["vdims"] = list(c["vdims"])
        aux["vdims"] = kw["vdims"]
    if c.get("vmap") is not None:
        kw["vdim_mapping"] = dict(c["vmap"])
        aux["vmap"] = kw["vdim_mapping"]
    if c.get("dtype"):
        kw["dtype"] = dt
    if c.get("unit") is not None:
        kw["unit"] = c["unit"]
    aux["copies"] = {k: (v.copy() if isinstance(v, np.ndarray) else (dict(v) if isinstance(v, dict) else list(v)))
                     for k, v in aux.items() if k != "copies"}
    f = df.Field(mesh, nvdim=c["nvdim"], value=arr, valid=valid, **kw)
    return f, list(mesh.region.dims), aux


def aux_unchanged(aux):
    for k, old in aux["copies"].items():
        cur = aux[k]
        if isinstance(cur, np.ndarray):
            if cur.dtype != old.dtype or not np.array_equal(cur, old):
                return False
        elif isinstance(cur, dict):
            if cur != old or list(cur) != list(old):
                return False
        elif [repr(x) for x in cur] != [repr(x) for x in old]:
            return False
    return True


def read_state(f):
    """the state the field reports NOW: everything the model needs, primary data only
    (cell sizes are recomputed from the corners and n, never read from mesh.cell)"""
    reg = f.mesh.region
    dims = list(reg.dims)
    n = [int(k) for k in f.mesh.n]
    pmin = [F(float(x)) for x in reg.pmin]
    pmax = [F(float(x)) for x in reg.pmax]
    cells = [(b - a) / k for a, b, k in zip(pmin, pmax, n)]
    per = [is_periodic(f.mesh.bc, d) for d in dims]
    arr = np.asarray(f.array)
    return dict(dims=dims, n=n, pmin=pmin, pmax=pmax, cells=cells, per=per, bc=f.mesh.bc,
                re=js(np.real(arr).reshape(-1)), im=js(np.imag(arr).reshape(-1)) if arr.dtype.kind == "c" else None,
                valid=[bool(b) for b in np.asarray(f.valid).reshape(-1)],
                vdims=None if f.vdims is None else list(f.vdims),
                vmap=[[k, v] for k, v in f.vdim_mapping.items()], nvdim=int(f.nvdim))


def snapshot(f):
    reg = f.mesh.region
    return dict(array=f.array.copy(), valid=f.valid.copy(), dtype=str(f.array.dtype), vdtype=str(f.valid.dtype),
                vdims=None if f.vdims is None else list(f.vdims), vmap=list(f.vdim_mapping.items()),
                unit=f.unit, pmin=reg.pmin.tolist(), pmax=reg.pmax.tolist(), n=f.mesh.n.tolist(), bc=f.mesh.bc,
                dims=list(reg.dims), units=list(reg.units),
                subs={k: (v.pmin.tolist(), v.pmax.tolist()) for k, v in f.mesh.subregions.items()},
                ids=(id(f.array), id(f.valid), id(f.mesh), id(f.mesh.region), id(f.vdim_mapping)))


def snap_equal(a, b):
    for k in a:
        if k in ("array", "valid"):
            if a[k].dtype != b[k].dtype or not np.array_equal(a[k], b[k]):
                return False
        elif a[k] != b[k]:
            return False
    return True


def results_equal(r1, r2):
    return (r1.nvdim == r2.nvdim and r1.array.dtype == r2.array.dtype and np.array_equal(r1.array, r2.array)
            and np.array_equal(r1.valid, r2.valid) and r1.vdims == r2.vdims
            and dict(r1.vdim_mapping) == dict(r2.vdim_mapping))


DERIVATIONS = ("laplace", "diff", "neg", "add0", "mul", "rot", "pad", "abs")
RELABELS = ("vdims_perm", "vdims_new", "mapping_set", "mapping_item", "mapping_clear")


def derive(f, how, dims):
    if how == "laplace":
        return f.laplace
    if how == "diff":
        return f.diff(dims[0])
    if how == "neg":
        return -f
    if how == "add0":
        return f + 0
    if how == "mul":
        return 2 * f
    if how == "abs":
        return abs(f)
    if how == "rot":
        return f.rotate90(dims[0], dims[1], k=2)
    return f.pad({dims[0]: (1, 1)}, mode="constant")


def relabel(w, how, dims):
    """change the labels / the mapping of w through the public setters only"""
    labels = list(w.vdims)
    if how == "vdims_perm":
        w.vdims = labels[1:] + labels[:1]
    elif how == "vdims_new":
        w.vdims = [f"k{j}q" for j in range(len(labels))]
    elif how == "mapping_set":
        tgt = list(dims) + ["nope"]
        w.vdim_mapping = {l: tgt[(j + 1) % len(tgt)] for j, l in enumerate(labels)}
    elif how == "mapping_item":
        # the dictionary a field hands out is its own: writing into the derived field's one
        w.vdim_mapping[labels[0]] = dims[-1] if w.vdim_mapping.get(labels[0]) != dims[-1] else "nope"
        w.vdim_mapping["extra-key"] = dims[0]
    else:
        w.vdim_mapping.clear()


def derived_relabel_check(f, op, dims, res, st, before, choices):
    """derive a field, relabel / re-map the DERIVED field, then the ORIGINAL must be what it was and
    the operator on it must give what it gave.  -> list of (derivation, relabelling) that broke it"""
    broken = []
    if f.vdims is None:
        return broken
    for how, rl in choices:
        stw, w = attempt(lambda: derive(f, how, dims))
        if stw != "ok" or w.vdims is None or w.nvdim != f.nvdim:
            continue
        if w.vdim_mapping is f.vdim_mapping or np.shares_memory(w.array, f.array) or w.vdims is f.vdims:
            broken.append(f"{how}/shares-object")
            break
        attempt(lambda: relabel(w, rl, dims))
        same = snap_equal(before, snapshot(f))
        st4, res4 = attempt(lambda: get_op(f, op))
        if not same or st4 != st or (st == "ok" and not results_equal(res, res4)):
            broken.append(f"{how}/{rl}")
            break           # the original is spoilt from here on
    return broken


def apply_pre(f, c, dims):
    """'used, then changed in place': use the objects first, then transform them through public
    in-place calls.  -> list of steps that raised (they are simply not part of the history)"""
    nd = len(dims)
    op = c["op"]
    # --- use
    _ = (f.mesh.cell.copy(), f.mesh.dV, f.mesh.region.edges, f.mesh.region.centre)
    attempt(lambda: f.mesh.index2point((0,) * nd if nd > 1 else 0))
    attempt(lambda: f.mesh.point2index(f.mesh.region.centre))
    attempt(lambda: next(iter(f.mesh)))
    attempt(lambda: f.norm.array.sum())
    attempt(lambda: get_op(f, op))
    # every reader of the component-to-axis mapping once (forward and reversed look-ups)
    attempt(lambda: f.curl)
    attempt(lambda: f.div)
    if nd >= 2:
        attempt(lambda: f.rotate90(dims[0], dims[1]))
    skipped = []
    for step in c["pre"]:
        name, args = step[0], step[1:]
        if name == "mesh_scale":
            fac = [float(F(x)) for x in args[0]]
            st, _r = attempt(lambda: f.mesh.scale(fac[0] if len(fac) == 1 else tuple(fac), inplace=True))
        elif name == "mesh_translate":
            st, _r = attempt(lambda: f.mesh.translate(tuple(float(F(x)) for x in args[0]), inplace=True))
        elif name == "region_scale":
            fac = [float(F(x)) for x in args[0]]
            st, _r = attempt(lambda: f.mesh.region.scale(fac[0] if len(fac) == 1 else tuple(fac), inplace=True))
        elif name == "region_translate":
            st, _r = attempt(lambda: f.mesh.region.translate(tuple(float(F(x)) for x in args[0]), inplace=True))
        elif name == "field_rot":
            a, b, k = args
            cur = list(f.mesh.region.dims)
            st, _r = attempt(lambda: f.rotate90(cur[a], cur[b], k=k, inplace=True))
        elif name == "mesh_rot":
            a, b, k = args
            cur = list(f.mesh.region.dims)
            st, _r = attempt(lambda: f.mesh.rotate90(cur[a], cur[b], k=k, inplace=True))
        elif name == "array_write":
            mode, val = args

            def wr():
                if mode == "add_comp0":
                    f.array[..., 0] += val
                elif mode == "first_cell":
                    f.array[(0,) * nd] = val
                else:
                    f.array[...] = f.array * val
            st, _r = attempt(wr)
        elif name == "valid_set":
            st, _r = attempt(lambda: setattr(f, "valid", np.array(args[0], dtype=bool).reshape(tuple(f.mesh.n))))
        elif name == "map_item":
            # the mapping changed IN PLACE on the dictionary the field hands out (no setter involved)
            mode, i, j = args

            def mp():
                vm = f.vdim_mapping
                keys = list(f.vdims)
                k1, k2 = keys[i % len(keys)], keys[j % len(keys)]
                v1, v2 = vm[k1], vm[k2]
                if mode == "swap":
                    vm[k1] = v2
                    vm[k2] = v1
                elif mode == "update":
                    vm.update({k1: v2, k2: v1})
                elif mode == "delins":
                    del vm[k1]
                    del vm[k2]
                    vm[k2] = v1
                    vm[k1] = v2
                else:       # one component re-pointed at an axis that is not a dimension of the mesh
                    vm[k1] = "nope"
            st, _r = attempt(mp)
        elif name == "vdims_set":
            mode = args[0]

            def vs():
                labels = list(f.vdims)
                f.vdims = (labels[1:] + labels[:1]) if mode == "perm" else [f"w{t}k" for t in range(len(labels))]
            st, _r = attempt(vs)
        elif name == "map_set":
            def ms():
                labels = list(f.vdims)
                vals_ = [f.vdim_mapping[l] for l in labels]
                f.vdim_mapping = dict(zip(labels, vals_[1:] + vals_[:1]))
            st, _r = attempt(ms)
        else:
            st = "err"
        if st != "ok":
            skipped.append(name)
    return skipped


def poly_eval(P, x):
    """P = (c, [b_a], {(a,b): q_ab}) total degree <= 2 (or (…, cubic) with extra 'k': [k_a] x_a^3)"""
    c0, b, q = P["c"], P["b"], P["q"]
    v = F(c0) + sum(F(ba) * xa for ba, xa in zip(b, x))
    for key, qq in q.items():
        a, bb = (int(t) for t in key.split(","))
        v += F(qq) * x[a] * x[bb]
    for a, k in enumerate(P.get("k", [])):
        v += F(k) * x[a] ** 3
    return v


def poly_d1(P, x, ax):
    v = F(P["b"][ax])
    for key, qq in P["q"].items():
        a, bb = (int(t) for t in key.split(","))
        if a == ax and bb == ax:
            v += 2 * F(qq) * x[ax]
        elif a == ax:
            v += F(qq) * x[bb]
        elif bb == ax:
            v += F(qq) * x[a]
    if P.get("k"):
        v += 3 * F(P["k"][ax]) * x[ax] ** 2
    return v


def poly_d2(P, x, ax):
    v = F(0)
    for key, qq in P["q"].items():
        a, bb = (int(t) for t in key.split(","))
        if a == ax and bb == ax:
            v += 2 * F(qq)
    if P.get("k"):
        v += 6 * F(P["k"][ax]) * x[ax]
    return v


def rand_poly(rng, nd, deg):
    P = dict(c=rng.randint(-6, 6), b=[rng.randint(-4, 4) if deg >= 1 else 0 for _ in range(nd)], q={})
    if deg >= 2:
        for a in range(nd):
            for b in range(a, nd):
                if rng.random() < 0.8:
                    P["q"][f"{a},{b}"] = rng.randint(-3, 3)
    if deg >= 3:
        P["k"] = [rng.choice([-2, -1, 1, 2]) for _ in range(nd)]
    return P


def centres(c):
    """exact cell centres per axis from the case description"""
    out = []
    for a, n in enumerate(c["sh"]):
        h, p = F(c["cell"][a]), F(c["p1"][a])
        out.append([p + (j + F(1, 2)) * h for j in range(n)])
    return out


# ----------------------------------------------------------------------------- generation
def pick_op_shape(rng, tier, force=None):
    """choose (op, nd, nvdim): mostly fitting combinations, sometimes misfits (refusals)"""
    op = force or rng.choice(OPS)
    misfit = rng.random() < 0.12
    if op == "grad":
        nd = rng.choice([1, 2, 2, 3, 3, 3, 4])
        nv = 1 if not misfit else rng.choice([2, 3, 4])
    elif op == "div":
        nd = rng.choice([1, 2, 2, 3, 3, 3, 4])
        nv = nd if not misfit else rng.choice([k for k in (1, 2, 3, 4) if k != nd])
    elif op == "curl":
        if not misfit:
            nd, nv = 3, 3
        else:
            nd, nv = rng.choice([(2, 3), (3, 2), (3, 1), (4, 3), (3, 4), (2, 2), (1, 3), (4, 4)])
    else:
        nd = rng.choice([1, 2, 2, 3, 3, 3, 4])
        nv = rng.choice([1, 1, 2, 3, 3, 4])
    return op, nd, nv


def gen_labels(rng, nd, nv, dims, malformed_ok=True):
    """-> (vdims or None, vmap (list of pairs) or None, mapclass)"""
    dimnames = dims or default_dims(nd)
    vd = None
    if rng.random() < 0.6:
        vd = rng.sample(LBL_POOL, nv)
        if rng.random() < 0.25 and nv <= len(dimnames):
            # labels spelled like the dims, but in another order: spelling must not matter
            vd = rng.sample(dimnames, nv)
    if nv == 1:
        if vd is not None and rng.random() < 0.5:
            return vd, [[vd[0], rng.choice(dimnames)]], "scalar-mapped"
        return (vd if rng.random() < 0.3 else None), None, "scalar"
    labels = vd if vd is not None else (["x", "y", "z"][:nv] if nv <= 3 else [f"v{i}" for i in range(nv)])
    r = rng.random()
    if nv == nd:
        if r < 0.25:
            return vd, None, "default"
        if r < 0.75 or not malformed_ok:
            perm = dimnames[:]
            rng.shuffle(perm)
            pairs = [[l, d] for l, d in zip(labels, perm)]
            rng.shuffle(pairs)
            return vd, pairs, "permutation"
        if r < 0.82:
            return vd, [], "empty"
        if r < 0.91:
            perm = dimnames[:]
            rng.shuffle(perm)
            perm[rng.randrange(nv)] = rng.choice(["nope", "X", "xx"])
            return vd, [[l, d] for l, d in zip(labels, perm)], "foreign"
        tgt = [rng.choice(dimnames) for _ in range(nv)]
        if len(set(tgt)) == nv:
            tgt[0] = tgt[1]
        return vd, [[l, d] for l, d in zip(labels, tgt)], "noninjective"
    # nvdim != ndim: default mapping is empty; sometimes give one anyway
    if r < 0.5:
        return vd, None, "default-empty"
    if r < 0.6 and nv >= 2:
        return [], [], "unlabelled"
    tgt = [rng.choice(dimnames + ["nope"]) for _ in range(nv)]
    return vd, [[l, d] for l, d in zip(labels, tgt)], "partial"


def gen_case(rng, tier, regime=None, force_op=None, poly=None, allvalid=None, nmin=1, short=False):
    op, nd, nv = pick_op_shape(rng, tier, force_op)
    regime = regime or ("exact" if rng.random() < 0.8 else "scale")
    nmax = (5 if nd <= 2 else 4 if nd == 3 else 3)
    if tier == "thorough" and nd <= 3:
        nmax += 1
    sh = [rng.randint(nmin, max(nmin, nmax)) for _ in range(nd)]
    if short:
        sh[rng.randrange(nd)] = rng.choice([1, 2])
    if regime == "exact":
        cell = [F(rng.choice([1, 2, 4, 1]), rng.choice([1, 2, 4, 8])) for _ in range(nd)]
        p1 = [F(rng.randint(-16, 16), 2) for _ in range(nd)]
    else:
        scale = rng.choice([1e-9, 1e-6, 1e-3, 1.0, 10.0, 1e3] if poly is None else [1e-2, 1.0, 10.0])
        cell = [F(float(rng.choice([1, 2, 2.5, 5, 0.1, 0.3, 7]) * scale)) for _ in range(nd)]
        p1 = [F(float(rng.randint(-20, 20) * 0.7 * scale)) for _ in range(nd)]
    dims = None
    if nd > 3 or rng.random() < 0.55:
        dims = rng.sample(DIM_POOL, nd)
        if nd == 3 and rng.random() < 0.3:
            dims = rng.sample(["x", "y", "z"], 3)       # the usual names in an unusual order
    vd, vmap, mclass = gen_labels(rng, nd, nv, dims)
    dn = dims or default_dims(nd)
    # mesh.bc is a string of one-letter dimension names: only those can be periodic
    per = [a for a in range(nd) if rng.random() < 0.25 and len(dn[a]) == 1] if poly is None else []
    ncell = math.prod(sh)
    if allvalid is None:
        allvalid = rng.random() < 0.55
    pm = 0.0 if allvalid else rng.choice([0.1, 0.25, 0.5])
    valid = [rng.random() >= pm for _ in range(ncell)]
    c = dict(op=op, regime=regime, sh=sh, cell=[g.qs(x) for x in cell], p1=[g.qs(x) for x in p1],
             periodic_axes=per, dims=dims, nvdim=nv, vdims=vd, vmap=vmap, mapclass=mclass, valid=valid)
    if poly is not None:
        deg = poly
        c["poly"] = [rand_poly(rng, nd, deg) for _ in range(nv)]
        c["polydeg"] = deg
        ctr = centres(c)
        vals = []
        for idx in itertools.product(*[range(k) for k in sh]):
            x = [ctr[a][j] for a, j in enumerate(idx)]
            for P in c["poly"]:
                v = poly_eval(P, x)
                if regime == "scale":
                    v = F(float(v))
                vals.append(v)
    elif regime == "exact":
        vals = [F(rng.randint(-24, 24), rng.choice([1, 1, 2])) for _ in range(ncell * nv)]
    else:
        amp = rng.choice([1e-3, 1.0, 8e5])
        vals = [F(float(rng.uniform(-1, 1) * amp)) for _ in range(ncell * nv)]
    c["vals"] = [g.qs(v) for v in vals]
    return c


def mk(rng, op, sh, nv, dims=None, vdims=None, vmap=None, per=(), masked=False, poly=None, cell=None,
       p1=None, mapclass="directed", offset=None, amp=1, stream="core", group="", **extra):
    """a hand-specified exact-regime case (only the data are drawn from rng)"""
    nd = len(sh)
    cell = cell or [F(rng.choice([1, 2, 4, 1]), rng.choice([1, 2, 4, 8])) for _ in range(nd)]
    p1 = p1 or [F(rng.randint(-16, 16), 2) for _ in range(nd)]
    ncell = math.prod(sh)
    valid = [rng.random() >= 0.25 for _ in range(ncell)] if masked else [True] * ncell
    c = dict(op=op, regime="exact", sh=list(sh), cell=[g.qs(F(x)) for x in cell], p1=[g.qs(F(x)) for x in p1],
             periodic_axes=list(per), dims=dims, nvdim=nv, vdims=vdims, vmap=vmap, mapclass=mapclass,
             valid=valid, stream=stream, group=group)
    if poly is not None:
        c["poly"] = [rand_poly(rng, nd, poly) for _ in range(nv)]
        for P in c["poly"]:
            if offset is not None:
                P["c"] = offset
            if amp != 1:
                P["b"] = [g.qs(F(x) * amp) for x in P["b"]]
                P["q"] = {k_: g.qs(F(x) * amp) for k_, x in P["q"].items()}
        c["polydeg"] = poly
        ctr = centres(c)
        vals = []
        for idx in itertools.product(*[range(k) for k in sh]):
            x = [ctr[a][j] for a, j in enumerate(idx)]
            vals += [poly_eval(P, x) for P in c["poly"]]
    else:
        vals = [F(rng.randint(-24, 24), rng.choice([1, 1, 2])) for _ in range(ncell * nv)]
    c["vals"] = [g.qs(v) for v in vals]
    c.update(extra)
    return c


def directed_core():
    """seed-, tier- and run-independent cases: one small group per mechanism that a change of the code
    has been seen to break (rounds a-e of the seeded changes) and per hardening blind spot"""
    rng = random.Random(424242)
    out = []
    # a1: mapping dictionaries whose insertion order differs from vdims, non-identity permutations
    for sh, lbl, pairs in [((4, 3, 3), ["p", "q", "r"], [["r", "x"], ["p", "z"], ["q", "y"]]),
                           ((3, 4, 3), ["p", "q", "r"], [["q", "x"], ["r", "y"], ["p", "z"]]),
                           ((3, 4), ["u", "w"], [["w", "x"], ["u", "y"]]),
                           ((3, 3, 4), ["mx", "my", "mz"], [["mz", "y"], ["mx", "z"], ["my", "x"]])]:
        for op in ("div", "curl", "laplace"):
            if op == "curl" and len(sh) != 3:
                continue
            out.append(mk(rng, op, sh, len(sh), vdims=lbl, vmap=pairs, mapclass="permutation", group="a1"))
            out.append(mk(rng, op, sh, len(sh), vdims=lbl, vmap=pairs, mapclass="permutation", poly=2, group="a1"))
    # a2 / d1: dimension names not in alphabetical / default order; default and explicit mappings
    for dn in (["r", "phi", "h"], ["z", "y", "x"], ["z", "x", "y"], ["t", "a", "q"], ["y", "z", "x"]):
        for op in ("curl", "grad", "div"):
            nv = 1 if op == "grad" else 3
            out.append(mk(rng, op, (3, 4, 3), nv, dims=dn, mapclass="default", group="a2d1"))
            out.append(mk(rng, op, (4, 3, 3), nv, dims=dn, mapclass="default", poly=2, group="a2d1"))
        out.append(mk(rng, "curl", (3, 3, 4), 3, dims=dn, vdims=["p", "q", "s"],
                      vmap=[["s", dn[0]], ["p", dn[1]], ["q", dn[2]]], mapclass="permutation", group="a2d1"))
    for dn in (["y", "x"], ["z", "x"]):
        out.append(mk(rng, "grad", (4, 3), 1, dims=dn, mapclass="scalar", poly=2, group="a2d1"))
        out.append(mk(rng, "div", (3, 4), 2, dims=dn, mapclass="default", group="a2d1"))
    # a3 / c2: periodic directions with 1, 2, 3 cells next to longer ones; fully valid and masked
    for sh, per in [((2, 4), [0]), ((4, 2), [1]), ((2, 3, 4), [0]), ((3, 2, 2), [1, 2]), ((1, 4), [0]),
                    ((3, 3), [0]), ((3, 4, 3), [1]), ((4, 3), [0, 1]), ((5,), [0]), ((2,), [0])]:
        nd = len(sh)
        for op in OPS:
            nv = dict(grad=1, div=nd, curl=3, laplace=1)[op]
            if op == "curl" and nd != 3:
                continue
            out.append(mk(rng, op, sh, nv, per=per, mapclass="default" if nv > 1 else "scalar", group="a3c2"))
        out.append(mk(rng, "laplace", sh, 2, per=per, masked=True, mapclass="default-empty" if nd != 2 else "default",
                      group="a3c2"))
    # b1: component count that does not fit, with a complete mapping onto mesh axes -> div / curl refuse
    out.append(mk(rng, "div", (3, 3, 3), 2, vmap=[["x", "x"], ["y", "y"]], mapclass="partial", group="b1"))
    out.append(mk(rng, "div", (3, 4), 3, vmap=[["x", "x"], ["y", "y"], ["z", "x"]], mapclass="partial", group="b1"))
    out.append(mk(rng, "div", (3, 3, 3), 4, vdims=["a", "b", "c", "d"],
                  vmap=[["a", "x"], ["b", "y"], ["c", "z"], ["d", "x"]], mapclass="partial", group="b1"))
    out.append(mk(rng, "curl", (3, 4), 3, vmap=[["x", "x"], ["y", "y"], ["z", "x"]], mapclass="partial", group="b1"))
    out.append(mk(rng, "div", (4,), 2, vmap=[["x", "x"], ["y", "x"]], mapclass="partial", group="b1"))
    out.append(mk(rng, "grad", (3, 3), 2, mapclass="default", group="b1"))
    # b2 / b3: results whose labels are used afterwards (div curl, rotate90 of the result), permuted and
    # non-positional mappings, nvdim != ndim with an explicit mapping
    for pairs in ([["x", "z"], ["y", "x"], ["z", "y"]], [["x", "y"], ["y", "z"], ["z", "x"]],
                  [["x", "y"], ["y", "x"], ["z", "z"]]):
        out.append(mk(rng, "curl", (3, 4, 3), 3, vmap=pairs, mapclass="permutation", group="b2b3"))
        out.append(mk(rng, "laplace", (3, 3, 4), 3, vmap=pairs, mapclass="permutation", group="b2b3"))
        out.append(mk(rng, "laplace", (4, 3, 3), 3, vdims=["u", "v2", "w"],
                      vmap=[[l, d] for l, (_, d) in zip(["u", "v2", "w"], pairs)], mapclass="permutation",
                      masked=True, group="b2b3"))
    out.append(mk(rng, "laplace", (4, 3), 3, vmap=[["x", "x"], ["y", "y"], ["z", "z"]], mapclass="partial", group="b2b3"))
    out.append(mk(rng, "laplace", (4, 3), 3, vdims=["a", "b", "c"], vmap=[["c", "y"], ["a", "x"], ["b", "nope"]],
                  mapclass="partial", group="b2b3"))
    # c1: exactly three cells in a direction, quadratic data (smallest size with exactness)
    for sh in ((3,), (3, 3), (3, 4), (3, 3, 3), (4, 3, 5), (3, 5, 3)):
        nd = len(sh)
        for op in OPS:
            nv = dict(grad=1, div=nd, curl=3, laplace=1)[op]
            if op == "curl" and nd != 3:
                continue
            if op == "div" and nd == 1:
                out.append(mk(rng, op, sh, 1, vdims=["u"], vmap=[["u", "x"]], mapclass="scalar-mapped", poly=2, group="c1"))
                continue
            out.append(mk(rng, op, sh, nv, mapclass="default" if nv > 1 else "scalar", poly=2, group="c1"))
    # c3 / d2: storage types (explicit dtype): integer, float32, complex
    for dtname in ("int64", "int32", "uint8", "float32", "complex128", "complex64"):
        for op in OPS:
            nv = dict(grad=1, div=3, curl=3, laplace=2)[op]
            base = mk(rng, op, (3, 4, 3), nv, mapclass="default" if nv == 3 else ("scalar" if nv == 1 else "default-empty"),
                      cell=[2, 2, 4], group="c3d2")
            c = with_dtype(base, rng, dtname, slope=True)
            c["stream"] = "core"
            out.append(c)
    # e2: low-amplitude polynomials on a large constant background (exact in binary)
    for off, amp, cell in ((2 ** 40, 1, [1, 2, 1]), (10 ** 7, F(1, 16), [1, F(1, 2), 2]), (-(2 ** 30), F(1, 4), [2, 1, 1])):
        for op in OPS:
            nv = dict(grad=1, div=3, curl=3, laplace=1)[op]
            out.append(mk(rng, op, (4, 3, 4), nv, mapclass="default" if nv > 1 else "scalar", poly=2, offset=off,
                          amp=amp, cell=cell, p1=[0, -2, 3], group="e2"))
        out.append(mk(rng, "grad", (5, 4), 1, mapclass="scalar", poly=2, offset=off, amp=amp, cell=cell[:2], p1=[1, 0],
                      group="e2"))
    # e3 / rotper: odd and even turns in planes with exactly one periodic axis (first or second)
    for sh, per, rots in [((3, 4), [1], [[0, 1, 1], [1, 0, 1], [0, 1, 3], [0, 1, 2]]),
                          ((4, 3), [0], [[0, 1, 1], [1, 0, -1]]),
                          ((3, 4, 2), [1], [[0, 1, 1], [2, 1, 1], [1, 2, 3], [0, 2, 1]]),
                          ((2, 3, 3), [2, 0], [[1, 2, 1], [0, 1, 5], [1, 0, 1]])]:
        nd = len(sh)
        for rot in rots:
            for op in OPS:
                nv = dict(grad=1, div=nd, curl=3, laplace=nd)[op]
                if op == "curl" and nd != 3:
                    continue
                out.append(mk(rng, op, sh, nv, per=per, mapclass="default" if nv > 1 else "scalar", rot=rot, group="e3"))
    # e1 / state: use, change in place (mesh, data, validity, mapping items, labels), then the operator
    hist = [[["map_item", "swap", 0, 1]], [["map_item", "update", 1, 2]], [["map_item", "delins", 0, 2]],
            [["map_item", "foreign", 1, 1]], [["vdims_set", "perm"]], [["vdims_set", "new"]], [["map_set"]],
            [["map_item", "swap", 0, 2], ["vdims_set", "perm"]],
            [["mesh_scale", ["-2/1"]]], [["region_scale", ["1/2", "2/1", "4/1"]]], [["mesh_translate", ["1/4", "-3/1", "2/1"]]],
            [["array_write", "add_comp0", 3]], [["field_rot", 0, 1, 1], ["map_item", "swap", 0, 1]],
            [["mesh_rot", 0, 2, 2]], [["mesh_scale", ["2/1", "-1/2", "4/1"]], ["array_write", "times", 2]]]
    for steps in hist:
        for op in ("curl", "div", "laplace"):
            out.append(mk(rng, op, (3, 3, 3), 3, vdims=["a", "b", "c"], vmap=[["b", "z"], ["c", "x"], ["a", "y"]],
                          mapclass="permutation", pre=steps, stream="core", group="e1state"))
    out.append(mk(rng, "grad", (3, 4, 2), 1, mapclass="scalar", pre=[["mesh_scale", ["-2/1"]], ["field_rot", 0, 2, 1]],
                  group="e1state"))
    # d3: derived fields (stream 'derived' runs every derivation)
    for op in ("div", "curl", "laplace"):
        out.append(mk(rng, op, (3, 3, 3), 3, vdims=["a", "b", "c"], vmap=[["b", "z"], ["c", "x"], ["a", "y"]],
                      mapclass="permutation", stream="derived", group="d3"))
    out.append(mk(rng, "grad", (3, 4), 1, vdims=["s"], vmap=[["s", "y"]], mapclass="scalar-mapped", stream="derived",
                  group="d3"))
    # hardening blind spots: magnitudes, representations, bc keywords and names
    for op in OPS:
        nv = dict(grad=1, div=3, curl=3, laplace=3)[op]
        base = mk(rng, op, (3, 4, 3), nv, mapclass="default" if nv > 1 else "scalar", group="hard")
        for fn in (with_magnitude, with_representation):
            c = fn(dict(base), rng)
            c["group"] = "hard"
            out.append(c)
        out.append(mk(rng, op, (3, 3, 3), nv, dims=["n", "e", "u"], bc="neumann", mapclass="default" if nv > 1 else "scalar",
                      group="hard"))
        out.append(mk(rng, op, (3, 3, 3), nv, dims=["x", "y", "xy"], bc="xy", per=[0, 1],
                      mapclass="default" if nv > 1 else "scalar", group="hard"))
    return out


def generate(rng, tier):
    cases = directed_core()
    n_rand = 300 if tier == "quick" else 4000
    for _ in range(n_rand):
        cases.append(gen_case(rng, tier))
    # polynomial exactness: >= 3 cells per direction, fully valid, open boundaries
    for _ in range(90 if tier == "quick" else 900):
        deg = rng.choice([0, 1, 2, 2, 2, 3])
        cases.append(gen_case(rng, tier, poly=deg, allvalid=True, nmin=3,
                              regime="exact" if rng.random() < 0.75 else "scale"))
    # short axes (1 and 2 cells: zero derivative / two-point stencil), every operator
    for _ in range(60 if tier == "quick" else 500):
        cases.append(gen_case(rng, tier, regime="exact", short=True))
    # every permutation of the mapping in 3-d for div / curl / laplace, same data
    base = gen_case(rng, tier, regime="exact", force_op="curl", allvalid=True)
    while base["nvdim"] != 3 or len(base["sh"]) != 3:
        base = gen_case(rng, tier, regime="exact", force_op="curl", allvalid=True)
    dn = base["dims"] or default_dims(3)
    for op in ("div", "curl", "laplace"):
        for perm in itertools.permutations(dn):
            for lbl in (None, ["p", "q", "s"], [dn[1], dn[2], dn[0]]):
                c = dict(base)
                c["op"] = op
                c["vdims"] = lbl
                names = lbl or ["x", "y", "z"]
                c["vmap"] = [[l, d] for l, d in zip(names, perm)]
                c["mapclass"] = "permutation"
                cases.append(c)
    cases += hardening_cases(rng, tier)
    return cases


def fitting_case(rng, tier, op=None, **kw):
    """an exact-regime case whose field fits the operator and whose mapping is default or a permutation"""
    while True:
        c = gen_case(rng, tier, regime="exact", force_op=op or rng.choice(OPS), **kw)
        nd, nv = len(c["sh"]), c["nvdim"]
        fits = dict(grad=nv == 1, div=nv == nd, curl=nv == 3 and nd == 3, laplace=True)[c["op"]]
        if fits and c["mapclass"] in ("default", "permutation", "scalar", "scalar-mapped", "default-empty"):
            return c


def with_dtype(c, rng, dtname, slope=False):
    """same case with an integer / unsigned / float32 / complex storage type"""
    c = dict(c)
    c["dtype"] = dtname
    c["stream"] = "dtype"
    dt = np.dtype(dtname)
    n = len(c["vals"])
    sh, nv = c["sh"], c["nvdim"]
    if dt.kind in "iu":
        info = np.iinfo(dt)
        r = rng.random()
        if slope:
            # slope 1 per cell on cells of size 2^k: derivatives are halves / quarters, never integers only
            vals = []
            for idx in itertools.product(*[range(k) for k in sh]):
                for comp in range(nv):
                    vals.append(sum((a + 1 + comp) * j for a, j in enumerate(idx)) % (info.max // 2))
        elif r < 0.5:
            lo = 0 if dt.kind == "u" else -9
            vals = [rng.randint(lo, 9) for _ in range(n)]
        else:
            # near the limits of the type (squares and stencil sums overflow in that type)
            lo = 0 if dt.kind == "u" else max(info.min, -2 ** 40)
            hi = min(info.max, 2 ** 40)
            vals = [rng.choice([lo, hi, hi - 1, hi // 2, lo // 2, rng.randint(lo, hi)]) for _ in range(n)]
        c["vals"] = [g.qs(F(v)) for v in vals]
    elif dt.kind == "c":
        c["vals_im"] = [g.qs(F(rng.randint(-24, 24), rng.choice([1, 2]))) for _ in range(n)]
    else:   # float32: small dyadics are representable
        c["vals"] = [g.qs(F(rng.randint(-24, 24), rng.choice([1, 2, 4]))) for _ in range(n)]
    c.pop("poly", None)
    c.pop("polydeg", None)
    return c


def with_magnitude(c, rng):
    """tiny and huge magnitudes: every absolute tolerance shows"""
    c = dict(c)
    c["stream"] = "magnitude"
    e = rng.choice([-200, -90, -40, 60, 150, 300])
    c["vals"] = [g.qs(F(x) * F(2) ** e) for x in c["vals"]]
    ce = rng.choice([-24, -10, 0, 12, 30])
    c["cell"] = [g.qs(F(x) * F(2) ** ce) for x in c["cell"]]
    c["p1"] = [g.qs(F(x) * F(2) ** ce) for x in c["p1"]]
    c.pop("poly", None)
    c.pop("polydeg", None)
    return c


def with_representation(c, rng):
    """other legal argument representations, unusual names, units"""
    c = dict(c)
    c["stream"] = "repr"
    nd, nv = len(c["sh"]), c["nvdim"]
    c["nrep"] = rng.choice(["tuple", "int32", "uint8", "uint16", "int64", "npscalars"])
    c["prep"] = rng.choice(["tuple", "ndarray", "int", "ndarray_int", "float32"])
    if c["prep"] in ("int", "ndarray_int"):
        # integer-typed corners with cells that are fractions of them
        c["p1"] = [g.qs(F(rng.randint(-6, 6))) for _ in range(nd)]
        c["cell"] = [g.qs(F(rng.choice([1, 2, 4]), rng.choice([1, 2, 4]))) for _ in range(nd)]
        c["sh"] = [k if (F(cl) * k).denominator == 1 else 4 for k, cl in zip(c["sh"], c["cell"])]
        ncell = math.prod(c["sh"])
        c["vals"] = [g.qs(F(rng.randint(-24, 24), rng.choice([1, 2]))) for _ in range(ncell * nv)]
        c["valid"] = [rng.random() > 0.15 for _ in range(ncell)]
    names = rng.sample(["V", "n", "r", "v", "a", "dV", "cell", "x", "z"], nd)
    c["dims"] = names
    # mesh.bc is lower-cased by the Mesh constructor: a capital-letter dimension cannot be periodic
    c["periodic_axes"] = [a for a in c["periodic_axes"] if len(names[a]) == 1 and names[a].islower()]
    c["units"] = [rng.choice(["m", "nm", "", "s", "rad"]) for _ in range(nd)]
    c["unit"] = rng.choice([None, "", "A/m", "T"])
    if nv > 1:
        labels = rng.sample(["m", "mx", "mxy", "mxyz", "e", "e1", "n0", "vv"], nv)    # prefixes of one another
        c["vdims"] = labels
        if nv == nd:
            perm = names[:]
            rng.shuffle(perm)
            pairs = [[l, d] for l, d in zip(labels, perm)]
            pairs.reverse()                                  # insertion order differs from vdims
            c["vmap"] = pairs
            c["mapclass"] = "permutation"
        else:
            c["vmap"] = None
            c["mapclass"] = "default-empty"
    else:
        c["vdims"], c["vmap"], c["mapclass"] = None, None, "scalar"
    c.pop("poly", None)
    c.pop("polydeg", None)
    return c


def with_history(c, rng):
    """used, then changed in place through public calls, then the operator"""
    c = dict(c)
    c["stream"] = "history"
    nd, nv, sh = len(c["sh"]), c["nvdim"], c["sh"]
    ncell = math.prod(sh)
    steps = []
    cur = list(sh)        # cells per axis as the history proceeds
    mapped = nv >= 2 and c.get("mapclass") in ("default", "permutation") and nv == nd
    unsure = False
    pow2 = [F(1, 4), F(1, 2), F(2), F(4), F(-1), F(-2), F(-1, 2)]
    for _ in range(rng.randint(1, 3)):
        kind = rng.choice(["mesh_scale", "mesh_scale", "mesh_translate", "region_scale", "region_translate",
                           "field_rot", "mesh_rot", "array_write", "valid_set"]
                          + (["map_item", "map_item", "vdims_set", "map_set"] if mapped else []))
        if kind in ("mesh_scale", "region_scale"):
            fac = [rng.choice(pow2)] if rng.random() < 0.4 else [rng.choice(pow2) for _ in range(nd)]
            steps.append([kind, [g.qs(x) for x in fac]])
        elif kind in ("mesh_translate", "region_translate"):
            steps.append([kind, [g.qs(F(rng.randint(-12, 12), 4)) for _ in range(nd)]])
        elif kind == "field_rot" and nd >= 2:
            a, b = rng.sample(range(nd), 2)
            k = rng.choice([1, 1, 2, 3, -1, 5])
            steps.append([kind, a, b, k])
            if k % 2 and nv == 1:       # (a vector field may refuse the turn; then nothing changes)
                cur[a], cur[b] = cur[b], cur[a]
            elif k % 2:
                unsure = True
        elif kind == "mesh_rot" and nd >= 2:
            a, b = rng.sample(range(nd), 2)
            # an odd turn of the mesh alone keeps the field consistent only if the two axes have equal n
            k = rng.choice([1, 3, -1]) if (cur[a] == cur[b] and not unsure) else 2
            steps.append([kind, a, b, k])
        elif kind == "array_write":
            steps.append([kind, rng.choice(["add_comp0", "first_cell", "times"]), rng.choice([2, 3, -4])])
        elif kind == "valid_set":
            steps.append([kind, [rng.random() > 0.3 for _ in range(ncell)]])
        elif kind == "map_item":
            i, j = rng.sample(range(nv), 2) if nv >= 2 else (0, 0)
            steps.append([kind, rng.choice(["swap", "update", "delins", "swap", "foreign"]), i, j])
            unsure = True
        elif kind == "vdims_set":
            steps.append([kind, rng.choice(["perm", "new"])])
            unsure = True
        elif kind == "map_set":
            steps.append([kind])
            unsure = True
    if not steps:
        steps.append(["mesh_scale", [g.qs(F(-2))]])
    c["pre"] = steps
    c.pop("poly", None)
    c.pop("polydeg", None)
    return c


def rotper_case(rng, tier, op, k):
    """quarter-turn commutation with exactly ONE periodic axis in the rotation plane (plus, at random,
    periodic axes outside the plane); one-letter dimension names so that every axis can be periodic"""
    while True:
        c = fitting_case(rng, tier, op=op, allvalid=(rng.random() < 0.5))
        nd, nv = len(c["sh"]), c["nvdim"]
        if nd >= 2 and (nv == 1 or nv == nd):
            break
    c = dict(c)
    c["stream"] = "rotper"
    names = rng.sample(["x", "y", "z", "a", "b", "c", "r", "t", "q", "w", "n", "e", "u", "m", "d", "i"], nd) \
        if (nd > 3 or rng.random() < 0.5) else None
    old_names = c["dims"] or default_dims(nd)
    new_names = names or default_dims(nd)
    ren = dict(zip(old_names, new_names))
    c["dims"] = names
    if c.get("vmap") is not None:
        c["vmap"] = [[l, ren.get(d, d)] for l, d in c["vmap"]]
    if c.get("vdims") is not None and any(l in new_names for l in c["vdims"]) and nv > 1:
        pass        # labels spelled like dims are welcome
    a, b = rng.sample(range(nd), 2)
    others = [t for t in range(nd) if t not in (a, b)]
    c["periodic_axes"] = sorted([a] + [t for t in others if rng.random() < 0.5])
    c["rot"] = [a, b, k] if rng.random() < 0.5 else [b, a, k]
    c.pop("poly", None)
    c.pop("polydeg", None)
    return c


def bcname_cases(rng, tier):
    """bc keywords and dimension names made of their letters; a multi-character name contained in bc"""
    out = []
    for _ in range(24 if tier == "quick" else 200):
        c = dict(fitting_case(rng, tier))
        nd = len(c["sh"])
        c["stream"] = "bcnames"
        names = rng.sample(["n", "e", "u", "m", "a", "d", "i", "r"], nd)
        old_names = c["dims"] or default_dims(nd)
        ren = dict(zip(old_names, names))
        c["dims"] = names
        if c.get("vmap") is not None:
            c["vmap"] = [[l, ren.get(d, d)] for l, d in c["vmap"]]
        r = rng.random()
        if r < 0.4:
            c["bc"] = rng.choice(BC_KEYWORDS)      # a keyword names no dimension
            c["periodic_axes"] = []
        elif r < 0.5:
            c["bc"] = ""
            c["periodic_axes"] = []
        else:
            c["periodic_axes"] = sorted(rng.sample(range(nd), rng.randint(1, nd)))
        c.pop("poly", None)
        c.pop("polydeg", None)
        out.append(c)
    # ('x', 'y', 'xy') with bc = 'xy': x and y are periodic, the dimension called 'xy' is not
    for op in OPS:
        for _ in range(3 if tier == "quick" else 20):
            while True:
                c = dict(fitting_case(rng, tier, op=op))
                if len(c["sh"]) == 3:
                    break
            names = rng.choice([["x", "y", "xy"], ["xy", "x", "y"], ["y", "yx", "x"]])
            old_names = c["dims"] or default_dims(3)
            ren = dict(zip(old_names, names))
            c["dims"] = names
            if c.get("vmap") is not None:
                c["vmap"] = [[l, ren.get(d, d)] for l, d in c["vmap"]]
            c["bc"] = "xy" if "xy" in names else "yx"
            c["periodic_axes"] = [t for t, nm in enumerate(names) if len(nm) == 1]
            c["stream"] = "bcnames"
            c.pop("poly", None)
            c.pop("polydeg", None)
            out.append(c)
    return out


def hardening_cases(rng, tier):
    q = tier == "quick"
    out = []
    # storage types: integer (signed / unsigned / narrow), float32, complex
    dts = INT_DTYPES + ["float32", "complex128", "complex64"]
    for op in OPS:
        for dtname in dts:
            for rep in range(2 if q else 12):
                base = fitting_case(rng, tier, op=op)
                out.append(with_dtype(base, rng, dtname, slope=(rep == 0)))
    # the slope-1/2 line of the fix commits: integer values j on cells of size 2
    for dtname in ("int64", "uint8", "int16"):
        out.append(dict(op="grad", regime="exact", sh=[5], cell=["2/1"], p1=["0/1"], periodic_axes=[], dims=None,
                        nvdim=1, vdims=None, vmap=None, mapclass="scalar", valid=[True] * 5,
                        vals=[g.qs(F(j)) for j in range(5)], dtype=dtname, stream="dtype"))
        out.append(dict(op="laplace", regime="exact", sh=[4], cell=["2/1"], p1=["0/1"], periodic_axes=[], dims=None,
                        nvdim=1, vdims=None, vmap=None, mapclass="scalar", valid=[True] * 4,
                        vals=[g.qs(F(j)) for j in (3, 1, 0, 4)], dtype=dtname, stream="dtype"))
    for _ in range(30 if q else 300):
        out.append(with_magnitude(fitting_case(rng, tier), rng))
    for _ in range(40 if q else 300):
        out.append(with_representation(fitting_case(rng, tier), rng))
    # quarter turns with one periodic in-plane axis: all four operators, odd and even k
    for op in OPS:
        for k in (1, 2, 3, -1, 5, 4):
            for _ in range(2 if q else 16):
                out.append(rotper_case(rng, tier, op, k))
    out += bcname_cases(rng, tier)
    # derive, relabel the derived field through the setters, then the operator on the original:
    # vector fields with permuted (non-positional) mappings, every derivation x relabelling
    for op in OPS:
        for _ in range(8 if q else 60):
            while True:
                base = fitting_case(rng, tier, op=op)
                if op == "grad" and base["mapclass"] == "scalar-mapped":
                    break                   # grad takes scalar fields: labelled, mapped ones
                if base["nvdim"] > 1 and (base["mapclass"] == "permutation" or op == "laplace"):
                    break
            base = dict(base)
            base["stream"] = "derived"
            base.pop("poly", None)
            base.pop("polydeg", None)
            out.append(base)
    for _ in range(80 if q else 700):
        base = fitting_case(rng, tier)
        if rng.random() < 0.2:
            base = with_dtype(base, rng, rng.choice(["int64", "int32", "complex128", "float32"]))
        out.append(with_history(base, rng))
    return out


# ----------------------------------------------------------------------------- oracle helpers
def fresh_mesh(f):
    """a newly constructed mesh from the corners / n / bc the field reports (no shared caches)"""
    reg = f.mesh.region
    region = df.Region(p1=reg.pmin.tolist(), p2=reg.pmax.tolist(), dims=list(reg.dims))
    return df.Mesh(region=region, n=[int(k) for k in f.mesh.n], bc=f.mesh.bc)


def comp_field(f, cidx, mesh=None):
    """component cidx as a scalar field in floating point (the values are the same numbers whatever the
    storage type of f), on a fresh mesh"""
    a = np.asarray(f.array[..., cidx:cidx + 1])
    dt = np.complex128 if a.dtype.kind == "c" else np.float64
    return df.Field(mesh if mesh is not None else fresh_mesh(f), nvdim=1, value=a.astype(dt), valid=f.valid.copy(),
                    dtype=dt)


def textbook(op, f, dims):
    """the textbook combination of the implementation's own directional derivatives, pairing
    components with axes through f.vdim_mapping.  -> array (…, nvdim_out) indexed BY AXIS for
    grad/curl, or None if the mapping is not a bijection onto the axes (nothing to compare)."""
    nd = len(dims)
    nv = f.nvdim
    if op == "grad":
        s = comp_field(f, 0)
        return np.stack([s.diff(d).array[..., 0] for d in dims], axis=-1)
    if op == "laplace":
        cols = []
        for cidx in range(nv):
            s = comp_field(f, cidx)
            acc = np.zeros(tuple(f.mesh.n), dtype=complex if f.array.dtype.kind == 'c' else float)
            for d in dims:
                acc = acc + s.diff(d, order=2).array[..., 0]
            cols.append(acc)
        return np.stack(cols, axis=-1)
    # div / curl need component <-> axis
    vm = f.vdim_mapping
    if f.vdims is None or any(v not in vm or vm[v] not in dims for v in f.vdims):
        return None
    ax_of = [dims.index(vm[v]) for v in f.vdims]
    if op == "div":
        acc = np.zeros(tuple(f.mesh.n), dtype=complex if f.array.dtype.kind == 'c' else float)
        for cidx, a in enumerate(ax_of):
            acc = acc + comp_field(f, cidx).diff(dims[a]).array[..., 0]
        return acc[..., np.newaxis]
    if sorted(ax_of) != list(range(nd)):
        return None
    comp_at = {a: cidx for cidx, a in enumerate(ax_of)}      # component that points along axis a

    def d(a_comp, a_dir):
        return comp_field(f, comp_at[a_comp]).diff(dims[a_dir]).array[..., 0]
    return np.stack([d(2, 1) - d(1, 2), d(0, 2) - d(2, 0), d(1, 0) - d(0, 1)], axis=-1)


def result_by_axis(res, dims):
    """columns of a grad/curl result ordered by the axis their label is mapped to (None if the
    result's labels do not name every axis exactly once)"""
    if res.nvdim == 1:
        return res.array if len(dims) == 1 else None
    vm = res.vdim_mapping
    if res.vdims is None or any(v not in vm or vm[v] not in dims for v in res.vdims):
        return None
    ax = [dims.index(vm[v]) for v in res.vdims]
    if sorted(ax) != list(range(len(dims))):
        return None
    order = [ax.index(a) for a in range(len(dims))]
    return res.array[..., order]


def maxabs(a):
    a = np.asarray(a)
    if a.dtype.kind in "iub":
        a = a.astype(float)          # abs of the most negative integer overflows in its own type
    return float(np.max(np.abs(a))) if a.size else 0.0


def close(a, b, tol):
    a = np.asarray(a)
    b = np.asarray(b)
    if a.shape != b.shape:
        return False
    if a.size == 0:
        return True
    return bool(np.all(np.abs(a - b) <= tol))


def get_op(f, op):
    return getattr(f, op)


def should_refuse(op, nd, nv, f, dims):
    """refusals the property text demands"""
    if op == "grad":
        return nv != 1
    if op == "laplace":
        return False
    if op == "div" and nv != nd:
        return True
    if op == "curl" and (nv != 3 or nd != 3):
        return True
    vm = f.vdim_mapping
    if f.vdims is None:
        return True
    if any(v not in vm or vm[v] not in dims for v in f.vdims):
        return True
    # curl needs every axis to carry a component (reversed mapping); for div a non-injective mapping
    # is left open (see 'free' in run_case)
    return op == "curl" and sorted(vm[v] for v in f.vdims) != sorted(dims)


def mapping_is_bijection(f, dims):
    vm = f.vdim_mapping
    if f.vdims is None or any(v not in vm or vm[v] not in dims for v in f.vdims):
        return False
    return sorted(vm[v] for v in f.vdims) == sorted(dims)


# ----------------------------------------------------------------------------- one case
def coq_record(exact, op, stt, vals, obs_s):
    in_vm = g.lst([g.pair(g.s(k), g.s(v)) for k, v in stt["vmap"]])
    return (f'(COp {g.b(exact)} {COQ_OP[op]} {g.nl(stt["n"])} {g.ql(stt["cells"])} {g.bl(stt["per"])} '
            f'{g.sl(stt["dims"])} {g.nat(stt["nvdim"])} {g.opt(stt["vdims"], g.sl)} {in_vm} '
            f'{g.ql(vals)} {g.bl(stt["valid"])} {obs_s})')


def run_case(c):
    rec = dict(kind=f'{c["op"]}/{c["regime"]}' + (f'/{c["stream"]}' if c.get("stream") else ""),
               case=c, oracle=[], tags=[])
    op = c["op"]
    exact = c["regime"] == "exact"
    st, r = attempt(lambda: build(c))
    size = len(c["vals"])
    if st != "ok":
        rec.update(kind="unbuildable", obs=dict(err=r), coq=None, key=f"unbuildable/{r}", size=size,
                   nontrivial=False)
        return rec
    f, dims, aux = r
    flag = rec["oracle"].append
    if aux.get("vmap") is not None and f.vdim_mapping is aux["vmap"]:
        flag("field-keeps-callers-mapping-dict")
    if aux.get("vdims") is not None and f.vdims is aux["vdims"]:
        flag("field-keeps-callers-label-list")
    skipped = []
    if c.get("pre"):
        skipped = apply_pre(f, c, dims)
        if any(s_[0] in ("field_rot", "mesh_rot") for s_ in c["pre"]):
            exact = False        # Region.rotate90 evaluates cos / sin in floating point
    stt = read_state(f)
    dims = stt["dims"]
    sh, nd, nv = stt["n"], len(stt["n"]), stt["nvdim"]
    hmin = min(float(x) for x in stt["cells"])
    order = 2 if op == "laplace" else 1
    vmax = maxabs(f.array)
    scale = 16 * nd * vmax / hmin ** order
    tol = 0.0 if exact else TOL * scale
    dt = f.array.dtype
    before = snapshot(f)
    st, res = attempt(lambda: get_op(f, op))
    after = snapshot(f)
    if not snap_equal(before, after):
        flag("operand-changed-by-call")
    if not aux_unchanged(aux) and not c.get("pre"):
        flag("caller-container-changed")
    # the same call again; a call on another field of the same shape in between
    st2, res2 = attempt(lambda: get_op(f, op))
    if st2 != st or (st == "ok" and not results_equal(res, res2)):
        flag("repeated-call-differs")
    if st == "ok":
        if np.shares_memory(res.array, f.array) or np.shares_memory(res.valid, f.valid):
            flag("result-shares-memory-with-operand")
        other_arr = (np.roll(f.array, 1, axis=0) * 2 + 1).astype(f.array.dtype) if dt.kind != "u" else \
            np.roll(f.array, 1, axis=0)
        sto, gfield = attempt(lambda: df.Field(f.mesh, nvdim=nv, value=other_arr, valid=~f.valid if not np.all(f.valid) else f.valid,
                                               vdims=f.vdims, vdim_mapping=dict(f.vdim_mapping), dtype=dt))
        if sto == "ok":
            attempt(lambda: get_op(gfield, op))
            st3, res3 = attempt(lambda: get_op(f, op))
            if st3 != "ok" or not results_equal(res, res3):
                flag("call-on-other-field-leaks-state")
            if not snap_equal(before, snapshot(f)):
                flag("operand-changed-by-call")
    # relabelling a DERIVED field must not reach the original
    if f.vdims is not None and len(dims) >= 1:
        if c.get("stream") == "derived":
            hh = hash(tuple(c["vals"][:5]))
            choices = [(h_, RELABELS[(hh + j) % len(RELABELS)]) for j, h_ in enumerate(DERIVATIONS) if not (h_ == "rot" and nd < 2)]
        else:
            hh = hash(tuple(c["vals"][:5]))
            hows = [h_ for h_ in DERIVATIONS if not (h_ == "rot" and nd < 2)]
            choices = [(hows[hh % len(hows)], RELABELS[(hh // 11) % len(RELABELS)])]
        broken = derived_relabel_check(f, op, dims, res if st == "ok" else None, st, before, choices)
        if broken:
            flag("operand-changed-through-derived-field")
            rec.setdefault("meta", {})["derived_broken"] = broken
        rec.setdefault("meta", {})["derived_checked"] = len(choices)
    must_refuse = should_refuse(op, nd, nv, f, dims)
    fully_valid = bool(np.all(f.valid))
    bij = mapping_is_bijection(f, dims) if nv > 1 or (nv == 1 and f.vdims) else False
    # classes where the property leaves the outcome open: a non-injective mapping for div,
    # the Laplacian of a vector field without component labels
    free = (op == "div" and not must_refuse and nv > 1 and not bij) or \
           (op == "laplace" and nv > 1 and f.vdims is None)
    cplx = stt["im"] is not None
    if st != "ok":
        obs = dict(refused=res)
        if not must_refuse and not free:
            flag("fitting-field-refused")
        obs_re = obs_im = "None"
    else:
        if must_refuse:
            flag("misfit-not-refused")
        out = np.asarray(res.array)
        if out.dtype.kind not in "fc":
            flag("result-not-floating-point")
        o_re = js(np.real(out).reshape(-1))
        o_im = js(np.imag(out).reshape(-1)) if out.dtype.kind == "c" else None
        if cplx != (o_im is not None):
            flag("result-complexness-differs-from-field")
        obs = dict(nvdim=int(res.nvdim), array=o_re, array_im=o_im, vdims=res.vdims, dtype=str(out.dtype),
                   vmap=[[k, v] for k, v in res.vdim_mapping.items()])
        vd_s = g.opt(res.vdims, g.sl)
        vm_s = g.lst([g.pair(g.s(k), g.s(v)) for k, v in res.vdim_mapping.items()])
        obs_re = f"(Some ({g.nat(res.nvdim)}, {g.ql(o_re)}, {vd_s}, {vm_s}))"
        obs_im = f"(Some ({g.nat(res.nvdim)}, {g.ql(o_im if o_im is not None else ['0/1'] * len(o_re))}, {vd_s}, {vm_s}))"
        oracle_ok(rec, c, f, dims, res, op, tol, exact, fully_valid, scale)
    rec["oracle"] = sorted(set(rec["oracle"]))
    coq = coq_record(exact, op, stt, stt["re"], obs_re)
    if cplx:
        coq = f"(CBoth {coq} {coq_record(exact, op, stt, stt['im'], obs_im)})"
    if free and (st != "ok" or op == "laplace"):
        coq = None      # unspecified outcome: both a refusal and the textbook value are admissible
    mask_cls = "all" if fully_valid else "masked"
    key = (f'{op}/{c["regime"]}/{tuple(sh)}/{nv}/{c["mapclass"]}/{"".join(str(int(b)) for b in stt["per"])}/'
           f'{mask_cls}/{"poly%d" % c["polydeg"] if c.get("poly") else "rand"}/{st}/{dt}/{c.get("stream", "")}/'
           f'{"+".join(s_[0] for s_ in c.get("pre", []))}/{hash(tuple(c["vals"][:6])) % 5}')
    rec.update(obs=obs, coq=coq, key=key, size=size, nontrivial=bool(size > 1))
    rec["refused"] = st != "ok"
    rec["meta_pre"] = dict(skipped=skipped) if c.get("pre") else None
    return rec


def oracle_ok(rec, c, f, dims, res, op, tol, exact, fully_valid, scale):
    nd, nv = len(dims), f.nvdim
    flag = rec["oracle"].append
    # --- shape of the result
    want_nv = dict(grad=nd, div=1, curl=3, laplace=nv)[op]
    if res.nvdim != want_nv or res.array.shape != tuple(int(k) for k in f.mesh.n) + (want_nv,):
        flag("result-shape")
        return
    if not res.mesh == f.mesh:
        flag("mesh-changed")
    # --- textbook combination, components paired with axes through the mapping
    tb = textbook(op, f, dims)
    if tb is not None:
        if op in ("grad", "curl"):
            got = result_by_axis(res, dims)
            if got is None:
                flag("result-mapping-not-onto-axes")
            elif not close(got, tb, tol):
                flag("textbook-" + op)
        elif not close(res.array, tb, tol):
            flag("textbook-" + op)
    if op == "laplace" and nv > 1:
        if res.vdims != f.vdims or dict(res.vdim_mapping) != dict(f.vdim_mapping):
            flag("laplace-labels-or-mapping-changed")
    # --- polynomial exactness (degree <= 2, >= 3 cells per direction, fully valid, open)
    if c.get("poly") and c["polydeg"] <= 2 and fully_valid and not c["periodic_axes"] and min(c["sh"]) >= 3:
        exp = analytic(c, f, dims, op)
        if exp is not None:
            got = result_by_axis(res, dims) if op in ("grad", "curl") else res.array
            if got is not None:
                if exact:
                    ok = [F(x) for x in np.asarray(got).reshape(-1).tolist()] == exp
                else:
                    ok = close(np.asarray(got).reshape(-1), np.array([float(x) for x in exp]), TOL * scale)
                if not ok:
                    flag("polynomial-not-exact-" + op)
    # --- a constant background does not change any of the four operators
    # (only where value + constant is exact: values that are multiples of 2^-10 below 2^12)
    if exact and f.array.dtype == np.float64 and maxabs(f.array) <= 2.0 ** 12 and not c.get("pre") \
            and bool(np.all(np.mod(f.array * 1024.0, 1.0) == 0.0)):
        for cst in (2.0 ** 30, -1.0e7):
            stc, fc = attempt(lambda: df.Field(f.mesh, nvdim=nv, value=f.array + cst, valid=f.valid.copy(),
                                               vdims=f.vdims, vdim_mapping=dict(f.vdim_mapping)))
            if stc != "ok":
                continue
            stc, rc = attempt(lambda: get_op(fc, op))
            if stc != "ok":
                flag("constant-offset-refused")
            elif not np.array_equal(rc.array, res.array):
                flag("constant-offset-changes-" + op)
    # --- vector identities on fully valid meshes
    if fully_valid:
        hmin = min(float(x) for x in f.mesh.cell)
        ztol = TOL * 16 * nd * nd * maxabs(f.array) / hmin ** 2
        if op == "grad" and nd == 3:
            st, cg = attempt(lambda: res.curl)
            if st != "ok":
                flag("curl-of-grad-refused")
            elif maxabs(cg.array) > ztol:
                flag("curl-grad-nonzero")
        if op == "curl":
            st, dc = attempt(lambda: res.div)
            if st != "ok":
                flag("div-of-curl-refused")
            elif maxabs(dc.array) > ztol:
                flag("div-curl-nonzero")
    # --- commutation with quarter turns of the field
    if nd >= 2 and (nv == 1 or mapping_is_bijection(f, dims)):
        pairs = [(a, b) for a in range(nd) for b in range(nd) if a != b]
        h = hash(tuple(c["vals"][:8]))
        a, b = pairs[h % len(pairs)]
        k = 1 + (h // 7) % 3
        if c.get("rot") and not c.get("pre"):
            a, b, k = c["rot"]
        # any set of periodic axes: Mesh.rotate90 exchanges the periodicity of the two axes for odd k
        # Field.rotate90 keeps the storage type: an unsigned vector field, or a signed one holding the
        # most negative value of its type, cannot hold the rotated components (C12's concern, not C05's)
        dtk = f.array.dtype
        rot_representable = dtk.kind in "fc" or nv == 1 or \
            (dtk.kind == "i" and int(f.array.min()) > np.iinfo(dtk).min)
        if rot_representable:
            st1, fr = attempt(lambda: f.rotate90(dims[a], dims[b], k=k))
            st2, rr = attempt(lambda: res.rotate90(dims[a], dims[b], k=k))
            if st1 == "ok" and st2 == "ok":
                st3, orr = attempt(lambda: get_op(fr, op))
                if st3 != "ok":
                    flag("rotated-field-refused")
                else:
                    if op in ("grad", "curl"):
                        x, y = result_by_axis(orr, dims), result_by_axis(rr, dims)
                    else:
                        x, y = orr.array, rr.array
                    # the rotated mesh is computed with floating cos/sin: its cells carry rounding even in the
                    # exact regime, so this clause is always compared in the tolerance form
                    if x is None or y is None or not close(x, y, 4 * TOL * scale):
                        flag("rot90-commute-" + op)
                    rec.setdefault("meta", {})["rot90"] = True


def analytic(c, f, dims, op):
    """exact derivative combination of the generating polynomials at the cell centres
    (by axis for grad/curl, by component for laplace), flattened in C order"""
    nd, nv = len(dims), f.nvdim
    ctr = centres(c)
    P = c["poly"]
    if op in ("div", "curl"):
        if not mapping_is_bijection(f, dims):
            return None
        ax_of = [dims.index(f.vdim_mapping[v]) for v in f.vdims]
        comp_at = {a: ci for ci, a in enumerate(ax_of)}
    out = []
    for idx in itertools.product(*[range(k) for k in c["sh"]]):
        x = [ctr[a][j] for a, j in enumerate(idx)]
        if c["regime"] == "scale":
            pass
        if op == "grad":
            out += [poly_d1(P[0], x, a) for a in range(nd)]
        elif op == "div":
            out.append(sum(poly_d1(P[ci], x, a) for ci, a in enumerate(ax_of)))
        elif op == "curl":
            def d(a_comp, a_dir):
                return poly_d1(P[comp_at[a_comp]], x, a_dir)
            out += [d(2, 1) - d(1, 2), d(0, 2) - d(2, 0), d(1, 0) - d(0, 1)]
        else:
            out += [sum(poly_d2(P[ci], x, a) for a in range(nd)) for ci in range(nv)]
    return out


def stats(records):
    out = dict(refused=0, accepted=0, unbuildable=0, rot90_checked=0, masked=0, periodic=0, scale=0,
               unspecified_outcome=0)
    byop, streams, dtypes, steps, skipped = {}, {}, {}, {}, 0
    for r in records:
        c = r["case"]
        if r["kind"] == "unbuildable":
            out["unbuildable"] += 1
            continue
        out["refused" if r.get("refused") else "accepted"] += 1
        out["rot90_checked"] += int(bool(r.get("meta", {}).get("rot90")))
        out["masked"] += int(not all(c["valid"]))
        out["periodic"] += int(bool(c["periodic_axes"]))
        out["scale"] += int(c["regime"] == "scale")
        out["unspecified_outcome"] += int(r.get("coq") is None)
        byop[c["op"]] = byop.get(c["op"], 0) + 1
        streams[c.get("stream", "base")] = streams.get(c.get("stream", "base"), 0) + 1
        if c.get("dtype"):
            dtypes[c["dtype"]] = dtypes.get(c["dtype"], 0) + 1
        for s_ in c.get("pre", []):
            steps[s_[0]] = steps.get(s_[0], 0) + 1
        if r.get("meta_pre"):
            skipped += len(r["meta_pre"]["skipped"])
    out.update(by_op=byop, streams=streams, dtypes=dtypes, history_steps=steps, history_steps_refused=skipped)
    return out
