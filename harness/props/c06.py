"""C06 — integrals and means: generators, implementation runner, Gallina encoding, oracle."""
import itertools
import math
from fractions import Fraction as F

import numpy as np

from harness import gallina as g
from harness.util import import_df, js, attempt, relayout, LAYOUTS

df = import_df()


def gen_field(rng, nd=None):
    nd = nd or rng.choice([1, 2, 2, 3, 3, 4])
    sh = [rng.randint(1, 5 if nd < 4 else 3) for _ in range(nd)]
    nvdim = rng.choice([1, 1, 2, 3, 4])
    cell = [F(rng.choice([1, 3, 5]), 2 ** rng.randint(0, 4)) for _ in range(nd)]   # anisotropic, dyadic
    p1 = [F(rng.randint(-40, 40), 4) for _ in range(nd)]
    vals = [F(rng.randint(-50, 50), rng.choice([1, 1, 2, 4])) for _ in range(math.prod(sh) * nvdim)]
    # any dimension names: one letter, attribute-like, several characters (the DEFAULT names of a 4-d mesh are
    # x0..x3), names contained in one another, the empty string, letters of the bc keywords
    names = rng.sample(["x", "y", "z", "a", "b", "r", "t", "q", "V", "S", "n", "k", "e", "u", "d", "i", "xy", "ab",
                        "x0", "x10", "long_name", "", "T", "X"], nd) if rng.random() < 0.6 else None
    one_letter = [d for d in (names or (["x", "y", "z"][:nd] if nd <= 3 else [])) if len(d) == 1]
    bc = rng.choice(["", "", "neumann", "dirichlet", "".join(rng.sample(one_letter, rng.randint(0, len(one_letter))))])
    dtype = rng.choice(["float", "float", "int", "none"])
    if dtype == "int":
        vals = [F(int(v)) for v in vals]
    pm = rng.choice([0.0, 0.0, 0.3, 0.7])
    valid = [rng.random() >= pm for _ in range(math.prod(sh))]
    # operations carried out on the field's mesh BEFORE the integral is taken (stale-cache / in-place paths)
    pre = rng.choice([None, None, "scale2", "scale1/2", "translate"])
    return dict(sh=sh, nvdim=nvdim, cell=[g.qs(x) for x in cell], p1=[g.qs(x) for x in p1],
                vals=[g.qs(v) for v in vals], dims=names, bc=bc, dtype=dtype, valid=valid, pre=pre,
                layout=rng.choice(LAYOUTS), layout_set=rng.random() < 0.5)


def build(c, shift=None):
    sh = c["sh"]
    cell = [F(x) for x in c["cell"]]
    p1 = [F(x) for x in c["p1"]]
    if shift:
        p1 = [a + s for a, s in zip(p1, shift)]
    p2 = [a + k * h for a, k, h in zip(p1, sh, cell)]
    region = df.Region(p1=[float(x) for x in p1], p2=[float(x) for x in p2], dims=c.get("dims"))
    mesh = df.Mesh(region=region, n=sh, bc=c.get("bc", ""))   # integrals and means do not depend on bc
    dt = {"float": float, "int": int, "none": None}[c.get("dtype", "float")]
    arr = np.array([float(F(x)) for x in c["vals"]], dtype=dt or float).reshape(*sh, c["nvdim"])
    valid = np.array(c.get("valid", [True] * math.prod(sh)), dtype=bool).reshape(*sh)
    lay = c.get("layout")
    f = df.Field(mesh, nvdim=c["nvdim"], value=relayout(arr, lay), dtype=dt, valid=relayout(valid, lay))
    if lay and c.get("layout_set"):
        f.array = relayout(arr, lay)     # the setter keeps the caller's memory order
    pre = c.get("pre")
    if pre:
        f.integrate()            # touch every cached geometric quantity first
        _ = f.mesh.dV, f.mesh.cell
        if pre == "scale2":
            f.mesh.scale(2, reference_point=[float(x) for x in p1], inplace=True)
        elif pre == "scale1/2":
            f.mesh.scale(0.5, reference_point=[float(x) for x in p1], inplace=True)
        else:
            f.mesh.translate([float(k) for k in sh], inplace=True)
    return f


def generate(rng, tier):
    cases = []
    nf = 70 if tier == "quick" else 700
    for _ in range(nf):
        f = gen_field(rng)
        nd = len(f["sh"])
        cases.append(dict(kind="all", field=f))
        cases.append(dict(kind="dir", field=f, ax=rng.randrange(nd)))
        cases.append(dict(kind="cum", field=f, ax=rng.randrange(nd)))
        cases.append(dict(kind="mean_all", field=f))
        cases.append(dict(kind="mean_dir", field=f, ax=rng.randrange(nd)))
        if nd >= 2:
            order = list(range(nd))
            rng.shuffle(order)
            cases.append(dict(kind="fubini", field=f, order=order))
            k = rng.randint(2, nd)
            cases.append(dict(kind="mean_multi", field=f, axes=rng.sample(range(nd), k)))
        cases.append(dict(kind="invariance", field=f, shift=[g.qs(F(rng.randint(-64, 64), 2)) for _ in range(nd)]))
        if rng.random() < 0.5:
            cases.append(dict(kind="complex", field=f, ax=rng.randrange(nd),
                              axes=(rng.sample(range(nd), rng.randint(2, nd)) if nd >= 2 else None)))
    for _ in range(60 if tier == "quick" else 500):
        cases.append(gen_extreme(rng))
    # larger arrays: strategies that switch with size (block-wise summation, chunked loops); values stay dyadic,
    # so every sum is exact
    # (the Coq model indexes lists, so a shard costs O(cells^2): sizes are kept to a few hundred cells)
    for sh in ([129], [257], [130, 2], [2, 131], [2, 2, 65]) if tier == "quick" else \
            ([129], [257], [513], [130, 2], [2, 131], [2, 2, 65], [17, 17], [9, 9, 5], [3, 2, 2, 33]):
        f = gen_field(rng, nd=len(sh))
        f["sh"] = list(sh)
        f["vals"] = [g.qs(F(rng.randint(-50, 50), rng.choice([1, 2, 4]))) for _ in range(math.prod(sh) * f["nvdim"])]
        if f["dtype"] == "int":
            f["vals"] = [g.qs(F(int(F(v)))) for v in f["vals"]]
        f["valid"] = [rng.random() >= 0.2 for _ in range(math.prod(sh))]
        big = max(range(len(sh)), key=lambda a: sh[a])
        cases.append(dict(kind="all", field=f))
        cases.append(dict(kind="dir", field=f, ax=big))
        cases.append(dict(kind="cum", field=f, ax=big))
        cases.append(dict(kind="mean_dir", field=f, ax=big))
        cases.append(dict(kind="mean_all", field=f))
    return cases


def exact(arr):
    return [F(float(x)) for x in np.asarray(arr, dtype=float).reshape(-1).tolist()]


def gen_extreme(rng):
    """oracle-only cases (no Coq term): non-finite and huge cell values; strongly anisotropic decimal meshes"""
    what = rng.choice(["nonfinite", "nonfinite", "huge", "strip", "strip"])
    if what == "strip":
        # a thin, long strip: edge ratios 1e4 .. 1e6, decimal (non-dyadic) cell sizes, one cell along an axis
        edges = [rng.choice([50e-6, 1e-5, 3e-3]), rng.choice([60e-9, 5e-9, 2e-8]), rng.choice([0.3e-9, 1e-9, 2e-9])]
        n = [rng.choice([70, 35, 13, 100]), rng.choice([6, 3, 7]), rng.choice([1, 1, 2])]
        perm = rng.sample(range(3), 3)
        return dict(kind="extreme", what=what, edges=[edges[i] for i in perm], n=[n[i] for i in perm],
                    p1=[rng.choice([0.0, 1e-7, -2e-6]) for _ in range(3)], nvdim=rng.choice([1, 3]),
                    order=rng.sample(range(3), 3), seed=rng.randrange(10 ** 6))
    nd = rng.choice([1, 2, 3])
    sh = [rng.randint(1, 5) for _ in range(nd)]
    return dict(kind="extreme", what=what, sh=sh, nvdim=rng.choice([1, 2]), ax=rng.randrange(nd),
                seed=rng.randrange(10 ** 6), k=rng.randint(1, 3))


def run_extreme(c):
    rec = dict(kind="extreme", case=c, oracle=[], tags=[], coq=None)
    r_ = np.random.RandomState(c["seed"])

    def same(a, b, tol=0.0):
        a, b = np.asarray(a, dtype=float), np.asarray(b, dtype=float)
        if a.shape != b.shape:
            return False
        fin = np.isfinite(a) & np.isfinite(b)
        if not np.array_equal(np.isnan(a), np.isnan(b)) or not np.array_equal(a[~fin & ~np.isnan(a)], b[~fin & ~np.isnan(b)]):
            return False
        return bool(np.all(np.abs(a[fin] - b[fin]) <= tol * max(1.0, float(np.max(np.abs(b[fin]), initial=0.0)))))
    with np.errstate(all="ignore"):
        if c["what"] == "strip":
            p1 = c["p1"]
            p2 = [a + e for a, e in zip(p1, c["edges"])]
            st, mesh = attempt(lambda: df.Mesh(p1=p1, p2=p2, n=c["n"]))
            if st != "ok":
                rec.update(obs=dict(err=mesh), key="extreme/strip/mesh-refused", size=3)
                return rec          # the constructor's own business (C01), nothing to integrate
            arr = r_.randint(-8, 9, size=(*c["n"], c["nvdim"])).astype(float)
            f = df.Field(mesh, nvdim=c["nvdim"], value=arr)
            dims = mesh.region.dims
            for a in range(3):
                st, r = attempt(lambda: f.integrate(dims[a]))
                stm, rm = attempt(lambda: f.mean(dims[a]))
                if st != "ok" or stm != "ok":
                    rec["oracle"].append("directional-call-raised")
                    continue
                if not same(r.array, arr.sum(axis=a) * mesh.cell[a], 1e-12):
                    rec["oracle"].append("directional-integral")
                if not same(rm.array, arr.mean(axis=a), 1e-12):
                    rec["oracle"].append("directional-mean")
            # direction by direction in the drawn order equals the integral over all directions
            cur, st = f, "ok"
            for a in c["order"]:
                st, cur = attempt(lambda: cur.integrate(dims[a]))
                if st != "ok":
                    rec["oracle"].append("directional-call-raised")
                    break
            if st == "ok" and not same(np.asarray(cur).reshape(-1), np.asarray(f.integrate()).reshape(-1), 1e-11):
                rec["oracle"].append("fubini")
            rec.update(obs=dict(n=c["n"]), key=f'extreme/strip/{tuple(c["n"])}', size=3, nontrivial=True)
            rec["oracle"] = sorted(set(rec["oracle"]))
            return rec
        sh, nvdim, ax = c["sh"], c["nvdim"], c["ax"]
        mesh = df.Mesh(p1=[0.0] * len(sh), p2=[float(2 * k) for k in sh], n=sh)      # cell 2 along every axis
        arr = r_.randint(-8, 9, size=(*sh, nvdim)).astype(float)
        flat = arr.reshape(-1)
        special = [np.nan, np.inf, -np.inf] if c["what"] == "nonfinite" else [1.5e308, -1.2e308, 8e307]
        for i in r_.choice(flat.size, size=min(c["k"], flat.size), replace=False):
            flat[i] = special[int(r_.randint(len(special)))]
        f = df.Field(mesh, nvdim=nvdim, value=arr)
        dims = mesh.region.dims
        h = float(mesh.cell[ax])
        dV = float(np.prod(mesh.cell))
        # the documented formulas evaluated in numpy on the stored values, non-finite values propagating
        if not same(np.asarray(f.integrate()).reshape(-1), arr.reshape(-1, nvdim).sum(axis=0) * dV, 1e-12):
            rec["oracle"].append("total-integral")
        r = f.integrate(dims[ax])
        if not same(np.asarray(r if isinstance(r, np.ndarray) else r.array).reshape(-1),
                    (arr.sum(axis=ax) * h).reshape(-1), 1e-12):
            rec["oracle"].append("directional-integral")
        cum = f.integrate(dims[ax], cumulative=True).array
        a_ = np.moveaxis(arr, ax, 0)
        want = np.empty_like(a_)
        run = np.zeros_like(a_[0])
        for j in range(a_.shape[0]):
            want[j] = (run + a_[j] / 2) * h          # preceding cells + half the own value
            run = run + a_[j]
        if not same(np.moveaxis(cum, ax, 0), want, 1e-12):
            rec["oracle"].append("cumulative-formula")
        rec.update(obs=dict(sh=sh), key=f'extreme/{c["what"]}/{tuple(sh)}/{ax}', size=len(sh), nontrivial=True)
    rec["oracle"] = sorted(set(rec["oracle"]))
    return rec


def run_case(c):
    if c["kind"] == "extreme":
        return run_extreme(c)
    fc = c["field"]
    kind = c["kind"]
    rec = dict(kind=kind, case=c, oracle=[], tags=[], coq=None)
    f = build(fc)
    sh, nvdim = fc["sh"], fc["nvdim"]
    nd = len(sh)
    fac = {"scale2": 2, "scale1/2": F(1, 2)}.get(fc.get("pre"), 1)
    cell = [F(x) * fac for x in fc["cell"]]
    dims = f.mesh.region.dims
    A = np.array([F(x) for x in fc["vals"]], dtype=object).reshape(*sh, nvdim)
    pre = f"{g.nl(sh)} {g.nat(nvdim)}"
    key = f"{kind}/{tuple(sh)}/{nvdim}/{c.get('ax', c.get('order', c.get('axes', '')))}"
    scale = max([abs(x) for x in A.reshape(-1).tolist()] + [F(1)])
    if kind == "all":
        r = f.integrate()
        obs = dict(value=js(r))
        want = [sum(A[..., k].reshape(-1).tolist()) * math.prod(cell) for k in range(nvdim)]
        if exact(r) != want:
            rec["oracle"].append("total-integral")
        st, _ = attempt(lambda: f.integrate(cumulative=True))
        if st == "ok":
            rec["oracle"].append("cumulative-without-direction-accepted")
        rec["coq"] = f'CIntAll {pre} {g.q(math.prod(cell))} {g.ql(fc["vals"])} {g.ql(obs["value"])}'
    elif kind in ("dir", "mean_dir"):
        ax = c["ax"]
        r = f.integrate(dims[ax]) if kind == "dir" else f.mean(dims[ax])
        arr = r if isinstance(r, np.ndarray) else r.array
        obs = dict(array=js(np.asarray(arr).reshape(-1)))
        if nd > 1:
            m = r.mesh
            keep = [a for a in range(nd) if a != ax]
            obs.update(n=js(m.n), pmin=js(m.region.pmin), pmax=js(m.region.pmax), dims=list(m.region.dims))
            if ([int(x) for x in m.n] != [sh[a] for a in keep]
                    or list(m.region.dims) != [dims[a] for a in keep]
                    or exact(m.region.pmin) != exact([f.mesh.region.pmin[a] for a in keep])
                    or exact(m.region.pmax) != exact([f.mesh.region.pmax[a] for a in keep])):
                rec["oracle"].append("result-mesh-not-axis-removed")
            if r.nvdim != nvdim or r.vdims != f.vdims:
                rec["oracle"].append("components-changed")
        if kind == "dir":
            # equivalent spellings of the same call: falsy cumulative flags of other types, numpy string direction
            for kw in (dict(cumulative=np.False_), dict(cumulative=0), dict(cumulative=False)):
                st2, r2 = attempt(lambda: f.integrate(dims[ax], **kw))
                a2 = None if st2 != "ok" else (r2 if isinstance(r2, np.ndarray) else r2.array)
                if st2 != "ok" or not np.array_equal(np.asarray(a2), np.asarray(arr)):
                    rec["oracle"].append("cumulative-flag-spelling")
            st2, r2 = attempt(lambda: f.integrate(np.str_(dims[ax])))
            a2 = None if st2 != "ok" else (r2 if isinstance(r2, np.ndarray) else r2.array)
            if st2 != "ok" or not np.array_equal(np.asarray(a2), np.asarray(arr)):
                rec["oracle"].append("direction-spelling")
        S = A.sum(axis=ax)
        if kind == "dir":
            want = [x * cell[ax] for x in S.reshape(-1).tolist()]
            if exact(arr) != want:
                rec["oracle"].append("directional-integral")
            rec["coq"] = f'CIntDir {pre} {g.nat(ax)} {g.q(cell[ax])} {g.ql(fc["vals"])} {g.ql(obs["array"])}'
        else:
            want = [x / sh[ax] for x in S.reshape(-1).tolist()]
            if any(abs(a - b) > F(1, 10 ** 12) * scale for a, b in zip(exact(arr), want)):
                rec["oracle"].append("directional-mean")
            rec["coq"] = f'CMeanDir {pre} {g.nat(ax)} {g.ql(fc["vals"])} {g.q(scale)} {g.ql(obs["array"])}'
    elif kind == "cum":
        ax = c["ax"]
        r = f.integrate(dims[ax], cumulative=True)
        obs = dict(array=js(r.array.reshape(-1)))
        if not (r.mesh == f.mesh):
            rec["oracle"].append("cumulative-mesh-changed")
        for flag in (np.True_, 1, np.bool_(sh[ax] > 0)):
            st2, r2 = attempt(lambda: f.integrate(dims[ax], cumulative=flag))
            if st2 != "ok" or not np.array_equal(r2.array, r.array) or not (r2.mesh == f.mesh):
                rec["oracle"].append("cumulative-flag-spelling")
        # c_j = h*(sum_{i<j} a_i + a_j/2); last + h*a_last/2 = directional integral
        C = np.array(exact(r.array), dtype=object).reshape(*sh, nvdim)
        run = np.zeros_like(A.take(0, axis=ax))
        for j in range(sh[ax]):
            aj = A.take(j, axis=ax)
            if (C.take(j, axis=ax) != (run + aj / 2) * cell[ax]).any():
                rec["oracle"].append("cumulative-formula")
            run = run + aj
        d = f.integrate(dims[ax])
        darr = d if isinstance(d, np.ndarray) else d.array
        last = C.take(sh[ax] - 1, axis=ax) + A.take(sh[ax] - 1, axis=ax) * cell[ax] / 2
        if last.reshape(-1).tolist() != exact(darr):
            rec["oracle"].append("cumulative-last-plus-half")
        rec["coq"] = f'CIntCum {pre} {g.nat(ax)} {g.q(cell[ax])} {g.ql(fc["vals"])} {g.ql(obs["array"])}'
    elif kind == "mean_all":
        r = f.mean()
        obs = dict(value=js(r))
        want = [sum(A[..., k].reshape(-1).tolist()) / math.prod(sh) for k in range(nvdim)]
        if any(abs(a - b) > F(1, 10 ** 12) * scale for a, b in zip(exact(r), want)):
            rec["oracle"].append("mean")
        # mean x extent = integral
        vol = math.prod(c_ * k for c_, k in zip(cell, sh))
        if any(abs(a * vol - b) > F(1, 10 ** 11) * scale * vol for a, b in zip(exact(r), exact(f.integrate()))):
            rec["oracle"].append("mean-times-volume")
        rec["coq"] = f'CMeanAll {pre} {g.ql(fc["vals"])} {g.q(scale)} {g.ql(obs["value"])}'
    elif kind == "fubini":
        order = c["order"]
        cur = f
        for a in order:
            cur = cur.integrate(dims[a])
        val = cur if isinstance(cur, np.ndarray) else cur.array
        obs = dict(value=js(np.asarray(val).reshape(-1)))
        want = [sum(A[..., k].reshape(-1).tolist()) * math.prod(cell) for k in range(nvdim)]
        if exact(val) != want or exact(f.integrate()) != want:
            rec["oracle"].append("fubini")
    elif kind == "mean_multi":
        axes = c["axes"]
        names = [dims[a] for a in axes]
        r = f.mean(names if len(names) < nd else tuple(names))
        arr = r if isinstance(r, np.ndarray) else r.array
        obs = dict(array=js(np.asarray(arr).reshape(-1)))
        S = A
        for a in sorted(axes, reverse=True):
            S = S.sum(axis=a)
        cnt = math.prod(sh[a] for a in axes)
        want = [x / cnt for x in S.reshape(-1).tolist()]
        if any(abs(a - b) > F(1, 10 ** 12) * scale for a, b in zip(exact(arr), want)):
            rec["oracle"].append("mean-several-directions")
        if not isinstance(r, np.ndarray):
            keep = [a for a in range(nd) if a not in axes]
            if [int(x) for x in r.mesh.n] != [sh[a] for a in keep] or list(r.mesh.region.dims) != [dims[a] for a in keep]:
                rec["oracle"].append("result-mesh-not-axes-removed")
        st, _ = attempt(lambda: f.mean([names[0], names[0]]))
        if st == "ok":
            rec["oracle"].append("duplicate-directions-accepted")
    elif kind == "invariance":
        shift = [F(x) for x in c["shift"]]
        f2 = build(fc, shift)
        obs = dict(value=js(f.integrate()))
        ok = exact(f.integrate()) == exact(f2.integrate()) and exact(f.mean()) == exact(f2.mean())
        for a in range(nd):
            r1, r2 = f.integrate(dims[a]), f2.integrate(dims[a])
            a1 = r1 if isinstance(r1, np.ndarray) else r1.array
            a2 = r2 if isinstance(r2, np.ndarray) else r2.array
            ok = ok and exact(a1) == exact(a2)
            ok = ok and exact(f.integrate(dims[a], cumulative=True).array) == exact(f2.integrate(dims[a], cumulative=True).array)
        if not ok:
            rec["oracle"].append("depends-on-mesh-position")
        # linearity of the total and of one directional integral
        g2 = build(dict(fc, vals=[g.qs(F((3 * i * i + 1) % 17 - 8)) for i in range(len(fc["vals"]))]))
        comb = 2 * f - 3 * g2
        if exact(comb.integrate()) != [2 * a - 3 * b for a, b in zip(exact(f.integrate()), exact(g2.integrate()))]:
            rec["oracle"].append("linearity")
    elif kind == "complex":
        # complex-valued field z = re + i*im: every integral / mean must act on the two parts separately
        vals = [F(x) for x in fc["vals"]]
        im = list(reversed(vals))
        fre = build(dict(fc, dtype="float", pre=None))
        fim = build(dict(fc, dtype="float", pre=None, vals=[g.qs(x) for x in im]))
        z = np.array([complex(float(a), float(b)) for a, b in zip(vals, im)]).reshape(*sh, nvdim)
        fz = df.Field(fre.mesh, nvdim=nvdim, value=z, dtype=complex, valid=fre.valid)
        ax = c["ax"]

        def arr_of(r):
            return np.asarray(r if isinstance(r, np.ndarray) else r.array)
        ops = {"integrate": lambda h: h.integrate(), "integrate-dir": lambda h: h.integrate(dims[ax]),
               "integrate-cum": lambda h: h.integrate(dims[ax], cumulative=True),
               "mean": lambda h: h.mean(), "mean-dir": lambda h: h.mean(dims[ax])}
        if c.get("axes"):
            names = [dims[a] for a in c["axes"]]
            ops["mean-multi"] = lambda h: h.mean(names if len(names) < nd else tuple(names))
        obs = {}
        for name, op in ops.items():
            rz, rr, ri = arr_of(op(fz)), arr_of(op(fre)), arr_of(op(fim))
            obs[name] = js(np.asarray(rz).reshape(-1)[:4])
            tol = 0.0 if name.startswith("integrate") else 1e-12 * float(scale)
            if rz.shape != rr.shape or np.max(np.abs(rz.real - rr), initial=0) > tol or np.max(np.abs(rz.imag - ri), initial=0) > tol:
                rec["oracle"].append(f"complex-parts-{name}")
    else:
        raise ValueError(kind)
    rec["oracle"] = sorted(set(rec["oracle"]))
    rec.update(obs=obs, key=key, size=len(fc["vals"]), nontrivial=len(fc["vals"]) > 1)
    return rec
