"""C07 — sub-selection, extraction, padding and resampling keep every value at its physical
position: generators, implementation runner, Gallina encoding, property oracle."""
import itertools
import math
import random
from fractions import Fraction as F

import numpy as np

from harness import gallina as g
from harness.util import import_df, js, attempt

df = import_df()

MODES = ["constant", "edge", "wrap", "symmetric", "reflect"]
MODE_COQ = dict(constant="PConstant", edge="PEdge", wrap="PWrap", symmetric="PSymmetric", reflect="PReflect")
NAMES = ["x", "y", "z", "a", "b", "r", "t", "u", "V", "n", "v", "xy"]
MAXCELLS = 96


def S(x):
    return g.qs(x)


def fl(s):
    return float(F(s))


def fls(xs):
    return [fl(x) for x in xs]


# ------------------------------------------------------------------ source fields
def default_dims(nd):
    return ["x", "y", "z"][:nd] if nd <= 3 else [f"x{i}" for i in range(nd)]


INT_CELLS = [F(1, 2), F(1, 2), F(1, 4), F(3, 2), F(5, 2), F(3, 4), F(1), F(2)]


def gen_src(rng, exact=True, nd=None, nmax=6, typed=False, plain=False):
    """typed=True: integer-valued corners handed over as Python ints / numpy int64 (region.pmin.dtype is
    int64), mostly fractional cells, n / corners in various container and scalar types"""
    nd = nd or rng.choice([1, 1, 2, 2, 2, 3, 3, 3, 4])
    while True:
        if typed:
            cs = [rng.choice(INT_CELLS) for _ in range(nd)]
            n = [c.denominator * rng.randint(1, max(1, nmax // c.denominator)) for c in cs]
        else:
            n = [rng.randint(1, nmax) for _ in range(nd)]
        if math.prod(n) <= MAXCELLS:
            break
    lo, hi, cells = [], [], []
    sc = 1.0 if exact else rng.choice([1e-9, 1e-9, 1e-6, 1e-3, 1.0, 1.0, 1e3])
    for a_, k in enumerate(n):
        if typed:
            l = F(rng.randint(-6, 6))
            lo.append(l)
            hi.append(l + k * cs[a_])
        elif exact:
            c = F(rng.choice([1, 1, 3, 5, 7]), 2 ** rng.randint(0, 3))
            l = F(rng.randint(-128, 128), 8)
            lo.append(l)
            hi.append(l + k * c)
        else:
            c = rng.choice([0.1, 0.2, 0.3, 0.7, 1.1, 2.5, 5.0, 0.05]) * sc
            l = rng.choice([0.0, 0.0, -0.3, 0.7, 1.1, -2.3, 10.1]) * sc
            h = l + k * c
            lo.append(F(l))
            hi.append(F(h))
    if exact and not typed and not plain:
        # tiny / huge magnitudes (exact powers of two): any absolute tolerance or offset would show
        mag = F(2) ** rng.choice([0, 0, 0, 0, -200, -60, 40, 300])
        lo, hi = [x * mag for x in lo], [x * mag for x in hi]
    p1, p2 = list(lo), list(hi)
    for a in range(nd):
        if rng.random() < 0.3:
            p1[a], p2[a] = p2[a], p1[a]
    r_ = rng.random()
    if r_ < 0.3:
        dims = rng.sample(NAMES, nd)
    elif r_ < 0.5:
        # names equal up to case, contained in one another, attribute-like, multi-character: the axis acted on
        # is the one with EXACTLY the name given
        fam = rng.choice([["x", "X", "t", "T"], ["a", "A", "aa", "Aa"], ["n", "N", "y", "Y"], ["x", "xy", "y", "xyz"],
                          ["V", "n", "cell", "pmin"], ["Z", "z", "zz", "x"], ["long_name", "Long_Name", "other", "o"]])
        dims = fam[:nd]
        if rng.random() < 0.5:
            rng.shuffle(dims)
    else:
        dims = default_dims(nd)
    tf = F(1, 2 ** rng.choice([20, 30, 40])) if exact and rng.random() < 0.7 else F(1e-12)
    cell = [(h - l) / k for l, h, k in zip(lo, hi, n)]
    subs = []
    if exact or rng.random() < 0.5:
        for name in rng.sample(["s1", "s2", "sr", "default_", "top"], rng.choice([0, 1, 2, 2, 3])):
            slo, shi = [], []
            for a in range(nd):
                i0 = rng.randint(0, n[a] - 1)
                i1 = rng.randint(i0 + 1, n[a])
                if exact:
                    slo.append(lo[a] + i0 * cell[a])
                    shi.append(lo[a] + i1 * cell[a])
                else:
                    fc = (float(hi[a]) - float(lo[a])) / n[a]
                    slo.append(F(float(lo[a]) + i0 * fc))
                    shi.append(F(float(lo[a]) + i1 * fc))
            subs.append([name, [S(x) for x in slo], [S(x) for x in shi]])
    nvdim = rng.choice([1, 1, 2, 3])
    ncell = math.prod(n)
    base = rng.randint(-50, 50)
    vals = [[base + (cid * nvdim + k) * (1 if k % 2 == 0 else -1) for k in range(nvdim)] for cid in range(ncell)]
    if rng.random() < 0.3:
        vals = [[v + F(rng.randint(0, 3), 4) for v in row] for row in vals]
    pm = rng.choice([0.0, 0.2, 0.5])
    valid = [rng.random() >= pm for _ in range(ncell)]
    ty = dict(corner="float", ntype="list", by="n", subcorner="float", vdtype="float")
    if exact and not plain:
        ty["vdtype"] = rng.choice(["float", "float", "float", "float", "int", "int", "uint16", "int32", "int32", "float32", "float32",
                                   "complex", "complex", "complex", "bigint"])
        ty["ntype"] = rng.choice(["list", "tuple", "nparray", "npscalars", "npmixed"])
        ty["units"] = rng.choice([None, None, "mixed", "empty"])
        ty["labels"] = rng.choice([None, None, "prefix", "odd"])
    if typed:
        ty = dict(corner=rng.choice(["int", "int", "npint", "mixed"]), ntype=rng.choice(["list", "tuple", "nparray", "npscalars"]),
                  by=rng.choice(["n", "n", "cell", "cellint"]), subcorner=rng.choice(["int", "npint", "float"]),
                  vdtype=rng.choice(["float", "int", "uint16", "int32"]), units=rng.choice([None, "mixed"]),
                  labels=rng.choice([None, "prefix"]))
        if nd == 1 and rng.random() < 0.5:
            ty.update(corner="scalar", ntype=rng.choice(["scalar", "list"]), by=rng.choice(["n", "cellscalar"]))
    vd = ty["vdtype"]
    if vd in ("int", "uint16", "int32", "bigint"):
        shift = {"int": 0, "uint16": 400, "int32": 2 ** 31 - 1 - 400, "bigint": 2 ** 62}[vd]
        vals = [[F(math.floor(v)) + shift for v in row] for row in vals]
    cplx = vd == "complex"
    if cplx:     # rows hold (re, im) pairs, component after component
        vals = [[x for v in row for x in (v, -v + F(1, 2))] for row in vals]
    return dict(exact=exact, p1=[S(x) for x in p1], p2=[S(x) for x in p2], n=n, tf=S(tf), dims=dims,
                subs=subs, nvdim=nvdim, vals=[[S(v) for v in row] for row in vals], valid=valid, ty=ty, cplx=cplx)


def geom(s):
    p1, p2 = [F(x) for x in s["p1"]], [F(x) for x in s["p2"]]
    lo = [min(a, b) for a, b in zip(p1, p2)]
    hi = [max(a, b) for a, b in zip(p1, p2)]
    return lo, hi, [(h - l) / k for l, h, k in zip(lo, hi, s["n"])]


def typed_seq(xs, how):
    """hand the exact rationals xs to the library as the requested Python / numpy types (integer types
    only where every entry is integral)"""
    fr = [F(x) for x in xs]
    integral = all(x.denominator == 1 and abs(x) < 2 ** 53 for x in fr)
    if how == "scalar" and len(fr) == 1:          # one-dimensional meshes accept bare numbers
        return int(fr[0]) if integral else float(fr[0])
    if how == "int" and integral:
        return [int(x) for x in fr]
    if how == "npint" and integral:
        return np.array([int(x) for x in fr], dtype=np.int64)
    if how == "mixed":
        return [int(x) if (x.denominator == 1 and abs(x) < 2 ** 53 and i % 2 == 0) else float(x) for i, x in enumerate(fr)]
    if how == "npfloat":
        return np.array([float(x) for x in fr], dtype=np.float64)
    if how == "tuple":
        return tuple(float(x) for x in fr)
    return [float(x) for x in fr]


def typed_scalar(x, how):
    x = F(x)
    small = abs(x) < 2 ** 53
    if how == "int" and x.denominator == 1 and small:
        return int(x)
    if how == "npint" and x.denominator == 1 and small:
        return np.int64(int(x))
    if how == "npfloat":
        return np.float64(float(x))
    if how == "npfloat32" and 2.0 ** -120 < abs(float(x)) < 2.0 ** 120 and F(float(np.float32(float(x)))) == x:
        return np.float32(float(x))
    return float(x)


def build(s):
    ty = s.get("ty") or dict(corner="float", ntype="list", by="n", subcorner="float", vdtype="float")
    nd_ = len(s["n"])
    units = {None: None, "mixed": (["nm", "m", "", "s"] * 2)[:nd_], "empty": [""] * nd_}[ty.get("units")]
    region = df.Region(p1=typed_seq(s["p1"], ty["corner"]), p2=typed_seq(s["p2"], ty["corner"]),
                       dims=s["dims"], units=units, tolerance_factor=fl(s["tf"]))
    subregions = {name: df.Region(p1=typed_seq(a, ty["subcorner"]), p2=typed_seq(b, ty["subcorner"]))
                  for name, a, b in s["subs"]}
    n = s["n"]
    if ty["by"] in ("cell", "cellint", "cellscalar"):
        _, _, cell = geom(s)
        mesh = df.Mesh(region=region, subregions=subregions,
                       cell=typed_seq(cell, {"cell": "float", "cellint": "int", "cellscalar": "scalar"}[ty["by"]]))
    else:
        widths = [np.uint8, np.int32, np.uint64, np.int16]
        nn = {"list": list(n), "tuple": tuple(n), "nparray": np.array(n), "scalar": n[0],
              "npscalars": [np.int64(k) for k in n],
              "npmixed": [widths[i % 4](k) for i, k in enumerate(n)]}[ty["ntype"]]
        mesh = df.Mesh(region=region, n=nn, subregions=subregions)
    arr, valid = src_arrays(s)
    nv = s["nvdim"]
    vdims = vmap = None
    if ty.get("labels") and nv > 1:
        vdims = {"prefix": ["p", "pq", "pqr"], "odd": ["v", "n_", "V"]}[ty["labels"]][:nv]
        if nv == nd_:      # insertion order of the mapping differs from the order of the labels
            vmap = {vdims[k]: s["dims"][k] for k in reversed(range(nv))}
    return df.Field(mesh, nvdim=nv, value=arr, valid=valid, vdims=vdims, vdim_mapping=vmap,
                    dtype=None if arr.dtype == np.float64 else arr.dtype)


# ------------------------------------------------------------------ request generators
def coord_classes(rng, s, a):
    """interesting coordinates along axis a (exact regime): (class, Fraction)"""
    lo, hi, cell = geom(s)
    n = s["n"]
    j = rng.randint(0, n[a])
    jc = rng.randint(0, n[a] - 1)
    out = [("centre", lo[a] + (jc + F(1, 2)) * cell[a]),
           ("face", lo[a] + j * cell[a]),
           ("face+", lo[a] + j * cell[a] + cell[a] / 1024),
           ("face-", lo[a] + j * cell[a] - cell[a] / 1024),
           ("pmin", lo[a]), ("pmax", hi[a]),
           ("interior", lo[a] + F(rng.randint(1, 1023), 1024) * (hi[a] - lo[a])),
           ("frac", lo[a] + (jc + rng.choice([F(3, 4), F(7, 8), F(1, 4), F(5, 8)])) * cell[a]),
           ("integer", F(rng.randint(math.ceil(lo[a]), math.floor(hi[a])))
            if math.ceil(lo[a]) <= math.floor(hi[a]) else lo[a]),
           ("pmin-tiny", lo[a] - (hi[a] - lo[a]) * F(s["tf"]) / 4),
           ("pmax+tiny", hi[a] + (hi[a] - lo[a]) * F(s["tf"]) / 4),
           ("below", lo[a] - cell[a] * rng.choice([F(1, 2), 1, 3])),
           ("above", hi[a] + cell[a] * rng.choice([F(1, 2), 1, 3]))]
    for name, slo, shi in s["subs"]:
        out.append(("subface", F(rng.choice([slo[a], shi[a]]))))
    return out


def gen_sel(rng, s, tier):
    nd = len(s["n"])
    cases = []
    for a in range(nd):
        cls = coord_classes(rng, s, a)
        cases.append(dict(kind="sel", src=s, a=a, arg=dict(t="centre"), cls="centre-default"))
        k = 3 if tier == "quick" else 6
        xts = ["float", "float", "int", "npint", "npfloat", "npfloat32"]
        for c, x in rng.sample(cls, min(k, len(cls))):
            cases.append(dict(kind="sel", src=s, a=a, arg=dict(t="point", x=S(x), xt=rng.choice(xts)), cls="pt-" + c))
        for _ in range(k):
            (c1, x1), (c2, x2) = rng.choice(cls), rng.choice(cls)
            cases.append(dict(kind="sel", src=s, a=a, cls=f"rg-{c1}-{c2}",
                              arg=dict(t="range", x1=S(x1), x2=S(x2), xt=rng.choice(xts), xt2=rng.choice(xts),
                                       form=rng.choice(["tuple", "list", "array", "intarray"]))))
    if rng.random() < 0.3:
        cases.append(dict(kind="sel", src=s, a=nd, arg=dict(t="centre"), cls="unknown-dim"))
        cases.append(dict(kind="sel", src=s, a=nd + 1, arg=dict(t="point", x=S(0)), cls="unknown-dim"))
    return cases


def gen_boxes(rng, s, count):
    lo, hi, cell = geom(s)
    n = s["n"]
    nd = len(n)
    out = []
    for _ in range(count):
        cls = rng.choice(["aligned", "aligned", "arbitrary", "arbitrary", "thin", "mixed", "touch-hi", "whole",
                          "partly-out", "out", "tiny-out-hi", "tiny-out-lo", "partly-out-lo", "out-lo"])
        q1, q2 = [], []
        for a in range(nd):
            i0 = rng.randint(0, n[a] - 1)
            i1 = rng.randint(i0 + 1, n[a])
            if cls == "aligned" or (cls == "mixed" and rng.random() < 0.5):
                x0, x1 = lo[a] + i0 * cell[a], lo[a] + i1 * cell[a]
            elif cls == "thin":
                x0 = lo[a] + (i0 + F(rng.randint(1, 6), 16)) * cell[a]
                x1 = x0 + cell[a] * F(rng.randint(1, 9), 16)
            elif cls == "touch-hi":
                x0, x1 = lo[a] + (i0 + F(1, 4)) * cell[a], hi[a]
            elif cls == "whole":
                x0, x1 = lo[a], hi[a]
            else:
                x0 = lo[a] + (i0 + F(rng.randint(0, 15), 16)) * cell[a]
                x1 = lo[a] + (i1 - F(rng.randint(0, 15), 16)) * cell[a]
                if x1 <= x0:
                    x1 = x0 + cell[a] / 16
            q1.append(x0)
            q2.append(x1)
        b = rng.randrange(nd)
        if cls == "partly-out":
            q2[b] = hi[b] + cell[b] * rng.choice([F(1, 2), 1, 1, 2])
        elif cls == "out":
            q1[b], q2[b] = hi[b] + cell[b], hi[b] + 3 * cell[b]
        elif cls == "partly-out-lo":       # sticks out below by half a cell / by several cells
            q1[b] = lo[b] - cell[b] * rng.choice([F(1, 2), 2])
        elif cls == "out-lo":
            q1[b], q2[b] = lo[b] - 3 * cell[b], lo[b] - cell[b]
        elif cls == "tiny-out-hi":
            q2[b] = hi[b] + (hi[b] - lo[b]) * F(s["tf"]) / 4
        elif cls == "tiny-out-lo":
            q1[b] = lo[b] - (hi[b] - lo[b]) * F(s["tf"]) / 4
        if rng.random() < 0.3:
            for a in range(nd):
                if rng.random() < 0.5:
                    q1[a], q2[a] = q2[a], q1[a]
        out.append((cls, [S(x) for x in q1], [S(x) for x in q2]))
    if all(x.denominator == 1 for x in lo + hi):
        # boxes on integer coordinates (vertex-aligned or not, depending on the cell size)
        for _ in range(max(1, count // 2)):
            q1 = [F(rng.randint(int(l), int(h) - 1)) for l, h in zip(lo, hi)]
            q2 = [F(rng.randint(int(x) + 1, int(h))) for x, h in zip(q1, hi)]
            out.append(("intbox", [S(x) for x in q1], [S(x) for x in q2]))
    return out


def gen_ops(rng, s, tier):
    nd = len(s["n"])
    n = s["n"]
    cases = gen_sel(rng, s, tier)
    kb = 5 if tier == "quick" else 10
    qts = ["float", "float", "int", "npint", "mixed", "npfloat", "tuple"]
    for cls, q1, q2 in gen_boxes(rng, s, kb):
        cases.append(dict(kind="getregion", src=s, q1=q1, q2=q2, cls=cls, qt=rng.choice(qts)))
    for name, _, _ in s["subs"]:
        cases.append(dict(kind="getname", src=s, name=name, cls="present"))
    if rng.random() < 0.5:
        cases.append(dict(kind="getname", src=s, name="nosuch", cls="missing"))
    for cls, q1, q2 in gen_boxes(rng, s, kb):
        if cls in ("aligned", "whole", "out", "partly-out", "out-lo"):
            cases.append(dict(kind="slices", src=s, q1=q1, q2=q2, cls=cls, qt=rng.choice(qts)))
    for name, a, b in s["subs"][:2]:
        cases.append(dict(kind="slices", src=s, q1=a, q2=b, cls="subregion"))
    for _ in range(3 if tier == "quick" else 6):
        axes = rng.sample(range(nd), rng.randint(1, nd))
        wmax = rng.choice([1, 2, 3, 3, 9])
        pw = [[0, 0]] * nd
        pw = [list(w) for w in pw]
        for a in axes:
            pw[a] = [rng.randint(0, wmax), rng.randint(0, wmax)]
        if math.prod(k + w[0] + w[1] for k, w in zip(n, pw)) > 4 * MAXCELLS:
            continue
        md = rng.choice(MODES)
        cls = "plain"
        r = rng.random()
        if r < 0.08:
            a = rng.choice(axes)
            pw[a][rng.randrange(2)] = -1
            cls = "negative"
        elif r < 0.14:
            cls = "unknown-dim"
        cases.append(dict(kind="pad", src=s, pw=pw, axes=sorted(axes), mode=md, cls=cls,
                          wt=rng.choice(["tuple", "list", "npint", "nparray"])))
    # numpy.pad modes together with the arguments that complete them (Field.pad "accepts any other
    # arguments allowed by numpy.pad"): checked against numpy.pad of the source arrays with the same arguments
    for _ in range(2 if tier == "quick" else 4):
        axes = rng.sample(range(nd), rng.randint(1, nd))
        pw = [[0, 0] for _ in range(nd)]
        for a in axes:
            pw[a] = [rng.randint(0, 3), rng.randint(0, 3)]
        if math.prod(k + w[0] + w[1] for k, w in zip(n, pw)) > 4 * MAXCELLS:
            continue
        md, kw = rng.choice([
            ("constant", dict(constant_values=rng.randint(-9, 9))),
            ("constant", dict(constant_values=[rng.randint(1, 9), -rng.randint(1, 9)])),
            ("constant", dict(constant_values=S(F(rng.randint(1, 15), 4)))),
            ("reflect", dict(reflect_type="odd")), ("symmetric", dict(reflect_type="odd")),
            ("reflect", dict(reflect_type="even")),
            ("mean", dict(stat_length=rng.randint(1, 3))), ("maximum", dict(stat_length=[1, 2])),
            ("minimum", dict(stat_length=rng.randint(1, 2))), ("median", dict(stat_length=rng.randint(1, 3))),
            ("mean", {}), ("maximum", {}), ("minimum", {}), ("median", {}),
            ("linear_ramp", dict(end_values=rng.randint(-9, 9))), ("linear_ramp", dict(end_values=[3, -2])),
            ("linear_ramp", {}),
        ])
        cases.append(dict(kind="padkw", src=s, pw=pw, axes=sorted(axes), mode=md, kw=kw, cls="kw"))
    lo_, hi_, cell_ = geom(s)
    for _ in range(2 if tier == "quick" else 4):
        # a new mesh inside the source region (whole region, cell-aligned or arbitrary box) initialised from the field
        q1, q2, nn = [], [], []
        for a in range(nd):
            how = rng.choice(["whole", "aligned", "arbitrary"])
            i0 = rng.randint(0, n[a] - 1)
            i1 = rng.randint(i0 + 1, n[a])
            if how == "whole":
                x0, x1 = lo_[a], hi_[a]
            elif how == "aligned":
                x0, x1 = lo_[a] + i0 * cell_[a], lo_[a] + i1 * cell_[a]
            else:
                x0 = lo_[a] + (i0 + F(rng.randint(0, 7), 8)) * cell_[a]
                x1 = lo_[a] + (i1 - F(rng.randint(0, 6), 8)) * cell_[a]
                if x1 <= x0:
                    x1 = x0 + cell_[a] / 8
            q1.append(x0)
            q2.append(x1)
            k_ = max(1, round((x1 - x0) / cell_[a]))
            nn.append(rng.choice([1, 2, 3, 4, 6, k_, max(1, k_ // 2), 2 * k_]))
        for a in range(nd):
            while (((q2[a] - q1[a]) / nn[a]).denominator & (((q2[a] - q1[a]) / nn[a]).denominator - 1)) != 0:
                nn[a] += 1
        if math.prod(nn) <= 2 * MAXCELLS:
            cases.append(dict(kind="fromfield", src=s, q1=[S(x) for x in q1], q2=[S(x) for x in q2], nn=nn, cls="fromfield"))
    for _ in range(3 if tier == "quick" else 6):
        nn = [rng.randint(1, 9) for _ in range(nd)]
        if math.prod(nn) > 2 * MAXCELLS:
            nn = [min(k, 3) for k in nn]
        cls = "plain"
        r = rng.random()
        if r < 0.07:
            nn[rng.randrange(nd)] = rng.choice([0, -2])
            cls = "nonpositive"
        elif r < 0.12:
            nn = nn + [2]
            cls = "wrong-length"
        elif r < 0.3:
            nn = [k * rng.choice([1, 2, 3]) for k in n]
            cls = "multiple"
        elif r < 0.4:
            nn = list(n)
            cls = "same"
        elif r < 0.75:
            # target centres exactly on source cell boundaries (coarsening 8 -> 4, 6 -> 3, 12 -> 2, 4 -> 6 ...)
            nn = []
            for k in n:
                ties = [x for x in range(1, 10) if any(((2 * j + 1) * k) % (2 * x) == 0 for j in range(x))]
                nn.append(rng.choice(ties) if ties else rng.randint(1, 9))
            cls = "tie"
        if cls not in ("nonpositive", "wrong-length"):
            # a target centre that lies exactly on a source cell boundary is only meaningful in the exact regime
            # when the target cell size is representable (power-of-two denominator): otherwise move to the next n
            for a in range(nd):
                e_a = hi_[a] - lo_[a]
                while (any(((2 * j + 1) * n[a]) % (2 * nn[a]) == 0 for j in range(nn[a]))
                       and ((e_a / nn[a]).denominator & ((e_a / nn[a]).denominator - 1)) != 0):
                    nn[a] += 1
        cases.append(dict(kind="resample", src=s, nn=nn, cls=cls, nt=rng.choice(["tuple", "list", "nparray", "npscalars"])))
    return cases


def gen_scale(rng, tier):
    return gen_scale_ops(rng, tier, gen_src(rng, exact=False, nmax=6))


def gen_scale_ops(rng, tier, s):
    nd = len(s["n"])
    flo, fhi = [float(x) for x in geom(s)[0]], [float(x) for x in geom(s)[1]]
    n = s["n"]
    fc = [(h - l) / k for l, h, k in zip(flo, fhi, n)]
    cases = []

    def vertex(a, j):
        # the decimal the user would type for vertex j: rounded to 12 significant digits
        return float(f"{flo[a] + j * fc[a]:.12g}")
    for _ in range(4 if tier == "quick" else 8):
        a = rng.randrange(nd)
        i0 = rng.randint(0, n[a] - 1)
        i1 = rng.randint(i0, n[a] - 1)
        cls = rng.choice(["centres", "inside", "out"])
        if cls == "centres":
            x1, x2 = flo[a] + (i0 + 0.5) * fc[a], flo[a] + (i1 + 0.5) * fc[a]
        elif cls == "inside":
            x1, x2 = flo[a] + (i0 + rng.uniform(0.1, 0.9)) * fc[a], flo[a] + (i1 + rng.uniform(0.1, 0.9)) * fc[a]
        else:
            x1, x2 = flo[a] + (i0 + 0.5) * fc[a], fhi[a] + rng.choice([0.01, 2.0]) * fc[a]
        if rng.random() < 0.3:
            x1, x2 = x2, x1
        cases.append(dict(kind="blockscale", src=s, bk=0, a=a, q1=[S(x1)], q2=[S(x2)], cls="range-" + cls))
    for _ in range(5 if tier == "quick" else 10):
        cls = rng.choice(["vertex", "vertex", "arbitrary", "out"])
        q1, q2 = [], []
        for a in range(nd):
            i0 = rng.randint(0, n[a] - 1)
            i1 = rng.randint(i0 + 1, n[a])
            if cls == "vertex":
                x0, x1 = vertex(a, i0), vertex(a, i1)
                x0, x1 = max(x0, flo[a]), min(x1, fhi[a])
            else:
                x0 = flo[a] + (i0 + rng.uniform(0.05, 0.9)) * fc[a]
                x1 = flo[a] + (i1 - rng.uniform(0.05, 0.9)) * fc[a]
                if x1 <= x0:
                    x1 = x0 + 0.04 * fc[a]
            q1.append(x0)
            q2.append(x1)
        if cls == "out":
            b = rng.randrange(nd)
            q2[b] = fhi[b] + rng.choice([0.01, 1.5]) * fc[b]
        cases.append(dict(kind="blockscale", src=s, bk=1, a=0, q1=[S(x) for x in q1], q2=[S(x) for x in q2],
                          cls="box-" + cls))
    return cases


def gen_stateful(rng, tier):
    """'used, then changed in place' sources: the request is generated against the state the object reports
    after public in-place calls (mesh / region translate and scale incl. negative factors, field.rotate90,
    writes into array / valid)"""
    flavour = rng.choice(["any", "any", "rot", "region", "region", "shared"])
    want_rot = flavour == "rot"
    while True:
        s = gen_src(rng, exact=True, nmax=5, plain=True, nd=rng.choice([2, 2, 3]) if want_rot else None)
        if want_rot and s["nvdim"] != 1:
            continue
        if flavour == "region" and s["subs"]:      # the Region object is changed behind the mesh's back
            s["subs"] = []
        break
    nd = len(s["n"])
    n = s["n"]
    ncell = math.prod(n)
    steps = []
    kinds = rng.sample(["translate", "scale", "scale", "write", "validset", "validflip", "arrayset", "rot"],
                       rng.randint(1, 3))
    if want_rot and "rot" not in kinds:
        kinds.append("rot")
    if "rot" in kinds and (nd < 2 or s["nvdim"] > 1):   # Field.rotate90 needs a vdim_mapping for vector fields
        kinds = [k for k in kinds if k != "rot"] or ["translate"]
    if "rot" in kinds:                      # the quarter turn last: geometry is inexact afterwards
        kinds = [k for k in kinds if k != "rot"] + ["rot"]
    if flavour == "region":
        kinds = [k for k in kinds if k not in ("translate", "scale")] + [rng.choice(["translate", "scale"])]
        rng.shuffle(kinds)
        if "rot" in kinds:
            kinds = [k for k in kinds if k != "rot"] + ["rot"]
    if flavour == "shared":
        # the region is moved through ANOTHER mesh built on the same Region object (the mesh of a resample
        # result shares it): r = f.resample(n); r.mesh.translate / scale(..., inplace=True)
        via = rng.choice(["mesh", "mesh", "region"])
        nn = [rng.randint(1, 6) for _ in range(nd)]
        if rng.random() < 0.5:
            steps.append(dict(op="via_resample", n=nn, on=via, move="translate",
                              v=[S(F(rng.randint(-64, 64), 8)) for _ in range(nd)]))
        else:
            steps.append(dict(op="via_resample", n=nn, on=via, move="scale", f=S(rng.choice([2, F(1, 2), 4, -1]))))
    for k in kinds:
        on = "region" if (not s["subs"] and (flavour == "region" or rng.random() < 0.4)) else "mesh"
        if k == "translate":
            steps.append(dict(op=k, on=on, v=[S(F(rng.randint(-64, 64), 8)) for _ in range(nd)]))
        elif k == "scale":
            facs = [2, F(1, 2), -1, 4, -2, F(1, 4), 1]
            fac = [S(rng.choice(facs)) for _ in range(nd)] if rng.random() < 0.6 else S(rng.choice(facs[:-1]))
            ref = [S(F(rng.randint(-32, 32), 4)) for _ in range(nd)] if rng.random() < 0.5 else None
            steps.append(dict(op=k, on=on, f=fac, ref=ref))
        elif k == "rot":
            a, b = rng.sample(range(nd), 2)
            steps.append(dict(op=k, a=a, b=b, k=rng.choice([1, 3, -1, 1, 2])))
        elif k == "write":
            steps.append(dict(op=k, idx=[rng.randrange(x) for x in n], val=[S(rng.randint(500, 900)) for _ in range(s["nvdim"])]))
        elif k == "validset":
            steps.append(dict(op=k, mask=[rng.random() < 0.6 for _ in range(ncell)]))
        elif k == "validflip":
            steps.append(dict(op=k, idx=[rng.randrange(x) for x in n]))
        else:
            steps.append(dict(op=k, vals=[[S(1000 + c_ * s["nvdim"] + j) for j in range(s["nvdim"])] for c_ in range(ncell)]))
    seed = rng.randrange(10 ** 9)
    if flavour in ("region", "shared"):
        want = ["resample", "resample", "sel", "getregion", "resample", "pad", "slices", "sel"]
    elif want_rot:
        want = [None] * 8
    else:
        want = ["resample", "sel", "getregion", "pad", None, "getname", "sel", "slices"]
    cnt = 5 if tier == "quick" else 8
    return [dict(kind="stateful", src=s, steps=steps, seed=seed, pick=rng.randrange(10 ** 6), pick_kind=want[j])
            for j in range(cnt)]


# ------------------------------------------------------------------ directed core (identical in every run)
def dsrc(p1, p2, n, dims=None, subs=(), nvdim=1, vals=None, valid=None, exact=True, tf=None, ty=None, shift=0):
    nd = len(n)
    ncell = math.prod(n)
    if vals is None:
        vals = [[shift + cid + 1 + 100 * k for k in range(nvdim)] for cid in range(ncell)]
    if valid is None:
        valid = [cid % 3 != 1 for cid in range(ncell)]
    ty_ = dict(corner="float", ntype="list", by="n", subcorner="float", vdtype="float")
    ty_.update(ty or {})
    return dict(exact=exact, p1=[S(x) for x in p1], p2=[S(x) for x in p2], n=list(n),
                tf=S(tf if tf is not None else (F(1, 2 ** 40) if exact else F(1e-12))),
                dims=list(dims) if dims else default_dims(nd),
                subs=[[k, [S(x) for x in a], [S(x) for x in b]] for k, a, b in subs], nvdim=nvdim,
                vals=[[S(v) for v in row] for row in vals], valid=list(valid), ty=ty_, cplx=False)


def directed_core():
    """one small fixed group of cases per mechanism that a seeded change of rounds a-e exercised; independent of
    tier and seed"""
    Q = F
    C = []

    def pt(s, a, x, tag, xt="float"):
        C.append(dict(kind="sel", src=s, a=a, arg=dict(t="point", x=S(x), xt=xt), cls="core-" + tag))

    def rg(s, a, x1, x2, tag, form="tuple", xt="float"):
        C.append(dict(kind="sel", src=s, a=a, cls="core-" + tag,
                      arg=dict(t="range", x1=S(x1), x2=S(x2), xt=xt, xt2=xt, form=form)))

    def ctr(s, a, tag):
        C.append(dict(kind="sel", src=s, a=a, arg=dict(t="centre"), cls="core-" + tag))

    def rs(s, nn, tag, nt="tuple"):
        C.append(dict(kind="resample", src=s, nn=list(nn), cls="core-" + tag, nt=nt))

    # a1: integer-typed corners, fractional cells, non-integer coordinates
    for corner in ("int", "npint"):
        s = dsrc([0, 0], [4, 3], [8, 6], ty=dict(corner=corner, ntype="tuple", subcorner="int"),
                 subs=[("left", [0, 0], [2, 3])])
        pt(s, 0, Q(7, 4), "a1")
        pt(s, 1, Q(5, 4), "a1", xt="npfloat")
        pt(s, 0, Q(7, 4), "a1", xt="npfloat32")
        rg(s, 0, Q(7, 4), Q(11, 4), "a1")
        rg(s, 1, Q(3, 4), Q(9, 4), "a1", form="list")
    # a2: vertex-aligned boxes whose coordinates are not representable (scale regime)
    s = dsrc([0.0, 0.0], [1.0, 0.5], [10, 5], exact=False)
    for q1, q2 in (([0.3, 0.1], [0.6, 0.4]), ([0.7, 0.2], [0.9, 0.3]), ([0.6, 0.3], [0.7, 0.4])):
        C.append(dict(kind="blockscale", src=s, bk=1, a=0, q1=[S(x) for x in q1], q2=[S(x) for x in q2], cls="core-a2"))
    s = dsrc([0.0], [100e-9], [20], exact=False)
    for q1, q2 in ((30e-9, 55e-9), (35e-9, 60e-9), (55e-9, 70e-9)):
        C.append(dict(kind="blockscale", src=s, bk=1, a=0, q1=[S(q1)], q2=[S(q2)], cls="core-a2"))
    # a3: validity that is not "value != 0" survives resampling
    s = dsrc([0, 0], [4, 2], [4, 2], vals=[[0], [5], [7], [0], [3], [0], [9], [2]],
             valid=[True, False, True, False, True, True, False, True])
    for nn in ([4, 2], [8, 4], [2, 1], [3, 2]):
        rs(s, nn, "a3")
    # b1: default (central) plane on axes with 3, 7 cells
    s = dsrc([0, 0], [3, 7], [3, 7])
    ctr(s, 0, "b1"), ctr(s, 1, "b1")
    s = dsrc([-1, 2, 0], [6, 5, 2], [7, 3, 2], nvdim=2)
    ctr(s, 0, "b1"), ctr(s, 1, "b1"), ctr(s, 2, "b1")
    # b2 / c3: padding modes and the arguments completing them; validity varies next to the boundary
    s = dsrc([0, 0], [5, 3], [5, 3], nvdim=2, valid=[c_ % 2 == 0 for c_ in range(15)])
    for md in ("symmetric", "reflect", "wrap", "edge", "constant"):
        C.append(dict(kind="pad", src=s, pw=[[2, 3], [0, 0]], axes=[0], mode=md, cls="core-b2", wt="tuple"))
        C.append(dict(kind="pad", src=s, pw=[[0, 0], [3, 2]], axes=[1], mode=md, cls="core-b2", wt="list"))
    for md, kw in (("constant", dict(constant_values=5)), ("constant", dict(constant_values=[2, -3])),
                   ("reflect", dict(reflect_type="odd")), ("symmetric", dict(reflect_type="odd")),
                   ("mean", dict(stat_length=2)), ("maximum", dict(stat_length=[1, 2])), ("median", dict(stat_length=3)),
                   ("linear_ramp", dict(end_values=7)), ("linear_ramp", dict(end_values=[3, -2]))):
        C.append(dict(kind="padkw", src=s, pw=[[2, 1], [0, 2]], axes=[0, 1], mode=md, kw=kw, cls="core-c3"))
    # b3 / d2: boxes whose lower corner lies in the upper half of a cell; boxes sticking out above
    s = dsrc([0, 0], [4, 3], [4, 3], nvdim=2, subs=[("top", [0, 2], [4, 3])])
    for q1, q2 in (([Q(3, 4), Q(3, 2)], [Q(9, 4), Q(11, 4)]), ([Q(1, 2), Q(7, 8)], [Q(3), Q(2)]),
                   ([Q(15, 8), Q(5, 8)], [Q(2), Q(3, 4)])):
        C.append(dict(kind="getregion", src=s, q1=[S(x) for x in q1], q2=[S(x) for x in q2], cls="core-b3", qt="float"))
    for q1, q2 in (([1, 1], [5, 3]), ([2, 0], [4, 4]), ([3, 2], [6, 5]), ([0, 0], [Q(19, 4), 3])):
        C.append(dict(kind="slices", src=s, q1=[S(x) for x in q1], q2=[S(x) for x in q2], cls="core-d2", qt="float"))
        C.append(dict(kind="getregion", src=s, q1=[S(x) for x in q1], q2=[S(x) for x in q2], cls="core-d2", qt="float"))
    # c2 / d3: ranges spelled (upper, lower); planes exactly on the upper face
    rg(s, 0, Q(11, 4), Q(3, 4), "c2"), rg(s, 1, Q(5, 2), Q(1, 2), "c2", form="list"), rg(s, 0, 4, 0, "c2", form="array")
    pt(s, 0, 4, "d3"), pt(s, 1, 3, "d3"), pt(s, 0, 0, "d3"), rg(s, 1, Q(1, 2), 3, "d3")
    # c1: midpoints used, Region object changed in place behind the mesh's back, then resampled / selected
    s = dsrc([0, 0], [4, 3], [4, 3], nvdim=2)
    for steps in ([dict(op="translate", on="region", v=[S(3), S(-2)])],
                  [dict(op="scale", on="region", f=S(2), ref=None)],
                  [dict(op="scale", on="region", f=[S(2), S(Q(1, 2))], ref=[S(0), S(0)]), dict(op="validflip", idx=[1, 1])]):
        for j, pk in enumerate(["resample", "resample", "resample", "sel", "getregion", "pad"]):
            C.append(dict(kind="stateful", src=s, steps=steps, seed=424242, pick=j, pick_kind=pk))
    # d1 / e1: target centres exactly on source boundaries; whole-number coarsening by 3 and more
    s1 = dsrc([0], [8], [8])
    s2 = dsrc([-1, 0], [5, 9], [6, 9], nvdim=2)
    for nn in ([4], [2], [1]):
        rs(s1, nn, "d1")
    for nn in ([3, 9], [2, 3], [6, 3], [1, 1], [2, 9], [3, 3], [4, 6]):
        rs(s2, nn, "d1e1", nt="list")
    C.append(dict(kind="fromfield", src=s1, q1=[S(0)], q2=[S(8)], nn=[4], cls="core-d1"))
    C.append(dict(kind="fromfield", src=s2, q1=[S(-1), S(0)], q2=[S(5), S(9)], nn=[3, 3], cls="core-d1"))
    C.append(dict(kind="fromfield", src=s2, q1=[S(1), S(3)], q2=[S(5), S(9)], nn=[2, 3], cls="core-d1"))
    # e2: dimension names that differ only in case / contain one another: the axis with EXACTLY that name
    for dims in (["x", "X", "t"], ["X", "x", "t"], ["n", "xy", "N"]):
        s = dsrc([0, 10, -2], [4, 13, 0], [4, 3, 2], dims=dims, subs=[("low", [0, 10, -2], [2, 13, 0])])
        for a in (1, 0, 2):
            lo_a, hi_a = [0, 10, -2][a], [4, 13, 0][a]
            ctr(s, a, "e2"), pt(s, a, lo_a + Q(5, 4), "e2"), rg(s, a, lo_a + Q(1, 4), hi_a - Q(1, 4), "e2")
            C.append(dict(kind="pad", src=s, pw=[[2, 1] if b == a else [0, 0] for b in range(3)], axes=[a],
                          mode="symmetric", cls="core-e2", wt="tuple"))
        rs(s, [2, 6, 1], "e2")
        C.append(dict(kind="getregion", src=s, q1=[S(1), S(11), S(-1)], q2=[S(3), S(12), S(0)], cls="core-e2", qt="float"))
        C.append(dict(kind="slices", src=s, q1=[S(1), S(11), S(-1)], q2=[S(3), S(12), S(0)], cls="core-e2", qt="float"))
        C.append(dict(kind="getname", src=s, name="low", cls="present"))
    s = dsrc([0, 5], [2, 8], [2, 3], dims=["a", "A"])
    ctr(s, 1, "e2"), pt(s, 1, Q(13, 2), "e2"), rg(s, 1, Q(11, 2), Q(15, 2), "e2")
    C.append(dict(kind="pad", src=s, pw=[[0, 0], [1, 2]], axes=[1], mode="edge", cls="core-e2", wt="list"))
    # e3: integer dtypes beyond 2**53 keep their values through every operation
    s = dsrc([0, 0], [4, 3], [4, 3], subs=[("a", [0, 0], [2, 3])], ty=dict(vdtype="bigint"), shift=2 ** 62)
    C.append(dict(kind="getname", src=s, name="a", cls="present"))
    C.append(dict(kind="getregion", src=s, q1=[S(1), S(1)], q2=[S(3), S(2)], cls="core-e3", qt="float"))
    pt(s, 0, Q(3, 2), "e3"), rg(s, 0, Q(1, 2), Q(5, 2), "e3"), rs(s, [2, 3], "e3")
    C.append(dict(kind="pad", src=s, pw=[[1, 1], [0, 0]], axes=[0], mode="edge", cls="core-e3", wt="tuple"))
    return C


def generate(rng, tier):
    nf = 20 if tier == "quick" else 90
    cases = directed_core()
    for k in range(nf):
        s = gen_src(rng, exact=True, nd=(k % 4) + 1 if k < 8 else None, nmax=6 if tier == "quick" else 8)
        cases += gen_ops(rng, s, tier)
    # integer-typed corners (region.pmin.dtype == int64), fractional cells, typed n / cell / coordinates
    for k in range(max(8, nf // 2)):
        s = gen_src(rng, exact=True, nd=(k % 3) + 1 if k < 6 else None, nmax=6 if tier == "quick" else 8, typed=True)
        cases += gen_ops(rng, s, tier)
    for k in range(nf // 2):
        cases += gen_scale(rng, tier)
    for k in range(nf):
        cases += gen_stateful(rng, tier)
    return cases


# ------------------------------------------------------------------ Gallina encoding
def subs_coq(subs):
    return g.lst([f"({g.s(name)}, ({g.ql(a)}, {g.ql(b)}))" for name, a, b in subs])


def src_coq(s):
    return (f'(mkSrc {g.ql(s["p1"])} {g.ql(s["p2"])} {g.zl(s["n"])} {g.q(s["tf"])} {g.sl(s["dims"])} '
            f'{subs_coq(s["subs"])} {g.nat(len(s["vals"][0]))} {g.qll(s["vals"])} {g.bl(s["valid"])})')


def mesh_obs(m):
    return dict(pmin=js(m.region.pmin), pmax=js(m.region.pmax), n=[int(k) for k in m.n],
                dims=list(m.region.dims),
                subs=[[k, js(r.pmin), js(r.pmax)] for k, r in m.subregions.items()])


def rows_js(a2):
    """2-d array of cell vectors -> exact strings; complex components as (re, im) pairs; integers exactly"""
    if np.iscomplexobj(a2):
        return [[S(x) for v in row for x in (v.real, v.imag)] for row in a2.tolist()]
    if a2.dtype.kind in "iu":
        return [[f"{int(v)}/1" for v in row] for row in a2.tolist()]
    return js(a2)


def field_obs(f):
    if isinstance(f, np.ndarray):
        return dict(value=rows_js(f.reshape(1, -1))[0])
    return dict(mesh=mesh_obs(f.mesh), vals=rows_js(f.array.reshape(-1, f.nvdim)),
                valid=[bool(b) for b in f.valid.reshape(-1)])


def obsmesh_coq(o):
    return f'(ObsMesh {g.ql(o["pmin"])} {g.ql(o["pmax"])} {g.zl(o["n"])} {g.sl(o["dims"])} {subs_coq(o["subs"])})'


def obsfield_coq(o):
    if "value" in o:
        return f'(ObsValue {g.ql(o["value"])})'
    return f'(ObsField {obsmesh_coq(o["mesh"])} {g.qll(o["vals"])} {g.bl(o["valid"])})'


def opt(o, f):
    return "None" if o is None else f"(Some {f(o)})"


def arg_coq(arg):
    if arg["t"] == "centre":
        return "SCentre"
    if arg["t"] == "point":
        return f'(SPoint {g.q(arg["x"])})'
    return f'(SRange {g.q(arg["x1"])} {g.q(arg["x2"])})'


# ------------------------------------------------------------------ oracle helpers (exact rationals)
def idx_choices(x, lo, c, k):
    """cells of an axis [lo, lo+k*c] that contain x (closed cells: a face belongs to both neighbours)"""
    t = (x - lo) / c
    if t < 0 or t > k:
        return []
    j = math.floor(t)
    out = [min(j, k - 1)]
    if t == j and 0 < j < k:
        out.append(j - 1)
    return sorted(set(out))


NP_DTYPES = dict(int=np.int64, uint16=np.uint16, int32=np.int32, bigint=np.int64, float32=np.float32)


def src_arrays(s):
    """the source array in the dtype the case asks for (exact: the generator only emits representable values)"""
    vd = (s.get("ty") or {}).get("vdtype", "float")
    rows = [[F(v) for v in row] for row in s["vals"]]
    if s.get("cplx"):
        arr = np.array([[complex(float(r[2 * k]), float(r[2 * k + 1])) for k in range(s["nvdim"])] for r in rows],
                       dtype=np.complex128)
    elif vd in ("int", "uint16", "int32", "bigint") and all(v.denominator == 1 for r in rows for v in r):
        arr = np.array([[int(v) for v in r] for r in rows], dtype=NP_DTYPES[vd])
    elif vd == "float32":
        arr = np.array([[float(v) for v in r] for r in rows], dtype=np.float32)
    else:
        arr = np.array([[float(v) for v in r] for r in rows], dtype=float)
    valid = np.array(s["valid"], dtype=bool).reshape(*s["n"])
    return arr.reshape(*s["n"], s["nvdim"]), valid


def aeq(a, b):
    """exact array equality across dtypes (Python compares int / float / complex numbers exactly)"""
    a, b = np.asarray(a), np.asarray(b)
    return a.shape == b.shape and a.tolist() == b.tolist()


def tau(s, a, x):
    lo, hi, _ = geom(s)
    tf = F(s["tf"])
    return min(h - l for l, h in zip(lo, hi)) * tf + tf * abs(x)


def clearly_outside(s, a, x):
    lo, hi, _ = geom(s)
    t = 2 * tau(s, a, x)
    return x < lo[a] - t or x > hi[a] + t


def check_block(rec, s, res, offs_choices, counts_of, sub_rule=None):
    """result field `res` must be the block of source cells starting at one of the admissible offsets.
    offs_choices: per axis list of (offset, count) alternatives."""
    lo, hi, cell = geom(s)
    arr, valid = src_arrays(s)
    rm = res.mesh
    rlo = [F(float(x)) for x in rm.region.pmin]
    rhi = [F(float(x)) for x in rm.region.pmax]
    rn = [int(k) for k in rm.n]
    nd = len(lo)
    chosen = []
    for a in range(nd):
        ok = None
        for off, cnt in offs_choices[a]:
            if rlo[a] == lo[a] + off * cell[a] and rhi[a] == lo[a] + (off + cnt) * cell[a] and rn[a] == cnt:
                ok = (off, cnt)
                break
        if ok is None:
            rec["oracle"].append("block-not-the-requested-cells")
            return None
        chosen.append(ok)
    sl = tuple(slice(off, off + cnt) for off, cnt in chosen)
    if res.array.shape != arr[sl].shape or not aeq(res.array, arr[sl]):
        rec["oracle"].append("value-moved")
    if res.valid.shape != valid[sl].shape or not aeq(res.valid, valid[sl]):
        rec["oracle"].append("validity-moved")
    return chosen


def pointwise(rec, src_f, res_f, rng_pts, lift=lambda q: q):
    """res(q) == src(q') and validity likewise, through the public point lookup"""
    for q in rng_pts:
        try:
            v = res_f(q)
            w = src_f(lift(q))
            vv = res_f.valid[res_f.mesh.point2index(q)]
            ww = src_f.valid[src_f.mesh.point2index(lift(q))]
        except Exception:  # noqa: BLE001
            rec["oracle"].append("point-lookup-failed")
            return
        if not aeq(v, w):
            rec["oracle"].append("pointwise-value")
        if bool(vv) != bool(ww):
            rec["oracle"].append("pointwise-validity")


def sample_points(m, per_cell=(F(1, 4), F(1, 2), F(3, 4)), limit=40):
    """dyadic interior points of the cells of mesh m (never on a face)"""
    lo = [F(float(x)) for x in m.region.pmin]
    hi = [F(float(x)) for x in m.region.pmax]
    n = [int(k) for k in m.n]
    cell = [(h - l) / k for l, h, k in zip(lo, hi, n)]
    pts = []
    idxs = list(itertools.product(*[range(k) for k in n]))
    step = max(1, len(idxs) // limit)
    for t, i in enumerate(idxs[::step]):
        u = per_cell[t % len(per_cell)]
        pts.append(tuple(float(l + (j + u) * c) for l, j, c in zip(lo, i, cell)))
    return pts


def pad_source_index(mode, k, j):
    """independent statement of numpy.pad's modes: source index of position j (relative to the
    first original cell) or None for the constant fill"""
    if 0 <= j < k:
        return j
    if mode == "constant":
        return None
    if mode == "edge":
        return 0 if j < 0 else k - 1
    if mode == "wrap":
        seq = list(range(k))
    elif mode == "symmetric":
        seq = list(range(k)) + list(range(k - 1, -1, -1))
    else:  # reflect
        seq = list(range(k)) + list(range(k - 2, 0, -1)) if k > 1 else [0]
    return seq[j % len(seq)]


# ------------------------------------------------------------------ implementation
def freeze(o):
    """hashable snapshot of a caller-supplied argument"""
    if isinstance(o, df.Region):
        return ("region", o.pmin.tobytes(), o.pmax.tobytes(), str(o.pmin.dtype), tuple(o.dims), tuple(o.units))
    if isinstance(o, np.ndarray):
        return ("nd", str(o.dtype), o.shape, o.tobytes())
    if isinstance(o, dict):
        return ("dict", tuple((k, freeze(v)) for k, v in o.items()))
    if isinstance(o, (list, tuple)):
        return (type(o).__name__, tuple(freeze(v) for v in o))
    return (type(o).__name__, repr(o))


def snap(f):
    """everything a call could disturb in its source field"""
    m = f.mesh
    return (f.array.tobytes(), str(f.array.dtype), f.array.shape, f.valid.tobytes(), str(f.valid.dtype),
            freeze(m.region), m.n.tobytes(), m.bc, id(m), id(m.region), id(f.array), id(f.valid),
            tuple((k, freeze(r), id(r)) for k, r in m.subregions.items()),
            tuple(f.vdims) if f.vdims is not None else None, tuple(f.vdim_mapping.items()), f.unit, f.nvdim)


def keep(rec, name, obj):
    rec.setdefault("_args", []).append((name, obj, freeze(obj)))


def guarded(c, f):
    """run the request twice on the same source object: source and caller arguments untouched, same answer"""
    before = snap(f)
    rec = _run_case(c, f)
    mid = snap(f)
    rec2 = _run_case(c, f)
    after = snap(f)
    if before != mid or mid != after:
        rec["oracle"].append("source-changed-by-call")
    if js(rec2["obs"]) != js(rec["obs"]):
        rec["oracle"].append("repeat-call-differs")
    for r_ in (rec, rec2):
        for name, obj, fr in r_.pop("_args", []):
            if freeze(obj) != fr:
                rec["oracle"].append("caller-argument-changed")
    # value and validity arrays of a result field are its own: writing into them leaves the source alone
    # (the bare array a plane selection of a 1-d field returns is documented to be the values themselves)
    # the result also owns its Region objects (mesh region and subregions): moving the RESULT in place
    # leaves the operand where it was
    rec.pop("_results", None)
    own = [f.mesh.region] + list(f.mesh.subregions.values())
    for res in rec2.pop("_results", []):
        rmesh = res.mesh if isinstance(res, df.Field) else res if isinstance(res, df.Mesh) else None
        if isinstance(res, df.Field):
            if np.shares_memory(res.array, f.array) or np.shares_memory(res.valid, f.valid):
                rec["oracle"].append("result-shares-arrays-with-source")
            try:
                res.array[...] = res.array + 1
                res.valid[...] = ~res.valid
            except Exception:  # noqa: BLE001
                pass
        if rmesh is not None:
            theirs = [rmesh.region] + list(rmesh.subregions.values())
            if rmesh is f.mesh or any(a is b for a in theirs for b in own):
                rec["oracle"].append("result-shares-state-with-operand")
            try:
                rmesh.translate(tuple(float(e) for e in rmesh.region.edges), inplace=True)
            except Exception:  # noqa: BLE001
                pass
    if snap(f) != after and "result-shares-state-with-operand" not in rec["oracle"]:
        rec["oracle"].append("result-shares-arrays-with-source" if f.array.tobytes() != after[0] or f.valid.tobytes() != after[3]
                             else "result-shares-state-with-operand")
    rec["oracle"] = sorted(set(rec["oracle"]))
    return rec


def observe_src(f, exact):
    """the source as the object reports it NOW (after in-place changes)"""
    m = f.mesh
    return dict(exact=exact, p1=js(m.region.pmin), p2=js(m.region.pmax), n=[int(k) for k in m.n],
                tf=S(m.region.tolerance_factor), dims=list(m.region.dims),
                subs=[[k, js(r.pmin), js(r.pmax)] for k, r in m.subregions.items()],
                nvdim=int(f.nvdim), vals=rows_js(f.array.reshape(-1, f.nvdim)),
                valid=[bool(b) for b in f.valid.reshape(-1)], cplx=False)


def use_first(f, s):
    """use the object before it is changed in place: derived quantities, lookups, the operations themselves"""
    m = f.mesh
    nd = m.region.ndim
    dims = m.region.dims
    acts = [lambda: m.cell, lambda: m.dV, lambda: m.index2point((0,) * nd), lambda: m.point2index(m.region.center),
            lambda: list(m)[:3], lambda: list(m.indices)[:3], lambda: m.cells, lambda: m.vertices, lambda: len(m),
            lambda: f.norm, lambda: f(m.region.center), lambda: f.sel(dims[0]), lambda: m.sel(dims[-1]),
            lambda: f.sel(**{dims[0]: (float(m.region.pmin[0]), float(m.region.pmax[0]))}),
            lambda: f.pad({dims[0]: (1, 2)}, mode="symmetric"), lambda: m.pad({dims[-1]: (1, 0)}),
            lambda: f.resample(tuple(int(k) + 1 for k in m.n)), lambda: f[m.region], lambda: m[m.region],
            lambda: m.region2slices(m.region)] + [(lambda k=k: f[k]) for k in m.subregions]
    for a_ in acts:
        attempt(a_)


def apply_step(f, st):
    m = f.mesh
    target = m if st.get("on", "mesh") == "mesh" else m.region
    if st["op"] == "translate":
        target.translate(fls(st["v"]), inplace=True)
    elif st["op"] == "scale":
        fac = fls(st["f"]) if isinstance(st["f"], list) else fl(st["f"])
        target.scale(fac, reference_point=fls(st["ref"]) if st.get("ref") else None, inplace=True)
    elif st["op"] == "rot":
        dims = m.region.dims
        f.rotate90(dims[st["a"]], dims[st["b"]], k=st["k"], inplace=True)
    elif st["op"] == "write":
        f.array[tuple(st["idx"])] = fls(st["val"])
    elif st["op"] == "validset":
        f.valid = np.array(st["mask"], dtype=bool).reshape(f.valid.shape)
    elif st["op"] == "validflip":
        f.valid[tuple(st["idx"])] = not f.valid[tuple(st["idx"])]
    elif st["op"] == "via_resample":
        r_ = f.resample(tuple(st["n"]))
        tgt = r_.mesh if st["on"] == "mesh" else r_.mesh.region
        if st["move"] == "translate":
            tgt.translate(fls(st["v"]), inplace=True)
        else:
            tgt.scale(fl(st["f"]), inplace=True)
    elif st["op"] == "arrayset":
        f.array = np.array([fls(r_) for r_ in st["vals"]]).reshape(f.array.shape)


def run_stateful(c):
    s = c["src"]
    f = build(s)
    use_first(f, s)
    rotated = False
    for st in c["steps"]:
        apply_step(f, st)
        rotated = rotated or st["op"] == "rot"
    s2 = observe_src(f, exact=not rotated)
    rng = random.Random(c["seed"])
    ops = gen_scale_ops(rng, "quick", s2) if rotated else gen_ops(rng, s2, "quick")
    pk = c.get("pick_kind")
    cand = [j for j, o in enumerate(ops) if o["kind"] == pk and o.get("cls") not in ("wrong-length", "nonpositive")] if pk else []
    i = cand[c["pick"] % len(cand)] if cand else c["pick"] % len(ops)
    for j in (i - 2, i - 1):       # other requests of the same shape on the same object first
        if j >= 0:
            attempt(lambda: _run_case(ops[j], f))
    rec = guarded(ops[i], f)
    rec["key"] = "stateful/" + "+".join(st["op"] + st.get("on", "")[:1] for st in c["steps"]) + "/" + rec["key"]
    rec["obs"] = dict(state=dict(pmin=s2["p1"], pmax=s2["p2"], n=s2["n"]), request={k: v for k, v in ops[i].items() if k != "src"},
                      result=rec["obs"])
    rec["kind"] = "stateful"
    rec["case"] = c
    return rec


def run_case(c):
    if c["kind"] == "stateful":
        return run_stateful(c)
    return guarded(c, build(c["src"]))


def _run_case(c, f):
    kind = c["kind"]
    s = c["src"]
    rec = dict(kind=kind, case=c, oracle=[], tags=[])
    mesh = f.mesh
    lo, hi, cell = geom(s)
    n = s["n"]
    nd = len(n)
    exact = s["exact"]
    arr, valid = src_arrays(s)
    size = nd + sum(n) + len(s["subs"])

    if kind == "sel":
        a, arg = c["a"], c["arg"]
        dim = s["dims"][a] if a < nd else "qq"
        if arg["t"] == "centre":
            call_m = lambda: mesh.sel(dim)   # noqa: E731
            call_f = lambda: f.sel(dim)      # noqa: E731
        elif arg["t"] == "point":
            x = typed_scalar(arg["x"], arg.get("xt", "float"))
            call_m = lambda: mesh.sel(**{dim: x})   # noqa: E731
            call_f = lambda: f.sel(**{dim: x})      # noqa: E731
        else:
            x1, x2 = typed_scalar(arg["x1"], arg.get("xt", "float")), typed_scalar(arg["x2"], arg.get("xt2", "float"))
            form = arg["form"]
            if form == "intarray":
                v = typed_seq([arg["x1"], arg["x2"]], "npint")     # int64 array where both ends are integral
            else:
                v = {"tuple": (x1, x2), "list": [x1, x2], "array": np.array([float(x1), float(x2)])}[form]
            keep(rec, "range", v)
            call_m = lambda: mesh.sel(**{dim: v})   # noqa: E731
            call_f = lambda: f.sel(**{dim: v})      # noqa: E731
        stm, rm = attempt(call_m)
        if stm == "ok":
            rec.setdefault("_results", []).append(rm)
        stf, rf = attempt(call_f)
        if stf == "ok":
            rec.setdefault("_results", []).append(rf)
        om = mesh_obs(rm) if stm == "ok" else None
        of = field_obs(rf) if stf == "ok" else None
        obs = dict(mesh=om if om else rm, field=of if of else rf)
        # ---- oracle
        if a < nd:
            if arg["t"] == "range":
                xs = sorted([F(arg["x1"]), F(arg["x2"])])
            elif arg["t"] == "point":
                xs = [F(arg["x"])]
            else:
                xs = [(lo[a] + hi[a]) / 2]
            inside = all(lo[a] <= x <= hi[a] for x in xs)
            outside = any(clearly_outside(s, a, x) for x in xs)
            if outside and (stm == "ok" or stf == "ok"):
                rec["oracle"].append("outside-request-accepted")
            if inside and stf != "ok":
                rec["oracle"].append("inside-request-rejected")
            if inside and stm != "ok" and not (nd == 1 and arg["t"] != "range"):
                rec["oracle"].append("inside-request-rejected")
            if inside and stf == "ok":
                ch = [idx_choices(x, lo[a], cell[a], n[a]) for x in xs]
                if arg["t"] == "range":
                    offs = [[(0, n[b])] for b in range(nd)]
                    offs[a] = [(i0, i1 - i0 + 1) for i0 in ch[0] for i1 in ch[1] if i1 >= i0]
                    if isinstance(rf, np.ndarray):
                        rec["oracle"].append("range-selection-not-a-field")
                    else:
                        chosen = check_block(rec, s, rf, offs, None)
                        if list(rf.mesh.region.dims) != list(s["dims"]):
                            rec["oracle"].append("dims-changed")
                        pointwise(rec, f, rf, sample_points(rf.mesh))
                        if chosen and stm == "ok":
                            i0, cnt = chosen[a]
                            blo, bhi = lo[a] + i0 * cell[a], lo[a] + (i0 + cnt) * cell[a]
                            got = {k: (F(float(r.pmin[a])), F(float(r.pmax[a]))) for k, r in rm.subregions.items()}
                            for name, slo, shi in s["subs"]:
                                wlo, whi = max(F(slo[a]), blo), min(F(shi[a]), bhi)
                                if whi > wlo:
                                    if name not in got:
                                        rec["oracle"].append("subregion-dropped")
                                    elif got[name] != (wlo, whi):
                                        rec["oracle"].append("subregion-not-clipped-to-selection")
                                elif name in got:
                                    rec["oracle"].append("subregion-outside-selection-kept")
                else:
                    if nd == 1:
                        if isinstance(rf, np.ndarray):
                            if not any(aeq(rf, arr[k]) for k in ch[0]):
                                rec["oracle"].append("value-moved")
                    elif isinstance(rf, np.ndarray):
                        rec["oracle"].append("plane-selection-not-a-field")
                    else:
                        rest = [b for b in range(nd) if b != a]
                        good = False
                        for k in ch[0]:
                            sl = tuple(k if b == a else slice(None) for b in range(nd))
                            if (rf.array.shape == arr[sl].shape and aeq(rf.array, arr[sl])
                                    and aeq(rf.valid, valid[sl])):
                                good = True
                        if not good:
                            rec["oracle"].append("plane-not-the-cell-containing-the-coordinate")
                        rmm = rf.mesh
                        if ([int(k) for k in rmm.n] != [n[b] for b in rest]
                                or [F(float(x)) for x in rmm.region.pmin] != [lo[b] for b in rest]
                                or [F(float(x)) for x in rmm.region.pmax] != [hi[b] for b in rest]
                                or list(rmm.region.dims) != [s["dims"][b] for b in rest]):
                            rec["oracle"].append("plane-mesh-not-source-without-axis")
                        xq = float(xs[0])
                        if not (xs[0] - lo[a]) / cell[a] == math.floor((xs[0] - lo[a]) / cell[a]):
                            pointwise(rec, f, rf, sample_points(rmm),
                                      lift=lambda q: tuple(list(q[:a]) + [xq] + list(q[a:])))
                        if stm == "ok":
                            k = ch[0][0] if good else None
                            got = set(rm.subregions)
                            for name, slo, shi in s["subs"]:
                                has = any(F(slo[a]) <= lo[a] + (kk + F(1, 2)) * cell[a] <= F(shi[a]) for kk in ch[0])
                                hasall = all(F(slo[a]) <= lo[a] + (kk + F(1, 2)) * cell[a] <= F(shi[a]) for kk in ch[0])
                                if hasall and name not in got:
                                    rec["oracle"].append("subregion-dropped")
                                if not has and name in got:
                                    rec["oracle"].append("subregion-outside-selection-kept")
            if stm == "ok" and stf == "ok" and not isinstance(rf, np.ndarray):
                if not (aeq(rm.region.pmin, rf.mesh.region.pmin)
                        and aeq(rm.region.pmax, rf.mesh.region.pmax)
                        and aeq(rm.n, rf.mesh.n)):
                    rec["oracle"].append("mesh-and-field-selection-differ")
        else:
            if stm == "ok" or stf == "ok":
                rec["oracle"].append("unknown-axis-accepted")
        rec["oracle"] = sorted(set(rec["oracle"]))
        # (float32 coordinates on integer-cornered meshes were truncated until the fix: commit in /repo; ordinary cases now)
        rec.update(obs=obs, coq=f'CSel {src_coq(s)} {g.nat(a)} {arg_coq(arg)} {opt(om, obsmesh_coq)} {opt(of, obsfield_coq)}',
                   key=f'sel/{nd}/{arg["t"]}/{c["cls"]}/{stm}{stf}/{a}', size=size)
        return rec

    if kind in ("getregion", "slices"):
        q1, q2 = [F(x) for x in c["q1"]], [F(x) for x in c["q2"]]
        blo = [min(x, y) for x, y in zip(q1, q2)]
        bhi = [max(x, y) for x, y in zip(q1, q2)]
        item = df.Region(p1=typed_seq(c["q1"], c.get("qt", "float")), p2=typed_seq(c["q2"], c.get("qt", "float")))
        keep(rec, "item", item)
        inside = all(l <= x and y <= h for l, h, x, y in zip(lo, hi, blo, bhi))
        outside = any(clearly_outside(s, a, blo[a]) or clearly_outside(s, a, bhi[a]) for a in range(nd))
        i_lo = [math.floor((x - l) / cc) for x, l, cc in zip(blo, lo, cell)]
        i_hi = [math.ceil((y - l) / cc) - 1 for y, l, cc in zip(bhi, lo, cell)]
        if kind == "slices":
            st, sl = attempt(lambda: mesh.region2slices(item))
            o = [[int(x.start), int(x.stop)] for x in sl] if st == "ok" else None
            aligned = all((x - l) / cc == math.floor((x - l) / cc) and (y - l) / cc == math.floor((y - l) / cc)
                          for x, y, l, cc in zip(blo, bhi, lo, cell))
            if inside and aligned:
                if st != "ok":
                    rec["oracle"].append("inside-request-rejected")
                elif o != [[a_, b_ + 1] for a_, b_ in zip(i_lo, i_hi)]:
                    rec["oracle"].append("slices-not-the-cells-of-the-region")
                else:
                    sub = f.array[tuple(sl)]
                    if sub.shape[:-1] != tuple(b_ - a_ + 1 for a_, b_ in zip(i_lo, i_hi)):
                        rec["oracle"].append("slices-not-the-cells-of-the-region")
            # region2slices documents "cells contained in the region" and has no containment test of its
            # own; only a box that misses the mesh region altogether is unambiguously "outside"
            disjoint = any(y < l - 2 * tau(s, a_, y) or x > h + 2 * tau(s, a_, x)
                           for a_, (x, y, l, h) in enumerate(zip(blo, bhi, lo, hi)))
            # ... and a box whose outermost cell would have its centre outside the mesh cannot be a set of
            # mesh cells either (sticking out by clearly more than half a cell, above or below)
            sticks = any(y - cc / 2 > h + 2 * tau(s, a_, y) + cc / 64 or x + cc / 2 < l - 2 * tau(s, a_, x) - cc / 64
                         for a_, (x, y, l, h, cc) in enumerate(zip(blo, bhi, lo, hi, cell)))
            if (disjoint or sticks) and st == "ok":
                rec["oracle"].append("outside-request-accepted")
            coq_o = "None" if o is None else "(Some " + g.lst([f"({g.z(x)}, {g.z(y)})" for x, y in o]) + ")"
            rec.update(obs=dict(slices=o if o is not None else sl),
                       coq=f'CSlices {src_coq(s)} {g.ql(c["q1"])} {g.ql(c["q2"])} {coq_o}',
                       key=f'slices/{nd}/{c["cls"]}/{st}/{hash(tuple(c["q1"])) % 3}', size=size)
            return rec
        stm, rm = attempt(lambda: mesh[item])
        if stm == "ok":
            rec.setdefault("_results", []).append(rm)
        stf, rf = attempt(lambda: f[item])
        if stf == "ok":
            rec.setdefault("_results", []).append(rf)
        om = mesh_obs(rm) if stm == "ok" else None
        of = field_obs(rf) if stf == "ok" else None
        if outside and (stm == "ok" or stf == "ok"):
            rec["oracle"].append("outside-request-accepted")
        if inside:
            if stm != "ok" or stf != "ok":
                rec["oracle"].append("inside-request-rejected")
            else:
                offs = [[(a_, b_ - a_ + 1)] for a_, b_ in zip(i_lo, i_hi)]
                check_block(rec, s, rf, offs, None)
                pointwise(rec, f, rf, sample_points(rf.mesh))
                if not (aeq(rm.region.pmin, rf.mesh.region.pmin) and aeq(rm.n, rf.mesh.n)
                        and aeq(rm.region.pmax, rf.mesh.region.pmax)):
                    rec["oracle"].append("mesh-and-field-selection-differ")
                if list(rf.mesh.region.dims) != list(s["dims"]):
                    rec["oracle"].append("dims-changed")
        rec["oracle"] = sorted(set(rec["oracle"]))
        rec.update(obs=dict(mesh=om if om else rm, field=of if of else rf),
                   coq=f'CGetRegion {src_coq(s)} {g.ql(c["q1"])} {g.ql(c["q2"])} {opt(om, obsmesh_coq)} {opt(of, obsfield_coq)}',
                   key=f'getregion/{nd}/{c["cls"]}/{stm}{stf}/{hash(tuple(c["q1"])) % 5}', size=size)
        return rec

    if kind == "getname":
        name = c["name"]
        stm, rm = attempt(lambda: mesh[name])
        if stm == "ok":
            rec.setdefault("_results", []).append(rm)
        stf, rf = attempt(lambda: f[name])
        if stf == "ok":
            rec.setdefault("_results", []).append(rf)
        om = mesh_obs(rm) if stm == "ok" else None
        of = field_obs(rf) if stf == "ok" else None
        present = [x for x in s["subs"] if x[0] == name]
        if present:
            if stm != "ok" or stf != "ok":
                rec["oracle"].append("inside-request-rejected")
            else:
                slo, shi = [F(x) for x in present[0][1]], [F(x) for x in present[0][2]]
                offs = [[(int((x - l) / cc), int((y - x) / cc))] for x, y, l, cc in zip(slo, shi, lo, cell)]
                check_block(rec, s, rf, offs, None)
                pointwise(rec, f, rf, sample_points(rf.mesh))
        elif stm == "ok" or stf == "ok":
            rec["oracle"].append("unknown-subregion-accepted")
        rec.update(obs=dict(mesh=om if om else rm, field=of if of else rf),
                   coq=f'CGetName {src_coq(s)} {g.s(name)} {opt(om, obsmesh_coq)} {opt(of, obsfield_coq)}',
                   key=f'getname/{nd}/{c["cls"]}/{stm}{stf}/{len(s["subs"])}', size=size)
        return rec

    if kind == "pad":
        pw, md = c["pw"], c["mode"]
        wt = c.get("wt", "tuple")
        conv = {"tuple": tuple, "list": list, "npint": lambda w: (np.int64(w[0]), np.int64(w[1])),
                "nparray": lambda w: np.array(w)}[wt]
        d = {s["dims"][a]: conv(pw[a]) for a in c["axes"]}
        if c["cls"] == "unknown-dim":
            d["qq"] = (1, 1)
        keep(rec, "pad_width", d)
        stm, rm = attempt(lambda: mesh.pad(d))
        if stm == "ok":
            rec.setdefault("_results", []).append(rm)
        stf, rf = attempt(lambda: f.pad(d, mode=md))
        if stf == "ok":
            rec.setdefault("_results", []).append(rf)
        neg = any(w < 0 for pr in pw for w in pr)
        if c["cls"] == "unknown-dim":
            if stm == "ok" or stf == "ok":
                rec["oracle"].append("unknown-axis-accepted")
            rec.update(obs=dict(mesh=str(rm), field=str(rf)), coq=None,
                       key=f'pad/{nd}/unknown-dim/{stm}{stf}', size=size)
            return rec
        om = mesh_obs(rm) if stm == "ok" else None
        of = field_obs(rf) if stf == "ok" else None
        if not neg:
            if stm != "ok" or stf != "ok":
                rec["oracle"].append("inside-request-rejected")
            else:
                for which, mm in (("mesh", rm), ("field", rf.mesh)):
                    if ([int(k) for k in mm.n] != [k + w[0] + w[1] for k, w in zip(n, pw)]
                            or [F(float(x)) for x in mm.region.pmin] != [l - w[0] * cc for l, w, cc in zip(lo, pw, cell)]
                            or [F(float(x)) for x in mm.region.pmax] != [h + w[1] * cc for h, w, cc in zip(hi, pw, cell)]):
                        rec["oracle"].append("pad-count-" + which)
                if not rec["oracle"]:
                    inner = tuple(slice(w[0], w[0] + k) for k, w in zip(n, pw))
                    if not aeq(rf.array[inner], arr) or not aeq(rf.valid[inner], valid):
                        rec["oracle"].append("value-moved")
                    bad = False
                    for i in itertools.product(*[range(k) for k in rf.mesh.n]):
                        srcs = [pad_source_index(md, n[a], i[a] - pw[a][0]) for a in range(nd)]
                        if any(x is None for x in srcs):
                            wv, wb = np.zeros(s["nvdim"]), False
                        else:
                            wv, wb = arr[tuple(srcs)], valid[tuple(srcs)]
                        if not aeq(rf.array[i], wv) or bool(rf.valid[i]) != bool(wb):
                            bad = True
                    if bad:
                        rec["oracle"].append("padding-cells-do-not-follow-mode")
                    # interior points keep their values (source centres)
                    pointwise(rec, rf, f, sample_points(mesh))
        rec["oracle"] = sorted(set(rec["oracle"]))
        pw_coq = g.lst([f"({g.z(w[0])}, {g.z(w[1])})" for w in pw])
        rec.update(obs=dict(mesh=om if om else rm, field=of if of else rf),
                   coq=f'CPad {src_coq(s)} {pw_coq} {MODE_COQ[md]} {opt(om, obsmesh_coq)} {opt(of, obsfield_coq)}',
                   key=f'pad/{nd}/{md}/{c["cls"]}/{stm}{stf}/{max(max(w) for w in pw)}', size=size)
        return rec

    if kind == "fromfield":
        q1, q2, nn = [F(x) for x in c["q1"]], [F(x) for x in c["q2"]], c["nn"]

        def make():
            m2 = df.Mesh(region=df.Region(p1=fls(c["q1"]), p2=fls(c["q2"]), dims=s["dims"]), n=nn)
            return df.Field(m2, nvdim=f.nvdim, value=f, dtype=f.array.dtype,
                            valid=df.Field(f.mesh, nvdim=1, value=f.valid, dtype=bool))
        stf, rf = attempt(make)
        if stf == "ok":
            rec.setdefault("_results", []).append(rf)
            c2 = [(y - x) / k for x, y, k in zip(q1, q2, nn)]
            bad = False
            for j in itertools.product(*[range(k) for k in nn]):
                i = tuple(min(math.floor((q1[a] + (j[a] + F(1, 2)) * c2[a] - lo[a]) / cell[a]), n[a] - 1)
                          for a in range(nd))
                if not (aeq(rf.array[j], arr[i]) and bool(rf.valid[j]) == bool(valid[i])):
                    bad = True
            if bad:
                rec["oracle"].append("field-from-field-not-the-containing-cell")
            pointwise(rec, f, rf, sample_points(rf.mesh, per_cell=(F(1, 2),), limit=200))
        else:
            rec["oracle"].append("inside-request-rejected")
        rec["oracle"] = sorted(set(rec["oracle"]))
        rec.update(obs=dict(field=field_obs(rf) if stf == "ok" else rf), coq=None,
                   key=f'fromfield/{nd}/{stf}/{hash(tuple(nn)) % 7}', size=size)
        return rec

    if kind == "padkw":
        pw, md = c["pw"], c["mode"]
        kw = {k: (tuple(v) if isinstance(v, list) else (fl(v) if isinstance(v, str) and "/" in v else v))
              for k, v in c["kw"].items()}
        d = {s["dims"][a]: tuple(pw[a]) for a in c["axes"]}
        keep(rec, "pad_width", d)
        keep(rec, "kwargs", kw)
        stf, rf = attempt(lambda: f.pad(d, mode=md, **kw))
        if stf == "ok":
            rec.setdefault("_results", []).append(rf)
        seq = [tuple(pw[a]) if a in c["axes"] else (0, 0) for a in range(nd)]
        ste, want_arr = attempt(lambda: np.pad(f.array, seq + [(0, 0)], mode=md, **kw))
        stv, want_valid = attempt(lambda: np.pad(f.valid, seq, mode=md, **kw).astype(bool))
        if ste == "ok" and stv == "ok":
            if stf != "ok":
                rec["oracle"].append("inside-request-rejected")
            else:
                mm = rf.mesh
                if ([int(k) for k in mm.n] != [k + w[0] + w[1] for k, w in zip(n, pw)]
                        or [F(float(x)) for x in mm.region.pmin] != [l - w[0] * cc for l, w, cc in zip(lo, pw, cell)]
                        or [F(float(x)) for x in mm.region.pmax] != [h + w[1] * cc for h, w, cc in zip(hi, pw, cell)]):
                    rec["oracle"].append("pad-count-field")
                else:
                    inner = tuple(slice(w[0], w[0] + k) for k, w in zip(n, pw))
                    if not aeq(rf.array[inner], f.array) or not aeq(rf.valid[inner], f.valid):
                        rec["oracle"].append("value-moved")
                    if not aeq(rf.array, want_arr.astype(rf.array.dtype)) or not aeq(rf.valid, want_valid):
                        rec["oracle"].append("padding-cells-do-not-follow-mode-arguments")
        obs = dict(field=field_obs(rf) if stf == "ok" else rf)
        rec["oracle"] = sorted(set(rec["oracle"]))
        rec.update(obs=obs, coq=None,
                   key=f'padkw/{nd}/{md}/{"+".join(sorted(c["kw"])) or "bare"}/{stf}/{max(max(w) for w in pw)}', size=size)
        return rec

    if kind == "resample":
        nn = c["nn"]
        nt = c.get("nt", "tuple")
        nn_arg = {"tuple": tuple(nn), "list": list(nn), "nparray": np.array(nn),
                  "npscalars": tuple(np.int64(k) for k in nn)}[nt]
        keep(rec, "resolution", nn_arg)
        stf, rf = attempt(lambda: f.resample(nn_arg))
        if stf == "ok":
            rec.setdefault("_results", []).append(rf)
        of = field_obs(rf) if stf == "ok" else None
        wellformed = len(nn) == nd and all(k > 0 for k in nn)
        if wellformed and stf != "ok":
            rec["oracle"].append("inside-request-rejected")
        if not wellformed and stf == "ok":
            rec["oracle"].append("malformed-resolution-accepted")
        if wellformed and stf == "ok":
            mm = rf.mesh
            if ([int(k) for k in mm.n] != list(nn) or [F(float(x)) for x in mm.region.pmin] != lo
                    or [F(float(x)) for x in mm.region.pmax] != hi):
                rec["oracle"].append("resample-changes-region")
            else:
                c2 = [(h - l) / k for l, h, k in zip(lo, hi, nn)]
                bad = False
                for j in itertools.product(*[range(k) for k in nn]):
                    # the source cell that CONTAINS the new centre (half-open cells, lower face inclusive: a centre
                    # exactly on a source cell boundary belongs to the cell above it, as point2index says)
                    i = tuple(min(math.floor((lo[a] + (j[a] + F(1, 2)) * c2[a] - lo[a]) / cell[a]), n[a] - 1)
                              for a in range(nd))
                    if not (aeq(rf.array[j], arr[i]) and bool(rf.valid[j]) == bool(valid[i])):
                        bad = True
                if bad:
                    rec["oracle"].append("resample-not-nearest-cell")
                # the value at every new centre is the source's value at that point
                pointwise(rec, f, rf, sample_points(mm, per_cell=(F(1, 2),), limit=400))
        rec["oracle"] = sorted(set(rec["oracle"]))
        rec.update(obs=dict(field=of if of else rf),
                   coq=f'CResample {src_coq(s)} {g.zl(nn)} {opt(of, obsfield_coq)}',
                   key=f'resample/{nd}/{c["cls"]}/{stf}/{hash(tuple(nn)) % 5}', size=size)
        return rec

    if kind == "blockscale":
        bk, a = c["bk"], c["a"]
        if bk == 0:
            x1, x2 = fl(c["q1"][0]), fl(c["q2"][0])
            stf, rf = attempt(lambda: f.sel(**{s["dims"][a]: (x1, x2)}))
            if stf == "ok":
                rec.setdefault("_results", []).append(rf)
            xlo = [None] * nd
            xhi = [None] * nd
            xlo[a], xhi[a] = min(x1, x2), max(x1, x2)
        else:
            item = df.Region(p1=fls(c["q1"]), p2=fls(c["q2"]))
            stf, rf = attempt(lambda: f[item])
            if stf == "ok":
                rec.setdefault("_results", []).append(rf)
            xlo = [min(fl(x), fl(y)) for x, y in zip(c["q1"], c["q2"])]
            xhi = [max(fl(x), fl(y)) for x, y in zip(c["q1"], c["q2"])]
        of = field_obs(rf) if stf == "ok" else None
        flo, fhi = [float(x) for x in lo], [float(x) for x in hi]
        fc = [float(x) for x in cell]
        scl = [max(abs(l), abs(h), h - l) for l, h in zip(flo, fhi)]
        tol = [1e-9 * sc for sc in scl]
        inside = all((xl is None or fl_ + 10 * t <= xl) and (xh is None or xh <= fh_ - 10 * t)
                     for xl, xh, fl_, fh_, t in zip(xlo, xhi, flo, fhi, tol))
        outside = any((xl is not None and (xl < fl_ - 1e-6 * sc or xl > fh_ + 1e-6 * sc))
                      or (xh is not None and (xh < fl_ - 1e-6 * sc or xh > fh_ + 1e-6 * sc))
                      for xl, xh, fl_, fh_, sc in zip(xlo, xhi, flo, fhi, scl))
        if inside and stf != "ok":
            rec["oracle"].append("inside-request-rejected")
        if outside and stf == "ok":
            rec["oracle"].append("outside-request-accepted")
        if stf == "ok" and not outside:
            rlo, rhi, rn = [float(x) for x in rf.mesh.region.pmin], [float(x) for x in rf.mesh.region.pmax], [int(k) for k in rf.mesh.n]
            offs = []
            for b in range(nd):
                off = round((rlo[b] - flo[b]) / fc[b])
                offs.append(off)
                if (abs(rlo[b] - (flo[b] + off * fc[b])) > tol[b] or abs(rhi[b] - (flo[b] + (off + rn[b]) * fc[b])) > tol[b]
                        or off < 0 or off + rn[b] > n[b] or rn[b] < 1):
                    rec["oracle"].append("block-not-cell-aligned")
                    break
                eps = 10 * tol[b] / fc[b]
                if xlo[b] is None:
                    if off != 0 or rn[b] != n[b]:
                        rec["oracle"].append("block-not-the-requested-cells")
                else:
                    t0, t1 = (xlo[b] - flo[b]) / fc[b], (xhi[b] - flo[b]) / fc[b]
                    last = off + rn[b] - 1
                    if not ((off - eps <= t0 or off == 0) and t0 <= off + 1 + eps):
                        rec["oracle"].append("block-not-the-requested-cells")
                    if not (last - eps <= t1 and (t1 <= last + 1 + eps or last == n[b] - 1)):
                        rec["oracle"].append("block-not-the-requested-cells")
            if not rec["oracle"]:
                sl = tuple(slice(o, o + k) for o, k in zip(offs, rn))
                if rf.array.shape != arr[sl].shape or not aeq(rf.array, arr[sl]):
                    rec["oracle"].append("value-moved")
                if rf.valid.shape != valid[sl].shape or not aeq(rf.valid, valid[sl]):
                    rec["oracle"].append("validity-moved")
        rec["oracle"] = sorted(set(rec["oracle"]))
        rec.update(obs=dict(field=of if of else rf),
                   coq=f'CBlockScale {src_coq(s)} {g.nat(bk)} {g.nat(a)} {g.ql(c["q1"])} {g.ql(c["q2"])} {opt(of, obsfield_coq)}',
                   key=f'blockscale/{nd}/{c["cls"]}/{stf}/{hash(tuple(c["q1"])) % 5}', size=size)
        return rec
    raise ValueError(kind)


def stats(records):
    out = {}
    for r in records:
        o = r["obs"]
        rej = isinstance(o.get("field", o.get("slices")), str)
        k = r["kind"] + ("/rejected" if rej else "/ok")
        out[k] = out.get(k, 0) + 1
    return out
